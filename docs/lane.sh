#!/bin/bash
# usage: lane.sh <WT> <CLONE> item...   item = id:props[:noverify]
export SEED_WT=$1 SEED_CLONE=$2; shift 2
cd /verif
for it in "$@"; do
  id=${it%%:*}; rest=${it#*:}; props=${rest%%:*}
  if [[ "$it" != *:noverify ]]; then echo "== verify $id"; python3 lib/seeded.py verify seeded/$id | tail -25; fi
  echo "== run $id $props"; python3 lib/seeded.py run seeded/$id $props
done
