#!/bin/bash
# usage: imp.sh <src name under /tmp/mut> <seeded id>
src=/tmp/mut/$1; dst=/verif/seeded/$2
[ -f $src/seeded_out/patch.diff ] || { echo "no patch in $src"; exit 1; }
mkdir -p $dst
cp $src/seeded_out/patch.diff $src/seeded_out/demo.rs $src/seeded_out/meta.json $dst/
python3 - $dst <<'PY'
import json,sys
p=sys.argv[1]+'/meta.json'; m=json.load(open(p)); m.setdefault('demo_args',[]); json.dump(m,open(p,'w'),indent=1)
PY
git -C /repo worktree remove --force $src && echo "imported $2, removed $src"
