(* Correspondence driver: reads case files written by the Rust harness, runs the extracted Coq model
   (Model.dispatch) on each input and compares with what the implementation produced.
   Line format:   <op> <input-val> <impl-val>       (see coq/Interop/Val.v for the value syntax)
   usage: driver [--release] [--max-report N] file...      exit 0 always; verdict is in the output.
          driver --eval            reads "<op> <input-val>" lines on stdin, prints the model result *)

let coq_string (s : string) : Model.string =
  let r = ref Model.EmptyString in
  for i = String.length s - 1 downto 0 do
    let c = Char.code s.[i] in
    let b k = (c lsr k) land 1 = 1 in
    r := Model.String (Model.Ascii (b 0, b 1, b 2, b 3, b 4, b 5, b 6, b 7), !r)
  done;
  !r

(* hex -> N *)
let n_of_hex (s : string) : Model.n =
  let acc = ref None in
  String.iter
    (fun ch ->
      let d =
        match ch with
        | '0' .. '9' -> Char.code ch - 48
        | 'a' .. 'f' -> Char.code ch - 87
        | 'A' .. 'F' -> Char.code ch - 55
        | _ -> failwith ("bad hex digit in " ^ s)
      in
      for k = 3 downto 0 do
        let bit = (d lsr k) land 1 = 1 in
        acc :=
          (match !acc with
          | None -> if bit then Some Model.XH else None
          | Some p -> Some (if bit then Model.XI p else Model.XO p))
      done)
    s;
  match !acc with None -> Model.N0 | Some p -> Model.Npos p

let hex_of_n (n : Model.n) : string =
  match n with
  | Model.N0 -> "0"
  | Model.Npos p ->
      (* collect bits lsb first *)
      let bits = ref [] in
      let rec go p =
        match p with
        | Model.XH -> bits := 1 :: !bits
        | Model.XO q -> bits := 0 :: !bits; go q
        | Model.XI q -> bits := 1 :: !bits; go q
      in
      go p;
      (* !bits is msb first *)
      let l = Array.of_list !bits in
      let nb = Array.length l in
      let pad = (4 - (nb mod 4)) mod 4 in
      let buf = Buffer.create 16 in
      let get i = if i < pad then 0 else l.(i - pad) in
      let total = nb + pad in
      let i = ref 0 in
      while !i < total do
        let d = (get !i lsl 3) lor (get (!i + 1) lsl 2) lor (get (!i + 2) lsl 1) lor get (!i + 3) in
        Buffer.add_char buf "0123456789abcdef".[d];
        i := !i + 4
      done;
      Buffer.contents buf

let n_of_int i = n_of_hex (Printf.sprintf "%x" i)

let base_of_char = function
  | 'A' -> 0 | 'C' -> 1 | 'G' -> 2 | 'T' -> 3
  | c -> failwith (Printf.sprintf "bad base %c" c)

(* tokens -> value *)
let rec parse_val (toks : string list) : Model.val0 * string list =
  match toks with
  | [] -> failwith "unexpected end"
  | "(" :: rest ->
      let rec items acc rest =
        match rest with
        | ")" :: r -> (Model.VL (List.rev acc), r)
        | _ ->
            let v, r = parse_val rest in
            items (v :: acc) r
      in
      items [] rest
  | "!" :: rest -> (Model.VBot, rest)
  | "?" :: rest -> (Model.VAny, rest)
  | t :: rest when String.length t >= 2 && t.[0] = '"' ->
      let body = String.sub t 1 (String.length t - 2) in
      let l = List.init (String.length body) (fun i -> Model.VN (n_of_int (base_of_char body.[i]))) in
      (Model.VL l, rest)
  | t :: rest -> (Model.VN (n_of_hex t), rest)

let rec print_val buf (v : Model.val0) =
  match v with
  | Model.VN n -> Buffer.add_string buf (hex_of_n n)
  | Model.VBot -> Buffer.add_char buf '!'
  | Model.VAny -> Buffer.add_char buf '?'
  | Model.VL l ->
      Buffer.add_string buf "(";
      List.iter (fun x -> Buffer.add_char buf ' '; print_val buf x) l;
      Buffer.add_string buf " )"

let show v =
  let b = Buffer.create 64 in
  print_val b v;
  Buffer.contents b

let rec relax (v : Model.val0) : Model.val0 =
  match v with Model.VBot -> Model.VAny | Model.VL l -> Model.VL (List.map relax l) | x -> x

let split_ws s = List.filter (fun t -> t <> "") (String.split_on_char ' ' s)

let opcache : (string, Model.string) Hashtbl.t = Hashtbl.create 64
let coq_op s =
  match Hashtbl.find_opt opcache s with
  | Some c -> c
  | None -> let c = coq_string s in Hashtbl.add opcache s c; c

let () =
  let args = List.tl (Array.to_list Sys.argv) in
  if List.mem "--eval" args then begin
    (try
       while true do
         let line = input_line stdin in
         match split_ws line with
         | [] -> ()
         | op :: rest ->
             let v, _ = parse_val rest in
             (match Model.dispatch (coq_op op) v with
             | None -> print_endline "ERR"
             | Some m -> print_endline (show m))
       done
     with End_of_file -> ());
    exit 0
  end;
  let release = List.mem "--release" args in
  let max_report = ref 20 in
  let rec files = function
    | "--release" :: r -> files r
    | "--max-report" :: n :: r -> max_report := int_of_string n; files r
    | f :: r -> f :: files r
    | [] -> []
  in
  let files = files args in
  let counts : (string, int * int * int) Hashtbl.t = Hashtbl.create 64 in
  let bump op (a, b, c) =
    let x, y, z = try Hashtbl.find counts op with Not_found -> (0, 0, 0) in
    Hashtbl.replace counts op (x + a, y + b, z + c)
  in
  let reported = ref 0 in
  List.iter
    (fun f ->
      let ic = open_in f in
      let ln = ref 0 in
      (try
         while true do
           let line = input_line ic in
           incr ln;
           if String.length line > 0 && line.[0] <> '#' then begin
             match split_ws line with
             | [] -> ()
             | op :: rest -> (
                 try
                   let inp, rest = parse_val rest in
                   let exp, _ = parse_val rest in
                   match Model.dispatch (coq_op op) inp with
                   | None ->
                       bump op (0, 0, 1);
                       if !reported < !max_report then begin
                         incr reported;
                         Printf.printf "ERR %s:%d %s no-such-op-or-bad-input input=%s\n" f !ln op (show inp)
                       end
                   | Some m ->
                       let m = if release then relax m else m in
                       if Model.val_accepts m exp then bump op (1, 0, 0)
                       else begin
                         bump op (0, 1, 0);
                         if !reported < !max_report then begin
                           incr reported;
                           Printf.printf "MISMATCH %s:%d %s model=%s impl=%s input=%s\n" f !ln op (show m)
                             (show exp) (show inp)
                         end
                       end
                 with Failure msg ->
                   bump op (0, 0, 1);
                   if !reported < !max_report then begin
                     incr reported;
                     Printf.printf "ERR %s:%d %s parse: %s\n" f !ln op msg
                   end)
           end
         done
       with End_of_file -> ());
      close_in ic)
    files;
  Hashtbl.iter (fun op (a, b, c) -> Printf.printf "COUNT %s ok=%d mismatch=%d err=%d\n" op a b c) counts
