//! Structured generators shared by several properties: read sets from a motif grammar, graphs.
use crate::val::*;
use debruijn::compression::*;
use debruijn::dna_string::DnaString;
use debruijn::filter::*;
use debruijn::graph::{BaseGraph, DebruijnGraph};
use debruijn::{Exts, Kmer};

pub fn rc_bytes(x: &[u8]) -> Vec<u8> {
    x.iter().rev().map(|b| 3 - b).collect()
}

/// one read of roughly `target` bases assembled from motifs dense in the delicate structures
pub fn motif_read(rng: &mut Rng, k: usize, target: usize, earlier: &[Vec<u8>]) -> Vec<u8> {
    let mut r: Vec<u8> = Vec::new();
    let alpha = match rng.below(6) {
        0 => 1,
        1 => 2,
        2 => 3,
        _ => 4,
    };
    let base = |rng: &mut Rng| (rng.below(alpha) as u8 + if alpha < 4 { 0 } else { 0 }) & 3;
    while r.len() < target {
        match rng.below(10) {
            0 | 1 | 2 => {
                // random chunk
                for _ in 0..rng.range(1, k + 3) {
                    r.push(base(rng));
                }
            }
            3 => {
                // reuse of an earlier chunk (same or opposite strand)
                if !earlier.is_empty() {
                    let e = rng.pick(earlier).clone();
                    if !e.is_empty() {
                        let a = rng.below(e.len());
                        let b = rng.range(a, e.len());
                        let mut c = e[a..b].to_vec();
                        if rng.chance(1, 2) {
                            c = rc_bytes(&c);
                        }
                        r.extend(c);
                    }
                } else if !r.is_empty() {
                    let a = rng.below(r.len());
                    let c = r[a..].to_vec();
                    r.extend(c);
                }
            }
            4 => {
                // hairpin w rc(w)
                let w: Vec<u8> = (0..rng.range(1, k + 1)).map(|_| base(rng)).collect();
                r.extend(w.iter());
                r.extend(rc_bytes(&w));
            }
            5 => {
                // even palindrome centred motif of exactly k (when k even) or k+1
                let h = (k + 1) / 2;
                let w: Vec<u8> = (0..h).map(|_| base(rng)).collect();
                r.extend(w.iter());
                r.extend(rc_bytes(&w));
            }
            6 => {
                // tandem repeat
                let u: Vec<u8> = (0..rng.range(1, 4)).map(|_| base(rng)).collect();
                for _ in 0..rng.range(2, k + 2) {
                    r.extend(u.iter());
                }
            }
            7 => {
                // homopolymer
                let b = base(rng);
                for _ in 0..rng.range(2, k + 4) {
                    r.push(b);
                }
            }
            8 => {
                // tight cycle (u)^m with |u| around k
                let u: Vec<u8> = (0..rng.range(k.saturating_sub(1).max(1), k + 2)).map(|_| base(rng)).collect();
                for _ in 0..rng.range(2, 4) {
                    r.extend(u.iter());
                }
            }
            _ => {
                r.push(rng.base());
            }
        }
    }
    r
}

pub fn read_set(rng: &mut Rng, k: usize) -> Vec<Vec<u8>> {
    let n = rng.range(1, 5);
    let mut reads: Vec<Vec<u8>> = Vec::new();
    for _ in 0..n {
        let target = match rng.below(5) {
            0 => rng.below(k + 1), // possibly shorter than K
            1 => k,
            _ => rng.range(k, 4 * k + 8),
        };
        let r = motif_read(rng, k, target, &reads);
        reads.push(r);
    }
    reads
}

pub fn is_delicate(reads: &[Vec<u8>], k: usize) -> bool {
    // contains a palindromic k-mer, a k-mer occurring on both strands, or a repeated k-mer
    let mut seen = std::collections::HashSet::new();
    for r in reads {
        if r.len() < k {
            continue;
        }
        for i in 0..=(r.len() - k) {
            let w = r[i..i + k].to_vec();
            let rc = rc_bytes(&w);
            if w == rc {
                return true;
            }
            if seen.contains(&rc) || seen.contains(&w) {
                return true;
            }
            seen.insert(w);
        }
    }
    false
}

pub type Seqs = Vec<(DnaString, Exts, u8)>;
pub fn to_seqs(reads: &[Vec<u8>]) -> Seqs {
    reads
        .iter()
        .enumerate()
        .map(|(i, r)| (DnaString::from_bytes(r), Exts::empty(), (i % 250) as u8))
        .collect()
}

/// reads -> filtered table -> compressed, finished graph (payload = count, reduce = saturating add)
pub fn build_graph<K: Kmer + Send + Sync>(reads: &[Vec<u8>], stranded: bool, min_obs: usize) -> DebruijnGraph<K, u16> {
    let seqs = to_seqs(reads);
    let (hash, _) = filter_kmers::<K, _, _, _, _>(&seqs, &Box::new(CountFilter::new(min_obs)), stranded, false, 1);
    let spec = SimpleCompress::new(|a: u16, b: &u16| a.saturating_add(*b));
    let base: BaseGraph<K, u16> = compress_kmers_with_hash(stranded, &spec, &hash);
    base.finish()
}
