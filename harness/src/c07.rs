//! C07: `Scanner::scan` (and `simple_scan`) on structured sequences under many score functions.
//! For each case ONE run of the implementation gives two lines: `scan.scan` (compared with the Coq model
//! of the scanner) and `chk.scan` (the verified checker of clauses (a)-(f) applied to the intervals the
//! implementation reported; expected verdict 1).
use crate::kmers::*;
use crate::val::*;
use debruijn::dna_string::DnaString;
use debruijn::msp::{MspIntervalP, Scanner};
use debruijn::{DnaBytes, DnaSlice};
use std::panic::AssertUnwindSafe;

pub const NKINDS: usize = 9;

fn mix(mut x: u64) -> u64 {
    x ^= x >> 33;
    x = x.wrapping_mul(0xff51afd7ed558ccd);
    x ^= x >> 29;
    x = x.wrapping_mul(0xc4ceb9fe1a85ec53);
    x ^= x >> 32;
    x
}

/// a bijection of [0, 4^p): affine map with odd multiplier, then an xor-shift, both invertible mod 2^(2p)
fn bij(r: u64, p: usize, salt: u64) -> u64 {
    let w = 2 * p;
    let mask = if w == 64 { u64::MAX } else { (1u64 << w) - 1 };
    let a = (mix(salt) | 1) & mask;
    let c = mix(salt ^ 0x5555) & mask;
    let r1 = (r.wrapping_mul(a).wrapping_add(c)) & mask;
    r1 ^ (r1 >> (w / 2 + 1))
}

/// score functions: 0 lexicographic rank, 1 AT count, 2 constant, 3 few-valued random table,
/// 4 random permutation, 5 permutation with min(x, rc x), 6 64-bit hash, 7 high bits decide, 8 usize::MAX - rank
pub fn score_fn<P: KS>(kind: usize, salt: u64) -> Box<dyn Fn(&P) -> usize> {
    let p = P::k();
    match kind {
        0 => Box::new(|x: &P| x.to_u64() as usize),
        1 => Box::new(|x: &P| x.at_count() as usize),
        2 => Box::new(move |_x: &P| (salt % 11) as usize),
        3 => {
            let nv = 2 + (salt % 3);
            Box::new(move |x: &P| (mix(x.to_u64() ^ salt) % nv) as usize)
        }
        4 => Box::new(move |x: &P| bij(x.to_u64(), p, salt) as usize),
        5 => Box::new(move |x: &P| {
            std::cmp::min(bij(x.to_u64(), p, salt), bij(x.rc().to_u64(), p, salt)) as usize
        }),
        // scores that use the whole width of usize (the scanner takes ANY Fn(&P) -> usize): a 64-bit hash,
        // a score whose deciding bits sit above bit 32 with ties below, and a descending order from usize::MAX
        6 => Box::new(move |x: &P| mix(x.to_u64() ^ salt) as usize),
        7 => Box::new(move |x: &P| (((x.at_count() as u64) << 40) | (mix(x.to_u64() ^ salt) & 3)) as usize),
        _ => Box::new(move |x: &P| usize::MAX - (bij(x.to_u64(), p, salt) as usize)),
    }
}

/// structured sequence: alphabet of 1-4 letters, optional motifs (homopolymer runs, tandem repeats,
/// reverse-complement hairpins)
pub fn gen_seq(rng: &mut Rng, len: usize) -> Vec<u8> {
    let nletters = rng.range(1, 4);
    let mut letters = [0u8, 1, 2, 3];
    for i in (1..4).rev() {
        letters.swap(i, rng.below(i + 1));
    }
    let style = rng.below(4);
    let mut s: Vec<u8> = Vec::with_capacity(len);
    while s.len() < len {
        match if style == 0 { 0 } else { rng.below(5) } {
            0 | 1 => s.push(letters[rng.below(nletters)]),
            2 => {
                let b = letters[rng.below(nletters)];
                for _ in 0..rng.range(2, 12) {
                    s.push(b);
                }
            }
            3 => {
                let u: Vec<u8> = (0..rng.range(1, 4)).map(|_| letters[rng.below(nletters)]).collect();
                for _ in 0..rng.range(2, 6) {
                    s.extend_from_slice(&u);
                }
            }
            _ => {
                if s.len() >= 2 {
                    let w = rng.range(1, std::cmp::min(s.len(), 10));
                    let tail: Vec<u8> = s[s.len() - w..].iter().rev().map(|b| 3 - b).collect();
                    s.extend_from_slice(&tail);
                } else {
                    s.push(letters[rng.below(nletters)]);
                }
            }
        }
    }
    s.truncate(len);
    s
}

fn iv_v<P: KS>(iv: &MspIntervalP<P>) -> V {
    l(vec![
        dna(&bases_of(&iv.minimizer)),
        n(iv.minimizer_pos),
        n(iv.start),
        n(iv.len),
    ])
}

/// run the scanner through one of three sequence containers
fn run_scan<P: KS>(seq: &[u8], k: usize, score: &dyn Fn(&P) -> usize, container: usize) -> Option<Vec<MspIntervalP<P>>> {
    guard(AssertUnwindSafe(|| match container {
        0 => Scanner::new(&DnaSlice(seq), |x: &P| score(x), k).scan(),
        1 => Scanner::new(&DnaString::from_bytes(seq), |x: &P| score(x), k).scan(),
        _ => Scanner::new(&DnaBytes(seq.to_vec()), |x: &P| score(x), k).scan(),
    }))
}

pub fn emit_case<P: KS>(out: &mut Out, seq: &[u8], k: usize, score: &dyn Fn(&P) -> usize, container: usize, chk_op: &str, model_line: bool) {
    let p = P::k();
    let scores: Vec<V> = if seq.len() >= p {
        (0..=seq.len() - p)
            .map(|j| nu(score(&P::from_bytes(&seq[j..j + p]))))
            .collect()
    } else {
        vec![]
    };
    let r = run_scan::<P>(seq, k, score, container);
    out.nt = r.as_ref().map(|v| v.len() >= 2).unwrap_or(false);
    let ivs = r.as_ref().map(|v| l(v.iter().map(iv_v).collect()));
    let huge0 = seq.len() > 10000 && r.as_ref().map(|v| v.len() > 64).unwrap_or(false);
    if model_line || huge0 {
        out.case(
            "scan.scan",
            l(vec![dna(seq), nu(k), nu(p), l(scores.clone())]),
            opt(ivs.clone()),
        );
    }
    // (the checker is quadratic in unary positions: on a 65536-base case with thousands of intervals - which
    // only a defect can produce - it is skipped and the model line decides)
    let huge = seq.len() > 10000 && r.as_ref().map(|v| v.len() > 64).unwrap_or(false);
    if let (Some(ivs), false) = (ivs, huge) {
        out.case(chk_op, l(vec![dna(seq), nu(k), nu(p), l(scores), ivs]), n(1u8));
    } else if r.is_none() && p <= k && k <= seq.len() {
        // a panic inside the guards p <= k <= |seq| (k = p included): C07_scan_spec / C07_no_inner_panic say there is none
        out.case("s.no_panic", l(vec![nu(k), nu(p), nu(seq.len())]), V::Bot);
    }
    out.nt = false;
}

fn c07_type<P: KS>(out: &mut Out, seed: u64, tier: &Tier, counter: &mut usize) {
    let p = P::k();
    let mut ks: Vec<usize> = (p..p + 10).collect();
    ks.extend_from_slice(&[p + 13, 2 * p + 17, 3 * p + 31]);
    let reps = if tier.thorough { 100 } else { 8 };
    for &k in &ks {
        for kind in 0..NKINDS {
            for rep in 0..reps {
                *counter += 1;
                if *counter % tier.nshards != tier.shard {
                    continue;
                }
                let mut rng = Rng::new(seed ^ (*counter as u64).wrapping_mul(0x9E37_79B9_7F4A_7C15));
                let len = match rep % 4 {
                    0 => rng.range(k, k + 3),
                    1 => rng.range(k, 2 * k),
                    _ => rng.range(k, 6 * k),
                };
                let seq = gen_seq(&mut rng, len);
                let salt = rng.next();
                let f = score_fn::<P>(kind, salt);
                emit_case::<P>(out, &seq, k, &*f, rng.below(3), "chk.scan", true);
            }
        }
    }
    // outside the guard: sequence shorter than k, k < p (both must panic in debug)
    for t in 0..4 {
        *counter += 1;
        if *counter % tier.nshards != tier.shard {
            continue;
        }
        let mut rng = Rng::new(seed ^ (*counter as u64).wrapping_mul(0x9E37_79B9_7F4A_7C15));
        let (k, len) = if t % 2 == 0 { (p + 3, p + rng.below(3)) } else { (p - 1, p + 2 + rng.below(4)) };
        let seq = gen_seq(&mut rng, len);
        let f = score_fn::<P>(0, 0);
        emit_case::<P>(out, &seq, k, &*f, 0, "chk.scan", true);
    }
}

/// large k: interval lengths beyond 255 (a narrower `len` field would show)
fn c07_bigk<P: KS>(out: &mut Out, seed: u64, tier: &Tier, counter: &mut usize) {
    let reps = if tier.thorough { 6 } else { 1 };
    for &k in &[140usize, 300] {
        for kind in 0..NKINDS {
            for _ in 0..reps {
                *counter += 1;
                if *counter % tier.nshards != tier.shard {
                    continue;
                }
                let mut rng = Rng::new(seed ^ (*counter as u64).wrapping_mul(0x9E37_79B9_7F4A_7C15));
                let len = rng.range(2 * k, 3 * k);
                let seq = gen_seq(&mut rng, len);
                let salt = rng.next();
                let f = score_fn::<P>(kind, salt);
                emit_case::<P>(out, &seq, k, &*f, rng.below(3), "chk.scan", true);
            }
        }
    }
}

/// simple_scan with an explicit permutation table (small p only: the table is part of the case line)
fn c07_simple<P: KS>(out: &mut Out, seed: u64, tier: &Tier, counter: &mut usize) {
    let p = P::k();
    let reps = if tier.thorough { 400 } else { 60 };
    for rep in 0..reps {
        *counter += 1;
        if *counter % tier.nshards != tier.shard {
            continue;
        }
        let mut rng = Rng::new(seed ^ (*counter as u64).wrapping_mul(0x9E37_79B9_7F4A_7C15));
        let k = p + rng.below(8);
        let len = rng.range(k, 5 * k);
        let seq = gen_seq(&mut rng, len);
        let np = 1usize << (2 * p);
        let mut perm: Vec<usize> = (0..np).collect();
        if rep % 3 != 0 {
            for i in (1..np).rev() {
                perm.swap(i, rng.below(i + 1));
            }
        }
        let rc = rep % 2 == 0;
        #[allow(deprecated)]
        let r = guard(AssertUnwindSafe(|| {
            debruijn::msp::simple_scan::<_, P>(k, &DnaSlice(&seq), &perm, rc)
        }));
        out.nt = r.as_ref().map(|v| v.len() >= 2).unwrap_or(false);
        // the verified checker on the intervals as reported (bucket, start, len): some p-mer with that bucket lies in
        // every k-mer of the interval and has the minimal score
        if let Some(v) = &r {
            let score = |x: &[u8]| -> usize {
                let rank = |y: &[u8]| y.iter().fold(0usize, |a, b| a * 4 + *b as usize);
                let s1 = perm[rank(x)];
                if rc {
                    let rcx: Vec<u8> = x.iter().rev().map(|b| 3 - *b).collect();
                    s1.min(perm[rank(&rcx)])
                } else {
                    s1
                }
            };
            let scs: Vec<V> = (0..=seq.len() - p).map(|j| nu(score(&seq[j..j + p]))).collect();
            out.case(
                "chk.simple_scan",
                l(vec![dna(&seq), nu(k), nu(p), l(scs), l(v.iter().map(|iv| l(vec![n(iv.bucket()), nu(iv.start()), nu(iv.len())])).collect())]),
                b(true),
            );
        }
        out.case(
            "scan.simple",
            l(vec![dna(&seq), nu(k), nu(p), l(perm.iter().map(|x| nu(*x)).collect()), b(rc)]),
            opt(r.map(|v| {
                l(v.iter()
                    .map(|iv| l(vec![n(iv.bucket()), nu(iv.start()), nu(iv.len())]))
                    .collect())
            })),
        );
        out.nt = false;
    }
}

pub fn c07(out: &mut Out, rng: &mut Rng, tier: &Tier) {
    use debruijn::kmer::*;
    let seed = rng.next();
    let mut counter = 0usize;
    c07_type::<Kmer2>(out, seed, tier, &mut counter);
    c07_type::<Kmer3>(out, seed, tier, &mut counter);
    c07_type::<Kmer4>(out, seed, tier, &mut counter);
    c07_type::<Kmer5>(out, seed, tier, &mut counter);
    c07_type::<Kmer6>(out, seed, tier, &mut counter);
    c07_type::<Kmer8>(out, seed, tier, &mut counter);
    c07_type::<Kmer10>(out, seed, tier, &mut counter);
    c07_type::<Kmer12>(out, seed, tier, &mut counter);
    c07_type::<Kmer16>(out, seed, tier, &mut counter);
    c07_bigk::<Kmer4>(out, seed, tier, &mut counter);
    c07_bigk::<Kmer8>(out, seed, tier, &mut counter);
    c07_simple::<Kmer2>(out, seed, tier, &mut counter);
    c07_simple::<Kmer3>(out, seed, tier, &mut counter);
    c07_simple::<Kmer4>(out, seed, tier, &mut counter);
    c07_simple::<Kmer5>(out, seed, tier, &mut counter);
    // finding F7 (class 2k-p > 65535): k = 32772, p = 8, 65536 A's -> one interval of reported length 0.
    // The checker op carries the class in its name so that known_findings.json can match it.
    counter += 1;
    if counter % tier.nshards == tier.shard {
        let seq = vec![0u8; 65536];
        let f = score_fn::<Kmer8>(0, 0);
        // the model run of this case takes ~2 min (unary positions): thorough tier only; the checker line is cheap
        emit_case::<Kmer8>(out, &seq, 32772, &*f, 0, "chk.scan.unguarded", tier.thorough);
    }
}
