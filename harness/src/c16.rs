//! C16: ASCII ingestion is total and path-independent.
//! Runs DnaString::{from_acgt_bytes (AVX2 path and, through hook H2, the scalar path), from_dna_string,
//! from_dna_only_string, from_acgt_bytes_hashn, to_ascii_vec, to_string} and writes
//!   a.*      model-level cases: storage words + len of the produced DnaString (read through serde),
//!   s.a.*    specification-level cases: the decoded bases / rendered text / runs,
//!   chk.a.*  contract checkers (hashed-N constructor, representation invariant).
use crate::kmers::Tier;
use crate::val::*;
use debruijn::dna_string::{verif_hooks, DnaString};
use std::collections::hash_map::DefaultHasher;
use std::hash::{Hash, Hasher};

const LETTERS: &[u8; 8] = b"ACGTacgt";

/// ( ( block ... ) len ) as stored, read through the derived Serialize impl
fn ds_v(d: &DnaString) -> V {
    let j = serde_json::to_value(d).expect("serialize DnaString");
    let st: Vec<V> = j["storage"]
        .as_array()
        .expect("storage")
        .iter()
        .map(|x| n(x.as_u64().expect("u64 block")))
        .collect();
    l(vec![l(st), n(j["len"].as_u64().expect("len"))])
}

fn cps(s: &str) -> V {
    l(s.chars().map(|c| n(c as u32)).collect())
}

fn avx2_here() -> bool {
    #[cfg(any(target_arch = "x86", target_arch = "x86_64"))]
    {
        std::is_x86_feature_detected!("avx2")
    }
    #[cfg(not(any(target_arch = "x86", target_arch = "x86_64")))]
    {
        false
    }
}

/// run from_acgt_bytes on the requested path; returns (op name of the path that ran, result)
fn ingest(bytes: &[u8], scalar: bool) -> (&'static str, Option<DnaString>) {
    let b = bytes.to_vec();
    let r = guard(move || {
        verif_hooks::set_force_scalar(scalar);
        let d = DnaString::from_acgt_bytes(&b);
        verif_hooks::set_force_scalar(false);
        d
    });
    verif_hooks::set_force_scalar(false);
    let ran = if !scalar && avx2_here() { "a.avx" } else { "a.scalar" };
    (ran, r)
}

fn nontrivial(bytes: &[u8]) -> bool {
    bytes.len() > 32 || bytes.iter().any(|c| !b"ACGT".contains(c))
}

/// everything observed about one byte string
fn bytes_case(out: &mut Out, bytes: &[u8], full: bool) {
    out.nt = nontrivial(bytes);
    let inp = || l(vec![bytes_v(bytes)]);
    for scalar in [false, true] {
        let (op, r) = ingest(bytes, scalar);
        match r {
            None => {
                out.case(op, inp(), V::Bot);
                out.case("s.a.bases", inp(), V::Bot);
            }
            Some(d) => {
                out.case(op, inp(), ds_v(&d));
                out.case("s.a.bases", inp(), bytes_v(&d.to_bytes()));
                if full || scalar {
                    out.case("s.a.render", inp(), bytes_v(&d.to_ascii_vec()));
                }
                // the packed VALUE (blocks and length, as ==/Hash/Ord/serde see it) and the representation invariant
                out.case("s.a.packed", inp(), ds_v(&d));
                out.case("chk.a.inv", l(vec![ds_v(&d)]), b(true));
                if full {
                    out.case("s.a.render", inp(), bytes_v(d.to_string().as_bytes()));
                    out.case("a.to_ascii", l(vec![ds_v(&d)]), bytes_v(&d.to_ascii_vec()));
                    out.case("a.to_string", l(vec![ds_v(&d)]), bytes_v(d.to_string().as_bytes()));
                }
            }
        }
    }
    out.nt = false;
}

fn bytes_v(x: &[u8]) -> V {
    bytes(x)
}

fn rand_letters(rng: &mut Rng, len: usize) -> Vec<u8> {
    (0..len).map(|_| LETTERS[rng.below(8)]).collect()
}

/// content classes for the length sweep
fn rand_content(rng: &mut Rng, len: usize, class: usize) -> Vec<u8> {
    match class {
        0 => rand_letters(rng, len),
        1 => (0..len).map(|_| rng.next() as u8).collect(),
        2 => (0..len)
            .map(|_| if rng.chance(1, 6) { *rng.pick(b"NnXx-.*RYKMSW \n\0\x7f\x80\xff@[`{BDbdHUu") } else { LETTERS[rng.below(8)] })
            .collect(),
        // neighbours of the valid letters in the byte table (one bit flipped)
        _ => (0..len).map(|_| LETTERS[rng.below(8)] ^ (1u8 << rng.below(8))).collect(),
    }
}

const ODD: &[char] = &[
    '\u{141}', '\u{143}', '\u{147}', '\u{154}', '\u{161}', '\u{163}', '\u{167}', '\u{174}', // low byte = ACGTacgt
    '\u{10041}', '\u{1F447}', '\u{e9}', '\u{20ac}', '\u{4e}', '\u{100}', '\u{ff}', '\u{80}', '\u{1F600}', '\u{14e}',
];

fn rand_text(rng: &mut Rng, len: usize, non_ascii: bool) -> String {
    let mut s = String::new();
    for _ in 0..len {
        let c = if non_ascii && rng.chance(1, 5) {
            *rng.pick(ODD)
        } else if rng.chance(1, 5) {
            (rng.below(128) as u8) as char
        } else if rng.chance(1, 8) {
            'N'
        } else {
            LETTERS[rng.below(8)] as char
        };
        s.push(c);
    }
    s
}

pub fn text_case(out: &mut Out, s: &str) {
    let ascii = s.is_ascii();
    out.nt = !s.bytes().all(|c| b"ACGT".contains(&c));
    let inp = || l(vec![cps(s)]);
    // from_dna_string
    let s1 = s.to_string();
    match guard(move || DnaString::from_dna_string(&s1)) {
        None => {
            out.case("a.str", inp(), V::Bot);
            // the str constructor is total on every text (C14_from_str): a panic is a failing input
            out.case("s.a.strmask", inp(), V::Bot);
        }
        Some(d) => {
            out.case("a.str", inp(), ds_v(&d));
            // C14: whatever the text, one base per char; ASCII chars by the table (a non-ASCII position is left open: 4)
            let mut got = d.to_bytes();
            let chars: Vec<char> = s.chars().collect();
            if got.len() == chars.len() {
                for (g, c) in got.iter_mut().zip(chars.iter()) {
                    if !c.is_ascii() && *g < 4 {
                        *g = 4;
                    }
                }
            }
            out.case("s.a.strmask", inp(), bytes_v(&got));
            if ascii {
                // the property speaks about the str constructor on ASCII text only
                out.case("s.a.str", inp(), bytes_v(&d.to_bytes()));
                let (op, r) = ingest(s.as_bytes(), false);
                if let Some(d2) = r {
                    out.case(op, l(vec![bytes_v(s.as_bytes())]), ds_v(&d));
                    out.case("chk.a.same", l(vec![ds_v(&d2), ds_v(&d)]), b(true));
                }
            }
        }
    }
    // from_dna_only_string
    let s2 = s.to_string();
    let (mop, sop) = if ascii { ("a.only", "s.a.runs") } else { ("a.only_u", "s.a.runs_u") };
    match guard(move || DnaString::from_dna_only_string(&s2)) {
        None => {
            out.case(mop, inp(), V::Bot);
            out.case(sop, inp(), V::Bot);
        }
        Some(v) => {
            out.case(mop, inp(), l(v.iter().map(ds_v).collect()));
            out.case(sop, inp(), l(v.iter().map(|d| bytes_v(&d.to_bytes())).collect()));
        }
    }
    out.nt = false;
}

/// the hash the documentation of from_acgt_bytes_hashn describes, recomputed independently
fn name_pos_hash(name: &[u8], pos: usize) -> u64 {
    let mut h = DefaultHasher::new();
    name.hash(&mut h);
    pos.hash(&mut h);
    h.finish()
}

fn hashn_case(out: &mut Out, rng: &mut Rng, bytes: &[u8], name: &[u8]) {
    out.nt = bytes.iter().any(|c| !LETTERS.contains(c));
    let run = |b: &[u8], nm: &[u8]| {
        let (b, nm) = (b.to_vec(), nm.to_vec());
        guard(move || DnaString::from_acgt_bytes_hashn(&b, &nm))
    };
    let hv: Vec<V> = (0..bytes.len()).map(|p| n(name_pos_hash(name, p))).collect();
    let r1 = run(bytes, name);
    let r2 = run(bytes, name);
    match (&r1, &r2) {
        (Some(d1), Some(d2)) => {
            out.case("a.hashn", l(vec![bytes_v(bytes), bytes_v(name), l(hv)]), ds_v(d1));
            out.case("chk.a.hashn", l(vec![bytes_v(bytes), bytes_v(&d1.to_bytes())]), b(true));
            out.case("chk.a.hashn", l(vec![bytes_v(bytes), bytes_v(&d2.to_bytes())]), b(true));
            // determinism: the same call twice
            out.case(
                "chk.a.hashn_local",
                l(vec![bytes_v(bytes), bytes_v(&d1.to_bytes()), bytes_v(bytes), bytes_v(&d2.to_bytes())]),
                b(true),
            );
            out.case("chk.a.same", l(vec![ds_v(d1), ds_v(d2)]), b(true));
            // locality: perturb other bytes (and the length); substitutions at surviving non-ACGT positions stay
            for _ in 0..2 {
                let mut b2 = bytes.to_vec();
                let edits = 1 + rng.below(4);
                for _ in 0..edits {
                    if b2.is_empty() {
                        break;
                    }
                    let p = rng.below(b2.len());
                    b2[p] = match rng.below(3) {
                        0 => LETTERS[rng.below(8)],
                        1 => *rng.pick(b"NnXx-.R"),
                        _ => rng.next() as u8,
                    };
                }
                match rng.below(4) {
                    0 => {
                        let k = rng.below(b2.len() + 1);
                        b2.truncate(k)
                    }
                    1 => {
                        let k = 1 + rng.below(40);
                        b2.extend(rand_content(rng, k, 2))
                    }
                    _ => {}
                }
                if let Some(d3) = run(&b2, name) {
                    out.case("chk.a.hashn", l(vec![bytes_v(&b2), bytes_v(&d3.to_bytes())]), b(true));
                    out.case(
                        "chk.a.hashn_local",
                        l(vec![bytes_v(bytes), bytes_v(&d1.to_bytes()), bytes_v(&b2), bytes_v(&d3.to_bytes())]),
                        b(true),
                    );
                } else {
                    out.case("chk.a.hashn", l(vec![bytes_v(&b2), V::Bot]), b(true));
                }
            }
        }
        _ => out.case("a.hashn", l(vec![bytes_v(bytes), bytes_v(name), l(hv)]), V::Bot),
    }
    out.nt = false;
}

/// fixed inputs for the cross-process determinism probe of the hashed-N constructor
fn probe_values() -> Vec<V> {
    let mut v = Vec::new();
    for name in [&b""[..], b"read1", b"read2", b"\xff\x00 a longer read name /1"] {
        for bytes in [&b"N"[..], b"ACGTNNNNacgtnnnn", b"NNNNNNNNNNNNNNNNNNNNNNNNNNNNNNNNNNNNNNNNNNNNNNNNNNNNNNNNNNNNNNNNNNNNN", b"\x00\xffRYKM-*."] {
            let d = DnaString::from_acgt_bytes_hashn(bytes, name);
            v.push(ds_v(&d));
        }
    }
    v
}

fn v_text(v: &V) -> String {
    let mut s = String::new();
    v.write(&mut s);
    s
}

/// determinism across two processes: a child process (same binary) recomputes the probe values
fn cross_process_probe(out: &mut Out) {
    let args: Vec<String> = std::env::args().collect();
    let exe = std::env::current_exe().expect("current_exe");
    let tmp = format!("{}.probe", args[6]);
    let st = std::process::Command::new(exe)
        .args([&args[1], &args[2], &args[3], "0", "1", &tmp])
        .env("C16_PROBE", "1")
        .stdout(std::process::Stdio::null())
        .status()
        .expect("spawn probe");
    let child = if st.success() { std::fs::read_to_string(&tmp).unwrap_or_default() } else { String::new() };
    let _ = std::fs::remove_file(&tmp);
    let child_vals: Vec<&str> = child.lines().filter(|l| l.starts_with("probe ")).collect();
    let mine = probe_values();
    out.nt = true;
    for (i, v) in mine.iter().enumerate() {
        let expect = format!("probe ( {:x} ) {}", i, v_text(v));
        let same = child_vals.get(i).map(|l| l.trim_end() == expect).unwrap_or(false);
        if !same {
            out.comment(&format!("cross-process probe {} differs: child wrote {:?}", i, child_vals.get(i)));
        }
        // the checker says "equal"; the expectation is whether the other process produced the same value
        out.case("chk.a.same", l(vec![v.clone(), v.clone()]), b(same));
    }
    out.nt = false;
}

pub fn c16(out: &mut Out, rng: &mut Rng, tier: &Tier) {
    if std::env::var("C16_PROBE").is_ok() {
        for (i, v) in probe_values().into_iter().enumerate() {
            out.case("probe", l(vec![nu(i)]), v);
        }
        return;
    }
    out.comment(&format!("avx2_detected={}", avx2_here()));
    if tier.shard == 0 {
        cross_process_probe(out);
    }
    let mut idx = 0usize;
    let mut mine = |idx: &mut usize| {
        let m = *idx % tier.nshards == tier.shard;
        *idx += 1;
        m
    };

    // 1. every byte value at every lane of a 32-byte block (8192 blocks), background: random valid letters
    let positions: &[usize] = if tier.thorough { &[0, 32, 64, 7] } else { &[0] };
    for lane in 0..32 {
        for value in 0..256usize {
            let mut block = rand_letters(rng, 32);
            block[lane] = value as u8;
            let pre = rand_content(rng, 64 + 7, 2);
            let npost = rng.below(34);
            let post = rand_content(rng, npost, 2);
            let take = mine(&mut idx);
            if !take {
                continue;
            }
            for &p in positions {
                let mut s = pre[..p].to_vec();
                s.extend_from_slice(&block);
                if p != 0 {
                    s.extend_from_slice(&post);
                }
                bytes_case(out, &s, false);
            }
        }
    }
    // 1b. every byte value in the scalar tail (after zero and one vector block), every tail position in thorough
    for value in 0..256usize {
        for (len, lo) in [(31usize, 0usize), (40, 32), (64 + 31, 64)] {
            let npos = if tier.thorough { len - lo } else { 2 };
            for k in 0..npos {
                let mut s = rand_letters(rng, len);
                let p = if tier.thorough { lo + k } else { lo + (value + 13 * k) % (len - lo) };
                s[p] = value as u8;
                if mine(&mut idx) {
                    bytes_case(out, &s, false);
                }
            }
        }
    }
    // 2. random blocks: arbitrary bytes, whole blocks only
    let nrand = if tier.thorough { 20000 } else { 600 };
    for i in 0..nrand {
        let s = rand_content(rng, 32 * (1 + i % 3), 1 + i % 3);
        if mine(&mut idx) {
            bytes_case(out, &s, true);
        }
    }
    // 3. all lengths 0..=130 (zero, one, several vector blocks plus a tail), four content classes
    let reps = if tier.thorough { 40 } else { 2 };
    for len in 0..=130usize {
        for class in 0..4 {
            for _ in 0..reps {
                let s = rand_content(rng, len, class);
                if mine(&mut idx) {
                    bytes_case(out, &s, true);
                }
            }
        }
    }
    for len in [255usize, 256, 257, 1023, 1024, 1025, 4096 + 17] {
        let s = rand_content(rng, len, 2);
        if mine(&mut idx) {
            bytes_case(out, &s, true);
        }
    }
    // 4. str constructors: ASCII text and text with non-ASCII characters
    let reps = if tier.thorough { 30 } else { 2 };
    for len in 0..=100usize {
        for _ in 0..reps {
            let s = rand_text(rng, len, false);
            if mine(&mut idx) {
                text_case(out, &s);
            }
        }
    }
    // all 128 ASCII characters, one at a time, inside a run
    for c in 0..128u8 {
        let s = format!("AC{}gT", c as char);
        if mine(&mut idx) {
            text_case(out, &s);
        }
    }
    if tier.shard == 0 {
        for s in ["", "N", "NNN", "A", "aN", "Na", "ACGTNNACGT", "\u{e9}", "AC\u{e9}GT", "\u{1F600}ACGT\u{1F600}"] {
            text_case(out, s);
        }
    }
    // 5. hashed-N constructor
    let nh = if tier.thorough { 20000 } else { 1200 };
    let mut names: Vec<Vec<u8>> = vec![vec![], b"read1".to_vec(), b"read2".to_vec()];
    for i in 0..nh {
        if i % 7 == 0 {
            let nl = rng.below(24);
            names.push((0..nl).map(|_| rng.next() as u8).collect());
        }
        let name = names[rng.below(names.len())].clone();
        let len = if i % 5 == 0 { rng.below(4) } else { rng.below(110) };
        let s = rand_content(rng, len, if i % 3 == 0 { 1 } else { 2 });
        let seed = rng.next();
        if mine(&mut idx) {
            let mut local = Rng::new(seed);
            hashn_case(out, &mut local, &s, &name);
        }
    }
    // 6. text with non-ASCII characters (last: while finding F6 is open these cases fill the report quota)
    let nu_cases = if tier.thorough { 3000 } else { 160 };
    for i in 0..nu_cases {
        let s = rand_text(rng, 1 + i % 70, true);
        if mine(&mut idx) {
            text_case(out, &s);
        }
    }
}

/// the str constructors inside the C14 run: ASCII and non-ASCII text of lengths around the block boundaries
pub fn c14_texts(out: &mut Out, rng: &mut Rng, tier: &Tier) {
    let n = if tier.thorough { 1500 } else { 100 };
    for i in 0..n {
        let len = match i % 5 {
            0 => rng.below(6),
            1 => 31 + rng.below(4),
            2 => 63 + rng.below(4),
            _ => rng.below(100),
        };
        let s = rand_text(rng, len, i % 2 == 0);
        text_case(out, &s);
    }
    for s in ["", "\u{e9}", "AC\u{e9}GT", "\u{1F600}ACGT\u{1F600}", "ACGTNacgtn"] {
        text_case(out, s);
    }
    out.nt = false;
}
