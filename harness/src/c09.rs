//! C09: compress_graph (re-compression of a graph with optional node censoring).
//! Inputs: fully compressed graphs, partially compressed graphs (shards of the k-mer table compressed separately and
//! combined), uncompressed graphs (one node per k-mer), and graphs that are themselves outputs of compress_graph;
//! censor lists: none / empty / everything / random subsets (with repeats and out-of-range ids) / a node in the
//! middle of a would-be path; half of the count-filtered tables are left UNPRUNED, so that the input graph carries
//! dangling extension bits (compress_graph must prune them itself).  Every implementation output is handed to the verified checkers chk.c09.*; the model
//! r.compress_graph is compared exactly.
use crate::c01::*;
use crate::gen::*;
use crate::kmers::*;
use crate::val::*;
use debruijn::compression::*;
use debruijn::filter::remove_censored_exts;
use debruijn::graph::BaseGraph;
use debruijn::{Dir, Exts};

fn clone_base<T: KS>(g: &BaseGraph<T, Pay>) -> BaseGraph<T, Pay> {
    let mut r: BaseGraph<T, Pay> = BaseGraph::new(g.stranded);
    for i in 0..g.len() {
        r.add(g.sequences.get(i).bytes(), g.exts[i], g.data[i].clone());
    }
    r
}

fn censor_v(c: &Option<Vec<usize>>) -> V {
    match c {
        None => l(vec![]),
        Some(v) => l(vec![l(v.iter().map(|x| nu(*x)).collect())]),
    }
}

/// run the implementation; None = panic
fn run_impl<T: KS + Send + Sync>(
    stranded: bool,
    mode: u8,
    g: &BaseGraph<T, Pay>,
    censor: &Option<Vec<usize>>,
) -> Option<BaseGraph<T, Pay>> {
    let gg = clone_base(g);
    let c = censor.clone();
    guard(std::panic::AssertUnwindSafe(move || {
        let spec = PaySpec { mode };
        compress_graph(stranded, &spec, gg.finish(), c).base
    }))
}

/// a node with exactly one extension on both sides (a candidate interior of a would-be path)
fn middle_node<T: KS>(rng: &mut Rng, g: &BaseGraph<T, Pay>) -> Option<usize> {
    let c: Vec<usize> = (0..g.len())
        .filter(|i| g.exts[*i].num_ext_dir(Dir::Left) == 1 && g.exts[*i].num_ext_dir(Dir::Right) == 1)
        .collect();
    if c.is_empty() {
        None
    } else {
        Some(*rng.pick(&c))
    }
}

pub fn cases<T: KS + Send + Sync>(out: &mut Out, rng0: &mut Rng, tier: &Tier) {
    let k = T::k();
    let mut rng = Rng::new(rng0.next() ^ (tier.shard as u64 + 29).wrapping_mul(0xA076_1D64_78BD_642F));
    let small = k <= 8;
    let nsets = match (tier.thorough, small) {
        (true, true) => 600,
        (true, false) => 40,
        (false, true) => 60,
        (false, false) => 5,
    };
    for set_no in 0..nsets {
        let mut reads = read_set(&mut rng, k);
        if !small {
            // keep the uncompressed graphs of the wide types small enough for the list-based model
            reads.truncate(2);
            for r in reads.iter_mut() {
                r.truncate(2 * k + 12);
            }
        }
        let stranded = rng.chance(1, 2);
        let min_obs = match rng.below(6) {
            0 => 2,
            1 => 3,
            _ => 1,
        };
        let colours: Vec<u8> = reads.iter().map(|_| rng.below(3) as u8).collect();
        // loose: the table keeps its extensions towards filtered-out k-mers, so the input graph carries dangling
        // extension bits (what a graph built from a count-filtered table looks like before compress_graph prunes it)
        let loose = min_obs > 1 && rng.chance(1, 2);
        let tbl = table_of_opt::<T>(&reads, stranded, min_obs, &colours, !loose);
        if tbl.is_empty() {
            continue;
        }
        let hash = boom_of(&tbl);
        let m1 = (rng.next() & 1) as u8;
        let m2 = (rng.next() & 1) as u8;
        let kind = (set_no + rng.below(2)) % 3;
        // ---- the input graph
        let mut base: BaseGraph<T, Pay> = match kind {
            0 => compress_kmers_with_hash(stranded, &PaySpec { mode: m1 }, &hash),
            1 => {
                let nsh = rng.range(2, 4);
                let mut subs: Vec<Vec<(T, (Exts, Pay))>> = vec![Vec::new(); nsh];
                // contiguous runs of the sorted table or scattered single k-mers
                let scattered = rng.chance(1, 2);
                let mut cur = rng.below(nsh);
                for e in tbl.iter() {
                    if scattered || rng.chance(1, 4) {
                        cur = rng.below(nsh);
                    }
                    subs[cur].push(e.clone());
                }
                let spec = PaySpec { mode: m1 };
                let parts: Vec<BaseGraph<T, Pay>> = subs
                    .iter()
                    .filter(|s| !s.is_empty())
                    .map(|s| compress_kmers(stranded, &spec, s))
                    .collect();
                BaseGraph::combine(parts.into_iter())
            }
            _ => {
                let mut g: BaseGraph<T, Pay> = BaseGraph::new(stranded);
                for (q, e, d) in hash.iter() {
                    g.add(bases_of(q), *e, d.clone());
                }
                g
            }
        };
        // relabel: node i carries the id list [i] (colour kept; sometimes redrawn) so that the fold is visible
        let recolour = rng.chance(1, 4);
        for i in 0..base.len() {
            let c = if recolour { rng.below(2) as u8 } else { base.data[i].0 };
            base.data[i] = (c, vec![i as u32]);
        }
        let nn = base.len();
        let st = b(stranded);
        let in_v = base_nodes_v(&base);
        out.nt = is_delicate(&reads, k) || kind == 1 || loose;
        // the hypothesis of the theorems: rvalid (C09_*) for pruned inputs, rvalid_loose (C09X_*) for inputs with
        // dangling extension bits
        if !loose {
            out.case("chk.c09.valid_input", l(vec![nu(k), st.clone(), in_v.clone()]), b(true));
        } else {
            out.case("chk.c09.valid_input_loose", l(vec![nu(k), st.clone(), in_v.clone()]), b(true));
        }
        // ---- censor lists
        let mut censors: Vec<Option<Vec<usize>>> = Vec::new();
        censors.push(if rng.chance(1, 2) { None } else { Some(vec![]) });
        {
            // random subset, occasionally with repeats / an out-of-range id
            let p = rng.range(1, 5);
            let mut c: Vec<usize> = (0..nn).filter(|_| rng.chance(p, 8)).collect();
            if rng.chance(1, 4) && !c.is_empty() {
                let x = *rng.pick(&c);
                c.push(x);
            }
            if rng.chance(1, 8) {
                c.push(nn + rng.below(3));
            }
            if rng.chance(1, 3) {
                c.reverse();
            }
            censors.push(Some(c));
        }
        match rng.below(4) {
            0 => censors.push(Some((0..nn).collect())),
            _ => {
                if let Some(m) = middle_node(&mut rng, &base) {
                    let mut c = vec![m];
                    if rng.chance(1, 2) {
                        if let Some(m2) = middle_node(&mut rng, &base) {
                            c.push(m2);
                        }
                    }
                    censors.push(Some(c));
                } else {
                    censors.push(Some(vec![rng.below(nn)]));
                }
            }
        }
        // the crate's own producer of censor lists: tips shorter than a threshold (CleanGraph::find_bad_nodes)
        {
            let thr = k + rng.below(2 * k + 2);
            let gb = clone_base(&base);
            let bad = guard(std::panic::AssertUnwindSafe(move || {
                let dg = gb.finish();
                debruijn::clean_graph::CleanGraph::new(|nd: &debruijn::graph::Node<'_, T, Pay>| nd.len() < thr).find_bad_nodes(&dg)
            }));
            out.case("r.find_bad_nodes", l(vec![nu(thr), in_v.clone()]), opt(bad.as_ref().map(|v| l(v.iter().map(|x| nu(*x)).collect()))));
            if let Some(v) = bad {
                censors.push(Some(v));
            }
        }
        for censor in censors.iter() {
            let cv = censor_v(censor);
            let trivial_censor = censor.as_ref().map_or(true, |c| c.is_empty());
            let res = run_impl(stranded, m2, &base, censor);
            let res_v = res.as_ref().map(base_nodes_v);
            out.case(
                "r.compress_graph",
                l(vec![nu(k), st.clone(), n(m2), in_v.clone(), cv.clone()]),
                opt(res_v.clone()),
            );
            let (g1, o) = match (&res, &res_v) {
                (Some(g1), Some(o)) => (g1, o.clone()),
                _ => {
                    // a panic on a valid input is a failing input of the property
                    out.case("chk.c09.no_panic", l(vec![nu(k), st.clone(), in_v.clone()]), V::Bot);
                    continue;
                }
            };
            out.case("chk.c09.kmers", l(vec![nu(k), st.clone(), in_v.clone(), cv.clone(), o.clone()]), b(true));
            out.case(
                "chk.c09.maximal",
                l(vec![nu(k), st.clone(), n(m2), in_v.clone(), cv.clone(), o.clone()]),
                b(true),
            );
            out.case("chk.c09.exts", l(vec![nu(k), st.clone(), in_v.clone(), cv.clone(), o.clone()]), b(true));
            out.case("chk.c09.no_dangling", l(vec![nu(k), st.clone(), o.clone()]), b(true));
            out.case("chk.c09.payload", l(vec![nu(k), st.clone(), in_v.clone(), o.clone()]), b(true));
            // the crate's own is_compressed (which compress_graph asserts in debug builds) against its model
            {
                let g1b = clone_base(g1);
                let ic = guard(std::panic::AssertUnwindSafe(move || g1b.finish().is_compressed(&PaySpec { mode: m2 })));
                out.case(
                    "r.is_compressed",
                    l(vec![nu(k), st.clone(), n(m2), o.clone()]),
                    opt(ic.map(|x| match x {
                        Some((a, c)) => l(vec![l(vec![nu(a), nu(c)])]),
                        None => l(vec![]),
                    })),
                );
            }
            // fold ORDER (non-commutative reduction): seed = lowest input node of the path, then left, then right
            out.case("chk.c09.payload_order", l(vec![nu(k), st.clone(), in_v.clone(), o.clone()]), b(true));
            // an already compressed input (same join predicate) must come back unchanged up to order/orientation
            if trivial_censor && kind == 0 && m1 == m2 && !recolour && !loose {
                out.case("chk.c09.idempotent", l(vec![nu(k), st.clone(), in_v.clone(), o.clone()]), b(true));
            }
            // the output is compressed: a second pass changes nothing
            let res2 = run_impl(stranded, m2, g1, &None);
            let res2_v = res2.as_ref().map(base_nodes_v);
            out.case(
                "r.compress_graph",
                l(vec![nu(k), st.clone(), n(m2), o.clone(), l(vec![])]),
                opt(res2_v.clone()),
            );
            match &res2_v {
                Some(o2) => out.case("chk.c09.idempotent", l(vec![nu(k), st.clone(), o.clone(), o2.clone()]), b(true)),
                None => out.case("chk.c09.no_panic", l(vec![nu(k), st.clone(), o.clone()]), V::Bot),
            }
            // the one-k-mer-per-node graph: same partition as the direct route on the surviving k-mers
            if kind == 2 && !recolour {
                let gone: std::collections::HashSet<usize> =
                    censor.as_ref().map_or(Default::default(), |c| c.iter().cloned().collect());
                let order: Vec<T> = hash.iter().map(|(q, _, _)| *q).collect();
                let dead: std::collections::HashSet<T> =
                    order.iter().enumerate().filter(|(i, _)| gone.contains(i)).map(|(_, q)| *q).collect();
                let mut sub: Vec<(T, (Exts, Pay))> = tbl.iter().filter(|e| !dead.contains(&e.0)).cloned().collect();
                if !dead.is_empty() || loose {
                    remove_censored_exts(stranded, &mut sub);
                }
                let sp = PaySpec { mode: m2 };
                let sb = &sub;
                let direct = guard(std::panic::AssertUnwindSafe(move || compress_kmers(stranded, &sp, sb)));
                match direct.as_ref().map(base_nodes_v) {
                    Some(dv) => out.case("chk.c09.singleton_route", l(vec![nu(k), st.clone(), o.clone(), dv]), b(true)),
                    None => out.case("chk.c09.no_panic", l(vec![nu(k), st.clone(), o.clone()]), V::Bot),
                }
            }
        }
    }
    out.nt = false;
}

/// payload-equality join with a SUMMING reduction: equality is not a congruence for it (known finding F11)
struct EqSum;
impl CompressionSpec<Pay> for EqSum {
    fn reduce(&self, mut d: Pay, other: &Pay) -> Pay {
        d.0 += other.0;
        d.1.extend(other.1.iter().cloned());
        d
    }
    fn join_test(&self, a: &Pay, b: &Pay) -> bool {
        a.0 == b.0
    }
}

/// known finding F11: stranded chain AAAC -> AACC -> ACCG with colours 1, 1, 2.  The first two nodes merge (colour 1 + 1 = 2),
/// the third is refused at the junction (1 != 2); the debug build then asserts is_compressed, which compares the FOLDED
/// colours 2 == 2 and panics.  Release builds return the two nodes.
fn f11_case(out: &mut Out) {
    use debruijn::kmer::Kmer4;
    let mut g: BaseGraph<Kmer4, Pay> = BaseGraph::new(true);
    g.add([0u8, 0, 0, 1].iter(), Exts::mk_right(1), (1u8, vec![0u32]));
    g.add([0u8, 0, 1, 1].iter(), Exts::mk(0, 2), (1u8, vec![1u32]));
    g.add([0u8, 1, 1, 2].iter(), Exts::mk_left(0), (2u8, vec![2u32]));
    let in_v = base_nodes_v(&g);
    let r = guard(std::panic::AssertUnwindSafe(move || compress_graph(true, &EqSum, g.finish(), None).base.len()));
    out.nt = true;
    out.case("chk.c09.dbg_assert", l(vec![nu(4), b(true), in_v]), b(r.is_some()));
    out.nt = false;
}

pub fn c09(out: &mut Out, rng: &mut Rng, tier: &Tier) {
    if tier.shard == 0 {
        f11_case(out);
    }
    cases::<debruijn::kmer::Kmer4>(out, rng, tier);
    cases::<debruijn::kmer::Kmer5>(out, rng, tier);
    cases::<debruijn::kmer::Kmer6>(out, rng, tier);
    cases::<debruijn::kmer::Kmer8>(out, rng, tier);
    cases::<debruijn::kmer::Kmer15>(out, rng, tier);
    cases::<debruijn::kmer::Kmer16>(out, rng, tier);
    cases::<debruijn::kmer::VarIntKmer<u64, debruijn::kmer::K31>>(out, rng, tier);
    cases::<debruijn::kmer::Kmer32>(out, rng, tier);
}
