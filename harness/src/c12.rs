//! C12: reverse complement across k-mers, Lmer, DnaString, slices and extension sets.
use crate::kmers::*;
use crate::val::*;
use debruijn::dna_string::DnaString;
use debruijn::vmer::{Lmer1, Lmer2, Lmer3};
use debruijn::{Dir, Exts, Kmer, Mer, Vmer};

fn dirv(d: Dir) -> V {
    n(match d {
        Dir::Left => 0u8,
        Dir::Right => 1u8,
    })
}
fn sets(e: Exts) -> Vec<V> {
    vec![bytes(&e.get(Dir::Left)), bytes(&e.get(Dir::Right))]
}
fn setsv(e: Exts) -> V {
    l(sets(e))
}
fn optb(o: Option<u8>) -> V {
    match o {
        Some(x) => l(vec![n(x)]),
        None => l(vec![]),
    }
}

pub fn exts_all(out: &mut Out, rng: &mut Rng, tier: &Tier) {
    for v in 0..=255u8 {
        if (v as usize) % tier.nshards != tier.shard {
            continue;
        }
        let e = Exts::new(v);
        out.nt = v != 0;
        out.case("e.sets", l(vec![n(v)]), setsv(e));
        out.case("e.rc", l(vec![n(v)]), n(e.rc().val));
        out.case("s.e.rc", l(sets(e)), setsv(e.rc()));
        out.case("e.complement", l(vec![n(v)]), n(e.complement().val));
        out.case("e.reverse", l(vec![n(v)]), n(e.reverse().val));
        for d in [Dir::Left, Dir::Right] {
            out.case("e.get", l(vec![n(v), dirv(d)]), bytes(&e.get(d)));
            out.case("e.num_ext_dir", l(vec![n(v), dirv(d)]), n(e.num_ext_dir(d)));
            let mut a = sets(e);
            a.push(dirv(d));
            out.case("s.e.num", l(a.clone()), n(e.num_ext_dir(d)));
            out.case(
                "e.get_unique_extension",
                l(vec![n(v), dirv(d)]),
                optb(e.get_unique_extension(d)),
            );
            out.case("s.e.unique", l(a), optb(e.get_unique_extension(d)));
            out.case("e.single_dir", l(vec![n(v), dirv(d)]), n(e.single_dir(d).val));
            for base in 0..4u8 {
                out.case("e.has_ext", l(vec![n(v), dirv(d), n(base)]), b(e.has_ext(d, base)));
                out.case("e.set", l(vec![n(v), dirv(d), n(base)]), n(e.set(d, base).val));
                let mut a = sets(e);
                a.push(dirv(d));
                a.push(n(base));
                out.case("s.e.set", l(a), setsv(e.set(d, base)));
            }
        }
        // binary ops against all (thorough) or a spread of partners
        let partners: Vec<u8> = if tier.thorough {
            (0..=255u8).collect()
        } else {
            let mut p = vec![0u8, 0xff, 0x0f, 0xf0, v, !v];
            for _ in 0..6 {
                p.push((rng.next() & 0xff) as u8);
            }
            p
        };
        for w in partners {
            let f = Exts::new(w);
            out.case("e.merge", l(vec![n(v), n(w)]), n(Exts::merge(e, f).val));
            let mut a = sets(e);
            a.extend(sets(f));
            out.case("s.e.merge", l(a), setsv(Exts::merge(e, f)));
            out.case(
                "e.from_single_dirs",
                l(vec![n(v), n(w)]),
                n(Exts::from_single_dirs(e, f).val),
            );
            out.case("e.add", l(vec![n(v), n(w)]), n(e.add(f).val));
        }
    }
    if tier.shard == 0 {
        for lb in 0..4u8 {
            out.case("e.mk_left", l(vec![n(lb)]), n(Exts::mk_left(lb).val));
            out.case("e.mk_right", l(vec![n(lb)]), n(Exts::mk_right(lb).val));
            for rb in 0..4u8 {
                out.case("e.mk", l(vec![n(lb), n(rb)]), n(Exts::mk(lb, rb).val));
            }
        }
    }
    // from_slice_bounds
    for _ in 0..(if tier.thorough { 200 } else { 20 }) {
        let len = rng.range(1, 12);
        let src: Vec<u8> = (0..len).map(|_| rng.base()).collect();
        let st = rng.below(len);
        let ln = rng.below(len - st + 1);
        let e = Exts::from_slice_bounds(&src, st, ln);
        out.case("e.from_slice_bounds", l(vec![bytes(&src), nu(st), nu(ln)]), n(e.val));
        out.case("s.e.bounds", l(vec![bytes(&src), nu(st), nu(ln)]), setsv(e));
        let ds = DnaString::from_bytes(&src);
        let e2 = Exts::from_dna_string(&ds, st, ln);
        out.case("s.e.bounds", l(vec![bytes(&src), nu(st), nu(ln)]), setsv(e2));
    }
    out.nt = false;
}

fn kmer_rc<T: KS>(out: &mut Out, rng: &mut Rng, tier: &Tier) {
    let vals = values::<T>(rng, if tier.thorough { 200 } else { 16 }, false);
    for (idx, &s) in vals.iter().enumerate() {
        if idx % tier.nshards != tier.shard {
            continue;
        }
        let x = T::mk(s);
        let xb = bases_of(&x);
        out.nt = xb.iter().any(|c| *c != xb[0]);
        out.case("k.rc", cfgv::<T>(vec![n(s)]), n(x.rc().st()));
        out.case("s.k.rc", kv::<T>(vec![dna(&xb)]), dna(&bases_of(&x.rc())));
        out.case("s.k.rc", kv::<T>(vec![dna(&bases_of(&x.rc()))]), dna(&bases_of(&x.rc().rc())));
        out.case("s.k.min_rc", kv::<T>(vec![dna(&xb)]), dna(&bases_of(&x.min_rc())));
        out.case("s.k.min_rc", kv::<T>(vec![dna(&bases_of(&x.rc()))]), dna(&bases_of(&x.rc().min_rc())));
        let (m, f) = x.min_rc_flip();
        out.case("s.k.min_rc_flip", kv::<T>(vec![dna(&xb)]), l(vec![dna(&bases_of(&m)), b(f)]));
        out.case("s.k.is_palindrome", kv::<T>(vec![dna(&xb)]), b(x.is_palindrome()));
        // the same bases through the other containers
        let ds = DnaString::from_bytes(&xb);
        out.case("s.rc", l(vec![dna(&xb)]), dna(&ds.rc().to_bytes()));
        out.case("s.rc", l(vec![dna(&xb)]), dna(&ds.slice(0, xb.len()).rc().bytes()));
        let k2: T = ds.rc().get_kmer(0);
        out.case("s.rc", l(vec![dna(&xb)]), dna(&bases_of(&k2)));
        let k3: T = ds.slice(0, xb.len()).rc().get_kmer(0);
        out.case("s.rc", l(vec![dna(&xb)]), dna(&bases_of(&k3)));
    }
    out.nt = false;
}

fn lmer_bases<L: Vmer>(x: &L) -> Vec<u8> {
    (0..x.len()).map(|i| x.get(i)).collect()
}

fn containers(out: &mut Out, rng0: &mut Rng, tier: &Tier) {
    let mut rng = Rng::new(rng0.next() ^ (tier.shard as u64 + 1).wrapping_mul(0xA24B_AED4_963E_E407));
    let mut lens: Vec<usize> = vec![0, 1, 2, 3, 27, 28, 29, 31, 32, 33, 59, 60, 61, 63, 64, 65, 91, 92, 95, 96, 97, 127, 128, 129, 200];
    for _ in 0..(if tier.thorough { 200 } else { 12 }) {
        lens.push(rng.below(140));
    }
    for (i, &len) in lens.iter().enumerate() {
        if i % tier.nshards != tier.shard {
            continue;
        }
        let bs: Vec<u8> = match rng.below(4) {
            0 => vec![rng.base(); len],
            _ => (0..len).map(|_| rng.base()).collect(),
        };
        out.nt = len >= 2 && bs.iter().any(|c| *c != bs[0]);
        let ds = DnaString::from_bytes(&bs);
        let r = ds.rc();
        out.case("s.rc", l(vec![dna(&bs)]), dna(&r.to_bytes()));
        out.case("s.rc", l(vec![dna(&r.to_bytes())]), dna(&r.rc().to_bytes()));
        let sl = ds.slice(0, len);
        out.case("s.rc", l(vec![dna(&bs)]), dna(&sl.rc().bytes()));
        out.case("s.rc", l(vec![dna(&sl.rc().bytes())]), dna(&sl.rc().rc().bytes()));
        out.case("s.rc", l(vec![dna(&bs)]), dna(&sl.rc().to_owned().to_bytes()));
        if len <= Lmer1::max_len() {
            out.case("s.rc", l(vec![dna(&bs)]), dna(&lmer_bases(&Lmer1::from_slice(&bs).rc())));
        }
        if len <= Lmer2::max_len() {
            out.case("s.rc", l(vec![dna(&bs)]), dna(&lmer_bases(&Lmer2::from_slice(&bs).rc())));
        }
        if len <= Lmer3::max_len() {
            let x = Lmer3::from_slice(&bs);
            out.case("s.rc", l(vec![dna(&bs)]), dna(&lmer_bases(&x.rc())));
            out.case("s.rc", l(vec![dna(&lmer_bases(&x.rc()))]), dna(&lmer_bases(&x.rc().rc())));
        }
        // k-mer extraction commutes with rc: the k-mers of the rc container
        macro_rules! kk {
            ($t:ty) => {{
                let ks: Vec<V> = r.iter_kmers::<$t>().map(|q| dna(&bases_of(&q))).collect();
                out.case("s.kmers_of_rc", l(vec![nu(<$t>::k()), dna(&bs)]), l(ks));
                let ks: Vec<V> = sl.rc().iter_kmers::<$t>().map(|q| dna(&bases_of(&q))).collect();
                out.case("s.kmers_of_rc", l(vec![nu(<$t>::k()), dna(&bs)]), l(ks));
                if len <= Lmer3::max_len() {
                    let x = Lmer3::from_slice(&bs).rc();
                    let ks: Vec<V> = x.iter_kmers::<$t>().map(|q| dna(&bases_of(&q))).collect();
                    out.case("s.kmers_of_rc", l(vec![nu(<$t>::k()), dna(&bs)]), l(ks));
                }
            }};
        }
        // interior views (start > 0, end < len): rc of the view, its k-mers through the iterator AND through
        // get_kmer(i) at every position, and sub-slices of the rc view (rc(v)[i..j] = rc(v[n-j..n-i]))
        if len >= 2 {
            for t in 0..4usize {
                let a = match t {
                    0 => 1,
                    1 => len / 2,
                    _ => rng.below(len),
                };
                let c = match t {
                    0 => len,
                    1 => len - (len > 2) as usize,
                    _ => a + rng.below(len - a + 1),
                };
                let v = ds.slice(a, c);
                let vb = &bs[a..c];
                let n = vb.len();
                let vr = v.rc();
                out.case("s.rc", l(vec![dna(vb)]), dna(&vr.bytes()));
                out.case("s.rc", l(vec![dna(&vr.bytes())]), dna(&vr.rc().bytes()));
                out.case("s.rc", l(vec![dna(vb)]), dna(&vr.to_owned().to_bytes()));
                macro_rules! vk {
                    ($t:ty) => {{
                        let kk = <$t>::k();
                        let ks: Vec<V> = vr.iter_kmers::<$t>().map(|q| dna(&bases_of(&q))).collect();
                        out.case("s.kmers_of_rc", l(vec![nu(kk), dna(vb)]), l(ks));
                        if n >= kk {
                            let ks: Vec<V> = (0..n - kk + 1)
                                .map(|i| {
                                    let q: $t = vr.get_kmer(i);
                                    dna(&bases_of(&q))
                                })
                                .collect();
                            out.case("s.kmers_of_rc", l(vec![nu(kk), dna(vb)]), l(ks));
                        }
                    }};
                }
                vk!(debruijn::kmer::Kmer4);
                vk!(debruijn::kmer::Kmer12);
                vk!(debruijn::kmer::Kmer32);
                vk!(debruijn::kmer::Kmer48);
                for _ in 0..3 {
                    let i = rng.below(n + 1);
                    let j = i + rng.below(n - i + 1);
                    let sub = vr.slice(i, j);
                    out.case("s.rc", l(vec![dna(&vb[n - j..n - i])]), dna(&sub.bytes()));
                    out.case("s.rc", l(vec![dna(&sub.bytes())]), dna(&sub.rc().bytes()));
                    if j - i >= 4 {
                        let ks: Vec<V> = sub.iter_kmers::<debruijn::kmer::Kmer4>().map(|q| dna(&bases_of(&q))).collect();
                        out.case("s.kmers_of_rc", l(vec![nu(4), dna(&vb[n - j..n - i])]), l(ks));
                    }
                }
            }
        }
        kk!(debruijn::kmer::Kmer4);
        kk!(debruijn::kmer::Kmer5);
        kk!(debruijn::kmer::Kmer16);
        kk!(debruijn::kmer::VarIntKmer<u64, debruijn::kmer::K31>);
        kk!(debruijn::kmer::Kmer32);
        kk!(debruijn::kmer::Kmer48);
        kk!(debruijn::kmer::Kmer64);
    }
    out.nt = false;
}

pub fn c12(out: &mut Out, rng: &mut Rng, tier: &Tier) {
    exts_all(out, rng, tier);
    crate::for_all_kmers!(kmer_rc, out, rng, tier);
    containers(out, rng, tier);
}
