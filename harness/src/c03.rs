//! C03: extensions and edges denote exactly the real adjacencies, symmetrically; pruning is exact; walks spell.
//!
//! Cases written (see coq/Interop/DispatchEdges.v):
//!   g3.find_edges ( K st nodes ) el                 l_edges/r_edges and edges(dir) of every node vs the model's find_edges
//!   chk.c03.graph_ok / chk.c03.valid ( K st nodes ) 1   the hypotheses of edges_symmetric / max_path_valid hold on real graphs
//!   chk.c03.overlap / chk.c03.sym ( K st nodes el ) 1   verified checkers on the REPORTED edge lists
//!   chk.c03.observed ( K st thr reads seqs el ) 1       reported edges + node-internal adjacencies = observed (K+1)-mers
//!   s.c03.find_link ( K st seqs qs ) rs             every k-mer of the 4^K space when K <= 6, else ends / rc / neighbours / random
//!   g3.valid_exts ( K st nodes valid ) exts         get_valid_exts of every node, no valid set and random valid sets
//!   g3.max_path / g3.seq_of_path / chk.c03.maxpath  max_path with integer scores, its sequence, checker on both
//!   g3.max_path_beam + chk.c03.maxpath              max_path_beam for three beam widths, its sequence, the same checker
//!   chk.c03.walk + g3.seq_of_path                   random walks along reported edges (both sides of a palindromic node used)
//!   f3.remove_censored(_sharded) + chk.c03.pruned(_sharded)   random censor subsets of real tables
use crate::c01::{boom_of, Pay, PaySpec};
use crate::gen::*;
use crate::kmers::*;
use crate::val::*;
use bit_set::BitSet;
use debruijn::compression::*;
use debruijn::filter::*;
use debruijn::graph::{BaseGraph, DebruijnGraph};
use debruijn::{Dir, Exts, Mer};

/// node payload of the finished graph: (integer score, solid flag)
type D3 = (i32, bool);

fn dir_v(d: Dir) -> V {
    n(match d {
        Dir::Left => 0u8,
        Dir::Right => 1u8,
    })
}
fn link_v(e: &(usize, Dir, bool)) -> V {
    l(vec![nu(e.0), dir_v(e.1), b(e.2)])
}
fn olink_v(r: Option<(usize, Dir, bool)>) -> V {
    match r {
        None => l(vec![]),
        Some(e) => l(vec![link_v(&e)]),
    }
}
fn path_v(p: &[(usize, Dir)]) -> V {
    l(p.iter().map(|(i, d)| l(vec![nu(*i), dir_v(*d)])).collect())
}
fn flip(d: Dir) -> Dir {
    match d {
        Dir::Left => Dir::Right,
        Dir::Right => Dir::Left,
    }
}
fn node_bytes<T: KS>(g: &DebruijnGraph<T, D3>, i: usize) -> Vec<u8> {
    g.get_node(i).sequence().iter().collect()
}
fn nodes_v<T: KS>(g: &DebruijnGraph<T, D3>) -> V {
    l((0..g.len())
        .map(|i| {
            let nd = g.get_node(i);
            let d = nd.data();
            l(vec![dna(&node_bytes(g, i)), n(nd.exts().val), n((d.0 + 100) as u32), b(d.1)])
        })
        .collect())
}

/// filtered (optionally pruned) coloured table, sorted by key
fn table3<T: KS>(reads: &[Vec<u8>], stranded: bool, min_obs: usize, prune: bool, colours: &[u8]) -> Vec<(T, (Exts, Pay))> {
    let seqs = to_seqs(reads);
    let (hash, _) = filter_kmers::<T, _, _, _, _>(&seqs, &Box::new(CountFilter::new(min_obs)), stranded, false, 1);
    let mut tbl: Vec<(T, (Exts, Pay))> = hash.iter().map(|(k, e, _)| (*k, (*e, (0u8, vec![0u32])))).collect();
    tbl.sort_by_key(|x| x.0);
    if prune {
        remove_censored_exts(stranded, &mut tbl);
    }
    for (i, ent) in tbl.iter_mut().enumerate() {
        let kb = bases_of(&ent.0);
        let rcb = rc_bytes(&kb);
        let mut mask = 0u8;
        for (r, c) in reads.iter().zip(colours.iter()) {
            if r.len() >= kb.len() && r.windows(kb.len()).any(|w| w == &kb[..] || (!stranded && w == &rcb[..])) {
                mask |= 1 << c;
            }
        }
        (ent.1).1 = (mask, vec![i as u32]);
    }
    tbl
}

fn table_v<T: KS>(tbl: &[(T, (Exts, Pay))]) -> V {
    l(tbl.iter().map(|x| l(vec![dna(&bases_of(&x.0)), n((x.1).0.val)])).collect())
}

fn is_pal_single(seq: &[u8], k: usize, stranded: bool) -> bool {
    !stranded && seq.len() == k && rc_bytes(seq) == seq
}

fn pruning_cases<T: KS>(out: &mut Out, rng: &mut Rng, full: &[(T, (Exts, Pay))], stranded: bool) {
    let st = b(stranded);
    for variant in 0..3 {
        // the valid sub-table: a random subset of the real table (sorted, as the binary search requires)
        let keep_num = 1 + rng.below(4);
        let mut valid: Vec<(T, (Exts, Pay))> = full.iter().filter(|_| rng.chance(keep_num, 5)).cloned().collect();
        if rng.chance(1, 3) {
            // arbitrary extension bytes, so that bits towards absent and towards present k-mers both occur
            for e in valid.iter_mut() {
                if rng.chance(1, 2) {
                    (e.1).0 = Exts::new((rng.next() & 0xff) as u8);
                }
            }
        }
        let before = table_v(&valid);
        if variant == 0 {
            let mut v2 = valid.clone();
            let r = guard(std::panic::AssertUnwindSafe(move || {
                remove_censored_exts(stranded, &mut v2);
                v2
            }));
            let after = r.map(|v| l(v.iter().map(|x| n((x.1).0.val)).collect()));
            out.case("f3.remove_censored", l(vec![st.clone(), before.clone()]), opt(after.clone()));
            match after {
                Some(a) => out.case("chk.c03.pruned", l(vec![st.clone(), before, a]), b(true)),
                None => out.case("s.no_panic", l(vec![nu(901), nu(0), nu(out.lines as usize)]), V::Bot),
            }
        } else {
            // all_kmers: variant 1 = a superset of valid inside the real table (the real use); variant 2 = arbitrary
            let mut all: Vec<T> = if variant == 1 {
                let vs: std::collections::HashSet<T> = valid.iter().map(|x| x.0).collect();
                full.iter().filter(|x| vs.contains(&x.0) || rng.chance(1, 2)).map(|x| x.0).collect()
            } else {
                full.iter().filter(|_| rng.chance(1, 2)).map(|x| x.0).collect()
            };
            all.sort();
            let allv = l(all.iter().map(|x| dna(&bases_of(x))).collect());
            let mut v2 = valid.clone();
            let al = all.clone();
            let r = guard(std::panic::AssertUnwindSafe(move || {
                remove_censored_exts_sharded(stranded, &mut v2, &al);
                v2
            }));
            let after = r.map(|v| l(v.iter().map(|x| n((x.1).0.val)).collect()));
            out.case("f3.remove_censored_sharded", l(vec![st.clone(), before.clone(), allv.clone()]), opt(after.clone()));
            match after {
                Some(a) => out.case("chk.c03.pruned_sharded", l(vec![st.clone(), before, allv, a]), b(true)),
                None => out.case("s.no_panic", l(vec![nu(902), nu(0), nu(out.lines as usize)]), V::Bot),
            }
        }
    }
}

/// the documented use of the sharded pruning, end to end: filter_kmers with report_all under a MULTI-PASS memory budget
/// (hook H1) hands over the valid table and its all_kmers list; the valid table is sorted by key as the API asks, the
/// all_kmers list is used AS RETURNED.  The result must be what the specification gives for the SET of observed k-mers.
fn pruning_pipeline_case<T: KS>(out: &mut Out, rng: &mut Rng, reads: &[Vec<u8>], stranded: bool) {
    let seqs = to_seqs(reads);
    let k = T::k();
    let input_kmers: usize = reads.iter().map(|r| r.len().saturating_sub(k - 1)).sum();
    let kmer_mem = input_kmers * std::mem::size_of::<(T, u8)>();
    if kmer_mem == 0 {
        return;
    }
    let slices = *rng.pick(&[1usize, 2, 3, 7, 40, 256]);
    let budget = std::cmp::max(1, kmer_mem / slices);
    debruijn::filter::verif_hooks::set_mem_unit(1);
    let r = guard(std::panic::AssertUnwindSafe(|| {
        filter_kmers::<T, _, _, _, _>(&seqs, &Box::new(CountFilter::new(2)), stranded, true, budget)
    }));
    debruijn::filter::verif_hooks::set_mem_unit(0);
    let (hash, all) = match r {
        Some(x) => x,
        None => return,
    };
    let mut valid: Vec<(T, (Exts, Pay))> = hash.iter().map(|(q, e, _)| (*q, (*e, (0u8, vec![0u32])))).collect();
    valid.sort_by_key(|x| x.0);
    if valid.is_empty() {
        return;
    }
    let st = b(stranded);
    let before = table_v(&valid);
    let mut sorted_all = all.clone();
    sorted_all.sort();
    let allv = l(sorted_all.iter().map(|x| dna(&bases_of(x))).collect());
    let mut v2 = valid.clone();
    let r2 = guard(std::panic::AssertUnwindSafe(move || {
        remove_censored_exts_sharded(stranded, &mut v2, &all);
        v2
    }));
    match r2.map(|v| l(v.iter().map(|x| n((x.1).0.val)).collect())) {
        Some(a) => out.case("chk.c03.pruned_sharded", l(vec![st, before, allv, a]), b(true)),
        None => out.case("s.no_panic", l(vec![nu(903), nu(0), nu(out.lines as usize)]), V::Bot),
    }
}

fn find_link_cases<T: KS>(out: &mut Out, rng: &mut Rng, g: &DebruijnGraph<T, D3>, stranded: bool, exhaustive: bool) {
    let k = T::k();
    let seqs: Vec<Vec<u8>> = (0..g.len()).map(|i| node_bytes(g, i)).collect();
    let mut qs: Vec<(T, Dir)> = Vec::new();
    if exhaustive {
        for v in 0..(1u64 << (2 * k)) {
            let x = T::from_u64(v);
            qs.push((x, Dir::Left));
            qs.push((x, Dir::Right));
        }
    } else {
        for s in &seqs {
            let f = T::from_bytes(&s[..k]);
            let la = T::from_bytes(&s[s.len() - k..]);
            for x in [f, la, f.rc(), la.rc()] {
                qs.push((x, Dir::Left));
                qs.push((x, Dir::Right));
                // one-base neighbours (mostly absent, sometimes another node end)
                let mut e = bases_of(&x);
                let p = rng.below(k);
                e[p] = (e[p] + 1 + rng.below(3) as u8) & 3;
                qs.push((T::from_bytes(&e), if rng.chance(1, 2) { Dir::Left } else { Dir::Right }));
            }
        }
        for _ in 0..20 {
            let e: Vec<u8> = (0..k).map(|_| rng.base()).collect();
            qs.push((T::from_bytes(&e), if rng.chance(1, 2) { Dir::Left } else { Dir::Right }));
        }
    }
    let rs = guard(std::panic::AssertUnwindSafe(|| qs.iter().map(|(q, d)| olink_v(g.find_link(*q, *d))).collect::<Vec<V>>()));
    out.case(
        "s.c03.find_link",
        l(vec![
            nu(k),
            b(stranded),
            l(seqs.iter().map(|s| dna(s)).collect()),
            l(qs.iter().map(|(q, d)| l(vec![dna(&bases_of(q)), dir_v(*d)])).collect()),
        ]),
        opt(rs.map(l)),
    );
}

pub fn cases<T: KS + Send + Sync>(out: &mut Out, rng0: &mut Rng, tier: &Tier) {
    let k = T::k();
    let mut rng = Rng::new(rng0.next() ^ (tier.shard as u64 + 29).wrapping_mul(0xC2B2_AE3D_27D4_EB4F));
    let small = k <= 8;
    let nsets = match (tier.thorough, small) {
        (true, true) => 400,
        (true, false) => 40,
        (false, true) => 30,
        (false, false) => 5,
    };
    for set in 0..nsets {
        let mut reads = read_set(&mut rng, k);
        // corpus (finding F10): a tip leading into a closed loop - tip . unit . unit . unit[..k] - on which the beam
        // search of the unrepaired max_path_beam returned a path visiting the loop node twice
        let tip_cycle = set % 8 == 0;
        if tip_cycle {
            let tip: Vec<u8> = (0..k + 3).map(|_| rng.below(4) as u8).collect();
            let unit: Vec<u8> = (0..k + 5).map(|_| rng.below(4) as u8).collect();
            let mut r = tip.clone();
            r.extend_from_slice(&unit);
            r.extend_from_slice(&unit);
            r.extend_from_slice(&unit[..k]);
            reads = vec![r];
        }
        let stranded = rng.chance(1, 2);
        let min_obs = if tip_cycle {
            1
        } else {
            match rng.below(6) {
                0 | 1 => 2,
                2 => 3,
                _ => 1,
            }
        };
        // the pipeline prunes when the threshold censors k-mers; one in five thresholded graphs is left unpruned
        let prune = min_obs > 1 && !rng.chance(1, 5);
        let colours: Vec<u8> = reads.iter().map(|_| rng.below(3) as u8).collect();
        let mode = (rng.next() & 1) as u8;
        let st = b(stranded);
        // ---- pruning on random censor subsets of the unpruned threshold-1 table
        let full = table3::<T>(&reads, stranded, 1, false, &colours);
        if !full.is_empty() {
            out.nt = is_delicate(&reads, k);
            pruning_cases::<T>(out, &mut rng, &full, stranded);
            pruning_pipeline_case::<T>(out, &mut rng, &reads, stranded);
        }
        // ---- the finished graph
        let tbl = table3::<T>(&reads, stranded, min_obs, prune, &colours);
        if tbl.is_empty() {
            continue;
        }
        let spec = PaySpec { mode };
        let hash = boom_of(&tbl);
        let hh = &hash;
        let sp = &spec;
        let base = match guard(std::panic::AssertUnwindSafe(move || compress_kmers_with_hash(stranded, sp, hh))) {
            Some(x) => x,
            None => {
                out.case("s.no_panic", l(vec![nu(904), nu(0), nu(out.lines as usize)]), V::Bot);
                continue;
            }
        };
        // one graph in three additionally goes through compress_graph (no censoring): the finished graph of the sharded /
        // re-compressed pipelines - edges, symmetry, observed adjacencies and walks must hold for it just the same
        let base = if rng.chance(1, 3) {
            let sp2 = PaySpec { mode };
            match guard(std::panic::AssertUnwindSafe(move || compress_graph(stranded, &sp2, base.finish(), None).base)) {
                Some(x) => x,
                None => {
                    // compress_graph panicked on the finished graph of a constructed table (C09's theorems: it cannot)
                    out.case("s.no_panic", l(vec![nu(k), nu(stranded as usize), nu(out.lines as usize)]), V::Bot);
                    continue;
                }
            }
        } else {
            base
        };
        // same nodes, payload = (score, solid): scores are small integers (exact in f32), mostly positive
        let mut b3: BaseGraph<T, D3> = BaseGraph::new(stranded);
        let flat = rng.chance(1, 6);
        for i in 0..base.len() {
            let sc = if flat { 1 } else { rng.below(13) as i32 - 3 };
            let seq: Vec<u8> = base.sequences.get(i).iter().collect();
            b3.add(seq.iter(), base.exts[i], (sc, rng.chance(1, 3)));
        }
        let g: DebruijnGraph<T, D3> = if rng.chance(1, 2) { b3.finish() } else { b3.finish_serial() };
        let nn = g.len();
        let seqs: Vec<Vec<u8>> = (0..nn).map(|i| node_bytes(&g, i)).collect();
        let nodes = nodes_v(&g);
        // reported edges
        let le: Vec<Vec<(usize, Dir, bool)>> = (0..nn).map(|i| g.get_node(i).l_edges().to_vec()).collect();
        let re: Vec<Vec<(usize, Dir, bool)>> = (0..nn).map(|i| g.get_node(i).r_edges().to_vec()).collect();
        let el = l((0..nn)
            .map(|i| l(vec![l(le[i].iter().map(link_v).collect()), l(re[i].iter().map(link_v).collect())]))
            .collect());
        let el2 = l((0..nn)
            .map(|i| {
                l(vec![
                    l(g.get_node(i).edges(Dir::Left).iter().map(link_v).collect()),
                    l(g.get_node(i).edges(Dir::Right).iter().map(link_v).collect()),
                ])
            })
            .collect());
        // non-trivial: a palindromic single-k-mer node, a hairpin or another self link
        let has_pal = seqs.iter().any(|s| is_pal_single(s, k, stranded));
        let has_self = (0..nn).any(|i| le[i].iter().chain(re[i].iter()).any(|e| e.0 == i));
        out.nt = has_pal || has_self;
        let gin = l(vec![nu(k), st.clone(), nodes.clone()]);
        out.case("g3.find_edges", gin.clone(), el.clone());
        out.case("g3.find_edges", gin.clone(), el2);
        out.case("chk.c03.graph_ok", gin.clone(), b(true));
        if min_obs == 1 || prune {
            out.case("chk.c03.valid", gin.clone(), b(true));
        }
        let gel = l(vec![nu(k), st.clone(), nodes.clone(), el.clone()]);
        out.case("chk.c03.overlap", gel.clone(), b(true));
        out.case("chk.c03.sym", gel, b(true));
        out.case(
            "chk.c03.observed",
            l(vec![
                nu(k),
                st.clone(),
                nu(min_obs),
                l(reads.iter().map(|r| dna(r)).collect()),
                l(seqs.iter().map(|s| dna(s)).collect()),
                el.clone(),
            ]),
            b(true),
        );
        // ---- find_link: the whole k-mer space when small
        let exhaustive = k <= 5 || (k == 6 && set % 3 == 0);
        find_link_cases::<T>(out, &mut rng, &g, stranded, exhaustive);
        // ---- get_valid_exts
        for variant in 0..2 {
            let bs: Option<BitSet> = if variant == 0 {
                None
            } else {
                let mut s = BitSet::with_capacity(nn);
                for i in 0..nn {
                    if rng.chance(2, 3) {
                        s.insert(i);
                    }
                }
                Some(s)
            };
            let gr = &g;
            let bsr = bs.as_ref();
            let r = guard(std::panic::AssertUnwindSafe(move || {
                (0..nn).map(|i| n(gr.get_valid_exts(i, bsr).val)).collect::<Vec<V>>()
            }));
            let vv = match &bs {
                None => l(vec![]),
                Some(s) => l(vec![l(s.iter().map(nu).collect())]),
            };
            out.case("g3.valid_exts", l(vec![nu(k), st.clone(), nodes.clone(), vv]), opt(r.map(l)));
        }
        // ---- max_path and its sequence
        let gr = &g;
        let mp = guard(std::panic::AssertUnwindSafe(move || gr.max_path(|d: &D3| d.0 as f32, |d: &D3| d.1)));
        out.case("g3.max_path", gin.clone(), opt(mp.as_ref().map(|p| path_v(p))));
        if let Some(p) = &mp {
            let sq = guard(std::panic::AssertUnwindSafe(move || gr.sequence_of_path(p.iter()).to_bytes()));
            out.case("g3.seq_of_path", l(vec![nu(k), nodes.clone(), path_v(p)]), opt(sq.as_ref().map(|s| dna(s))));
            match sq {
                Some(s) => out.case("chk.c03.maxpath", l(vec![nu(k), st.clone(), nodes.clone(), path_v(p), dna(&s)]), b(true)),
                None => out.case("s.no_panic", l(vec![nu(905), nu(0), nu(out.lines as usize)]), V::Bot),
            }
        } else {
            out.case("s.no_panic", l(vec![nu(906), nu(0), nu(out.lines as usize)]), V::Bot);
        }
        // ---- max_path_beam (the second best-path query) for a few beam widths: path, its sequence, the same checker
        for beam in [1usize, 1 + rng.below(3), 4 + rng.below(6)].iter().cloned() {
            let bp = guard(std::panic::AssertUnwindSafe(move || gr.max_path_beam(beam, |d: &D3| d.0 as f32, |d: &D3| d.1)));
            out.case(
                "g3.max_path_beam",
                l(vec![nu(k), st.clone(), nodes.clone(), nu(beam)]),
                opt(bp.as_ref().map(|p| path_v(p))),
            );
            if let Some(p) = &bp {
                let sq = guard(std::panic::AssertUnwindSafe(move || gr.sequence_of_path(p.iter()).to_bytes()));
                match sq {
                    Some(s) => out.case("chk.c03.maxpath", l(vec![nu(k), st.clone(), nodes.clone(), path_v(p), dna(&s)]), b(true)),
                    None => out.case("s.no_panic", l(vec![nu(907), nu(0), nu(out.lines as usize)]), V::Bot),
                }
            }
        }
        // ---- random walks along reported edges; a palindromic single-k-mer node may be left through either side
        for _ in 0..3 {
            let mut cur = (rng.below(nn), if rng.chance(1, 2) { Dir::Left } else { Dir::Right });
            let mut p = vec![cur];
            let steps = rng.below(8);
            for _ in 0..steps {
                let mut side = flip(cur.1);
                if is_pal_single(&seqs[cur.0], k, stranded) && rng.chance(1, 2) {
                    side = cur.1;
                }
                let es = match side {
                    Dir::Left => &le[cur.0],
                    Dir::Right => &re[cur.0],
                };
                if es.is_empty() {
                    break;
                }
                let e = es[rng.below(es.len())];
                let mut arrive = e.1;
                if is_pal_single(&seqs[e.0], k, stranded) && rng.chance(1, 2) {
                    arrive = flip(arrive);
                }
                cur = (e.0, arrive);
                p.push(cur);
            }
            let pr = &p;
            let sq = guard(std::panic::AssertUnwindSafe(move || gr.sequence_of_path(pr.iter()).to_bytes()));
            out.case("g3.seq_of_path", l(vec![nu(k), nodes.clone(), path_v(&p)]), opt(sq.as_ref().map(|s| dna(s))));
            match sq {
                Some(s) => out.case("chk.c03.walk", l(vec![nu(k), st.clone(), nodes.clone(), path_v(&p), dna(&s)]), b(true)),
                None => out.case("s.no_panic", l(vec![nu(908), nu(0), nu(out.lines as usize)]), V::Bot),
            }
        }
    }
    out.nt = false;
}

pub fn c03(out: &mut Out, rng: &mut Rng, tier: &Tier) {
    cases::<debruijn::kmer::Kmer4>(out, rng, tier);
    cases::<debruijn::kmer::Kmer5>(out, rng, tier);
    cases::<debruijn::kmer::Kmer6>(out, rng, tier);
    cases::<debruijn::kmer::Kmer8>(out, rng, tier);
    cases::<debruijn::kmer::Kmer15>(out, rng, tier);
    cases::<debruijn::kmer::Kmer16>(out, rng, tier);
    cases::<debruijn::kmer::VarIntKmer<u64, debruijn::kmer::K31>>(out, rng, tier);
    cases::<debruijn::kmer::Kmer32>(out, rng, tier);
    // a full-width VarIntKmer (the crate's public marker K4): same strings as Kmer4 through the other implementation
    cases::<debruijn::kmer::VarIntKmer<u8, debruijn::kmer::K4>>(out, rng, tier);
}
