//! C08: `msp_sequence` on read sets with recurring k-mers on both strands.  Per read one `msp.sequence`
//! line (compared with the Coq model) and per read set one `chk.msp` line (checker of piece exactness, true
//! extensions and bucket purity across all occurrences, applied to the implementation's output).
use crate::c07::gen_seq;
use crate::kmers::*;
use crate::val::*;
use debruijn::dna_string::DnaString;
use debruijn::vmer::{Lmer1, Lmer2, Lmer3};
use debruijn::{DnaBytes, Exts, Vmer};
use std::collections::HashMap;
use std::panic::AssertUnwindSafe;

type Piece = (u32, u8, Vec<u8>);

fn run_msp<P: KS, V: Vmer>(k: usize, seq: &[u8], perm: Option<&[usize]>, rc: bool) -> Option<Vec<Piece>> {
    guard(AssertUnwindSafe(|| {
        let r: Vec<(u32, Exts, V)> = debruijn::msp::msp_sequence::<P, V>(k, seq, perm, rc);
        r.into_iter()
            .map(|(b, e, v)| (b, e.val, (0..v.len()).map(|i| v.get(i)).collect()))
            .collect()
    }))
}

fn run_any<P: KS>(container: usize, k: usize, seq: &[u8], perm: Option<&[usize]>, rc: bool) -> (u128, Option<Vec<Piece>>) {
    match container {
        0 => (DnaBytes::max_len() as u128, run_msp::<P, DnaBytes>(k, seq, perm, rc)),
        1 => (DnaString::max_len() as u128, run_msp::<P, DnaString>(k, seq, perm, rc)),
        2 => (Lmer1::max_len() as u128, run_msp::<P, Lmer1>(k, seq, perm, rc)),
        3 => (Lmer2::max_len() as u128, run_msp::<P, Lmer2>(k, seq, perm, rc)),
        _ => (Lmer3::max_len() as u128, run_msp::<P, Lmer3>(k, seq, perm, rc)),
    }
}

fn rcv(s: &[u8]) -> Vec<u8> {
    s.iter().rev().map(|b| 3 - b).collect()
}

fn gen_reads(rng: &mut Rng, k: usize) -> Vec<Vec<u8>> {
    let nchunks = rng.range(1, 4);
    let chunks: Vec<Vec<u8>> = (0..nchunks)
        .map(|_| {
            let len = rng.range(k, 2 * k + 4);
            gen_seq(rng, len)
        })
        .collect();
    let nreads = rng.range(1, 4);
    let mut reads = Vec::new();
    for _ in 0..nreads {
        let mut r: Vec<u8> = Vec::new();
        for _ in 0..rng.range(1, 3) {
            match rng.below(5) {
                0 => {
                    let len = rng.range(0, k);
                    r.extend(gen_seq(rng, len))
                }
                1 | 2 => r.extend_from_slice(&chunks[rng.below(nchunks)]),
                _ => r.extend(rcv(&chunks[rng.below(nchunks)])),
            }
        }
        if rng.chance(1, 12) {
            r.truncate(rng.below(k));
        }
        reads.push(r);
    }
    reads
}

fn piece_v(x: &Piece) -> V {
    l(vec![n(x.0), n(x.1), dna(&x.2)])
}

fn c08_type<P: KS>(out: &mut Out, seed: u64, tier: &Tier, counter: &mut usize) {
    let p = P::k();
    let mut ks: Vec<usize> = (p + 1..p + 10).collect();
    ks.extend_from_slice(&[p + 14, 2 * p + 19]);
    // k far beyond every shipped Kmer type (k is a run-time argument of msp_sequence): pieces of 2k-p > 255 bases, i.e.
    // longer than a u8 length could hold (seeded change C08-m6), well below the u16 limit of known finding F7b
    ks.extend_from_slice(&[140 + p, 263]);
    let reps = if tier.thorough { 60 } else { 6 };
    for &k in &ks {
        for rep in 0..reps {
            // the large-k cases are expensive for the quadratic verified checker: a third of the repetitions
            if k > 100 && rep % 3 != 0 {
                continue;
            }
            *counter += 1;
            if *counter % tier.nshards != tier.shard {
                continue;
            }
            let mut rng = Rng::new(seed ^ (*counter as u64).wrapping_mul(0x9E37_79B9_7F4A_7C15));
            let reads = gen_reads(&mut rng, k);
            let rc = rng.chance(2, 3);
            // explicit permutation tables only where the table fits on a case line
            let perm: Option<Vec<usize>> = if p <= 5 && rep % 3 != 0 {
                let np = 1usize << (2 * p);
                let mut t: Vec<usize> = (0..np).collect();
                for i in (1..np).rev() {
                    t.swap(i, rng.below(i + 1));
                }
                Some(t)
            } else {
                None
            };
            let container = match rng.below(6) {
                0 | 1 => 0,
                2 => 1,
                c => c - 1,
            };
            let permv = match &perm {
                Some(t) => l(vec![l(t.iter().map(|x| nu(*x)).collect())]),
                None => l(vec![]),
            };
            // non-trivial: some k-mer (canonical in rc mode) is observed at least twice in the read set
            let mut seen: HashMap<Vec<u8>, usize> = HashMap::new();
            for r in &reads {
                if r.len() >= k {
                    for i in 0..=r.len() - k {
                        let x = r[i..i + k].to_vec();
                        let y = rcv(&x);
                        *seen.entry(if rc && y < x { y } else { x }).or_insert(0) += 1;
                    }
                }
            }
            out.nt = seen.values().any(|c| *c >= 2);
            let mut all = Vec::new();
            let mut ok = true;
            for r in &reads {
                let (maxlen, res) = run_any::<P>(container, k, r, perm.as_deref(), rc);
                out.case(
                    "msp.sequence",
                    l(vec![n(maxlen), dna(r), nu(k), nu(p), permv.clone(), b(rc)]),
                    opt(res.as_ref().map(|v| l(v.iter().map(piece_v).collect()))),
                );
                match res {
                    Some(v) => all.push(l(vec![dna(r), l(v.iter().map(piece_v).collect())])),
                    None => {
                        ok = false;
                        // inside the guards of C08_piece_exact (p <= k <= |read| < 2^32, 2k-p within the u16 length and
                        // within the container's capacity) msp_sequence returns: a panic there is a failing input
                        if p <= k && k <= r.len() && 2 * k - p <= 65535 && ((2 * k - p) as u128) <= maxlen {
                            out.case("s.no_panic", l(vec![nu(k), nu(p), nu(r.len())]), V::Bot);
                        }
                    }
                }
            }
            if ok {
                out.case("chk.msp", l(vec![nu(k), b(rc), l(all)]), n(1u8));
            }
            out.nt = false;
        }
    }
}

pub fn c08(out: &mut Out, rng: &mut Rng, tier: &Tier) {
    use debruijn::kmer::*;
    let seed = rng.next();
    let mut counter = 0usize;
    c08_type::<Kmer2>(out, seed, tier, &mut counter);
    c08_type::<Kmer3>(out, seed, tier, &mut counter);
    c08_type::<Kmer4>(out, seed, tier, &mut counter);
    c08_type::<Kmer5>(out, seed, tier, &mut counter);
    c08_type::<Kmer6>(out, seed, tier, &mut counter);
    c08_type::<Kmer8>(out, seed, tier, &mut counter);
    // p > 8: only the default permutation is feasible (a 4^10-entry table is rebuilt by every call)
    c08_type::<Kmer10>(out, seed, tier, &mut counter);
    // a read far beyond 65535 bases whose minimizer bucket never changes (70 000 A's and a periodic low-complexity
    // contig, k = 32, p = 6): lengths, starts and extensions of the pieces must not depend on 16-bit quantities.
    // Checker only (the list model of a 70 kb scan takes minutes: thorough tier)
    for (ci, unit) in [vec![0u8], vec![0u8, 0, 0, 0, 0, 0, 1, 2, 3, 1, 2, 2, 3, 1, 3, 3, 2, 1, 1, 2, 3, 2, 1, 3]].iter().enumerate() {
        counter += 1;
        if counter % tier.nshards != tier.shard {
            continue;
        }
        let read: Vec<u8> = (0..70_000).map(|i| unit[i % unit.len()]).collect();
        let k = 32usize;
        let (maxlen, res) = run_any::<Kmer6>(ci % 2, k, &read, None, true);
        out.nt = true;
        if tier.thorough {
            out.case(
                "msp.sequence",
                l(vec![n(maxlen), dna(&read), nu(k), nu(6), l(vec![]), b(true)]),
                opt(res.as_ref().map(|v| l(v.iter().map(piece_v).collect()))),
            );
        }
        match res {
            Some(v) => {
                let all = vec![l(vec![dna(&read), l(v.iter().map(piece_v).collect())])];
                out.case("chk.msp.tiling", l(vec![nu(k), b(true), l(all)]), n(1u8));
            }
            None => out.case("chk.msp.tiling", l(vec![nu(k), b(true), l(vec![])]), V::Bot),
        }
        out.nt = false;
    }
    // the known-finding class of C07 (2k-p > 65535) seen through msp_sequence: k = 32772, p = 8, 65536 A's ->
    // ONE piece built from the wrapped length 0 (empty piece, bogus right extension).  The checker op carries
    // the class in its name; the model line (about 2 min of unary arithmetic) is written in the thorough tier only.
    counter += 1;
    if counter % tier.nshards == tier.shard {
        let read = vec![0u8; 65536];
        let k = 32772usize;
        let (maxlen, res) = run_any::<Kmer8>(0, k, &read, None, true);
        out.nt = true;
        if tier.thorough {
            out.case(
                "msp.sequence",
                l(vec![n(maxlen), dna(&read), nu(k), nu(8), l(vec![]), b(true)]),
                opt(res.as_ref().map(|v| l(v.iter().map(piece_v).collect()))),
            );
        }
        if let Some(v) = res {
            if v.len() <= 64 {
                let all = vec![l(vec![dna(&read), l(v.iter().map(piece_v).collect())])];
                out.case("chk.msp.unguarded", l(vec![nu(k), b(true), l(all)]), n(1u8));
            }
        }
        out.nt = false;
    }
}
