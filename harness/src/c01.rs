//! C01 / C02: compression of a k-mer table into nodes, through the three entry points.
use crate::gen::*;
use crate::kmers::*;
use crate::val::*;
use boomphf::hashmap::BoomHashMap2;
use debruijn::compression::*;
use debruijn::filter::*;
use debruijn::graph::BaseGraph;
use debruijn::{Exts, Kmer, Mer};

/// payload: (colour, ids); reduce keeps the colour and concatenates the ids (free monoid, so the fold is visible)
pub type Pay = (u8, Vec<u32>);
pub struct PaySpec {
    pub mode: u8,
}
impl CompressionSpec<Pay> for PaySpec {
    fn reduce(&self, mut d: Pay, other: &Pay) -> Pay {
        d.1.extend(other.1.iter().cloned());
        d
    }
    fn join_test(&self, a: &Pay, b: &Pay) -> bool {
        self.mode == 0 || a.0 == b.0
    }
}

pub fn entry_v<T: KS>(k: &T, e: Exts, d: &Pay) -> V {
    l(vec![dna(&bases_of(k)), n(e.val), n(d.0), n(d.1[0])])
}
pub fn node_v(seq: &[u8], e: Exts, d: &Pay) -> V {
    l(vec![dna(seq), n(e.val), n(d.0), l(d.1.iter().map(|x| n(*x)).collect())])
}
pub fn base_nodes_v<T: KS>(g: &BaseGraph<T, Pay>) -> V {
    l((0..g.len())
        .map(|i| node_v(&g.sequences.get(i).bytes(), g.exts[i], &g.data[i]))
        .collect())
}

/// the filtered, pruned, coloured k-mer table of a read set, sorted by key
pub fn table_of<T: KS>(
    reads: &[Vec<u8>],
    stranded: bool,
    min_obs: usize,
    colours: &[u8],
) -> Vec<(T, (Exts, Pay))> {
    table_of_opt(reads, stranded, min_obs, colours, true)
}

/// as table_of; with `prune == false` the extensions towards filtered-out k-mers are kept (dangling bits)
pub fn table_of_opt<T: KS>(
    reads: &[Vec<u8>],
    stranded: bool,
    min_obs: usize,
    colours: &[u8],
    prune: bool,
) -> Vec<(T, (Exts, Pay))> {
    let seqs = to_seqs(reads);
    let (hash, _) = filter_kmers::<T, _, _, _, _>(&seqs, &Box::new(CountFilter::new(min_obs)), stranded, false, 1);
    let mut tbl: Vec<(T, (Exts, Pay))> = hash.iter().map(|(k, e, _)| (*k, (*e, (0u8, vec![0u32])))).collect();
    tbl.sort_by_key(|x| x.0);
    if min_obs > 1 && prune {
        remove_censored_exts(stranded, &mut tbl);
    }
    // colour = bitmask of the colours of the reads containing the k-mer (either strand when unstranded)
    for (i, ent) in tbl.iter_mut().enumerate() {
        let kb = bases_of(&ent.0);
        let rcb = rc_bytes(&kb);
        let mut mask = 0u8;
        for (r, c) in reads.iter().zip(colours.iter()) {
            if r.len() >= kb.len()
                && r.windows(kb.len()).any(|w| w == &kb[..] || (!stranded && w == &rcb[..]))
            {
                mask |= 1 << c;
            }
        }
        (ent.1).1 = (mask, vec![i as u32]);
    }
    tbl
}

pub fn boom_of<T: KS>(tbl: &[(T, (Exts, Pay))]) -> BoomHashMap2<T, Exts, Pay> {
    BoomHashMap2::new(
        tbl.iter().map(|x| x.0).collect(),
        tbl.iter().map(|x| (x.1).0).collect(),
        tbl.iter().map(|x| (x.1).1.clone()).collect(),
    )
}

pub fn cases<T: KS + Send + Sync>(out: &mut Out, rng0: &mut Rng, tier: &Tier, which: &str) {
    let k = T::k();
    let mut rng = Rng::new(rng0.next() ^ (tier.shard as u64 + 17).wrapping_mul(0xC2B2_AE3D_27D4_EB4F));
    let small = k <= 8;
    let nsets = match (tier.thorough, small) {
        (true, true) => 400,
        (true, false) => 40,
        (false, true) => 30,
        (false, false) => 4,
    };
    for _ in 0..nsets {
        let reads = read_set(&mut rng, k);
        let stranded = rng.chance(1, 2);
        let min_obs = match rng.below(6) {
            0 => 2,
            1 => 3,
            _ => 1,
        };
        let colours: Vec<u8> = reads.iter().map(|_| rng.below(3) as u8).collect();
        let mode = (rng.next() & 1) as u8;
        // C01 is stated for every symmetric table, also one whose extensions lead to ABSENT k-mers (a count-filtered
        // table before pruning, a shard of a partitioned table): a third of the thresholded C01 tables are left unpruned.
        // C02 asks for extensions that reference present k-mers only.
        let loose = which == "C01" && min_obs > 1 && rng.chance(1, 3);
        let mut tbl = table_of_opt::<T>(&reads, stranded, min_obs, &colours, !loose);
        // ... and one C01 table in four is a SHARD: a random third of the entries is deleted afterwards, extensions
        // untouched, so that many k-mers keep a sole extension towards an absent k-mer (what compress_kmers sees for one
        // shard of a partitioned table)
        let shard = which == "C01" && rng.chance(1, 4);
        if shard {
            let keep: Vec<bool> = tbl.iter().map(|_| !rng.chance(1, 3)).collect();
            let mut it = keep.iter();
            tbl.retain(|_| *it.next().unwrap());
        }
        if tbl.is_empty() {
            continue;
        }
        out.nt = is_delicate(&reads, k) || loose || shard;
        let spec = PaySpec { mode };
        let hash = boom_of(&tbl);
        // the order the table is iterated in (= ids used by the compressor)
        let order: Vec<V> = hash.iter().map(|(q, e, d)| entry_v(q, *e, d)).collect();
        let st = b(stranded);
        // entry point 1: from the hash
        let hh = &hash;
        let sp = &spec;
        let g1 = guard(std::panic::AssertUnwindSafe(move || compress_kmers_with_hash(stranded, sp, hh)));
        let g1v = g1.as_ref().map(base_nodes_v);
        if which == "C01" {
            out.case("c.compress", l(vec![nu(k), st.clone(), n(mode), l(order.clone())]), opt(g1v.clone()));
        }
        // the two CompressionSpec implementations the crate ships: SimpleCompress (always join; the same reduction as
        // PaySpec) is the model with mode 0; ScmapCompress (join = payload equality, payload kept) is the model with
        // mode 1 on the colours alone
        {
            let simple = SimpleCompress::new(|mut d: Pay, o: &Pay| {
                d.1.extend(o.1.iter().cloned());
                d
            });
            let sref = &simple;
            let g0 = guard(std::panic::AssertUnwindSafe(move || compress_kmers_with_hash(stranded, sref, hh)));
            out.case("c.compress", l(vec![nu(k), st.clone(), n(0u8), l(order.clone())]), opt(g0.as_ref().map(base_nodes_v)));
            let hash_c: BoomHashMap2<T, Exts, u8> = BoomHashMap2::new(
                tbl.iter().map(|x| x.0).collect(),
                tbl.iter().map(|x| (x.1).0).collect(),
                tbl.iter().map(|x| ((x.1).1).0).collect(),
            );
            let hc = &hash_c;
            let gs = guard(std::panic::AssertUnwindSafe(move || {
                compress_kmers_with_hash(stranded, &ScmapCompress::<u8>::new(), hc)
            }));
            let gsv = gs.as_ref().map(|g| {
                l((0..g.len())
                    .map(|i| node_v(&g.sequences.get(i).bytes(), g.exts[i], &(g.data[i], vec![])))
                    .collect())
            });
            out.case("c.compress_scmap", l(vec![nu(k), st.clone(), l(order.clone())]), opt(gsv.clone()));
            if let Some(g) = &gsv {
                out.case("chk.c02p", l(vec![nu(k), st.clone(), n(1u8), l(order.clone()), g.clone()]), b(true));
            }
        }
        // the hypotheses of the theorems (tbl_ok, exts_sym; exts_closed) hold on this table
        if which == "C01" {
            out.case("chk.c01.hyp", l(vec![nu(k), st.clone(), l(order.clone())]), l(vec![b(true), b(true)]));
        } else {
            out.case("chk.c02.hyp", l(vec![nu(k), st.clone(), l(order.clone())]), l(vec![b(true), b(true), b(true)]));
        }
        if let Some(g) = &g1v {
            if which == "C01" {
                { out.case("chk.c01", l(vec![nu(k), st.clone(), l(order.clone()), g.clone()]), b(true)); out.case("chk.c01.order", l(vec![nu(k), st.clone(), l(order.clone()), g.clone()]), b(true)) }
            } else {
                out.case("chk.c02p", l(vec![nu(k), st.clone(), n(mode), l(order.clone()), g.clone()]), b(true));
                // the independent fixpoint oracle (connected components of the link relation) is cubic: small tables only
                if tbl.len() <= 40 {
                    out.case("chk.c02", l(vec![nu(k), st.clone(), n(mode), l(order.clone()), g.clone()]), b(true));
                }
            }
        }
        // no panic: the theorem says the model succeeds under the hypotheses checked above
        out.case("chk.total", l(vec![nu(k), st.clone(), n(mode), l(order.clone())]), b(g1v.is_some()));
        // entry point 2: from the sorted slice (internally the same table)
        let tb = &tbl;
        let g2 = guard(std::panic::AssertUnwindSafe(move || compress_kmers(stranded, sp, tb)));
        let g2v = g2.as_ref().map(base_nodes_v);
        if which == "C01" {
            out.case("c.compress", l(vec![nu(k), st.clone(), n(mode), l(order.clone())]), opt(g2v.clone()));
            // the verified checkers on the sorted-slice entry point's own output as well
            if let Some(g) = &g2v {
                out.case("chk.c01", l(vec![nu(k), st.clone(), l(order.clone()), g.clone()]), b(true));
                out.case("chk.c01.order", l(vec![nu(k), st.clone(), l(order.clone()), g.clone()]), b(true));
            }
            out.case("chk.total", l(vec![nu(k), st.clone(), n(mode), l(order.clone())]), b(g2v.is_some()));
        } else {
            if let Some(g) = &g2v {
                out.case("chk.c02p", l(vec![nu(k), st.clone(), n(mode), l(order.clone()), g.clone()]), b(true));
            }
            out.case("chk.total", l(vec![nu(k), st.clone(), n(mode), l(order.clone())]), b(g2v.is_some()));
        }
        // entry point 3: k-mers without extensions (only meaningful on unpruned, threshold-1 tables)
        if min_obs == 1 && !shard {
            // the k-mers are handed over in an arbitrary order (order of first appearance, a hash set ...): the function
            // has to keep each k-mer with ITS payload whatever the input order; two times out of three it is shuffled
            let mut plain: Vec<(T, Pay)> = tbl.iter().map(|x| (x.0, (x.1).1.clone())).collect();
            if !rng.chance(1, 3) {
                for i in (1..plain.len()).rev() {
                    plain.swap(i, rng.below(i + 1));
                }
            }
            let pl = &plain;
            let g3 = guard(std::panic::AssertUnwindSafe(move || compress_kmers_no_exts(stranded, sp, pl)));
            // its table: extensions derived from membership
            let keys: Vec<T> = hash.iter().map(|(q, _, _)| *q).collect();
            let keyset: std::collections::HashSet<T> = keys.iter().cloned().collect();
            let derived: Vec<Exts> = keys
                .iter()
                .map(|q| {
                    let mut e = Exts::empty();
                    for x in 0..4u8 {
                        let a = q.extend_left(x);
                        let a = if stranded { a } else { a.min_rc() };
                        if keyset.contains(&a) {
                            e = e.set(debruijn::Dir::Left, x);
                        }
                        let c = q.extend_right(x);
                        let c = if stranded { c } else { c.min_rc() };
                        if keyset.contains(&c) {
                            e = e.set(debruijn::Dir::Right, x);
                        }
                    }
                    e
                })
                .collect();
            let order3: Vec<V> = hash
                .iter()
                .zip(derived.iter())
                .map(|((q, _, d), e)| entry_v(q, *e, d))
                .collect();
            let g3v = g3.as_ref().map(base_nodes_v);
            if which == "C01" {
                out.case(
                    "c.derive_exts",
                    l(vec![st.clone(), l(keys.iter().map(|q| dna(&bases_of(q))).collect())]),
                    l(derived.iter().map(|e| n(e.val)).collect()),
                );
                out.case("chk.c01.hyp", l(vec![nu(k), st.clone(), l(order3.clone())]), l(vec![b(true), b(true)]));
                out.case("c.compress", l(vec![nu(k), st.clone(), n(mode), l(order3.clone())]), opt(g3v.clone()));
                if let Some(g) = &g3v {
                    { out.case("chk.c01", l(vec![nu(k), st.clone(), l(order3.clone()), g.clone()]), b(true)); out.case("chk.c01.order", l(vec![nu(k), st.clone(), l(order3.clone()), g.clone()]), b(true)) }
                }
                out.case("chk.total", l(vec![nu(k), st.clone(), n(mode), l(order3.clone())]), b(g3v.is_some()));
            } else if let Some(g) = &g3v {
                out.case("chk.c02.hyp", l(vec![nu(k), st.clone(), l(order3.clone())]), l(vec![b(true), b(true), b(true)]));
                out.case("chk.c02p", l(vec![nu(k), st.clone(), n(mode), l(order3.clone()), g.clone()]), b(true));
                if tbl.len() <= 40 {
                    out.case("chk.c02", l(vec![nu(k), st.clone(), n(mode), l(order3.clone()), g.clone()]), b(true));
                }
            } else {
                out.case("chk.total", l(vec![nu(k), st.clone(), n(mode), l(order3.clone())]), b(false));
            }
        }
    }
    out.nt = false;
}

/// C02 / C09 beyond 16-bit path lengths: one repeat-free contig of 66 000+ bases is ONE unbranched path; its table, given in
/// chain order, is accepted by the linear verified checker chk.c02.chain (hypothesis of C02_chain_single_node), so
/// compress_kmers - and compress_graph of the one-k-mer-per-node graph - must return exactly one node of n + K - 1 bases.
fn long_chain<T: KS + Send + Sync>(out: &mut Out, rng: &mut Rng, stranded: bool, len: usize) {
    let k = T::k();
    // a random contig; repeat-free with overwhelming probability at K >= 31 (the checker decides)
    let contig: Vec<u8> = (0..len).map(|_| rng.base()).collect();
    let reads = vec![contig.clone()];
    let tbl = table_of::<T>(&reads, stranded, 1, &[0u8]);
    if tbl.len() != len - k + 1 {
        return; // a repeated k-mer: not a simple chain
    }
    let by_key: std::collections::HashMap<T, (Exts, Pay)> = tbl.iter().map(|e| (e.0, ((e.1).0, (e.1).1.clone()))).collect();
    // the entries in chain order
    let mut chain: Vec<V> = Vec::with_capacity(tbl.len());
    for i in 0..=(len - k) {
        let q = T::from_bytes(&contig[i..i + k]);
        let key = if stranded { q } else { q.min_rc() };
        let (e, d) = &by_key[&key];
        chain.push(entry_v(&key, *e, d));
    }
    let st = b(stranded);
    out.nt = true;
    out.case("chk.c02.chain", l(vec![nu(k), st.clone(), n(0u8), l(chain)]), b(true));
    let hash = boom_of(&tbl);
    let spec = PaySpec { mode: 0 };
    let (hh, sp) = (&hash, &spec);
    let g = guard(std::panic::AssertUnwindSafe(move || compress_kmers_with_hash(stranded, sp, hh)));
    match &g {
        Some(g) => out.case("chk.c02.single_node", l(vec![nu(k), nu(tbl.len()), base_nodes_v(g)]), b(true)),
        None => out.case("chk.c02.single_node", l(vec![nu(k), nu(tbl.len()), l(vec![])]), V::Bot),
    }
    // the same path through compress_graph: one k-mer per node
    let mut single: BaseGraph<T, Pay> = BaseGraph::new(stranded);
    for (q, e, d) in hash.iter() {
        single.add(bases_of(q), *e, d.clone());
    }
    let g2 = guard(std::panic::AssertUnwindSafe(move || compress_graph(stranded, &PaySpec { mode: 0 }, single.finish(), None).base));
    match &g2 {
        Some(g) => out.case("chk.c02.single_node", l(vec![nu(k), nu(tbl.len()), base_nodes_v(g)]), b(true)),
        None => out.case("chk.c02.single_node", l(vec![nu(k), nu(tbl.len()), l(vec![])]), V::Bot),
    }
    out.nt = false;
}

pub fn run(out: &mut Out, rng: &mut Rng, tier: &Tier, which: &str) {
    if which == "C02" && tier.shard == 0 {
        let mut r = Rng::new(rng.0 ^ 0x5EED_C4A1);
        long_chain::<debruijn::kmer::Kmer32>(out, &mut r, false, 66_100);
        if tier.thorough {
            long_chain::<debruijn::kmer::VarIntKmer<u64, debruijn::kmer::K31>>(out, &mut r, true, 131_200);
        }
    }
    cases::<debruijn::kmer::Kmer4>(out, rng, tier, which);
    cases::<debruijn::kmer::Kmer5>(out, rng, tier, which);
    cases::<debruijn::kmer::Kmer6>(out, rng, tier, which);
    cases::<debruijn::kmer::Kmer8>(out, rng, tier, which);
    cases::<debruijn::kmer::Kmer15>(out, rng, tier, which);
    cases::<debruijn::kmer::Kmer16>(out, rng, tier, which);
    cases::<debruijn::kmer::VarIntKmer<u64, debruijn::kmer::K31>>(out, rng, tier, which);
    cases::<debruijn::kmer::Kmer32>(out, rng, tier, which);
    cases::<debruijn::kmer::Kmer64>(out, rng, tier, which);
}
