//! C19: the index built by `BaseGraph::finish` (boomphf `new_parallel` on rayon) is the one built by
//! `finish_serial` for every pool size and run, and lookups through it are exact.
//!
//! Cases written (see coq/Interop/DispatchBBHash.v):
//!   chk.same_graph  ( meta A B )            1   A/B = serde_json text (digest, + bytes when short) of finish_serial / finish
//!   chk.same_api    ( meta A B )            1   digests of every public query answer (nodes, exts, edges, find_link)
//!   chk.oracle      ( meta A B )            1   find_link answers of finish() vs. a HashMap oracle over the node ends (all queries)
//!   chk.find_link   ( K stranded seqs qs )  rs  list-level specification evaluated in the extracted Coq spec
//!   chk.edges       ( K stranded seqs qs )  rs  Node::edges against the list-level specification
//!   bb.index        ( lens slots )          ( levels order )   the BBHash model fed with the recomputed wyhash slots
use crate::kmers::Tier;
use crate::val::*;
use debruijn::compression::{compress_kmers_with_hash, ScmapCompress, SimpleCompress};
use debruijn::filter::{filter_kmers, CountFilter};
use debruijn::graph::{BaseGraph, DebruijnGraph};
use debruijn::kmer::*;
use debruijn::{Dir, DnaBytes, Exts, Kmer, Mer, Vmer};
use std::collections::{HashMap, HashSet};
use std::hash::{Hash, Hasher};

const POOLS: [usize; 6] = [1, 2, 3, 4, 8, 16];

/// run impl code, mapping a panic to None (thread pools and graphs are only read)
fn guard<T, F: FnOnce() -> T>(f: F) -> Option<T> {
    std::panic::catch_unwind(std::panic::AssertUnwindSafe(f)).ok()
}

// ---------------------------------------------------------------- digests of long texts
fn fnv(s: &[u8], mul: u64, init: u64) -> u64 {
    let mut h = init;
    for b in s {
        h ^= *b as u64;
        h = h.wrapping_mul(mul);
    }
    h
}
fn digest(s: &[u8]) -> V {
    let mut v = vec![
        nu(s.len()),
        n(fnv(s, 0x100000001b3, 0xcbf29ce484222325)),
        n(fnv(s, 0x9E3779B97F4A7C15, 0x2545F4914F6CDD1D)),
    ];
    if s.len() <= 1500 {
        v.push(bytes(s));
    }
    l(v)
}

// ---------------------------------------------------------------- boomphf's private hashmod, recomputed
fn hashmod<T: Hash>(iter: u64, v: &T, size: u64) -> u64 {
    let mut st = wyhash::WyHash::with_seed(1 << (iter + iter));
    v.hash(&mut st);
    let hv = st.finish();
    if size < (1 << 32) {
        let h32 = ((hv & 0xFFFF_FFFF) as u32) ^ ((hv >> 32) as u32);
        ((h32 as u64) * (size as u32 as u64)) >> 32
    } else {
        hv % size
    }
}

// ---------------------------------------------------------------- read-set grammar (DESIGN section 4)
fn rc_bytes(s: &[u8]) -> Vec<u8> {
    s.iter().rev().map(|b| 3 - *b).collect()
}
fn rand_seq(rng: &mut Rng, len: usize, alpha: usize) -> Vec<u8> {
    (0..len).map(|_| if alpha >= 4 { rng.base() } else { rng.below(alpha) as u8 }).collect()
}
fn rand_seq_in(rng: &mut Rng, lo: usize, hi: usize, alpha: usize) -> Vec<u8> {
    let len = rng.range(lo, hi);
    rand_seq(rng, len, alpha)
}
fn gen_reads(rng: &mut Rng, k: usize, nreads: usize) -> Vec<Vec<u8>> {
    let mut reads: Vec<Vec<u8>> = Vec::new();
    let alpha = *rng.pick(&[4usize, 4, 4, 3, 2]);
    for _ in 0..nreads {
        let mut r: Vec<u8> = Vec::new();
        let parts = rng.range(1, 4);
        for _ in 0..parts {
            match rng.below(9) {
                0 | 1 | 2 => r.extend(rand_seq_in(rng, k, 3 * k + 10, alpha)),
                3 if !reads.is_empty() => {
                    // reuse a chunk of an earlier read (possibly reverse complemented)
                    let src = reads[rng.below(reads.len())].clone();
                    let a = rng.below(src.len());
                    let b = rng.range(a, src.len());
                    let mut c = src[a..b].to_vec();
                    if rng.chance(1, 2) {
                        c = rc_bytes(&c);
                    }
                    r.extend(c);
                }
                4 => {
                    let w = rand_seq_in(rng, k / 2 + 1, k + 4, alpha);
                    r.extend(w.iter());
                    r.extend(rc_bytes(&w));
                }
                5 => {
                    let u = rand_seq_in(rng, 1, 4, alpha);
                    for _ in 0..rng.range(2, k + 2) {
                        r.extend(u.iter());
                    }
                }
                6 => r.extend(std::iter::repeat(rng.base()).take(rng.range(k, k + 5))),
                _ => r.extend(rand_seq_in(rng, k, 2 * k, 4)),
            }
        }
        if r.len() >= k {
            reads.push(r);
        }
    }
    reads
}

/// compressed graph of a read set through the public pipeline
fn graph_from_reads<K: Kmer + Send + Sync>(rng: &mut Rng, nreads: usize, stranded: bool, scmap: bool) -> Option<BaseGraph<K, u16>> {
    let reads = gen_reads(rng, K::k(), nreads);
    let seqs: Vec<(DnaBytes, Exts, ())> = reads.into_iter().map(|x| (DnaBytes(x), Exts::empty(), ())).collect();
    let minc = if seqs.len() > 6 && rng.chance(1, 4) { 2 } else { 1 };
    guard(move || {
        let (valid, _): (boomphf::hashmap::BoomHashMap2<K, Exts, u16>, _) =
            filter_kmers(&seqs, &Box::new(CountFilter::new(minc)), stranded, false, 4);
        if scmap {
            compress_kmers_with_hash(stranded, &ScmapCompress::<u16>::new(), &valid)
        } else {
            let spec = SimpleCompress::new(|a: u16, b: &u16| a.saturating_add(*b));
            compress_kmers_with_hash(stranded, &spec, &valid)
        }
    })
}

/// n random sequences with pairwise distinct first k-mers and pairwise distinct last k-mers (C19 is about
/// the index only; boomphf requires distinct keys)
fn graph_direct<K: Kmer>(rng: &mut Rng, nnodes: usize, stranded: bool, maxextra: usize) -> BaseGraph<K, u16> {
    let k = K::k();
    let mut g: BaseGraph<K, u16> = BaseGraph::new(stranded);
    let mut firsts: HashSet<Vec<u8>> = HashSet::new();
    let mut lasts: HashSet<Vec<u8>> = HashSet::new();
    let mut tries = 0;
    while g.len() < nnodes && tries < 20 * nnodes + 100 {
        tries += 1;
        let len = k + if maxextra == 0 { 0 } else { rng.below(maxextra + 1) };
        let s = rand_seq(rng, len, 4);
        let f = s[..k].to_vec();
        let la = s[len - k..].to_vec();
        if firsts.contains(&f) || lasts.contains(&la) {
            continue;
        }
        firsts.insert(f);
        lasts.insert(la);
        let e = Exts::new((rng.next() & 0xff) as u8);
        g.add(s.iter(), e, (rng.next() & 0xffff) as u16);
    }
    g
}

// ---------------------------------------------------------------- observation of a finished graph
fn kmer_bytes<K: Kmer>(x: &K) -> Vec<u8> {
    (0..K::k()).map(|i| x.get(i)).collect()
}
fn dir_v(d: Dir) -> V {
    n(match d {
        Dir::Left => 0u8,
        Dir::Right => 1u8,
    })
}
fn link_v(r: Option<(usize, Dir, bool)>) -> V {
    match r {
        None => l(vec![]),
        Some((i, d, f)) => l(vec![nu(i), dir_v(d), b(f)]),
    }
}
fn node_seqs<K: Kmer>(g: &DebruijnGraph<K, u16>) -> Vec<Vec<u8>> {
    (0..g.len()).map(|i| g.get_node(i).sequence().iter().collect()).collect()
}

/// every public answer that depends on the index, as text, for digesting
fn api_text<K: Kmer>(g: &DebruijnGraph<K, u16>, queries: &[(K, Dir)]) -> Vec<u8> {
    use std::fmt::Write;
    let mut s = String::new();
    write!(s, "n={};", g.len()).unwrap();
    for node in g.iter_nodes() {
        write!(s, "{}:{:?}:{}:{}:{:?}:{:?};", node.node_id, node.sequence(), node.exts().val, node.data(), node.l_edges(), node.r_edges()).unwrap();
    }
    for (q, d) in queries {
        write!(s, "{:?}", g.find_link(*q, *d)).unwrap();
    }
    s.into_bytes()
}

fn queries_for<K: Kmer>(rng: &mut Rng, seqs: &[Vec<u8>], nabsent: usize) -> Vec<(K, Dir)> {
    let k = K::k();
    let mut qs: Vec<(K, Dir)> = Vec::new();
    for s in seqs {
        let f = K::from_bytes(&s[..k]);
        let la = K::from_bytes(&s[s.len() - k..]);
        for x in [f, la, f.rc(), la.rc()] {
            qs.push((x, Dir::Left));
            qs.push((x, Dir::Right));
        }
    }
    // absent (mostly): random k-mers and one-base neighbours of present ends
    for i in 0..nabsent {
        let d = if rng.chance(1, 2) { Dir::Left } else { Dir::Right };
        if i % 2 == 0 || seqs.is_empty() {
            qs.push((K::from_bytes(&rand_seq(rng, k, 4)), d));
        } else {
            let s = &seqs[rng.below(seqs.len())];
            let mut e = if rng.chance(1, 2) { s[..k].to_vec() } else { s[s.len() - k..].to_vec() };
            let p = rng.below(k);
            e[p] = (e[p] + 1 + rng.below(3) as u8) & 3;
            let mut x = K::from_bytes(&e);
            if rng.chance(1, 3) {
                x = x.rc();
            }
            qs.push((x, d));
        }
    }
    qs
}

/// HashMap oracle of find_link over the node ends (harness-side; used for all sizes)
fn oracle_links(stranded: bool, k: usize, seqs: &[Vec<u8>], queries: &[(Vec<u8>, Dir)]) -> Vec<Option<(usize, Dir, bool)>> {
    let mut firsts: HashMap<&[u8], usize> = HashMap::new();
    let mut lasts: HashMap<&[u8], usize> = HashMap::new();
    for (i, s) in seqs.iter().enumerate() {
        firsts.entry(&s[..k]).or_insert(i);
        lasts.entry(&s[s.len() - k..]).or_insert(i);
    }
    queries
        .iter()
        .map(|(q, d)| {
            let r = rc_bytes(q);
            match d {
                Dir::Left => {
                    if let Some(i) = lasts.get(&q[..]) {
                        Some((*i, Dir::Right, false))
                    } else if !stranded {
                        firsts.get(&r[..]).map(|i| (*i, Dir::Left, true))
                    } else {
                        None
                    }
                }
                Dir::Right => {
                    if let Some(i) = firsts.get(&q[..]) {
                        Some((*i, Dir::Left, false))
                    } else if !stranded {
                        lasts.get(&r[..]).map(|i| (*i, Dir::Right, true))
                    } else {
                        None
                    }
                }
            }
        })
        .collect()
}

/// levels and table order of one index out of the serialised graph
struct IndexObs {
    sizes: Vec<u64>,
    setbits: Vec<Vec<u64>>,
    order: Vec<u64>,
}
fn index_obs(js: &serde_json::Value, which: &str) -> Option<IndexObs> {
    let ix = js.get(which)?;
    let mut sizes = vec![];
    let mut setbits = vec![];
    for lv in ix.get("mphf")?.get("bitvecs")?.as_array()? {
        let bv = lv.as_array()?.first()?;
        let bits = bv.get("bits")?.as_u64()?;
        let mut sb = vec![];
        for (wi, w) in bv.get("vector")?.as_array()?.iter().enumerate() {
            let w = w.as_u64()?;
            for j in 0..64 {
                if (w >> j) & 1 == 1 {
                    sb.push(wi as u64 * 64 + j);
                }
            }
        }
        sizes.push(bits);
        setbits.push(sb);
    }
    let order = ix.get("values")?.as_array()?.iter().map(|x| x.as_u64()).collect::<Option<Vec<u64>>>()?;
    Some(IndexObs { sizes, setbits, order })
}

fn emit_index<K: Kmer>(out: &mut Out, keys: &[K], obs: &IndexObs) {
    // number of keys entering each level = n - (bits set in the earlier levels)
    let mut lens = vec![];
    let mut rem = keys.len() as u64;
    for (i, sb) in obs.setbits.iter().enumerate() {
        lens.push(l(vec![n(rem), n(obs.sizes[i])]));
        rem -= sb.len() as u64;
    }
    let slots: Vec<V> = keys
        .iter()
        .map(|key| l(obs.sizes.iter().enumerate().map(|(i, sz)| n(hashmod(i as u64, key, *sz))).collect()))
        .collect();
    let levels: Vec<V> = obs.setbits.iter().map(|sb| l(sb.iter().map(|x| n(*x)).collect())).collect();
    out.case(
        "bb.index",
        l(vec![l(lens), l(slots)]),
        l(vec![l(levels), l(obs.order.iter().map(|x| n(*x)).collect())]),
    );
}

/// the interleaving model run under a random schedule (random order of the threads' atomic steps, random
/// stale reads) must end in the level-0 bit vector and redo set of the real structure
fn emit_sched<K: Kmer>(out: &mut Out, rng: &mut Rng, keys: &[K], obs: &IndexObs) {
    if obs.sizes.is_empty() {
        return;
    }
    let size = obs.sizes[0];
    let slots: Vec<u64> = keys.iter().map(|key| hashmod(0, key, size)).collect();
    let nk = keys.len();
    let shuffle = |v: &mut Vec<usize>, rng: &mut Rng| {
        for i in (1..v.len()).rev() {
            let j = rng.below(i + 1);
            v.swap(i, j);
        }
    };
    // three steps per thread in phase 1, two in phase 2, in a random global order; with some probability the
    // threads run in bursts (sorted chunks) instead, which is closer to what rayon does
    let mut s1: Vec<usize> = (0..nk).flat_map(|i| [i, i, i]).collect();
    let mut s2: Vec<usize> = (0..nk).flat_map(|i| [i, i]).collect();
    if rng.chance(2, 3) {
        shuffle(&mut s1, rng);
        shuffle(&mut s2, rng);
    } else {
        s1.reverse();
    }
    let stale_den = *rng.pick(&[1usize, 2, 4, 1000]);
    let ev: Vec<V> = s1.iter().map(|i| l(vec![nu(*i), b(rng.chance(1, stale_den))])).collect();
    let set0: HashSet<u64> = obs.setbits[0].iter().cloned().collect();
    let redo: Vec<V> = (0..nk).filter(|i| !set0.contains(&slots[*i])).map(nu).collect();
    out.case(
        "bb.sched",
        l(vec![n(size), l(slots.iter().map(|x| n(*x)).collect()), l(ev), l(s2.iter().map(|x| nu(*x)).collect())]),
        l(vec![l(obs.setbits[0].iter().map(|x| n(*x)).collect()), l(redo), n(1u8)]),
    );
}

pub struct Opts {
    pub reps: usize,
    pub nabsent: usize,
    pub coq_queries: usize,
    pub model_index: bool,
}

fn run_graph<K: Kmer + Send + Sync + serde::Serialize>(
    out: &mut Out,
    rng: &mut Rng,
    pools: &[rayon::ThreadPool],
    base: BaseGraph<K, u16>,
    o: &Opts,
) {
    let k = K::k();
    let stranded = base.stranded;
    let nn = base.len();
    let serial = match guard(|| base.clone().finish_serial()) {
        Some(g) => g,
        None => {
            // duplicate ends: both builders must give up alike
            let par = guard(|| pools[1].install(|| base.clone().finish()));
            out.nt = false;
            out.case("chk.same_graph", l(vec![l(vec![nu(nn), n(2u8), n(0u8)]), V::Bot, if par.is_none() { V::Bot } else { n(1u8) }]), n(1u8));
            return;
        }
    };
    let js = serde_json::to_string(&serial).expect("json");
    let jsv: serde_json::Value = serde_json::from_str(&js).expect("json parse");
    let lo = index_obs(&jsv, "left_order");
    let ro = index_obs(&jsv, "right_order");
    let levels = std::cmp::max(lo.as_ref().map_or(0, |x| x.sizes.len()), ro.as_ref().map_or(0, |x| x.sizes.len()));
    // non-triviality rule: at least two nodes and at least one slot collision (a second BBHash level)
    out.nt = nn >= 2 && levels >= 2;
    let seqs = node_seqs(&serial);
    let queries: Vec<(K, Dir)> = queries_for::<K>(rng, &seqs, o.nabsent);
    let dser = digest(js.as_bytes());
    let api_ser = digest(&api_text(&serial, &queries));
    let mut last_par: Option<DebruijnGraph<K, u16>> = None;
    for (pi, pool) in pools.iter().enumerate() {
        for rep in 0..o.reps {
            let meta = l(vec![nu(nn), nu(POOLS[pi]), nu(rep), nu(levels)]);
            let par = guard(|| pool.install(|| base.clone().finish()));
            match par {
                None => out.case("chk.same_graph", l(vec![meta, dser.clone(), V::Bot]), n(1u8)),
                Some(g) => {
                    let jp = serde_json::to_string(&g).expect("json");
                    out.case("chk.same_graph", l(vec![meta.clone(), dser.clone(), digest(jp.as_bytes())]), n(1u8));
                    out.case("chk.same_api", l(vec![meta, api_ser.clone(), digest(&api_text(&g, &queries))]), n(1u8));
                    last_par = Some(g);
                }
            }
        }
    }
    let g = match last_par {
        Some(g) => g,
        None => return,
    };
    // exactness of find_link on the parallel-built graph: HashMap oracle (all queries, all sizes) ...
    let qb: Vec<(Vec<u8>, Dir)> = queries.iter().map(|(q, d)| (kmer_bytes(q), *d)).collect();
    let impl_links: Vec<Option<(usize, Dir, bool)>> = queries.iter().map(|(q, d)| g.find_link(*q, *d)).collect();
    let ora = oracle_links(stranded, k, &seqs, &qb);
    let ndiff = impl_links.iter().zip(ora.iter()).filter(|(a, b)| link_v(**a) != link_v(**b)).count();
    let first_diff = impl_links.iter().zip(ora.iter()).position(|(a, b)| link_v(*a) != link_v(*b));
    let meta = l(vec![nu(nn), nu(queries.len()), nu(levels)]);
    let ia = l(vec![nu(0), first_diff.map_or(l(vec![]), |i| l(vec![dna(&qb[i].0), dir_v(qb[i].1), link_v(ora[i])]))]);
    let ib = l(vec![nu(ndiff), first_diff.map_or(l(vec![]), |i| l(vec![dna(&qb[i].0), dir_v(qb[i].1), link_v(impl_links[i])]))]);
    out.case("chk.oracle", l(vec![meta, ia, ib]), n(1u8));
    // ... and the list-level Coq specification on a sample (all queries when the graph is small)
    if o.coq_queries > 0 && nn > 0 {
        let seqs_v = l(seqs.iter().map(|s| dna(s)).collect());
        let pick: Vec<usize> = if queries.len() <= o.coq_queries {
            (0..queries.len()).collect()
        } else {
            (0..o.coq_queries).map(|_| rng.below(queries.len())).collect()
        };
        let qv = l(pick.iter().map(|i| l(vec![dna(&qb[*i].0), dir_v(qb[*i].1)])).collect());
        let rv = l(pick.iter().map(|i| link_v(impl_links[*i])).collect());
        out.case("chk.find_link", l(vec![nu(k), b(stranded), seqs_v.clone(), qv]), rv);
        // Node::edges for a sample of nodes
        let nodes: Vec<usize> = if nn <= 60 { (0..nn).collect() } else { (0..40).map(|_| rng.below(nn)).collect() };
        let mut eq = vec![];
        let mut er = vec![];
        for id in nodes {
            for d in [Dir::Left, Dir::Right] {
                let node = g.get_node(id);
                eq.push(l(vec![nu(id), dir_v(d), bytes(&node.exts().get(d))]));
                er.push(l(node.edges(d).iter().map(|e| link_v(Some(*e))).collect()));
            }
        }
        out.case("chk.edges", l(vec![nu(k), b(stranded), seqs_v, l(eq)]), l(er));
    }
    // model level: BBHash model with the recomputed wyhash slots as oracle
    if o.model_index {
        let fk: Vec<K> = seqs.iter().map(|s| K::from_bytes(&s[..k])).collect();
        let lk: Vec<K> = seqs.iter().map(|s| K::from_bytes(&s[s.len() - k..])).collect();
        let jp: serde_json::Value = serde_json::from_str(&serde_json::to_string(&g).expect("json")).expect("json parse");
        if let Some(obs) = index_obs(&jp, "left_order") {
            emit_index(out, &fk, &obs);
            if nn <= 400 {
                emit_sched(out, rng, &fk, &obs);
            }
        }
        if let Some(obs) = index_obs(&jp, "right_order") {
            emit_index(out, &lk, &obs);
        }
    }
}

fn case_for<K: Kmer + Send + Sync + serde::Serialize>(
    out: &mut Out,
    rng: &mut Rng,
    pools: &[rayon::ThreadPool],
    kind: usize,
    size: usize,
    reps: usize,
) {
    let stranded = rng.chance(1, 3);
    let base: Option<BaseGraph<K, u16>> = match kind {
        0 => graph_from_reads::<K>(rng, size, stranded, false),
        1 => graph_from_reads::<K>(rng, size, stranded, true),
        2 => Some(graph_direct::<K>(rng, size, stranded, 0)), // one k-mer per node: first == last k-mer
        _ => Some(graph_direct::<K>(rng, size, stranded, 24)),
    };
    let base = match base {
        Some(b) => b,
        None => return, // pipeline panicked before the index was involved: not a C19 case
    };
    let nn = base.len();
    let o = Opts {
        reps,
        nabsent: if nn <= 3000 { 2 * nn + 40 } else { 10000 },
        coq_queries: if nn <= 300 { usize::MAX } else if nn <= 20000 { 200 } else { 0 },
        model_index: nn <= 700,
    };
    run_graph(out, rng, pools, base, &o);
}

pub fn c19(out: &mut Out, rng: &mut Rng, tier: &Tier) {
    let pools: Vec<rayon::ThreadPool> =
        POOLS.iter().map(|p| rayon::ThreadPoolBuilder::new().num_threads(*p).build().expect("pool")).collect();
    // the job list is a function of the seed only; shards take jobs by index
    let mut jobs: Vec<(usize, usize, usize, usize)> = vec![]; // (ktype, kind, size, reps)
    let small = if tier.thorough { 3000 } else { 400 };
    for i in 0..small {
        let kt = i % 6;
        let kind = rng.below(4);
        let size = match kind {
            0 | 1 => *rng.pick(&[1usize, 2, 3, 5, 8, 12, 20, 40]),
            _ => *rng.pick(&[0usize, 1, 2, 5, 5, 7, 16, 40, 100, 150, 151, 300, 600]),
        };
        jobs.push((kt, kind, size, 3));
    }
    let mids: &[usize] = if tier.thorough { &[1000, 3000, 5000, 10000, 20000, 20000, 50000, 50000] } else { &[1000, 3000, 5000, 20000] };
    for (i, sz) in mids.iter().enumerate() {
        for kt in [3usize, 4, 5] {
            jobs.push((kt, 2 + (i + kt) % 2, *sz, 3));
        }
    }
    if tier.thorough {
        for (i, sz) in [100_000usize, 200_000, 250_000, 400_000].iter().enumerate() {
            for kt in [4usize, 5] {
                jobs.push((kt, 2 + (i + kt) % 2, *sz, 4));
            }
        }
        // read sets large enough for a few thousand nodes through the real pipeline
        for kt in [2usize, 3, 4] {
            jobs.push((kt, 0, 600, 3));
            jobs.push((kt, 1, 1500, 3));
        }
    } else {
        jobs.push((3, 0, 300, 3));
        // one graph beyond 65 536 nodes with nodes longer than K (first k-mer != last k-mer: kind 3) in every run: the size at which a parallel
        // builder really splits work and at which the end indexes are tens of thousands of slots
        jobs.push((4, 3, 100_000, 4));
    }
    for (j, (kt, kind, size, reps)) in jobs.iter().enumerate() {
        // per-job generator so that shards see the same job whatever they skipped
        let mut jr = Rng::new(rng.0 ^ (j as u64).wrapping_mul(0x9E3779B97F4A7C15));
        if j % tier.nshards != tier.shard {
            continue;
        }
        match kt {
            0 => case_for::<Kmer5>(out, &mut jr, &pools, *kind, *size, *reps),
            1 => case_for::<Kmer6>(out, &mut jr, &pools, *kind, *size, *reps),
            2 => case_for::<Kmer8>(out, &mut jr, &pools, *kind, *size, *reps),
            3 => case_for::<Kmer16>(out, &mut jr, &pools, *kind, *size, *reps),
            4 => case_for::<Kmer32>(out, &mut jr, &pools, *kind, *size, *reps),
            _ => case_for::<Kmer48>(out, &mut jr, &pools, *kind, *size, *reps),
        }
    }
}
