//! Correspondence harness: runs the real rust-debruijn code (path dependency on /repo's working tree)
//! on generated cases and writes `op input result` lines for the extracted Coq model to check.
//! usage: dbg-harness <property> <seed> <quick|thorough> <shard> <nshards> <outfile>
mod c01;
mod c03;
mod c04;
mod c07;
mod c08;
mod c09;
mod c05;
mod c11;
mod c12;
mod gen;
mod seqs;
mod c19;
mod c20;
mod c16;
mod kmers;
mod val;

use val::*;

fn main() {
    std::panic::set_hook(Box::new(|_| {}));
    let a: Vec<String> = std::env::args().collect();
    if a.len() < 7 {
        eprintln!("usage: dbg-harness <property> <seed> <quick|thorough> <shard> <nshards> <outfile>");
        std::process::exit(2);
    }
    let prop = a[1].as_str();
    let seed: u64 = a[2].parse().expect("seed");
    let tier = kmers::Tier {
        thorough: a[3] == "thorough",
        shard: a[4].parse().expect("shard"),
        nshards: a[5].parse().expect("nshards"),
    };
    let mut out = Out::new(&a[6]);
    // structured enumerations are split by index across shards and must see the same stream: the
    // generator PRNG depends on the seed only; a second, shard-specific PRNG is derived where needed
    let mut rng = Rng::new(seed);
    out.comment(&format!(
        "property={} seed={} tier={} shard={}/{} profile={}",
        prop,
        seed,
        a[3],
        tier.shard,
        tier.nshards,
        if cfg!(debug_assertions) { "debug" } else { "release" }
    ));
    // safety net: a panic of the implementation outside a guarded call (every generated input is in range) is
    // reported as a failing case of the property, not as a crash of the harness
    let res = std::panic::catch_unwind(std::panic::AssertUnwindSafe(|| {
    match prop {
            "C01" => c01::run(&mut out, &mut rng, &tier, "C01"),
            "C02" => c01::run(&mut out, &mut rng, &tier, "C02"),
            "C03" => c03::c03(&mut out, &mut rng, &tier),
            "C10" => kmers::c10(&mut out, &mut rng, &tier),
            "C11" => c11::c11(&mut out, &mut rng, &tier),
            "C12" => c12::c12(&mut out, &mut rng, &tier),
            "C13" => seqs::c13(&mut out, &mut rng, &tier),
            "C14" => seqs::c14(&mut out, &mut rng, &tier),
            "C15" => seqs::c15(&mut out, &mut rng, &tier),
            "C17" => seqs::c17(&mut out, &mut rng, &tier),
            "C18" => seqs::c18(&mut out, &mut rng, &tier),
            "C19" => c19::c19(&mut out, &mut rng, &tier),
            "C16" => c16::c16(&mut out, &mut rng, &tier),
            "C07" => c07::c07(&mut out, &mut rng, &tier),
            "C08" => c08::c08(&mut out, &mut rng, &tier),
            "C09" => c09::c09(&mut out, &mut rng, &tier),
            "C05" => c05::c05(&mut out, &mut rng, &tier),
            "C06" => {
                c05::c06_filter(&mut out, &mut rng, &tier);
                c04::c06_graph(&mut out, &mut rng, &tier)
            }
            "C04" => c04::c04(&mut out, &mut rng, &tier),
            "C20" => c20::c20(&mut out, &mut rng, &tier),
            _ => {
                eprintln!("unknown property {}", prop);
                std::process::exit(2);
            }
        }
    }));
    if res.is_err() {
        let done = out.lines;
        out.nt = true;
        out.case(
            "s.no_panic",
            l(vec![V::N(seed as u128), V::N(tier.shard as u128), V::N(done as u128)]),
            V::Bot,
        );
    }
    let lines = out.lines;
    out.finish();
    println!("lines={}", lines);
}
