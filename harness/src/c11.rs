//! C11: equality, order and hash of k-mers produced by arbitrary operation histories.
use crate::kmers::*;
use crate::val::*;
use debruijn::{Kmer, Mer};
use std::hash::{Hash, Hasher};

/// Hasher that records the bytes it is fed.
#[derive(Default)]
pub struct Rec(pub Vec<u8>);
impl Hasher for Rec {
    fn finish(&self) -> u64 {
        0
    }
    fn write(&mut self, b: &[u8]) {
        self.0.extend_from_slice(b);
    }
}
pub fn feed<T: Hash>(x: &T) -> Vec<u8> {
    let mut r = Rec::default();
    x.hash(&mut r);
    r.0
}

#[derive(Clone)]
enum Init {
    Empty,
    U64(u64),
    Bytes(Vec<u8>),
    Ascii(Vec<u8>),
}
#[derive(Clone)]
enum Op {
    ExtL(u8),
    ExtR(u8),
    Rc,
    Set(usize, u8),
    SetSlice(usize, usize, u64),
    MinRc,
}

fn init_v(i: &Init) -> V {
    match i {
        Init::Empty => l(vec![n(0u8)]),
        Init::U64(v) => l(vec![n(1u8), n(*v)]),
        Init::Bytes(b) => l(vec![n(2u8), bytes(b)]),
        Init::Ascii(b) => l(vec![n(3u8), bytes(b)]),
    }
}
fn op_v(o: &Op) -> V {
    match o {
        Op::ExtL(b) => l(vec![n(0u8), n(*b)]),
        Op::ExtR(b) => l(vec![n(1u8), n(*b)]),
        Op::Rc => l(vec![n(2u8)]),
        Op::Set(p, b) => l(vec![n(3u8), nu(*p), n(*b)]),
        Op::SetSlice(p, k, v) => l(vec![n(4u8), nu(*p), nu(*k), n(*v)]),
        Op::MinRc => l(vec![n(5u8)]),
    }
}

fn run<T: KS>(i: &Init, ops: &[Op]) -> T {
    let mut x = match i {
        Init::Empty => T::empty(),
        Init::U64(v) => T::from_u64(*v),
        Init::Bytes(b) => T::from_bytes(b),
        Init::Ascii(b) => T::from_ascii(b),
    };
    for o in ops {
        match o {
            Op::ExtL(b) => x = x.extend_left(*b),
            Op::ExtR(b) => x = x.extend_right(*b),
            Op::Rc => x = x.rc(),
            Op::Set(p, b) => x.set_mut(*p, *b),
            Op::SetSlice(p, k, v) => x.set_slice_mut(*p, *k, *v),
            Op::MinRc => x = x.min_rc(),
        }
    }
    x
}

fn rand_init<T: KS>(rng: &mut Rng) -> Init {
    let k = T::k();
    match rng.below(5) {
        0 => Init::Empty,
        1 => {
            let v = if k >= 32 { rng.next() } else { rng.next() & ((1u64 << (2 * k)) - 1) };
            Init::U64(v)
        }
        2 | 3 => Init::Bytes((0..k + rng.below(3)).map(|_| rng.base()).collect()),
        _ => Init::Ascii(
            (0..k + rng.below(3))
                .map(|_| {
                    if rng.chance(1, 10) {
                        (rng.next() & 0xff) as u8
                    } else {
                        *rng.pick(b"ACGTacgt")
                    }
                })
                .collect(),
        ),
    }
}
fn rand_op<T: KS>(rng: &mut Rng) -> Op {
    let k = T::k();
    match rng.below(10) {
        0 | 1 => Op::ExtL(rng.base()),
        2 | 3 => Op::ExtR(rng.base()),
        4 => Op::Rc,
        5 | 6 => Op::Set(rng.below(k), rng.base()),
        7 | 8 => {
            let pos = rng.below(k);
            let nb = rng.range(1, std::cmp::min(32, k - pos));
            Op::SetSlice(pos, nb, rng.next())
        }
        _ => Op::MinRc,
    }
}

/// a different route to the given bases
fn route_to<T: KS>(target: &[u8], rng: &mut Rng) -> (Init, Vec<Op>) {
    let k = T::k();
    match rng.below(6) {
        0 => {
            // arbitrary start, K right extensions
            (rand_init::<T>(rng), target.iter().map(|b| Op::ExtR(*b)).collect())
        }
        1 => {
            // arbitrary start, K left extensions in reverse
            (rand_init::<T>(rng), target.iter().rev().map(|b| Op::ExtL(*b)).collect())
        }
        2 => {
            // all-T start, set every position in random order
            let mut order: Vec<usize> = (0..k).collect();
            for i in (1..k).rev() {
                order.swap(i, rng.below(i + 1));
            }
            (
                Init::Bytes(vec![3; k]),
                order.into_iter().map(|p| Op::Set(p, target[p])).collect(),
            )
        }
        3 => {
            // packed writes of random run lengths, payload with garbage below the run
            let mut ops = Vec::new();
            let mut pos = 0;
            while pos < k {
                let nb = rng.range(1, std::cmp::min(32, k - pos));
                let mut v: u64 = rng.next();
                for j in 0..nb {
                    let sh = 62 - 2 * j;
                    v = (v & !(3u64 << sh)) | ((target[pos + j] as u64) << sh);
                }
                ops.push(Op::SetSlice(pos, nb, v));
                pos += nb;
            }
            (rand_init::<T>(rng), ops)
        }
        4 => {
            // rc of the rc string, then Rc
            let r: Vec<u8> = target.iter().rev().map(|b| 3 - b).collect();
            (Init::Bytes(r), vec![Op::Rc])
        }
        _ => {
            // lower-case ascii, then rc twice
            let a: Vec<u8> = target.iter().map(|b| b"acgt"[*b as usize]).collect();
            (Init::Ascii(a), vec![Op::Rc, Op::Rc])
        }
    }
}

pub fn c11_type<T: KS>(out: &mut Out, rng0: &mut Rng, tier: &Tier) {
    let k = T::k();
    let mut rng = Rng::new(rng0.next() ^ (tier.shard as u64).wrapping_mul(0x9E37_79B9));
    let nhist = if tier.thorough { 600 } else { 60 };
    let mut pool: Vec<T> = Vec::new();
    for _ in 0..nhist {
        let i = rand_init::<T>(&mut rng);
        let len = rng.range(1, 40);
        let ops: Vec<Op> = (0..len).map(|_| rand_op::<T>(&mut rng)).collect();
        let r = guard(|| run::<T>(&i, &ops));
        let hv = || l(ops.iter().map(op_v).collect());
        out.nt = true;
        out.case("k.hist", cfgv::<T>(vec![init_v(&i), hv()]), opt(r.map(|x| n(x.st()))));
        out.case("s.k.hist", kv::<T>(vec![init_v(&i), hv()]), opt(r.map(|x| dna(&bases_of(&x)))));
        let x = match r {
            Some(x) => x,
            None => continue,
        };
        pool.push(x);
        let xb = bases_of(&x);
        out.case("k.hash_feed", cfgv::<T>(vec![n(x.st())]), bytes(&feed(&x)));
        // a second, different route to the same string, and near misses
        let (i2, ops2) = route_to::<T>(&xb, &mut rng);
        let y = match guard(|| run::<T>(&i2, &ops2)) {
            Some(y) => y,
            None => {
                out.case("s.k.hist", kv::<T>(vec![init_v(&i2), l(ops2.iter().map(op_v).collect())]), V::Bot);
                continue;
            }
        };
        out.case(
            "s.k.hist",
            kv::<T>(vec![init_v(&i2), l(ops2.iter().map(op_v).collect())]),
            dna(&bases_of(&y)),
        );
        let mut others: Vec<T> = vec![y];
        let mut z = x;
        let p = rng.below(k);
        z.set_mut(p, (x.get(p) + 1 + (rng.next() % 3) as u8) & 3);
        others.push(z);
        others.push(x.rc());
        if let Some(w) = pool.get(rng.below(pool.len())) {
            others.push(*w);
        }
        for o in others {
            let ord = match x.cmp(&o) {
                std::cmp::Ordering::Less => 0u8,
                std::cmp::Ordering::Equal => 1,
                std::cmp::Ordering::Greater => 2,
            };
            out.case("k.cmp", cfgv::<T>(vec![n(x.st()), n(o.st())]), l(vec![b(x == o), n(ord)]));
            out.case(
                "s.k.cmp",
                kv::<T>(vec![dna(&xb), dna(&bases_of(&o))]),
                l(vec![b(x == o), n(ord), b(feed(&x) == feed(&o))]),
            );
        }
    }
    // Kmer::get_extensions: one more route to a k-mer (all neighbours on one side at once).  Each returned k-mer must be
    // the string extend() gives (C10) and compare / hash equal to that route's k-mer (seeded change C11-m9: a batch
    // shift that leaves the old first base in an unused lane of a partial-width type)
    for (idx, x) in pool.clone().iter().enumerate() {
        if idx >= 12 {
            break;
        }
        let xb = bases_of(x);
        for dir in [debruijn::Dir::Left, debruijn::Dir::Right] {
            let e = debruijn::Exts::new(match idx % 3 {
                0 => 0xff,
                1 => 0x5a,
                _ => (rng.next() & 0xff) as u8,
            });
            let x2 = *x;
            let got: Option<Vec<T>> = guard(move || x2.get_extensions(e, dir));
            let bases_on_side = e.get(dir);
            match got {
                None => out.case("s.no_panic", l(vec![nu(k), nu(idx), nu(0)]), V::Bot),
                Some(v) => {
                    // same number of k-mers as extension bits on that side; matched by their entering base
                    out.case("s.id", l(vec![nu(bases_on_side.len())]), nu(v.len()));
                    for y in v.iter() {
                        let entering = match dir {
                            debruijn::Dir::Left => y.get(0),
                            debruijn::Dir::Right => y.get(k - 1),
                        };
                        let reference = x.extend(entering, dir);
                        let ord = match y.cmp(&reference) {
                            std::cmp::Ordering::Less => 0u8,
                            std::cmp::Ordering::Equal => 1,
                            std::cmp::Ordering::Greater => 2,
                        };
                        out.nt = true;
                        let op = match dir {
                            debruijn::Dir::Left => "s.k.extend_left",
                            debruijn::Dir::Right => "s.k.extend_right",
                        };
                        out.case(op, kv::<T>(vec![dna(&xb), n(entering)]), dna(&bases_of(y)));
                        out.case(
                            "s.k.cmp",
                            kv::<T>(vec![dna(&bases_of(y)), dna(&bases_of(&reference))]),
                            l(vec![b(*y == reference), n(ord), b(feed(y) == feed(&reference))]),
                        );
                        out.case("k.cmp", cfgv::<T>(vec![n(y.st()), n(reference.st())]), l(vec![b(*y == reference), n(ord)]));
                    }
                    // and every extension bit is represented
                    let mut seen: Vec<u8> = v
                        .iter()
                        .map(|y| match dir {
                            debruijn::Dir::Left => y.get(0),
                            debruijn::Dir::Right => y.get(k - 1),
                        })
                        .collect();
                    seen.sort();
                    let mut want = bases_on_side.clone();
                    want.sort();
                    out.case("s.id", l(vec![bytes(&want)]), bytes(&seen));
                }
            }
        }
    }
    out.nt = false;
    // collections: sort + dedup, binary search, perfect-hash lookup
    let rounds = if tier.thorough { 12 } else { 3 };
    for _ in 0..rounds {
        if pool.is_empty() {
            break;
        }
        let m = rng.range(1, 24);
        let mut v: Vec<T> = (0..m).map(|_| pool[rng.below(pool.len())]).collect();
        // neighbours that differ in the lowest / highest lane only
        for j in 0..m / 3 {
            let mut z = v[j];
            z.set_mut(if j % 2 == 0 { 0 } else { k - 1 }, rng.base());
            v.push(z);
        }
        let input: Vec<V> = v.iter().map(|x| dna(&bases_of(x))).collect();
        let mut sorted = v.clone();
        sorted.sort();
        sorted.dedup();
        out.case(
            "s.k.sort_dedup",
            kv::<T>(vec![l(input)]),
            l(sorted.iter().map(|x| dna(&bases_of(x))).collect()),
        );
        let keys: Vec<V> = sorted.iter().map(|x| dna(&bases_of(x))).collect();
        let boom = boomphf::hashmap::BoomHashMap::new(sorted.clone(), (0..sorted.len()).collect::<Vec<usize>>());
        for t in 0..(2 * m) {
            let q = if t % 2 == 0 {
                sorted[rng.below(sorted.len())]
            } else {
                let mut z = sorted[rng.below(sorted.len())];
                z.set_mut(rng.below(k), rng.base());
                z
            };
            out.case(
                "s.k.member",
                kv::<T>(vec![l(keys.clone()), dna(&bases_of(&q))]),
                b(sorted.binary_search(&q).is_ok()),
            );
            let found = match boom.get(&q) {
                Some(idx) => sorted[*idx] == q,
                None => false,
            };
            out.case("s.k.member", kv::<T>(vec![l(keys.clone()), dna(&bases_of(&q))]), b(found));
        }
    }
    out.nt = false;
}

pub fn c11(out: &mut Out, rng: &mut Rng, tier: &Tier) {
    crate::for_all_kmers!(c11_type, out, rng, tier);
}
