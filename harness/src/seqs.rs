//! C13, C14, C15, C17, C18: sequence containers.
use crate::c11::feed;
use crate::gen::*;
use crate::kmers::*;
use crate::val::*;
use debruijn::dna_string::{DnaString, DnaStringSlice, PackedDnaStringSet};
use debruijn::vmer::Lmer;
use debruijn::{Dir, DnaBytes, DnaSlice, Exts, Kmer, Mer, Vmer};

pub fn dstr_v(d: &DnaString) -> V {
    let j = serde_json::to_value(d).expect("json");
    let ws: Vec<V> = j["storage"].as_array().unwrap().iter().map(|x| n(x.as_u64().unwrap())).collect();
    l(vec![l(ws), nu(j["len"].as_u64().unwrap() as usize)])
}
pub fn slc_v(s: &DnaStringSlice) -> V {
    l(vec![nu(s.start), nu(s.length), b(s.is_rc)])
}
fn words_of<T: serde::Serialize>(x: &T) -> Vec<u64> {
    let j = serde_json::to_value(x).expect("json");
    j["storage"].as_array().unwrap().iter().map(|x| x.as_u64().unwrap()).collect()
}
fn wv(ws: &[u64]) -> V {
    l(ws.iter().map(|x| n(*x)).collect())
}
fn feed_words(bytes: &[u8]) -> V {
    l(bytes
        .chunks(8)
        .map(|c| {
            let mut a = [0u8; 8];
            a[..c.len()].copy_from_slice(c);
            n(u64::from_le_bytes(a))
        })
        .collect())
}
fn ord_code(o: std::cmp::Ordering) -> V {
    n(match o {
        std::cmp::Ordering::Less => 0u8,
        std::cmp::Ordering::Equal => 1,
        std::cmp::Ordering::Greater => 2,
    })
}
fn rand_bases(rng: &mut Rng, len: usize) -> Vec<u8> {
    match rng.below(8) {
        0 => vec![rng.base(); len],
        1 => (0..len).map(|i| (i % 4) as u8).collect(),
        _ => (0..len).map(|_| rng.base()).collect(),
    }
}
fn nontrivial(bs: &[u8]) -> bool {
    bs.len() >= 2 && bs.iter().any(|c| *c != bs[0])
}

// ------------------------------------------------------------------------------------ C14
#[derive(Clone)]
enum DOp {
    Push(u8),
    Extend(Vec<u8>),
    PushBytes(Vec<u8>, usize),
    Set(usize, u8),
    Clear,
    Blank(usize),
    FromBytes(Vec<u8>),
    Reverse,
    Rc,
}
fn dop_v(o: &DOp) -> V {
    match o {
        DOp::Push(x) => l(vec![n(0u8), n(*x)]),
        DOp::Extend(v) => l(vec![n(1u8), bytes(v)]),
        DOp::PushBytes(v, k) => l(vec![n(2u8), bytes(v), nu(*k)]),
        DOp::Set(i, x) => l(vec![n(3u8), nu(*i), n(*x)]),
        DOp::Clear => l(vec![n(4u8)]),
        DOp::Blank(k) => l(vec![n(5u8), nu(*k)]),
        DOp::FromBytes(v) => l(vec![n(6u8), bytes(v)]),
        DOp::Reverse => l(vec![n(7u8)]),
        DOp::Rc => l(vec![n(8u8)]),
    }
}
fn dapply(d: &mut DnaString, o: &DOp) {
    match o {
        DOp::Push(x) => d.push(*x),
        DOp::Extend(v) => d.extend(v.iter().cloned()),
        DOp::PushBytes(v, k) => d.push_bytes(v, *k),
        DOp::Set(i, x) => d.set_mut(*i, *x),
        DOp::Clear => d.clear(),
        DOp::Blank(k) => *d = DnaString::blank(*k),
        DOp::FromBytes(v) => *d = DnaString::from_bytes(v),
        DOp::Reverse => *d = d.reverse(),
        DOp::Rc => *d = d.rc(),
    }
}
fn rand_dop(rng: &mut Rng, cur_len: usize) -> DOp {
    // steer towards multiples of 32
    let to_boundary = (32 - cur_len % 32) % 32;
    match rng.below(16) {
        0 | 1 | 2 => DOp::Push(rng.base()),
        3 | 4 | 5 => {
            let k = match rng.below(4) {
                0 => to_boundary,
                1 => to_boundary + 32,
                2 => rng.below(5),
                _ => rng.below(80),
            };
            DOp::Extend((0..k).map(|_| rng.base()).collect())
        }
        6 | 7 => {
            let nb = rng.below(12);
            let bytes: Vec<u8> = (0..nb).map(|_| (rng.next() & 0xff) as u8).collect();
            let k = if nb == 0 { 0 } else { rng.below(nb * 4 + 1) };
            DOp::PushBytes(bytes, k)
        }
        8 | 9 | 10 => {
            if cur_len == 0 {
                DOp::Push(rng.base())
            } else {
                DOp::Set(rng.below(cur_len), rng.base())
            }
        }
        11 => DOp::Clear,
        12 => DOp::Blank(match rng.below(3) {
            0 => 32 * rng.below(3),
            _ => rng.below(70),
        }),
        13 => {
            let k = rng.below(70);
            DOp::FromBytes((0..k).map(|_| rng.base()).collect())
        }
        14 => DOp::Reverse,
        _ => DOp::Rc,
    }
}

pub fn c14(out: &mut Out, rng0: &mut Rng, tier: &Tier) {
    let mut rng = Rng::new(rng0.next() ^ (tier.shard as u64 + 7).wrapping_mul(0x9E37_79B9_7F4A_7C15));
    // the str constructors (from_dna_string / from_dna_only_string) on ASCII and non-ASCII text
    crate::c16::c14_texts(out, &mut rng, tier);
    let nhist = if tier.thorough { 4000 } else { 250 };
    let mut pool: Vec<DnaString> = Vec::new();
    for _ in 0..nhist {
        let len = rng.range(1, 30);
        let mut d = DnaString::new();
        let mut ops = Vec::new();
        for _ in 0..len {
            let o = rand_dop(&mut rng, d.len());
            dapply(&mut d, &o);
            ops.push(o);
        }
        let bs = d.to_bytes();
        out.nt = nontrivial(&bs);
        let opsv = || l(ops.iter().map(dop_v).collect());
        out.case("d.hist", l(vec![opsv()]), dstr_v(&d));
        out.case("s.d.hist", l(vec![opsv()]), dna(&bs));
        out.case("d.inv", l(vec![dstr_v(&d)]), b(true));
        // renderings and reads
        let disp = format!("{}", d);
        let dbg = format!("{:?}", d);
        let it: Vec<u8> = d.iter().collect();
        out.case(
            "s.d.render",
            l(vec![dna(&bs)]),
            l(vec![bytes(&d.to_ascii_vec()), bytes(disp.as_bytes()), bytes(dbg.as_bytes()), dna(&it), nu(d.len())]),
        );
        out.case("d.to_ascii", l(vec![dstr_v(&d)]), bytes(&d.to_ascii_vec()));
        // the base iterator under skipping adaptors: Iterator::nth / skip / step_by, mixed with next (seeded change
        // C14-m8: a cached storage word in next() plus an O(1) nth() that does not refresh it)
        for _ in 0..3 {
            let a = rng.below(bs.len() + 3);
            let stp = 1 + rng.below(6);
            out.case("s.seq.skip_step", l(vec![dna(&bs), nu(a), nu(stp)]), dna(&d.iter().skip(a).step_by(stp).collect::<Vec<u8>>()));
            let mut itr = d.iter();
            let mut got: Vec<u8> = Vec::new();
            let pre = rng.below(3);
            for _ in 0..pre {
                if let Some(x) = itr.next() {
                    got.push(x);
                }
            }
            let jump = rng.below(40);
            let landed = itr.nth(jump);
            got.clear();
            got.extend(landed);
            // the size query must stay callable and truthful after a skip, also one that overshot the end (seeded change
            // C14-m10: an exact size_hint computed as len - cursor with an uncapped cursor)
            let d2 = &d;
            let consumed = pre.min(bs.len()) + jump + 1;
            let left = bs.len().saturating_sub(consumed);
            let hint_ok = guard(std::panic::AssertUnwindSafe(|| {
                let mut it2 = d2.iter();
                for _ in 0..pre {
                    it2.next();
                }
                it2.nth(jump);
                let (lo, hi) = it2.size_hint();
                lo <= left && hi.map_or(true, |h| left <= h)
            }));
            out.case("s.id", l(vec![b(true)]), opt(hint_ok.map(b)));
            got.extend(itr);
            out.case("s.seq.skip_step", l(vec![dna(&bs), nu(pre.min(bs.len()) + jump), nu(1)]), dna(&got));
        }
        if !bs.is_empty() {
            let i = rng.below(bs.len());
            out.case("d.get", l(vec![dstr_v(&d), nu(i)]), n(d.get(i)));
        }
        // another route to the same sequence; near misses
        let mut others: Vec<DnaString> = Vec::new();
        let mut e = match rng.below(3) {
            0 => DnaString::from_bytes(&bs),
            1 => {
                let mut e = DnaString::new();
                for x in &bs {
                    e.push(*x);
                }
                e
            }
            _ => {
                let mut e = DnaString::blank(bs.len());
                for (i, x) in bs.iter().enumerate() {
                    e.set_mut(i, *x);
                }
                e
            }
        };
        others.push(e.clone());
        if !bs.is_empty() {
            let p = rng.below(bs.len());
            e.set_mut(p, (bs[p] + 1) & 3);
            others.push(e.clone());
        }
        let mut f = DnaString::from_bytes(&bs);
        f.push(0); // proper extension by an A: same blocks, longer
        others.push(f);
        if bs.len() > 1 {
            others.push(DnaString::from_bytes(&bs[..bs.len() - 1]));
        }
        if !pool.is_empty() {
            others.push(pool[rng.below(pool.len())].clone());
        }
        for o in &others {
            let ob = o.to_bytes();
            out.case(
                "s.cmp",
                l(vec![dna(&bs), dna(&ob)]),
                l(vec![b(d == *o), ord_code(d.cmp(o)), b(feed(&d) == feed(o))]),
            );
            out.case("d.cmp", l(vec![dstr_v(&d), dstr_v(o)]), l(vec![b(d == *o), ord_code(d.cmp(o))]));
            if ob.len() == bs.len() {
                out.case("s.count_diff", l(vec![dna(&bs), dna(&ob)]), nu(debruijn::dna_string::ndiffs(&d, o)));
                out.case("d.ndiffs", l(vec![dstr_v(&d), dstr_v(o)]), nu(d.hamming_distance(o)));
            }
        }
        out.case("d.hash_feed", l(vec![dstr_v(&d)]), feed_words(&feed(&d)));
        pool.push(d);
        if pool.len() > 64 {
            pool.remove(0);
        }
    }
    // PackedDnaStringSet
    for _ in 0..(if tier.thorough { 200 } else { 20 }) {
        let m = rng.range(0, 8);
        let seqs: Vec<Vec<u8>> = (0..m)
            .map(|_| {
                let k = match rng.below(4) {
                    0 => 0,
                    1 => 32,
                    _ => rng.below(70),
                };
                rand_bases(&mut rng, k)
            })
            .collect();
        let mut p = PackedDnaStringSet::new();
        for s in &seqs {
            p.add(s.iter());
        }
        out.nt = m >= 2;
        let got: Vec<V> = (0..p.len()).map(|i| dna(&p.get(i).bytes())).collect();
        out.case("s.id", l(vec![l(seqs.iter().map(|s| dna(s)).collect())]), l(got));
        out.case(
            "ps.build",
            l(vec![l(seqs.iter().map(|s| dna(s)).collect())]),
            l(vec![
                dstr_v(&p.sequence),
                l(p.start.iter().map(|x| nu(*x)).collect()),
                l(p.length.iter().map(|x| nu(*x as usize)).collect()),
                l((0..p.len()).map(|i| slc_v(&p.get(i))).collect()),
            ]),
        );
    }
    out.nt = false;
}

// ------------------------------------------------------------------------------------ C15
#[derive(Clone, Debug)]
enum SOp {
    Slice(usize, usize),
    Rc,
    Prefix(usize),
    Suffix(usize),
}
fn sop_v(o: &SOp) -> V {
    match o {
        SOp::Slice(a, c) => l(vec![n(0u8), nu(*a), nu(*c)]),
        SOp::Rc => l(vec![n(1u8)]),
        SOp::Prefix(k) => l(vec![n(2u8), nu(*k)]),
        SOp::Suffix(k) => l(vec![n(3u8), nu(*k)]),
    }
}
fn rand_chain(rng: &mut Rng, len: usize, keep_long: bool) -> Vec<SOp> {
    let mut ops = Vec::new();
    let mut cur = len;
    let first = match rng.below(4) {
        0 => {
            let k = if keep_long { cur - rng.below(cur.min(3) + 1).min(cur) } else { rng.below(cur + 1) };
            cur = k;
            SOp::Prefix(k)
        }
        1 => {
            let k = if keep_long { cur - rng.below(cur.min(3) + 1).min(cur) } else { rng.below(cur + 1) };
            cur = k;
            SOp::Suffix(k)
        }
        _ => {
            let a = if keep_long { rng.below(cur.min(40) + 1) } else { rng.below(cur + 1) };
            let c = if keep_long { cur - rng.below((cur - a).min(40) + 1) } else { rng.range(a, cur) };
            cur = c - a;
            SOp::Slice(a, c)
        }
    };
    ops.push(first);
    for _ in 0..rng.below(6) {
        if rng.chance(2, 5) {
            ops.push(SOp::Rc);
        } else {
            let a = if keep_long { rng.below(cur.min(20) + 1) } else { rng.below(cur + 1) };
            let c = if keep_long { cur - rng.below((cur - a).min(20) + 1) } else { rng.range(a, cur) };
            cur = c - a;
            ops.push(SOp::Slice(a, c));
        }
    }
    ops
}
fn apply_chain<'a>(d: &'a DnaString, ops: &[SOp]) -> DnaStringSlice<'a> {
    let mut s = match &ops[0] {
        SOp::Slice(a, c) => d.slice(*a, *c),
        SOp::Prefix(k) => d.prefix(*k),
        SOp::Suffix(k) => d.suffix(*k),
        SOp::Rc => unreachable!(),
    };
    for o in &ops[1..] {
        let (st, ln, rc) = match o {
            SOp::Slice(a, c) => {
                let t = s.slice(*a, *c);
                (t.start, t.length, t.is_rc)
            }
            SOp::Rc => {
                let t = s.rc();
                (t.start, t.length, t.is_rc)
            }
            _ => unreachable!(),
        };
        // re-borrow against `d` (slice() ties the lifetime to the temporary)
        s = DnaStringSlice {
            dna_string: d,
            start: st,
            length: ln,
            is_rc: rc,
        };
    }
    s
}

fn c15_kmers<T: KS>(out: &mut Out, rng: &mut Rng, d: &DnaString, bs: &[u8], ops: &[SOp], s: &DnaStringSlice) {
    let k = T::k();
    if s.len() < k {
        return;
    }
    for _ in 0..3 {
        let pos = rng.below(s.len() - k + 1);
        let km: T = s.get_kmer(pos);
        out.case(
            "s.sl.kmer",
            l(vec![nu(k), dna(bs), l(ops.iter().map(sop_v).collect()), nu(pos)]),
            dna(&bases_of(&km)),
        );
        out.case(
            "sl.get_kmer",
            l(vec![nu(T::W), nu(k), dstr_v(d), slc_v(s), nu(pos)]),
            n(km.st()),
        );
    }
}

pub fn c15(out: &mut Out, rng0: &mut Rng, tier: &Tier) {
    let mut rng = Rng::new(rng0.next() ^ (tier.shard as u64 + 3).wrapping_mul(0xD6E8_FEB8_6659_FD93));
    let mut lens = vec![0usize, 1, 5, 31, 32, 33, 64, 100, 255, 256, 257, 300];
    if tier.thorough || tier.shard % 4 == 0 {
        lens.extend([1023, 1024, 1025, 1056, 2100]);
    }
    let rounds = if tier.thorough { 40 } else { 3 };
    for _ in 0..rounds {
        for &len in &lens {
            let bs = rand_bases(&mut rng, len);
            let d = DnaString::from_bytes(&bs);
            let keep_long = rng.chance(1, 2);
            let ops = rand_chain(&mut rng, len, keep_long);
            let s = apply_chain(&d, &ops);
            out.nt = nontrivial(&s.bytes());
            let opsv = || l(ops.iter().map(sop_v).collect());
            out.case("sl.hist", l(vec![dstr_v(&d), opsv()]), slc_v(&s));
            let owned = s.to_owned();
            out.case(
                "s.sl",
                l(vec![dna(&bs), opsv()]),
                l(vec![
                    dna(&s.bytes()),
                    bytes(&s.ascii()),
                    bytes(s.to_dna_string().as_bytes()),
                    bytes(format!("{:?}", s).as_bytes()),
                    dna(&owned.to_bytes()),
                    nu(s.len()),
                ]),
            );
            out.case(
                "s.sl",
                l(vec![dna(&bs), opsv()]),
                l(vec![
                    dna(&s.iter().collect::<Vec<u8>>()),
                    bytes(&s.ascii()),
                    bytes(format!("{}", s).as_bytes()),
                    bytes(format!("{:?}", s).as_bytes()),
                    dna(&(0..s.len()).map(|i| s.get(i)).collect::<Vec<u8>>()),
                    nu(s.len()),
                ]),
            );
            out.case(
                "sl.render",
                l(vec![dstr_v(&d), slc_v(&s)]),
                l(vec![
                    bytes(&s.ascii()),
                    bytes(s.to_dna_string().as_bytes()),
                    bytes(format!("{:?}", s).as_bytes()),
                    dstr_v(&owned),
                ]),
            );
            {
                // the owned copy is the same VALUE as the string built from the view's bases (derived ==, Hash, Ord
                // and the word-wise ndiffs see padding bits that get() does not)
                let reference = DnaString::from_bytes(&s.bytes());
                let same = owned == reference
                    && owned.cmp(&reference) == std::cmp::Ordering::Equal
                    && feed(&owned) == feed(&reference)
                    && guard(|| debruijn::dna_string::ndiffs(&owned, &reference)) == Some(0);
                out.case("s.sl.owned_eq", l(vec![dna(&bs), opsv()]), b(same));
            }
            // structured windows: every start around the storage-word boundaries (31, 32, 33, 63, 64, 65) with lengths
            // below / at / above one word, forward and reverse-complemented, every rendering (seeded change C15-m8: a
            // word-wise Display fast path that fires for forward views starting on the LAST base of a word)
            if len >= 72 {
                for &st in &[31usize, 32, 33, 63, 64, 65] {
                    for &ln in &[1usize, 31, 32, 33, 40] {
                        if st + ln > len {
                            continue;
                        }
                        for rcv in [false, true] {
                            let mut o2 = vec![SOp::Slice(st, st + ln)];
                            if rcv {
                                o2.push(SOp::Rc);
                            }
                            let t = apply_chain(&d, &o2);
                            out.case(
                                "s.sl",
                                l(vec![dna(&bs), l(o2.iter().map(sop_v).collect())]),
                                l(vec![
                                    dna(&t.iter().collect::<Vec<u8>>()),
                                    bytes(&t.ascii()),
                                    bytes(format!("{}", t).as_bytes()),
                                    bytes(format!("{:?}", t).as_bytes()),
                                    dna(&t.to_owned().to_bytes()),
                                    nu(t.len()),
                                ]),
                            );
                            out.case(
                                "s.sl",
                                l(vec![dna(&bs), l(o2.iter().map(sop_v).collect())]),
                                l(vec![
                                    dna(&t.bytes()),
                                    bytes(&t.ascii()),
                                    bytes(t.to_dna_string().as_bytes()),
                                    bytes(format!("{:?}", t).as_bytes()),
                                    dna(&(0..t.len()).map(|i| t.get(i)).collect::<Vec<u8>>()),
                                    nu(t.len()),
                                ]),
                            );
                        }
                    }
                }
            }
            // the base iterator under skipping adaptors (Iterator::nth / skip / step_by), on the view and on its string
            for _ in 0..4 {
                let a = rng.below(s.len() + 3);
                let stp = 1 + rng.below(5);
                out.case(
                    "s.seq.skip_step",
                    l(vec![dna(&s.bytes()), nu(a), nu(stp)]),
                    dna(&s.iter().skip(a).step_by(stp).collect::<Vec<u8>>()),
                );
                let a2 = rng.below(len + 3);
                out.case(
                    "s.seq.skip_step",
                    l(vec![dna(&bs), nu(a2), nu(stp)]),
                    dna(&d.iter().skip(a2).step_by(stp).collect::<Vec<u8>>()),
                );
                let mut it = d.iter();
                let first = it.nth(a2);
                let rest: Vec<u8> = it.collect();
                let mut got: Vec<u8> = first.into_iter().collect();
                got.extend(rest);
                out.case("s.seq.skip_step", l(vec![dna(&bs), nu(a2), nu(1)]), dna(&got));
            }
            c15_kmers::<debruijn::kmer::Kmer5>(out, &mut rng, &d, &bs, &ops, &s);
            c15_kmers::<debruijn::kmer::Kmer16>(out, &mut rng, &d, &bs, &ops, &s);
            c15_kmers::<debruijn::kmer::Kmer32>(out, &mut rng, &d, &bs, &ops, &s);
            c15_kmers::<debruijn::kmer::Kmer48>(out, &mut rng, &d, &bs, &ops, &s);
            // a second view of equal length, mostly equal content, at a different offset, for distances / ==
            let m = s.len();
            let pad = rng.below(40);
            let mut bs2: Vec<u8> = (0..pad).map(|_| rng.base()).collect();
            let mut content = s.bytes();
            let ndiff = match rng.below(4) {
                0 => 0,
                1 => 1,
                _ => rng.below(m / 8 + 2),
            };
            for _ in 0..ndiff {
                if m > 0 {
                    let p = match rng.below(3) {
                        0 => 0,
                        1 => m - 1,
                        _ => rng.below(m),
                    };
                    content[p] = (content[p] + 1 + rng.below(3) as u8) & 3;
                }
            }
            let use_rc = rng.chance(1, 2);
            if use_rc {
                bs2.extend(rc_bytes(&content));
            } else {
                bs2.extend(content.iter());
            }
            for _ in 0..rng.below(40) {
                bs2.push(rng.base());
            }
            let d2 = DnaString::from_bytes(&bs2);
            let mut ops2 = vec![SOp::Slice(pad, pad + m)];
            if use_rc {
                ops2.push(SOp::Rc);
            }
            let s2 = apply_chain(&d2, &ops2);
            let ops2v = || l(ops2.iter().map(sop_v).collect());
            let hd = guard(|| n(s.hamming_dist(&s2)));
            out.case("s.sl.hamming", l(vec![dna(&bs), opsv(), dna(&bs2), ops2v()]), opt(hd.clone()));
            out.case("sl.hamming", l(vec![dstr_v(&d), slc_v(&s), dstr_v(&d2), slc_v(&s2)]), opt(hd));
            out.case("s.sl.eq", l(vec![dna(&bs), opsv(), dna(&bs2), ops2v()]), b(s == s2));
            out.case("s.sl.eq", l(vec![dna(&bs), opsv(), dna(&bs), opsv()]), b(s == s.clone()));
            // views of the SAME backing string: the view against its own reverse complement (same start, same
            // length, other strand - a palindrome test), and against a same-length window elsewhere in the string
            {
                let r = s.rc();
                let mut ops_rc: Vec<V> = ops.iter().map(sop_v).collect();
                ops_rc.push(sop_v(&SOp::Rc));
                out.case("s.sl.eq", l(vec![dna(&bs), opsv(), dna(&bs), l(ops_rc.clone())]), b(s == r));
                out.case("s.sl.eq", l(vec![dna(&bs), l(ops_rc), dna(&bs), opsv()]), b(r == s));
                if m <= bs.len() {
                    let st = if rng.chance(1, 3) { s.start.min(bs.len() - m) } else { rng.below(bs.len() - m + 1) };
                    let w = SOp::Slice(st, st + m);
                    let mut wops = vec![sop_v(&w)];
                    let mut wv = d.slice(st, st + m);
                    if rng.chance(1, 2) {
                        wv = wv.rc();
                        wops.push(sop_v(&SOp::Rc));
                    }
                    out.case("s.sl.eq", l(vec![dna(&bs), opsv(), dna(&bs), l(wops)]), b(s == wv));
                }
            }
        }
    }
    out.nt = false;
}

// ------------------------------------------------------------------------------------ C13
fn c13_container<T: KS, C: Vmer>(out: &mut Out, bs: &[u8], c: &C, exts_probe: Option<Exts>) {
    let k = T::k();
    let n_ = bs.len();
    debug_assert_eq!(c.len(), n_);
    let ks: Vec<V> = c.iter_kmers::<T>().map(|q| dna(&bases_of(&q))).collect();
    out.case("s.kmers", l(vec![nu(k), dna(bs)]), l(ks));
    if n_ >= k {
        for pos in 0..=(n_ - k) {
            let q: T = c.get_kmer(pos);
            out.case("s.kmer_at", l(vec![nu(k), dna(bs), nu(pos)]), dna(&bases_of(&q)));
        }
        let f: T = c.first_kmer();
        let la: T = c.last_kmer();
        let (bf, bl): (T, T) = c.both_term_kmer();
        let tl: T = c.term_kmer(Dir::Left);
        let tr: T = c.term_kmer(Dir::Right);
        for q in [f, bf, tl] {
            out.case("s.kmer_at", l(vec![nu(k), dna(bs), nu(0)]), dna(&bases_of(&q)));
        }
        for q in [la, bl, tr] {
            out.case("s.kmer_at", l(vec![nu(k), dna(bs), nu(n_ - k)]), dna(&bases_of(&q)));
        }
    }
    // the iterator under skipping: nth(i) on a fresh iterator, skip(i).next(), and nth(a) followed by nth(b); skips of
    // K and more, and skips landing exactly on the last k-mer / one past it, are always among them
    {
        let cnt = if n_ >= k { n_ - k + 1 } else { 0 };
        let mut is: Vec<usize> = vec![0, 1, k, k + 1, cnt.saturating_sub(1), cnt, cnt + 3];
        if cnt > k + 1 {
            is.push(cnt - 2);
        }
        is.sort();
        is.dedup();
        let opt_kmer = |o: Option<T>| match o {
            Some(q) => l(vec![dna(&bases_of(&q))]),
            None => l(vec![]),
        };
        for &i in &is {
            out.case("s.iter_nth", l(vec![nu(k), dna(bs), nu(i)]), opt_kmer(c.iter_kmers::<T>().nth(i)));
            out.case("s.iter_nth", l(vec![nu(k), dna(bs), nu(i)]), opt_kmer(c.iter_kmers::<T>().skip(i).next()));
            if i >= 1 {
                let a = i / 2;
                let b2 = i - a - 1;
                let mut it = c.iter_kmers::<T>();
                let first = it.nth(a);
                if first.is_some() {
                    out.case("s.iter_nth", l(vec![nu(k), dna(bs), nu(i)]), opt_kmer(it.nth(b2)));
                }
            }
        }
    }
    if let Some(e) = exts_probe {
        let items: Vec<V> = c
            .iter_kmer_exts::<T>(e)
            .map(|(q, x)| {
                l(vec![
                    dna(&bases_of(&q)),
                    l(vec![bytes(&x.get(Dir::Left)), bytes(&x.get(Dir::Right))]),
                ])
            })
            .collect();
        out.case(
            "s.kmer_exts",
            l(vec![nu(k), dna(bs), bytes(&e.get(Dir::Left)), bytes(&e.get(Dir::Right))]),
            l(items),
        );
    }
}

fn c13_type<T: KS>(out: &mut Out, rng0: &mut Rng, tier: &Tier) {
    let k = T::k();
    let mut rng = Rng::new(rng0.next() ^ (tier.shard as u64 + 11).wrapping_mul(0xA076_1D64_78BD_642F));
    let mut lens: Vec<usize> = vec![0, k.saturating_sub(1), k, k + 1, k + 7, 31, 32, 33, 63, 64, 65, 96, 97, 140];
    for _ in 0..(if tier.thorough { 40 } else { 3 }) {
        lens.push(rng.below(141));
    }
    for (i, &len) in lens.iter().enumerate() {
        if i % tier.nshards != tier.shard {
            continue;
        }
        let bs = rand_bases(&mut rng, len);
        out.nt = nontrivial(&bs);
        let e = Exts::new((rng.next() & 0xff) as u8);
        let d = DnaString::from_bytes(&bs);
        c13_container::<T, _>(out, &bs, &d, Some(e));
        c13_container::<T, _>(out, &bs, &DnaBytes(bs.clone()), Some(e));
        c13_container::<T, _>(out, &bs, &DnaSlice(&bs), Some(e));
        // the bulk constructors (lib.rs kmers_from_bytes / kmers_from_ascii) on the same bases, every generated length -
        // K-1, K and K+1 included (seeded change C13-m7: no k-mer for a sequence of exactly K bases)
        {
            let kb: Vec<V> = T::kmers_from_bytes(&bs).iter().map(|q| dna(&bases_of(q))).collect();
            out.case("s.kmers", l(vec![nu(k), dna(&bs)]), l(kb));
            let ascii: Vec<u8> = bs.iter().map(|b| b"ACGT"[*b as usize]).collect();
            let ka: Vec<V> = T::kmers_from_ascii(&ascii).iter().map(|q| dna(&bases_of(q))).collect();
            out.case("s.kmers", l(vec![nu(k), dna(&bs)]), l(ka));
        }
        // model level: the block walk and iterators of DnaString
        if len >= k {
            let pos = rng.below(len - k + 1);
            let q: T = d.get_kmer(pos);
            out.case("d.get_kmer", l(vec![nu(T::W), nu(k), dstr_v(&d), nu(pos)]), n(q.st()));
            let q: T = DnaBytes(bs.clone()).get_kmer(pos);
            out.case("b.get_kmer", l(vec![nu(T::W), nu(k), bytes(&bs), nu(pos)]), n(q.st()));
        }
        out.case(
            "d.iter_kmers",
            l(vec![nu(T::W), nu(k), dstr_v(&d)]),
            l(d.iter_kmers::<T>().map(|q| n(q.st())).collect()),
        );
        out.case(
            "d.iter_kmer_exts",
            l(vec![nu(T::W), nu(k), dstr_v(&d), n(e.val)]),
            l(d.iter_kmer_exts::<T>(e).map(|(q, x)| l(vec![n(q.st()), n(x.val)])).collect()),
        );
        // slices at an offset inside a longer string, forward and rc
        let pre = rng.below(40);
        let post = rng.below(40);
        let mut big: Vec<u8> = (0..pre).map(|_| rng.base()).collect();
        big.extend(bs.iter());
        big.extend((0..post).map(|_| rng.base()));
        let dbig = DnaString::from_bytes(&big);
        let sl = dbig.slice(pre, pre + len);
        c13_container::<T, _>(out, &bs, &sl, Some(e));
        let rcb = rc_bytes(&bs);
        c13_container::<T, _>(out, &rcb, &sl.rc(), Some(e));
        // fixed-size strings of every capacity that can hold it
        macro_rules! lm {
            ($n:expr) => {{
                if len <= Lmer::<[u64; $n]>::max_len() {
                    let x = Lmer::<[u64; $n]>::from_slice(&bs);
                    c13_container::<T, _>(out, &bs, &x, Some(e));
                    if len >= k {
                        let pos = rng.below(len - k + 1);
                        let q: T = x.get_kmer(pos);
                        out.case("l.get_kmer", l(vec![nu(T::W), nu(k), wv(&words_of(&x)), nu(pos)]), n(q.st()));
                    }
                }
            }};
        }
        lm!(1);
        lm!(2);
        lm!(3);
        lm!(4);
        lm!(5);
        lm!(6);
    }
    out.nt = false;
}
pub fn c13(out: &mut Out, rng: &mut Rng, tier: &Tier) {
    crate::for_all_kmers!(c13_type, out, rng, tier);
}

// ------------------------------------------------------------------------------------ C17
#[derive(Clone)]
enum LOp {
    Set(usize, u8),
    SetSlice(usize, usize, u64),
    Rc,
}
fn lop_v(o: &LOp) -> V {
    match o {
        LOp::Set(p, x) => l(vec![n(0u8), nu(*p), n(*x)]),
        LOp::SetSlice(p, k, v) => l(vec![n(1u8), nu(*p), nu(*k), n(*v)]),
        LOp::Rc => l(vec![n(2u8)]),
    }
}
macro_rules! c17_cap {
    ($n:expr, $out:expr, $rng:expr, $tier:expr) => {{
        type L = Lmer<[u64; $n]>;
        let maxl = L::max_len();
        let lens: Vec<usize> = if $tier.thorough {
            (0..=maxl).collect()
        } else {
            let mut v = vec![0, 1, 2, 27, 28, maxl.saturating_sub(1), maxl];
            for w in 1..$n {
                v.extend([32 * w - 1, 32 * w, 32 * w + 1]);
            }
            for _ in 0..4 {
                v.push($rng.below(maxl + 1));
            }
            v.sort();
            v.dedup();
            v.into_iter().filter(|x| *x <= maxl).collect()
        };
        for (li, &len) in lens.iter().enumerate() {
            if li % $tier.nshards != $tier.shard {
                continue;
            }
            let reps = if $tier.thorough { 6 } else { 2 };
            for _ in 0..reps {
                let bs = rand_bases($rng, len);
                $out.nt = nontrivial(&bs);
                let x0 = L::from_slice(&bs);
                $out.case("l.new", l(vec![nu($n), nu(len)]), wv(&words_of(&L::new(len))));
                $out.case("l.from_slice", l(vec![nu($n), bytes(&bs)]), wv(&words_of(&x0)));
                let mut x = x0;
                let mut ops = Vec::new();
                for _ in 0..$rng.range(1, 10) {
                    let o = match $rng.below(8) {
                        0 | 1 if len > 0 => LOp::Set($rng.below(len), $rng.base()),
                        2 | 3 | 4 | 5 | 6 if len > 0 => {
                            let pos = match $rng.below(4) {
                                0 if len > 32 => 32 * $rng.range(1, len / 32) - $rng.below(5).min(32 * 1), // near a word boundary
                                _ => $rng.below(len),
                            };
                            let pos = pos.min(len - 1);
                            let nb = $rng.range(1, std::cmp::min(32, len - pos));
                            LOp::SetSlice(pos, nb, $rng.next())
                        }
                        _ => LOp::Rc,
                    };
                    match &o {
                        LOp::Set(p, v) => x.set_mut(*p, *v),
                        LOp::SetSlice(p, k, v) => x.set_slice_mut(*p, *k, *v),
                        LOp::Rc => x = x.rc(),
                    }
                    ops.push(o);
                }
                let xb: Vec<u8> = (0..x.len()).map(|i| x.get(i)).collect();
                let opsv = || l(ops.iter().map(lop_v).collect());
                $out.case("l.hist", l(vec![wv(&words_of(&x0)), opsv()]), wv(&words_of(&x)));
                $out.case("s.l.hist", l(vec![dna(&bs), opsv()]), l(vec![nu(x.len()), dna(&xb)]));
                $out.case("l.read", l(vec![wv(&words_of(&x))]), l(vec![nu(x.len()), dna(&xb), b(true)]));
                // k-mer extraction (C17: agrees with the plain string), every width class, positions crossing words
                macro_rules! lk {
                    ($t:ty) => {{
                        let k = <$t as debruijn::Kmer>::k();
                        if x.len() >= k {
                            let mut poss = vec![0usize, x.len() - k, $rng.below(x.len() - k + 1)];
                            for w in 1..$n {
                                // the k-mer straddles the boundary between word w-1 and word w
                                if 32 * w >= 1 && 32 * w + 1 <= x.len() {
                                    let lo = (32 * w + 1).saturating_sub(k);
                                    let hi = std::cmp::min(32 * w - 1, x.len() - k);
                                    if lo <= hi {
                                        poss.push($rng.range(lo, hi));
                                    }
                                }
                            }
                            for pos in poss {
                                let q: $t = x.get_kmer(pos);
                                $out.case("s.kmer_at", l(vec![nu(k), dna(&xb), nu(pos)]), dna(&bases_of(&q)));
                                $out.case("l.get_kmer", l(vec![nu(<$t as KS>::W), nu(k), wv(&words_of(&x)), nu(pos)]), n(q.st()));
                            }
                        }
                    }};
                }
                lk!(debruijn::kmer::Kmer4);
                lk!(debruijn::kmer::Kmer8);
                lk!(debruijn::kmer::Kmer12);
                lk!(debruijn::kmer::Kmer16);
                lk!(debruijn::kmer::Kmer20);
                lk!(debruijn::kmer::Kmer30);
                lk!(debruijn::kmer::Kmer32);
                lk!(debruijn::kmer::Kmer48);
                // equality / hash against another route to the same bases and a near miss
                let y = L::from_slice(&xb);
                $out.case("s.eqhash", l(vec![dna(&xb), dna(&xb)]), l(vec![b(x == y), b(feed(&x) == feed(&y))]));
                if len > 0 {
                    let mut z = y;
                    let p = $rng.below(len);
                    z.set_mut(p, (xb[p] + 1) & 3);
                    let zb: Vec<u8> = (0..z.len()).map(|i| z.get(i)).collect();
                    $out.case("s.eqhash", l(vec![dna(&xb), dna(&zb)]), l(vec![b(x == z), b(feed(&x) == feed(&z))]));
                    // same bases, different length
                    let w = L::from_slice(&xb[..len - 1]);
                    $out.case(
                        "s.eqhash",
                        l(vec![dna(&xb), dna(&xb[..len - 1])]),
                        l(vec![b(x == w), b(feed(&x) == feed(&w))]),
                    );
                }
            }
        }
    }};
}
pub fn c17(out: &mut Out, rng0: &mut Rng, tier: &Tier) {
    let mut rng = Rng::new(rng0.next() ^ (tier.shard as u64 + 5).wrapping_mul(0xE703_7ED1_A0B4_28DB));
    let r = &mut rng;
    c17_cap!(1, out, r, tier);
    c17_cap!(2, out, r, tier);
    c17_cap!(3, out, r, tier);
    c17_cap!(4, out, r, tier);
    c17_cap!(5, out, r, tier);
    c17_cap!(6, out, r, tier);
    out.nt = false;
}

// ------------------------------------------------------------------------------------ C18
fn c18_type<T: KS + Send + Sync>(out: &mut Out, rng0: &mut Rng, tier: &Tier) {
    let k = T::k();
    let mut rng = Rng::new(rng0.next() ^ (tier.shard as u64 + 13).wrapping_mul(0x8EBC_6AF0_9C88_C6E3));
    let ngraphs = if tier.thorough { 60 } else { 6 };
    for gi in 0..ngraphs {
        if gi % tier.nshards != tier.shard % ngraphs.min(tier.nshards) && tier.nshards <= ngraphs {
            continue;
        }
        // one graph in six has NO node at all (no read, or only reads shorter than K): iterating it must simply end
        let empty_graph = gi % 6 == 5;
        let mut reads = if empty_graph {
            (0..rng.below(4)).map(|_| (0..rng.below(k)).map(|_| rng.base()).collect()).collect()
        } else {
            read_set(&mut rng, k)
        };
        // make sure some long nodes exist
        if !empty_graph {
            reads.push((0..rng.range(k + 6, 3 * k + 40)).map(|_| rng.base()).collect());
        }
        let stranded = rng.chance(1, 2);
        let g = build_graph::<T>(&reads, stranded, 1);
        if empty_graph {
            let gref = &g;
            let r = guard(std::panic::AssertUnwindSafe(move || {
                let mut n_items = 0usize;
                let mut it = gref.into_iter();
                for _ in 0..3 {
                    if it.next().is_some() {
                        n_items += 1;
                    }
                }
                n_items + gref.iter_nodes().count() + gref.len()
            }));
            out.nt = true;
            // the number of retained k-mers of a read set without any k-mer (spec: 0) = nodes seen by the iterators
            out.case("s.k.sort", kv::<T>(vec![b(!stranded), l(vec![])]), opt(r.map(|c| l((0..c).map(|_| l(vec![])).collect()))));
        }
        let mut all: Vec<V> = Vec::new();
        let mut all_k: Vec<T> = Vec::new();
        for nk in &g {
            let id = nk.node_id;
            let node = g.get_node(id);
            let sl = node.sequence();
            let nb = sl.bytes();
            let nk_total = nb.len() - k + 1;
            for q in g.get_node_kmer(id).into_iter() {
                let q: T = q;
                all.push(dna(&bases_of(&q)));
                all_k.push(q);
            }
            for _ in 0..(if tier.thorough { 8 } else { 3 }) {
                // call sequences with n on both sides of 4 and of the remaining count
                let mut calls: Vec<(bool, usize)> = Vec::new();
                let mut remaining = nk_total as i64;
                for _ in 0..rng.range(1, 8) {
                    if rng.chance(1, 3) {
                        calls.push((false, 0));
                        remaining -= 1;
                    } else {
                        let nn = match rng.below(7) {
                            // skip counts that do not fit 32 bits (a 64-bit usize): far beyond any node
                            6 => match rng.below(5) {
                                0 => 1usize << 32,
                                1 => (1usize << 32) + rng.below(nk_total + 2),
                                2 => (3usize << 40) + rng.below(16),
                                3 => u32::MAX as usize + rng.below(3),
                                _ => usize::MAX - rng.below(2),
                            },
                            0 => rng.below(5),
                            1 => 5 + rng.below(4),
                            2 => (remaining.max(0) as usize).saturating_sub(1),
                            3 => remaining.max(0) as usize,
                            4 => remaining.max(0) as usize + 1 + rng.below(8),
                            _ => rng.below(nk_total + 8),
                        };
                        calls.push((true, nn));
                        remaining = remaining.saturating_sub((nn as i64).max(0).saturating_add(1));
                        if nn > (1usize << 40) {
                            remaining = 0;
                        }
                    }
                }
                let callsv: Vec<V> = calls
                    .iter()
                    .map(|(is_nth, nn)| if *is_nth { l(vec![n(1u8), nu(*nn)]) } else { l(vec![n(0u8)]) })
                    .collect();
                let calls2 = calls.clone();
                let gref = &g;
                let r = guard(std::panic::AssertUnwindSafe(move || {
                    let mut it = gref.get_node_kmer(id).into_iter();
                    let hint = it.len();
                    let (lo, hi) = it.size_hint();
                    let mut outs: Vec<Option<T>> = Vec::new();
                    for (is_nth, nn) in &calls2 {
                        outs.push(if *is_nth { it.nth(*nn) } else { it.next() });
                        // the size queries must stay callable at every point of the history, also after the end
                        // (their value is claimed up front only): a panic here makes the whole case fail
                        let _ = it.size_hint();
                        let _ = it.len();
                    }
                    (hint, lo, hi, outs)
                }));
                out.nt = nk_total >= 2;
                let res = r.as_ref().map(|(hint, lo, hi, outs)| {
                    let ok_hint = *lo == *hint && *hi == Some(*hint);
                    l(vec![
                        nu(if ok_hint { *hint } else { usize::MAX }),
                        l(outs
                            .iter()
                            .map(|o| match o {
                                Some(q) => l(vec![dna(&bases_of(q))]),
                                None => l(vec![]),
                            })
                            .collect()),
                    ])
                });
                out.case("s.ni", l(vec![nu(k), dna(&nb), l(callsv.clone())]), opt(res));
                let res2 = r.as_ref().map(|(hint, _, _, outs)| {
                    l(vec![
                        nu(*hint),
                        l(outs
                            .iter()
                            .map(|o| match o {
                                Some(q) => l(vec![n(q.st())]),
                                None => l(vec![]),
                            })
                            .collect()),
                    ])
                });
                out.case(
                    "ni.run",
                    l(vec![nu(T::W), nu(k), dstr_v(sl.dna_string), slc_v(&sl), l(callsv)]),
                    opt(res2),
                );
            }
        }
        // iterating all nodes visits every k-mer of the graph exactly once
        let seqs = to_seqs(&reads);
        let (hash, _) = debruijn::filter::filter_kmers::<T, _, _, _, _>(
            &seqs,
            &Box::new(debruijn::filter::CountFilter::new(1)),
            stranded,
            false,
            1,
        );
        let mut keys: Vec<T> = hash.iter().map(|(q, _, _)| *q).collect();
        keys.sort();
        out.case(
            "s.k.sort",
            kv::<T>(vec![b(!stranded), l(all)]),
            l(keys.iter().map(|q| dna(&bases_of(q))).collect()),
        );
        // a perfect hash built from that iteration gives every k-mer a distinct slot
        if !all_k.is_empty() {
            let nkm = all_k.len();
            let keys = all_k.clone();
            let gref = &g;
            let distinct = guard(std::panic::AssertUnwindSafe(move || {
                let mphf = boomphf::Mphf::from_chunked_iterator(1.7, gref, nkm as u64);
                let mut slots: Vec<u64> = keys.iter().map(|q| mphf.hash(q)).collect();
                slots.sort();
                slots.dedup();
                slots.len() == nkm && slots.iter().all(|s| (*s as usize) < nkm)
            }));
            out.case("s.id", l(vec![n(1u8)]), opt(distinct.map(b)));
        }
    }
    out.nt = false;
}
pub fn c18(out: &mut Out, rng: &mut Rng, tier: &Tier) {
    c18_type::<debruijn::kmer::Kmer4>(out, rng, tier);
    c18_type::<debruijn::kmer::Kmer5>(out, rng, tier);
    c18_type::<debruijn::kmer::Kmer6>(out, rng, tier);
    c18_type::<debruijn::kmer::Kmer8>(out, rng, tier);
    c18_type::<debruijn::kmer::Kmer16>(out, rng, tier);
    c18_type::<debruijn::kmer::VarIntKmer<u64, debruijn::kmer::K31>>(out, rng, tier);
    c18_type::<debruijn::kmer::Kmer32>(out, rng, tier);
    c18_type::<debruijn::kmer::Kmer48>(out, rng, tier);
}
