//! C20: exports (GFA, JSON) and persistence (serde) of k-mers, DNA strings, extension sets and finished graphs.
//!   x.gfa / x.gfa_tags   real write_gfa / to_gfa_with_tags text, read back by the parser below, vs. the model's records
//!   x.json               real to_json_rest text, tokenised below, vs. the model's token list (with and without `rest`)
//!   s.json_parse         the model's recogniser on the implementation's tokens vs. serde_json's answer (tree | reject)
//!   chk.json_wellformed  verified recogniser on the implementation's tokens + nodes + the implementation's own r_edges
//!   chk.gfa_sound / chk.gfa_complete_once   verified checkers: the implementation's L lines vs its own edge lists
//!   x.gfa_hyp / x.pal / x.etab              hypothesis of completeness holds; model edge table = implementation's
//!   chk.serde_same       from_str(to_string x) == x and identical query answers (k-mers, DnaString, Exts, Dir, graphs)
//!   x.enc_* / x.dec_*    the model's derive layout vs. the real serde_json text (parsed here, u128-capable)
use crate::gen::*;
use crate::kmers::*;
use crate::val::*;
use debruijn::dna_string::DnaString;
use debruijn::graph::{BaseGraph, DebruijnGraph};
use debruijn::kmer::*;
use debruijn::{Dir, Exts, Kmer, Mer, Vmer};
use serde_json::{json, Value};
use std::collections::HashSet;

// ---------------------------------------------------------------- JSON: tokens and trees (independent of serde_json)
#[derive(Clone, Debug, PartialEq)]
pub enum Tok {
    LB,
    RB,
    LK,
    RK,
    Colon,
    Comma,
    Str(Vec<u8>),
    Num(u128),
    Null,
    Bool(bool),
}

/// lexical analysis of a JSON text; None = a character that starts no token (or a number that is not a natural)
pub fn tokenise(text: &str) -> Option<Vec<Tok>> {
    let b = text.as_bytes();
    let mut i = 0;
    let mut out = Vec::new();
    while i < b.len() {
        let c = b[i];
        match c {
            b' ' | b'\n' | b'\r' | b'\t' => i += 1,
            b'{' => {
                out.push(Tok::LB);
                i += 1
            }
            b'}' => {
                out.push(Tok::RB);
                i += 1
            }
            b'[' => {
                out.push(Tok::LK);
                i += 1
            }
            b']' => {
                out.push(Tok::RK);
                i += 1
            }
            b':' => {
                out.push(Tok::Colon);
                i += 1
            }
            b',' => {
                out.push(Tok::Comma);
                i += 1
            }
            b'"' => {
                let mut s = Vec::new();
                i += 1;
                loop {
                    if i >= b.len() {
                        return None;
                    }
                    match b[i] {
                        b'"' => {
                            i += 1;
                            break;
                        }
                        b'\\' => {
                            if i + 1 >= b.len() {
                                return None;
                            }
                            match b[i + 1] {
                                b'"' => s.push(b'"'),
                                b'\\' => s.push(b'\\'),
                                b'/' => s.push(b'/'),
                                b'n' => s.push(b'\n'),
                                b't' => s.push(b'\t'),
                                b'r' => s.push(b'\r'),
                                _ => return None,
                            }
                            i += 2;
                        }
                        x if x < 0x20 => return None,
                        x => {
                            s.push(x);
                            i += 1;
                        }
                    }
                }
                out.push(Tok::Str(s));
            }
            b'0'..=b'9' => {
                let st = i;
                while i < b.len() && b[i].is_ascii_digit() {
                    i += 1;
                }
                if i < b.len() && (b[i] == b'.' || b[i] == b'e' || b[i] == b'E') {
                    return None;
                }
                if i - st > 1 && b[st] == b'0' {
                    return None;
                }
                out.push(Tok::Num(text[st..i].parse::<u128>().ok()?));
            }
            b'n' if text[i..].starts_with("null") => {
                out.push(Tok::Null);
                i += 4
            }
            b't' if text[i..].starts_with("true") => {
                out.push(Tok::Bool(true));
                i += 4
            }
            b'f' if text[i..].starts_with("false") => {
                out.push(Tok::Bool(false));
                i += 5
            }
            _ => return None,
        }
    }
    Some(out)
}

#[derive(Clone, Debug, PartialEq)]
pub enum Tree {
    Null,
    Bool(bool),
    Num(u128),
    Str(Vec<u8>),
    Arr(Vec<Tree>),
    Obj(Vec<(Vec<u8>, Tree)>),
}

pub fn tree_v(t: &Tree) -> V {
    match t {
        Tree::Null => l(vec![n(0u8)]),
        Tree::Bool(x) => l(vec![n(1u8), b(*x)]),
        Tree::Num(x) => l(vec![n(2u8), V::N(*x)]),
        Tree::Str(s) => l(vec![n(3u8), bytes(s)]),
        Tree::Arr(a) => l(vec![n(4u8), l(a.iter().map(tree_v).collect())]),
        Tree::Obj(m) => l(vec![n(5u8), l(m.iter().map(|(k, t)| l(vec![bytes(k), tree_v(t)])).collect())]),
    }
}
pub fn tok_v(t: &Tok) -> V {
    match t {
        Tok::LB => n(0u8),
        Tok::RB => n(1u8),
        Tok::LK => n(2u8),
        Tok::RK => n(3u8),
        Tok::Colon => n(4u8),
        Tok::Comma => n(5u8),
        Tok::Str(s) => l(vec![n(6u8), bytes(s)]),
        Tok::Num(x) => l(vec![n(7u8), V::N(*x)]),
        Tok::Null => l(vec![n(8u8), tree_v(&Tree::Null)]),
        Tok::Bool(x) => l(vec![n(8u8), tree_v(&Tree::Bool(*x))]),
    }
}

/// recursive descent over the tokens (document order of members kept); used for the serde texts
fn parse_val(t: &[Tok], i: &mut usize) -> Option<Tree> {
    let tok = t.get(*i)?.clone();
    *i += 1;
    match tok {
        Tok::Str(s) => Some(Tree::Str(s)),
        Tok::Num(x) => Some(Tree::Num(x)),
        Tok::Null => Some(Tree::Null),
        Tok::Bool(x) => Some(Tree::Bool(x)),
        Tok::LK => {
            let mut a = Vec::new();
            if t.get(*i) == Some(&Tok::RK) {
                *i += 1;
                return Some(Tree::Arr(a));
            }
            loop {
                a.push(parse_val(t, i)?);
                match t.get(*i)? {
                    Tok::Comma => *i += 1,
                    Tok::RK => {
                        *i += 1;
                        return Some(Tree::Arr(a));
                    }
                    _ => return None,
                }
            }
        }
        Tok::LB => {
            let mut m = Vec::new();
            if t.get(*i) == Some(&Tok::RB) {
                *i += 1;
                return Some(Tree::Obj(m));
            }
            loop {
                let k = match t.get(*i)? {
                    Tok::Str(s) => s.clone(),
                    _ => return None,
                };
                *i += 1;
                if t.get(*i)? != &Tok::Colon {
                    return None;
                }
                *i += 1;
                m.push((k, parse_val(t, i)?));
                match t.get(*i)? {
                    Tok::Comma => *i += 1,
                    Tok::RB => {
                        *i += 1;
                        return Some(Tree::Obj(m));
                    }
                    _ => return None,
                }
            }
        }
        _ => None,
    }
}
pub fn parse_tree(text: &str) -> Option<Tree> {
    let t = tokenise(text)?;
    let mut i = 0;
    let r = parse_val(&t, &mut i)?;
    if i == t.len() {
        Some(r)
    } else {
        None
    }
}
fn field<'a>(t: &'a Tree, k: &str) -> Option<&'a Tree> {
    match t {
        Tree::Obj(m) => m.iter().find(|(kk, _)| kk == k.as_bytes()).map(|x| &x.1),
        _ => None,
    }
}

/// serde_json's own view (object members in the Value's iteration order = sorted by key)
fn value_tree(v: &Value) -> Tree {
    match v {
        Value::Null => Tree::Null,
        Value::Bool(x) => Tree::Bool(*x),
        Value::Number(x) => Tree::Num(x.as_u64().expect("natural") as u128),
        Value::String(s) => Tree::Str(s.as_bytes().to_vec()),
        Value::Array(a) => Tree::Arr(a.iter().map(value_tree).collect()),
        Value::Object(m) => Tree::Obj(m.iter().map(|(k, x)| (k.as_bytes().to_vec(), value_tree(x))).collect()),
    }
}

// ---------------------------------------------------------------- GFA: independent parser
fn base_of(c: u8) -> Option<u8> {
    match c {
        b'A' => Some(0),
        b'C' => Some(1),
        b'G' => Some(2),
        b'T' => Some(3),
        _ => None,
    }
}
fn sign(s: &str) -> Option<bool> {
    match s {
        "+" => Some(true),
        "-" => Some(false),
        _ => None,
    }
}
pub struct Gfa {
    pub records: Vec<V>,
    /// ( u o1 v o2 overlap ) of the L lines
    pub links: Vec<V>,
}
/// lenient reading of the segment lines only: ( id sequence ) per `S` line; None when a sequence is not ACGT text
fn segments_of(text: &str) -> Option<V> {
    let mut segs = Vec::new();
    for line in text.lines() {
        let f: Vec<&str> = line.split('\t').collect();
        if f.first() != Some(&"S") {
            continue;
        }
        if f.len() < 3 {
            return None;
        }
        let id: usize = f[1].parse().ok()?;
        let mut bs = Vec::new();
        for c in f[2].bytes() {
            bs.push(match c {
                b'A' => 0u8,
                b'C' => 1,
                b'G' => 2,
                b'T' => 3,
                _ => return None,
            });
        }
        segs.push(l(vec![nu(id), dna(&bs)]));
    }
    Some(l(segs))
}

pub fn parse_gfa(text: &str) -> Option<Gfa> {
    let mut records = Vec::new();
    let mut links = Vec::new();
    if !text.is_empty() && !text.ends_with('\n') {
        return None;
    }
    for line in text.split_terminator('\n') {
        let f: Vec<&str> = line.split('\t').collect();
        match f[0] {
            "H" => {
                if f.len() != 2 || f[1] != "VN:Z:debruijn-rs" {
                    return None;
                }
                records.push(l(vec![n(0u8)]));
            }
            "S" => {
                if f.len() < 3 {
                    return None;
                }
                let id: usize = f[1].parse().ok()?;
                let seq: Option<Vec<u8>> = f[2].bytes().map(base_of).collect();
                let tags = if f.len() > 3 { l(vec![bytes(f[3..].join("\t").as_bytes())]) } else { l(vec![]) };
                records.push(l(vec![n(1u8), nu(id), dna(&seq?), tags]));
            }
            "L" => {
                if f.len() != 6 {
                    return None;
                }
                let u: usize = f[1].parse().ok()?;
                let o1 = sign(f[2])?;
                let v: usize = f[3].parse().ok()?;
                let o2 = sign(f[4])?;
                let ov: usize = f[5].strip_suffix('M')?.parse().ok()?;
                records.push(l(vec![n(2u8), nu(u), b(o1), nu(v), b(o2), nu(ov)]));
                links.push(l(vec![nu(u), b(o1), nu(v), b(o2), nu(ov)]));
            }
            _ => return None,
        }
    }
    Some(Gfa { records, links })
}

// ---------------------------------------------------------------- observation of a finished graph
fn dir_v(d: Dir) -> V {
    n(match d {
        Dir::Left => 0u8,
        Dir::Right => 1u8,
    })
}
fn is_right(d: Dir) -> bool {
    matches!(d, Dir::Right)
}
/// the caller's rendering of the node data: numbers, objects, arrays, empty containers
fn fmt_data(d: &u16) -> Value {
    match d % 4 {
        0 => json!(*d),
        1 => json!({"n": *d, "t": [*d % 5, null, true, "ab"]}),
        2 => json!([]),
        _ => json!({}),
    }
}
fn node_seq<K: Kmer>(g: &DebruijnGraph<K, u16>, i: usize) -> Vec<u8> {
    g.get_node(i).sequence().iter().collect()
}
fn nodes_v<K: Kmer>(g: &DebruijnGraph<K, u16>) -> V {
    l((0..g.len())
        .map(|i| {
            let nd = g.get_node(i);
            l(vec![dna(&node_seq(g, i)), n(nd.exts().val), tree_v(&value_tree(&fmt_data(nd.data())))])
        })
        .collect())
}
fn end_v(e: &(usize, Dir, bool)) -> V {
    l(vec![nu(e.0), dir_v(e.1)])
}
fn etab_v<K: Kmer>(g: &DebruijnGraph<K, u16>) -> V {
    l((0..g.len())
        .map(|i| {
            let nd = g.get_node(i);
            l(vec![l(nd.l_edges().iter().map(end_v).collect()), l(nd.r_edges().iter().map(end_v).collect())])
        })
        .collect())
}
fn pal_v<K: Kmer>(g: &DebruijnGraph<K, u16>) -> (V, bool) {
    let mut any = false;
    let v = l((0..g.len())
        .map(|i| {
            let s = node_seq(g, i);
            let p = !g.base.stranded && s.len() == K::k() && s == rc_bytes(&s);
            any |= p;
            b(p)
        })
        .collect());
    (v, any)
}

static TMP_SEQ: std::sync::atomic::AtomicUsize = std::sync::atomic::AtomicUsize::new(0);

/// every export check of one finished graph; `symmetric` = the graph comes from a complete compression
fn export_cases<K: Kmer>(out: &mut Out, rng: &mut Rng, g: &DebruijnGraph<K, u16>, symmetric: bool) {
    let k = K::k();
    let st = b(g.base.stranded);
    let nn = g.len();
    let nodes = nodes_v(g);
    let etab = etab_v(g);
    let (pal, any_pal) = pal_v(g);
    // non-triviality: a self link, a palindromic single-k-mer node with a link, or link-bearing nodes followed
    // by a link-free last node
    let mut self_link = false;
    let mut any_link = false;
    let mut any_r = false;
    for i in 0..nn {
        let nd = g.get_node(i);
        for e in nd.l_edges().iter().chain(nd.r_edges().iter()) {
            any_link = true;
            if e.0 == i {
                self_link = true;
            }
        }
        if i + 1 < nn && !nd.r_edges().is_empty() {
            any_r = true;
        }
    }
    let last_free = nn >= 2 && any_r && g.get_node(nn - 1).r_edges().is_empty();
    out.nt = self_link || (any_pal && any_link) || last_free;

    // ---- GFA through write_gfa
    let gfa_text = guard(std::panic::AssertUnwindSafe(|| {
        let mut buf: Vec<u8> = Vec::new();
        g.write_gfa(&mut buf).expect("write_gfa");
        String::from_utf8(buf).expect("utf8")
    }));
    let gfa = gfa_text.as_ref().and_then(|t| parse_gfa(t));
    let g_in = l(vec![nu(k), st.clone(), nodes.clone()]);
    // the S records as written (whatever else the text contains): id and sequence of every segment line, in order
    out.case("s.gfa_segments", g_in.clone(), opt(gfa_text.as_ref().and_then(|t| segments_of(t))));
    out.case("x.gfa", g_in.clone(), opt(gfa.as_ref().map(|x| l(x.records.clone()))));
    if let Some(x) = &gfa {
        out.case("chk.gfa_sound", l(vec![nu(k), etab.clone(), l(x.links.clone())]), b(true));
        out.case("chk.gfa_complete_once", l(vec![pal.clone(), etab.clone(), l(x.links.clone())]), b(true));
    }
    if symmetric {
        out.case("x.gfa_hyp", l(vec![pal.clone(), etab.clone()]), b(true));
    }
    out.case("x.pal", g_in.clone(), pal.clone());
    out.case("x.etab", g_in.clone(), etab.clone());

    // ---- GFA with tags through a file
    let path = format!(
        "/tmp/export-c20-{}-{}.gfa",
        std::process::id(),
        TMP_SEQ.fetch_add(1, std::sync::atomic::Ordering::SeqCst)
    );
    let tagf = |nd: &debruijn::graph::Node<'_, K, u16>| format!("LN:i:{}\tDA:Z:{}", nd.len(), nd.data());
    let tags: Vec<V> = (0..nn).map(|i| bytes(tagf(&g.get_node(i)).as_bytes())).collect();
    let tagged = guard(std::panic::AssertUnwindSafe(|| {
        g.to_gfa_with_tags(&path, tagf).expect("to_gfa_with_tags");
        std::fs::read_to_string(&path).expect("read back")
    }));
    let _ = std::fs::remove_file(&path);
    let tg = tagged.as_ref().and_then(|t| parse_gfa(t));
    out.case("s.gfa_segments", g_in.clone(), opt(tagged.as_ref().and_then(|t| segments_of(t))));
    out.case(
        "x.gfa_tags",
        l(vec![nu(k), st.clone(), nodes.clone(), l(tags)]),
        opt(tg.as_ref().map(|x| l(x.records.clone()))),
    );
    if rng.chance(1, 8) {
        // to_gfa (BufWriter over a file) writes the same text as write_gfa
        let path2 = format!("{}.plain", path);
        let plain = guard(std::panic::AssertUnwindSafe(|| {
            g.to_gfa(&path2).expect("to_gfa");
            std::fs::read_to_string(&path2).expect("read back")
        }));
        let _ = std::fs::remove_file(&path2);
        out.case(
            "chk.serde_same",
            l(vec![n(7u8), bytes(plain.unwrap_or_default().as_bytes()), bytes(gfa_text.clone().unwrap_or_default().as_bytes())]),
            b(true),
        );
    }

    // ---- JSON
    let links: Vec<V> = (0..nn)
        .flat_map(|i| {
            g.get_node(i)
                .r_edges()
                .iter()
                .map(|e| l(vec![nu(i), nu(e.0), dir_v(e.1)]))
                .collect::<Vec<V>>()
        })
        .collect();
    let rests: Vec<Option<Value>> = vec![
        None,
        Some(json!({"k": k, "name": "dbg", "z": [1, {"a": null}, false]})),
        Some(json!({})),
        Some(json!(7)),
        // keys that need escaping (finding F9, repaired: the key goes through serde_json)
        Some(json!({"a\"b\\c": 1, "tab\there": [true]})),
    ];
    let which = [0, 1 + rng.below(4)];
    for w in which.iter() {
        let rest = rests[*w].clone();
        let rest_v: Vec<V> = match &rest {
            Some(Value::Object(m)) => m.iter().map(|(kk, x)| l(vec![bytes(kk.as_bytes()), tree_v(&value_tree(x))])).collect(),
            _ => vec![],
        };
        let text = guard(std::panic::AssertUnwindSafe(|| {
            let mut buf: Vec<u8> = Vec::new();
            g.to_json_rest(fmt_data, &mut buf, rest.clone());
            String::from_utf8(buf).expect("utf8")
        }));
        let toks = text.as_ref().and_then(|t| tokenise(t));
        let toks_v = toks.as_ref().map(|t| l(t.iter().map(tok_v).collect()));
        out.case("x.json", l(vec![nu(k), st.clone(), nodes.clone(), l(rest_v)]), opt(toks_v.clone()));
        match (&text, &toks_v) {
            (Some(t), Some(tv)) => {
                // serde_json must accept the text; its tree is what the model's recogniser has to return
                let sj: Option<Value> = serde_json::from_str(t).ok();
                let expect = match &sj {
                    Some(v) => l(vec![tree_v(&value_tree(v))]),
                    None => l(vec![]),
                };
                out.case("s.json_parse", l(vec![tv.clone()]), expect);
                out.case("chk.json_wellformed", l(vec![tv.clone(), nu(nn), l(links.clone())]), b(true));
            }
            _ => out.case("s.no_panic", l(vec![nu(901), nu(0), nu(out.lines as usize)]), V::Bot),
        }
    }
    out.nt = false;
}

// ---------------------------------------------------------------- graphs
fn graph_of_reads<K: Kmer + Send + Sync>(reads: &[Vec<u8>], stranded: bool, min_obs: usize) -> Option<DebruijnGraph<K, u16>> {
    let reads = reads.to_vec();
    guard(move || build_graph::<K>(&reads, stranded, min_obs))
}

/// graph with arbitrary extension sets (edges need not be symmetric): distinct first and distinct last k-mers
fn graph_direct<K: Kmer + Send + Sync>(rng: &mut Rng, nnodes: usize, stranded: bool) -> Option<DebruijnGraph<K, u16>> {
    let k = K::k();
    let mut g: BaseGraph<K, u16> = BaseGraph::new(stranded);
    let mut firsts: HashSet<Vec<u8>> = HashSet::new();
    let mut lasts: HashSet<Vec<u8>> = HashSet::new();
    let mut seqs: Vec<Vec<u8>> = Vec::new();
    let mut tries = 0;
    while g.len() < nnodes && tries < 20 * nnodes + 100 {
        tries += 1;
        // later nodes are often built to overlap an end of an earlier one, so that random extensions resolve
        let s: Vec<u8> = if !seqs.is_empty() && rng.chance(2, 3) {
            let src = rng.pick(&seqs).clone();
            let src = if rng.chance(1, 3) { rc_bytes(&src) } else { src };
            let mut s: Vec<u8> = src[src.len() - (k - 1)..].to_vec();
            for _ in 0..rng.range(1, 4) {
                s.push(rng.base());
            }
            if rng.chance(1, 2) {
                rc_bytes(&s)
            } else {
                s
            }
        } else {
            (0..k + rng.below(4)).map(|_| rng.base()).collect()
        };
        if s.len() < k {
            continue;
        }
        let f = s[..k].to_vec();
        let la = s[s.len() - k..].to_vec();
        if firsts.contains(&f) || lasts.contains(&la) {
            continue;
        }
        firsts.insert(f);
        lasts.insert(la);
        let e = match rng.below(4) {
            0 => Exts::new(0),
            1 => Exts::new(0xff),
            _ => Exts::new((rng.next() & 0xff) as u8),
        };
        g.add(s.iter(), e, (rng.next() & 0x3ff) as u16);
        seqs.push(s);
    }
    guard(std::panic::AssertUnwindSafe(move || g.finish()))
}

/// read sets aimed at the delicate structures of the exports
fn special_reads(rng: &mut Rng, k: usize, which: usize) -> Vec<Vec<u8>> {
    fn rnd_in(rng: &mut Rng, lo: usize, hi: usize) -> Vec<u8> {
        let len = rng.range(lo, hi);
        (0..len).map(|_| rng.base()).collect()
    }
    let rnd = |rng: &mut Rng, len: usize| -> Vec<u8> { rnd_in(rng, len, len) };
    match which {
        // hairpin w rc(w): a self link on one side of a node
        0 => {
            let w = rnd_in(rng, k, 2 * k + 2);
            let mut r = w.clone();
            r.extend(rc_bytes(&w));
            let mut rs = vec![r];
            if rng.chance(1, 2) {
                rs.push(rnd_in(rng, k, k + 3));
            }
            if rng.chance(1, 2) {
                rs.reverse();
            }
            rs
        }
        // circular node: (u)^3 with |u| >= k
        1 => {
            let u = rnd_in(rng, k, k + 4);
            let mut r = Vec::new();
            for _ in 0..3 {
                r.extend(u.iter());
            }
            vec![r]
        }
        // palindromic k-mer (k even) with branching neighbours on both sides
        2 => {
            let h = rnd(rng, (k + 1) / 2);
            let mut p = h.clone();
            p.extend(rc_bytes(&h));
            let p: Vec<u8> = p[..std::cmp::min(p.len(), if k % 2 == 0 { k } else { k + 1 })].to_vec();
            let mut rs = Vec::new();
            for _ in 0..rng.range(1, 3) {
                let mut r = rnd_in(rng, 1, k + 2);
                r.extend(p.iter());
                r.extend(rnd_in(rng, 1, k + 2));
                rs.push(r);
            }
            rs
        }
        // link-free: a single short read / unrelated reads
        3 => (0..rng.range(1, 3)).map(|_| rnd(rng, k)).collect(),
        // long nodes (Debug of the slice switches to its summary form at 256 bases)
        4 => {
            let mut rs = vec![rnd_in(rng, 250, 330)];
            if rng.chance(2, 3) {
                rs.push(rnd_in(rng, 256 + k, 300 + k));
            }
            if rng.chance(1, 2) {
                // a branch so that the long sequences are cut into linked nodes
                let a = rs[0][40..40 + k - 1].to_vec();
                let mut r = rnd(rng, 5);
                r.extend(a);
                r.extend(rnd(rng, 5));
                rs.push(r);
            }
            rs
        }
        // empty graph: nothing reaches length k
        5 => vec![rnd(rng, k - 1)],
        // two hairpins and a tail: links on early nodes, possibly none on the last
        _ => {
            let mut rs = Vec::new();
            for _ in 0..2 {
                let w = rnd_in(rng, k, k + 6);
                let mut r = w.clone();
                r.extend(rc_bytes(&w));
                rs.push(r);
            }
            rs.push(rnd(rng, k));
            rs
        }
    }
}

fn graphs_for<K: Kmer + Send + Sync>(out: &mut Out, rng0: &mut Rng, tier: &Tier, weight: usize) {
    let k = K::k();
    let mut rng = Rng::new(rng0.next() ^ (tier.shard as u64 + 29).wrapping_mul(0xC2B2_AE3D_27D4_EB4F));
    let nsets = weight * if tier.thorough { 12 } else { 1 };
    for it in 0..nsets {
        // motif grammar
        let reads = read_set(&mut rng, k);
        let stranded = rng.chance(1, 3);
        let min_obs = if rng.chance(1, 6) { 2 } else { 1 };
        if let Some(g) = graph_of_reads::<K>(&reads, stranded, min_obs) {
            export_cases(out, &mut rng, &g, true);
        }
        // targeted structures
        let which = it % 7;
        if which == 4 && k > 40 && !tier.thorough && it >= 7 {
            continue;
        }
        let reads = special_reads(&mut rng, k, which);
        let stranded = rng.chance(1, 4);
        if let Some(g) = graph_of_reads::<K>(&reads, stranded, 1) {
            export_cases(out, &mut rng, &g, true);
        }
        // a node longer than K with a palindromic end k-mer, linked from the same-named end of a lower-numbered node
        if k % 2 == 0 && it % 2 == 1 {
            if let Some(g) = graph_pal_end::<K>(&mut rng) {
                export_cases(out, &mut rng, &g, false);
            }
        }
        // arbitrary extension sets
        if it % 2 == 0 {
            let nn = rng.range(1, 6);
            let stranded = rng.chance(1, 2);
            if let Some(g) = graph_direct::<K>(&mut rng, nn, stranded) {
                export_cases(out, &mut rng, &g, false);
            }
        }
    }
}

/// hand-assembled, even K, unstranded: node B is LONGER than K and starts with a k-mer P that is its own reverse
/// complement; node A (lower id) reaches P by extending its own left end, so the link A(left) -> B(left) is resolved by the
/// reverse-complement lookup with a palindromic key (compression never builds such a node - it isolates palindromic
/// k-mers - but `BaseGraph::add` / imported graphs can; seeded change C20-m9).  With probability 1/2 the mirror image
/// (palindromic LAST k-mer, right-to-right link).  Extensions are exactly the two facing bits: edge-symmetric.
fn graph_pal_end<K: Kmer + Send + Sync>(rng: &mut Rng) -> Option<DebruijnGraph<K, u16>> {
    let k = K::k();
    if k % 2 != 0 {
        return None;
    }
    let h: Vec<u8> = (0..k / 2).map(|_| rng.base()).collect();
    let mut p: Vec<u8> = h.clone();
    p.extend(rc_bytes(&h));
    let z = rng.base();
    let mut a: Vec<u8> = p[1..].to_vec();
    a.push(z);
    for _ in 0..rng.below(4) {
        a.push(rng.base());
    }
    let mut bq: Vec<u8> = p.clone();
    for _ in 0..rng.range(1, 4) {
        bq.push(rng.base());
    }
    let mut ea = Exts::empty().set(Dir::Left, p[0]);
    let mut eb = Exts::empty().set(Dir::Left, 3 - z);
    if rng.chance(1, 2) {
        a = rc_bytes(&a);
        bq = rc_bytes(&bq);
        ea = ea.rc();
        eb = eb.rc();
    }
    let mut g: BaseGraph<K, u16> = BaseGraph::new(false);
    if rng.chance(1, 2) {
        // an unrelated node first, so that ids are not always 0 and 1
        let c: Vec<u8> = (0..k + rng.below(3)).map(|_| rng.base()).collect();
        g.add(c.iter(), Exts::empty(), 7);
    }
    g.add(a.iter(), ea, 1);
    g.add(bq.iter(), eb, 2);
    guard(std::panic::AssertUnwindSafe(move || g.finish()))
}

// ---------------------------------------------------------------- corpus: the witnesses of F4 / F5
fn acgt(s: &str) -> Vec<u8> {
    s.bytes().map(|c| base_of(c).expect("ACGT")).collect()
}
fn corpus(out: &mut Out, rng: &mut Rng) {
    let f5 = vec![acgt("CTTACTCAACTAGTTGAGTAAG")];
    let f4 = vec![acgt("TTCGC"), acgt("GAGCTGAACCAACGTTGGTTCAGCTC")];
    let f4b = vec![acgt("GAGCTGAACCAACGTTGGTTCAGCTC"), acgt("TTCGC")];
    for reads in [f5, f4, f4b].iter() {
        if let Some(g) = graph_of_reads::<Kmer5>(reads, false, 1) {
            export_cases(out, rng, &g, true);
        }
    }
    // empty graph and single node, explicitly
    let empty: BaseGraph<Kmer5, u16> = BaseGraph::new(false);
    export_cases(out, rng, &empty.finish(), true);
    if let Some(g) = graph_of_reads::<Kmer4>(&[acgt("ACGT")], false, 1) {
        export_cases(out, rng, &g, true);
    }
}

// ---------------------------------------------------------------- serde
fn json_text<T: serde::Serialize>(x: &T) -> String {
    serde_json::to_string(x).expect("to_string")
}

fn serde_kmers<T: KS + serde::Serialize + serde::de::DeserializeOwned>(out: &mut Out, rng: &mut Rng, kind: u8, count: usize) {
    let vals = values::<T>(rng, count, false);
    let step = std::cmp::max(1, vals.len() / count);
    for s in vals.iter().step_by(step) {
        let x = T::mk(*s);
        let text = json_text(&x);
        let back: Option<T> = serde_json::from_str(&text).ok();
        out.nt = T::W == 128 && x.st() > u64::MAX as u128;
        let obs = |y: &T| l(vec![V::N(y.st()), dna(&bases_of(y)), dna(&bases_of(&y.rc())), b(*y == x)]);
        out.case("chk.serde_same", l(vec![nu(T::k()), obs(&x), opt(back.as_ref().map(obs))]), b(true));
        let tree = parse_tree(&text);
        out.case("x.enc_kmer", l(vec![n(kind), V::N(x.st())]), opt(tree.as_ref().map(tree_v)));
        if let Some(t) = &tree {
            out.case("x.dec_kmer", l(vec![n(kind), tree_v(t)]), l(vec![V::N(x.st())]));
        }
    }
    out.nt = false;
}

fn serde_values(out: &mut Out, rng: &mut Rng, tier: &Tier) {
    let reps = if tier.thorough { 40 } else { 6 };
    serde_kmers::<Kmer3>(out, rng, 1, reps);
    serde_kmers::<Kmer4>(out, rng, 0, reps);
    serde_kmers::<Kmer5>(out, rng, 1, reps);
    serde_kmers::<Kmer8>(out, rng, 0, reps);
    serde_kmers::<Kmer15>(out, rng, 1, reps);
    serde_kmers::<Kmer16>(out, rng, 0, reps);
    serde_kmers::<Kmer30>(out, rng, 1, reps);
    serde_kmers::<Kmer32>(out, rng, 0, reps);
    serde_kmers::<Kmer40>(out, rng, 1, reps);
    serde_kmers::<Kmer48>(out, rng, 1, 2 * reps);
    serde_kmers::<Kmer64>(out, rng, 0, 2 * reps);
    // DnaString
    // every length up to four blocks and a bit (block boundaries 32/64/96/128 and all tails), then random longer ones
    let mut lens: Vec<usize> = (0..=131).collect();
    for _ in 0..reps {
        lens.push(132 + rng.below(400));
    }
    for len in lens {
        let bases: Vec<u8> = (0..len).map(|_| rng.base()).collect();
        let d = DnaString::from_bytes(&bases);
        let text = json_text(&d);
        let back: Option<DnaString> = serde_json::from_str(&text).ok();
        out.nt = len % 32 != 0;
        let obs = |y: &DnaString| l(vec![nu(y.len()), dna(&y.to_bytes()), dna(&y.rc().to_bytes()), b(*y == d)]);
        out.case("chk.serde_same", l(vec![n(1u8), obs(&d), opt(back.as_ref().map(obs))]), b(true));
        let tree = parse_tree(&text);
        out.case("x.enc_dstr", l(vec![dna(&bases)]), opt(tree.as_ref().map(tree_v)));
        if let Some(t) = &tree {
            out.case("x.dec_dstr", l(vec![tree_v(t)]), l(vec![dna(&bases)]));
        }
    }
    // Exts
    // all 256 extension bytes
    let evs: Vec<u8> = (0..=255u8).collect();
    for v in evs {
        let e = Exts::new(v);
        let text = json_text(&e);
        let back: Option<Exts> = serde_json::from_str(&text).ok();
        out.nt = v != 0;
        let obs = |y: &Exts| l(vec![n(y.val), l(y.get(Dir::Left).iter().map(|x| n(*x)).collect()), l(y.get(Dir::Right).iter().map(|x| n(*x)).collect()), b(*y == e)]);
        out.case("chk.serde_same", l(vec![n(2u8), obs(&e), opt(back.as_ref().map(obs))]), b(true));
        let tree = parse_tree(&text);
        out.case("x.enc_exts", l(vec![n(v)]), opt(tree.as_ref().map(tree_v)));
        if let Some(t) = &tree {
            out.case("x.dec_exts", l(vec![tree_v(t)]), l(vec![n(v)]));
        }
    }
    // Dir
    for d in [Dir::Left, Dir::Right].iter() {
        let text = json_text(d);
        let back: Option<Dir> = serde_json::from_str(&text).ok();
        out.nt = true;
        out.case("chk.serde_same", l(vec![n(3u8), dir_v(*d), opt(back.map(dir_v))]), b(true));
        let tree = parse_tree(&text);
        out.case("x.enc_dir", l(vec![dir_v(*d)]), opt(tree.as_ref().map(tree_v)));
        if let Some(t) = &tree {
            out.case("x.dec_dir", l(vec![tree_v(t)]), l(vec![dir_v(*d)]));
        }
    }
    out.nt = false;
}

fn link_v(r: Option<(usize, Dir, bool)>) -> V {
    match r {
        Some((i, d, f)) => l(vec![nu(i), dir_v(d), b(f)]),
        None => l(vec![]),
    }
}
/// every public answer of a graph: nodes, extension sets, data, strandedness, edges of every node, find_link
fn api_v<K: Kmer>(g: &DebruijnGraph<K, u16>, queries: &[(K, Dir)]) -> V {
    let nodes: Vec<V> = (0..g.len())
        .map(|i| {
            let nd = g.get_node(i);
            l(vec![
                dna(&node_seq(g, i)),
                n(nd.exts().val),
                n(*nd.data()),
                l(nd.l_edges().iter().map(|e| link_v(Some(*e))).collect()),
                l(nd.r_edges().iter().map(|e| link_v(Some(*e))).collect()),
            ])
        })
        .collect();
    let ans: Vec<V> = queries.iter().map(|(q, d)| link_v(g.find_link(*q, *d))).collect();
    l(vec![b(g.base.stranded), l(nodes), l(ans)])
}
fn queries_of<K: Kmer>(rng: &mut Rng, g: &DebruijnGraph<K, u16>) -> Vec<(K, Dir)> {
    let mut qs: Vec<(K, Dir)> = Vec::new();
    for i in 0..g.len() {
        let s = g.get_node(i).sequence();
        for t in [s.first_kmer::<K>(), s.last_kmer::<K>()].iter() {
            for d in [Dir::Left, Dir::Right].iter() {
                qs.push((*t, *d));
                qs.push((t.rc(), *d));
                for x in 0..4u8 {
                    qs.push((t.extend(x, *d), *d));
                }
            }
        }
    }
    for _ in 0..16 {
        let bs: Vec<u8> = (0..K::k()).map(|_| rng.base()).collect();
        qs.push((K::from_bytes(&bs), if rng.chance(1, 2) { Dir::Left } else { Dir::Right }));
    }
    if qs.len() > 600 {
        qs.truncate(600);
    }
    qs
}

fn serde_graph<K: Kmer + Send + Sync + serde::Serialize + serde::de::DeserializeOwned>(out: &mut Out, rng: &mut Rng, g: &DebruijnGraph<K, u16>) {
    let text = json_text(g);
    let back: Option<DebruijnGraph<K, u16>> = serde_json::from_str(&text).ok();
    let qs = queries_of(rng, g);
    let any_link = (0..g.len()).any(|i| !g.get_node(i).r_edges().is_empty() || !g.get_node(i).l_edges().is_empty());
    out.nt = g.len() >= 2 && any_link;
    out.case("chk.serde_same", l(vec![l(vec![n(4u8), nu(K::k()), nu(g.len())]), api_v(g, &qs), opt(back.as_ref().map(|h| api_v(h, &qs)))]), b(true));
    // a second generation: the text of the decoded graph is the text of the graph
    if let Some(h) = &back {
        out.case("chk.serde_same", l(vec![n(5u8), bytes(json_text(h).as_bytes()), bytes(text.as_bytes())]), b(true));
    }
    // the derive layout of the base graph
    let nodes: Vec<V> = (0..g.len())
        .map(|i| {
            let nd = g.get_node(i);
            l(vec![dna(&node_seq(g, i)), n(nd.exts().val), n(*nd.data())])
        })
        .collect();
    let tree = parse_tree(&text);
    let base = tree.as_ref().and_then(|t| field(t, "base"));
    out.case("x.enc_base", l(vec![b(g.base.stranded), l(nodes)]), opt(base.map(tree_v)));
    out.nt = false;
}

fn serde_graphs_for<K: Kmer + Send + Sync + serde::Serialize + serde::de::DeserializeOwned>(out: &mut Out, rng0: &mut Rng, tier: &Tier, weight: usize) {
    let k = K::k();
    let mut rng = Rng::new(rng0.next() ^ (tier.shard as u64 + 31).wrapping_mul(0x9E37_79B9_7F4A_7C15));
    let nsets = weight * if tier.thorough { 10 } else { 1 };
    for it in 0..nsets {
        let sp = rng.below(5);
        let reads = if it % 3 == 2 { special_reads(&mut rng, k, sp) } else { read_set(&mut rng, k) };
        let stranded = rng.chance(1, 3);
        if let Some(g) = graph_of_reads::<K>(&reads, stranded, 1) {
            serde_graph(out, &mut rng, &g);
        }
    }
}

pub fn c20(out: &mut Out, rng: &mut Rng, tier: &Tier) {
    let mut r0 = Rng::new(rng.next());
    if tier.shard == 0 {
        corpus(out, &mut r0);
        serde_values(out, &mut r0, tier);
    }
    graphs_for::<Kmer4>(out, rng, tier, 60);
    graphs_for::<Kmer5>(out, rng, tier, 60);
    graphs_for::<Kmer6>(out, rng, tier, 50);
    graphs_for::<Kmer8>(out, rng, tier, 30);
    graphs_for::<Kmer12>(out, rng, tier, 14);
    graphs_for::<Kmer15>(out, rng, tier, 10);
    graphs_for::<Kmer16>(out, rng, tier, 10);
    graphs_for::<VarIntKmer<u64, K31>>(out, rng, tier, 7);
    graphs_for::<Kmer32>(out, rng, tier, 7);
    graphs_for::<Kmer48>(out, rng, tier, 7);
    graphs_for::<Kmer64>(out, rng, tier, 7);
    serde_graphs_for::<Kmer4>(out, rng, tier, 12);
    serde_graphs_for::<Kmer5>(out, rng, tier, 12);
    serde_graphs_for::<Kmer8>(out, rng, tier, 8);
    serde_graphs_for::<Kmer15>(out, rng, tier, 6);
    serde_graphs_for::<Kmer32>(out, rng, tier, 5);
    serde_graphs_for::<Kmer48>(out, rng, tier, 5);
    serde_graphs_for::<Kmer64>(out, rng, tier, 5);
}
