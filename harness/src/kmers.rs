//! The 19 shipped k-mer types behind one harness trait, and the C10 case generator.
use crate::val::*;
use debruijn::kmer::*;
use debruijn::{Dir, Kmer, Mer};

pub trait KS: Kmer + std::panic::UnwindSafe + std::panic::RefUnwindSafe + 'static {
    const W: usize;
    fn st(&self) -> u128;
    fn mk(s: u128) -> Self;
    fn kk() -> usize {
        Self::k()
    }
    fn wmask() -> u128 {
        if Self::W == 128 {
            u128::MAX
        } else {
            (1u128 << Self::W) - 1
        }
    }
    fn kmask() -> u128 {
        if 2 * Self::k() == 128 {
            u128::MAX
        } else {
            (1u128 << (2 * Self::k())) - 1
        }
    }
}

macro_rules! ks_int {
    ($t:ty, $w:expr) => {
        impl KS for IntKmer<$t> {
            const W: usize = $w;
            fn st(&self) -> u128 {
                self.storage as u128
            }
            fn mk(s: u128) -> Self {
                IntKmer { storage: s as $t }
            }
        }
    };
}
macro_rules! ks_var {
    ($t:ty, $w:expr, $k:ty) => {
        impl KS for VarIntKmer<$t, $k> {
            const W: usize = $w;
            fn st(&self) -> u128 {
                self.storage as u128
            }
            fn mk(s: u128) -> Self {
                VarIntKmer {
                    storage: s as $t,
                    phantom: std::marker::PhantomData,
                }
            }
        }
    };
}
ks_int!(u8, 8);
ks_int!(u16, 16);
ks_int!(u32, 32);
ks_int!(u64, 64);
ks_int!(u128, 128);
ks_var!(u8, 8, K2);
ks_var!(u8, 8, K3);
// full-width VarIntKmer built from the crate's own public marker K4 (not an alias of kmer.rs): same words as IntKmer<u8>
ks_var!(u8, 8, K4);
ks_var!(u16, 16, K5);
ks_var!(u16, 16, K6);
ks_var!(u32, 32, K10);
ks_var!(u32, 32, K12);
ks_var!(u32, 32, K14);
ks_var!(u32, 32, K15);
ks_var!(u64, 64, K20);
ks_var!(u64, 64, K24);
ks_var!(u64, 64, K30);
ks_var!(u64, 64, K31);
ks_var!(u128, 128, K40);
ks_var!(u128, 128, K48);

/// call `$f::<T>($args)` for each of the 19 shipped types
#[macro_export]
macro_rules! for_all_kmers {
    ($f:ident, $($a:expr),*) => {{
        $f::<debruijn::kmer::Kmer2>($($a),*);
        $f::<debruijn::kmer::Kmer3>($($a),*);
        $f::<debruijn::kmer::Kmer4>($($a),*);
        $f::<debruijn::kmer::Kmer5>($($a),*);
        $f::<debruijn::kmer::Kmer6>($($a),*);
        $f::<debruijn::kmer::Kmer8>($($a),*);
        $f::<debruijn::kmer::Kmer10>($($a),*);
        $f::<debruijn::kmer::Kmer12>($($a),*);
        $f::<debruijn::kmer::Kmer14>($($a),*);
        $f::<debruijn::kmer::Kmer15>($($a),*);
        $f::<debruijn::kmer::Kmer16>($($a),*);
        $f::<debruijn::kmer::Kmer20>($($a),*);
        $f::<debruijn::kmer::Kmer24>($($a),*);
        $f::<debruijn::kmer::Kmer30>($($a),*);
        $f::<debruijn::kmer::VarIntKmer<u64, debruijn::kmer::K31>>($($a),*);
        $f::<debruijn::kmer::Kmer32>($($a),*);
        $f::<debruijn::kmer::Kmer40>($($a),*);
        $f::<debruijn::kmer::Kmer48>($($a),*);
        $f::<debruijn::kmer::Kmer64>($($a),*);
        $f::<debruijn::kmer::VarIntKmer<u8, debruijn::kmer::K4>>($($a),*);
    }};
}

pub fn cfgv<T: KS>(rest: Vec<V>) -> V {
    let mut v = vec![nu(T::W), nu(T::k())];
    v.extend(rest);
    l(v)
}

pub fn bases_of<T: KS>(x: &T) -> Vec<u8> {
    (0..T::k()).map(|i| x.get(i)).collect()
}

/// structured storage values: every lane pattern that has ever mattered, then random ones
pub fn values<T: KS>(rng: &mut Rng, n_random: usize, exhaustive_small: bool) -> Vec<u128> {
    let k = T::k();
    let km = T::kmask();
    let mut v: Vec<u128> = Vec::new();
    if exhaustive_small && k <= 6 {
        for s in 0..(1u128 << (2 * k)) {
            v.push(s);
        }
        return v;
    }
    v.push(0);
    v.push(km);
    v.push(0x5555_5555_5555_5555_5555_5555_5555_5555 & km);
    v.push(0xAAAA_AAAA_AAAA_AAAA_AAAA_AAAA_AAAA_AAAA & km);
    v.push(0x1B1B_1B1B_1B1B_1B1B_1B1B_1B1B_1B1B_1B1B & km);
    v.push(0xE4E4_E4E4_E4E4_E4E4_E4E4_E4E4_E4E4_E4E4 & km);
    for i in 0..(2 * k) {
        v.push(1u128 << i); // single bit
    }
    for i in 0..k {
        v.push(3u128 << (2 * i)); // single lane T
        v.push(km ^ (3u128 << (2 * i))); // single lane A in T's
    }
    for _ in 0..n_random {
        v.push(rng.u128() & km);
    }
    // palindromes (even K): x ++ rc(x)
    if k % 2 == 0 {
        for _ in 0..(n_random / 8 + 2) {
            let mut b: Vec<u8> = (0..k / 2).map(|_| rng.base()).collect();
            let r: Vec<u8> = b.iter().rev().map(|x| 3 - x).collect();
            b.extend(r);
            let mut s = 0u128;
            for x in b {
                s = (s << 2) | x as u128;
            }
            v.push(s);
        }
    }
    v
}

pub struct Tier {
    pub thorough: bool,
    pub shard: usize,
    pub nshards: usize,
}

pub fn kv<T: KS>(rest: Vec<V>) -> V {
    let mut v = vec![nu(T::k())];
    v.extend(rest);
    l(v)
}

fn distinct_bases(bs: &[u8]) -> bool {
    bs.iter().any(|b| *b != bs[0])
}

/// C10: every operation on every value.  For each operation two lines are written from ONE execution of
/// the implementation: `k.<op>` compares the returned storage word with the bit-level model, and
/// `s.k.<op>` compares the returned *bases* (read through get()) with the list-level specification.
pub fn c10_type<T: KS>(out: &mut Out, rng: &mut Rng, tier: &Tier) {
    let k = T::k();
    let vals = values::<T>(rng, if tier.thorough { 400 } else { 24 }, true);
    let full_sweep = k <= 8;
    for (idx, &s) in vals.iter().enumerate() {
        if idx % tier.nshards != tier.shard {
            continue;
        }
        let x = T::mk(s);
        let sv = || n(s);
        let xb = bases_of(&x);
        out.nt = distinct_bases(&xb);
        // unary k-mer valued operations
        macro_rules! kop {
            ($name:expr, $args:expr, $f:expr) => {{
                let r: Option<T> = guard(|| $f);
                let mut a1 = vec![sv()];
                a1.extend($args);
                out.case(concat!("k.", $name), cfgv::<T>(a1), opt(r.map(|y| n(y.st()))));
                let mut a2 = vec![dna(&xb)];
                a2.extend($args);
                out.case(concat!("s.k.", $name), kv::<T>(a2), opt(r.map(|y| dna(&bases_of(&y)))));
            }};
        }
        macro_rules! nop {
            ($name:expr, $args:expr, $f:expr) => {{
                let r: Option<V> = guard(|| $f);
                let mut a1 = vec![sv()];
                a1.extend($args);
                out.case(concat!("k.", $name), cfgv::<T>(a1), opt(r.clone()));
                let mut a2 = vec![dna(&xb)];
                a2.extend($args);
                out.case(concat!("s.k.", $name), kv::<T>(a2), opt(r));
            }};
        }
        // the model's decoding of the storage must be what get() reports at every position
        out.case("k.decode", cfgv::<T>(vec![sv()]), dna(&xb));
        out.case("k.to_bases", cfgv::<T>(vec![sv()]), dna(&xb));
        nop!("to_string", Vec::<V>::new(), bytes(x.to_string().as_bytes()));
        kop!("rc", Vec::<V>::new(), x.rc());
        nop!("at_count", Vec::<V>::new(), n(Mer::at_count(&x)));
        nop!("gc_count", Vec::<V>::new(), n(Mer::gc_count(&x)));
        if k <= 32 {
            nop!("to_u64", Vec::<V>::new(), n(x.to_u64()));
        } else {
            out.case("k.to_u64", cfgv::<T>(vec![sv()]), opt(guard(|| n(x.to_u64()))));
        }
        kop!("min_rc", Vec::<V>::new(), x.min_rc());
        {
            let r = guard(|| x.min_rc_flip());
            out.case(
                "k.min_rc_flip",
                cfgv::<T>(vec![sv()]),
                opt(r.map(|(m, f)| l(vec![n(m.st()), b(f)]))),
            );
            out.case(
                "s.k.min_rc_flip",
                kv::<T>(vec![dna(&xb)]),
                opt(r.map(|(m, f)| l(vec![dna(&bases_of(&m)), b(f)]))),
            );
        }
        nop!("is_palindrome", Vec::<V>::new(), b(x.is_palindrome()));
        for base in 0..4u8 {
            kop!("extend_left", vec![n(base)], x.extend_left(base));
            kop!("extend_right", vec![n(base)], x.extend_right(base));
            let d = (rng.next() & 1) as u8;
            out.case(
                "k.extend",
                cfgv::<T>(vec![sv(), n(base), n(d)]),
                opt(guard(|| n(x.extend(base, if d == 0 { Dir::Left } else { Dir::Right }).st()))),
            );
        }
        // positions: all for small K or thorough, else a spread
        let positions: Vec<usize> = if full_sweep || tier.thorough {
            (0..k).collect()
        } else {
            let mut p = vec![0, 1, k / 2, k - 2, k - 1];
            for _ in 0..3 {
                p.push(rng.below(k));
            }
            p.sort();
            p.dedup();
            p.into_iter().filter(|&i| i < k).collect()
        };
        for &pos in &positions {
            nop!("get", vec![nu(pos)], n(x.get(pos)));
            for base in 0..4u8 {
                kop!("set_mut", vec![nu(pos), n(base)], {
                    let mut y = x;
                    y.set_mut(pos, base);
                    y
                });
            }
            let maxn = std::cmp::min(32, k - pos);
            let runs: Vec<usize> = if full_sweep || tier.thorough {
                (1..=maxn).collect()
            } else {
                let mut r = vec![1, maxn, (maxn + 1) / 2, rng.range(1, maxn)];
                r.sort();
                r.dedup();
                r
            };
            for &nb in &runs {
                // payload: random, with garbage below the n lanes (must be ignored)
                let value: u64 = match rng.below(4) {
                    0 => u64::MAX,
                    1 => 0,
                    _ => rng.next(),
                };
                kop!("set_slice_mut", vec![nu(pos), nu(nb), n(value)], {
                    let mut y = x;
                    y.set_slice_mut(pos, nb, value);
                    y
                });
            }
        }
        // neighbors.rs: all Hamming-distance-1 neighbours, in iteration order; after exhaustion the iterator must keep
        // returning None (three more calls)
        {
            let r: Option<Vec<T>> = guard(|| {
                let mut it = debruijn::neighbors::KmerOneHammingIter::new(x);
                let v: Vec<T> = it.by_ref().collect();
                for _ in 0..3 {
                    assert!(it.next().is_none(), "not fused");
                }
                v
            });
            out.case("k.neighbors", cfgv::<T>(vec![sv()]), opt(r.as_ref().map(|v| l(v.iter().map(|y| n(y.st())).collect()))));
            out.case("s.k.neighbors", kv::<T>(vec![dna(&xb)]), opt(r.map(|v| l(v.iter().map(|y| dna(&bases_of(y))).collect()))));
        }
        // binary ops against structured partners
        let partners = [
            s,
            s ^ 1,
            s ^ (3u128 << (2 * (k - 1))),
            x.rc().st(),
            rng.u128() & T::kmask(),
            rng.u128() & T::kmask(),
        ];
        for &o in &partners {
            let y = T::mk(o);
            let r = guard(|| n(x.hamming_dist(y)));
            out.case("k.hamming_dist", cfgv::<T>(vec![sv(), n(o)]), opt(r.clone()));
            out.case(
                "s.k.hamming_dist",
                kv::<T>(vec![dna(&xb), dna(&bases_of(&y))]),
                opt(r),
            );
        }
        // constructions from the decoded string (round trips)
        let mut longer = xb.clone();
        for _ in 0..rng.below(6) {
            longer.push(rng.base());
        }
        {
            let r = guard(|| T::from_bytes(&longer));
            out.case("k.from_bytes", cfgv::<T>(vec![bytes(&longer)]), opt(r.map(|y| n(y.st()))));
            out.case("s.k.from_bytes", kv::<T>(vec![bytes(&longer)]), opt(r.map(|y| dna(&bases_of(&y)))));
        }
        let ascii: Vec<u8> = longer
            .iter()
            .map(|b| {
                let c = b"ACGT"[*b as usize];
                match rng.below(12) {
                    0..=3 => c.to_ascii_lowercase(),
                    4 => (rng.next() & 0xff) as u8, // arbitrary byte: lenient -> A
                    _ => c,
                }
            })
            .collect();
        {
            let r = guard(|| T::from_ascii(&ascii));
            out.case("k.from_ascii", cfgv::<T>(vec![bytes(&ascii)]), opt(r.map(|y| n(y.st()))));
            out.case("s.k.from_ascii", kv::<T>(vec![bytes(&ascii)]), opt(r.map(|y| dna(&bases_of(&y)))));
        }
        {
            let r = guard(|| T::kmers_from_bytes(&longer));
            out.case(
                "k.kmers_from_bytes",
                cfgv::<T>(vec![bytes(&longer)]),
                opt(r.as_ref().map(|v| l(v.iter().map(|q| n(q.st())).collect()))),
            );
            out.case(
                "s.k.kmers_from_bytes",
                kv::<T>(vec![bytes(&longer)]),
                opt(r.as_ref().map(|v| l(v.iter().map(|q| dna(&bases_of(q))).collect()))),
            );
            let r = guard(|| T::kmers_from_ascii(&ascii));
            out.case(
                "k.kmers_from_ascii",
                cfgv::<T>(vec![bytes(&ascii)]),
                opt(r.as_ref().map(|v| l(v.iter().map(|q| n(q.st())).collect()))),
            );
            out.case(
                "s.k.kmers_from_ascii",
                kv::<T>(vec![bytes(&ascii)]),
                opt(r.as_ref().map(|v| l(v.iter().map(|q| dna(&bases_of(q))).collect()))),
            );
        }
        let r64 = if k <= 32 { s as u64 } else { rng.next() };
        {
            let r = guard(|| T::from_u64(r64));
            out.case("k.from_u64", cfgv::<T>(vec![n(r64)]), opt(r.map(|y| n(y.st()))));
            out.case("s.k.from_u64", kv::<T>(vec![n(r64)]), opt(r.map(|y| dna(&bases_of(&y)))));
        }
    }
    out.nt = false;
    // short inputs: too few bytes (documented panic / empty vector)
    if tier.shard == 0 {
        let short: Vec<u8> = (0..k - 1).map(|_| rng.base()).collect();
        out.case(
            "k.from_bytes",
            cfgv::<T>(vec![bytes(&short)]),
            opt(guard(|| n(T::from_bytes(&short).st()))),
        );
        out.case(
            "k.kmers_from_bytes",
            cfgv::<T>(vec![bytes(&short)]),
            opt(guard(|| l(T::kmers_from_bytes(&short).iter().map(|q| n(q.st())).collect()))),
        );
    }
}

pub fn c10(out: &mut Out, rng: &mut Rng, tier: &Tier) {
    for_all_kmers!(c10_type, out, rng, tier);
}
