//! C05 (k-mer counting/filtering = reference grouping for any pass count) and the filter half of C06
//! (reverse-complement invariance of the k-mer table).
//!
//! ops written (see coq/Interop/DispatchFilter.v):
//!   s.filter / s.filter_get ( K stranded report_all kind thr reads )                 -> ( table all )
//!   f.filter ( K stranded report_all kind thr size_of memory_size unit reads )       -> ( table all passes ) | !
//!   chk.filter_rc ( K report_all kind thr reads flips table all )                    -> 1
//! `table` is what the returned BoomHashMap2 holds (read back with iter(), or with get() for s.filter_get),
//! sorted by k-mer; `all` is the all_kmers vector exactly as returned.
use crate::kmers::*;
use crate::val::*;
use debruijn::dna_string::DnaString;
use debruijn::filter::{filter_kmers, verif_hooks, CountFilter, CountFilterSet};
use debruijn::{DnaBytes, Exts, Vmer};
use std::collections::BTreeMap;
use std::panic::AssertUnwindSafe;

pub trait Lab: Copy + Ord + std::fmt::Debug + 'static {
    fn of(x: u32) -> Self;
    fn v(&self) -> u128;
}
impl Lab for u8 {
    fn of(x: u32) -> u8 {
        x as u8
    }
    fn v(&self) -> u128 {
        *self as u128
    }
}
impl Lab for u32 {
    fn of(x: u32) -> u32 {
        x
    }
    fn v(&self) -> u128 {
        *self as u128
    }
}

#[derive(Clone, Debug)]
pub struct Read {
    pub seq: Vec<u8>,
    pub exts: u8,
    pub lab: u32,
}

pub fn rc_seq(s: &[u8]) -> Vec<u8> {
    s.iter().rev().map(|b| 3 - b).collect()
}

/// one motif of the grammar; `pool` holds earlier chunks for reuse
fn motif(rng: &mut Rng, k: usize, pool: &mut Vec<Vec<u8>>) -> Vec<u8> {
    let small = k <= 8;
    let chunk = |rng: &mut Rng, lo: usize, hi: usize| -> Vec<u8> { (0..rng.range(lo, hi)).map(|_| rng.base()).collect() };
    let m: Vec<u8> = match rng.below(9) {
        0 | 1 => chunk(rng, 1, k + 6),
        2 => {
            // reuse of an earlier chunk (forward or reverse complement)
            if pool.is_empty() {
                chunk(rng, k, k + 4)
            } else {
                let c = pool[rng.below(pool.len())].clone();
                if rng.chance(1, 3) {
                    rc_seq(&c)
                } else {
                    c
                }
            }
        }
        3 => {
            // hairpin w . loop . rc(w)
            let w = chunk(rng, (k + 1) / 2, k + 2);
            let lp = chunk(rng, 0, 3);
            let mut s = w.clone();
            s.extend(lp);
            s.extend(rc_seq(&w));
            s
        }
        4 => {
            // even-length palindrome; of length exactly K when K is even, so that it is a palindromic k-mer
            let h = if k % 2 == 0 && rng.chance(2, 3) { k / 2 } else { rng.range(2, k) };
            let w: Vec<u8> = (0..h).map(|_| rng.base()).collect();
            let mut s = w.clone();
            s.extend(rc_seq(&w));
            s
        }
        5 => {
            // tandem repeat
            let u = chunk(rng, 1, 4);
            let reps = rng.range(2, if small { 8 } else { 2 + k });
            let mut s = Vec::new();
            for _ in 0..reps {
                s.extend(u.iter());
            }
            s
        }
        6 => {
            // homopolymer
            let b = rng.base();
            vec![b; rng.range(2, k + 5)]
        }
        7 => {
            // low-complexity alphabet of 1..3 letters
            let na = rng.range(1, 3);
            let al: Vec<u8> = (0..na).map(|_| rng.base()).collect();
            (0..rng.range(k, 2 * k + 4)).map(|_| al[rng.below(al.len())]).collect()
        }
        _ => {
            // a palindromic 2-letter tandem (AT)^m / (CG)^m: every even window is a palindrome
            let u = if rng.chance(1, 2) { [0u8, 3] } else { [1u8, 2] };
            let reps = rng.range(2, k);
            let mut s = Vec::new();
            for _ in 0..reps {
                s.extend(u.iter());
            }
            s
        }
    };
    if m.len() >= k && pool.len() < 12 {
        pool.push(m.clone());
    }
    m
}

/// a read set; `min_kmers` asks for enough k-mers that many passes are reachable
pub fn gen_reads(rng: &mut Rng, k: usize, min_kmers: usize) -> Vec<Read> {
    let mut pool: Vec<Vec<u8>> = Vec::new();
    let nreads = match rng.below(10) {
        0 => 1,
        1..=6 => rng.range(2, 4),
        7 | 8 => rng.range(5, 6),
        _ => rng.range(7, 9),
    };
    let nlab = rng.range(1, 4) as u32;
    let wide = rng.chance(1, 4);
    let mut reads = Vec::new();
    let mut total = 0usize;
    let mut i = 0;
    while i < nreads || total < min_kmers {
        let mut seq = Vec::new();
        match rng.below(12) {
            0 => {
                // shorter than K (possibly empty): contributes nothing
                seq = (0..rng.below(k)).map(|_| rng.base()).collect();
            }
            1 => {
                // exactly K
                seq = (0..k).map(|_| rng.base()).collect();
            }
            _ => {
                for _ in 0..rng.range(1, 3) {
                    seq.extend(motif(rng, k, &mut pool));
                }
            }
        }
        let exts = if rng.chance(3, 4) {
            0u8
        } else {
            match rng.below(3) {
                0 => (rng.next() & 0xff) as u8,
                1 => 1u8 << rng.below(4),
                _ => (1u8 << (4 + rng.below(4))) | (1u8 << rng.below(4)),
            }
        };
        let lab = if wide { 250 + rng.below(nlab as usize) as u32 * 1000 } else { rng.below(nlab as usize) as u32 };
        total += (seq.len() + 1).saturating_sub(k);
        reads.push(Read { seq, exts, lab });
        i += 1;
        if i > 400 {
            break;
        }
    }
    reads
}

#[derive(Clone, Debug)]
pub struct Params {
    pub stranded: bool,
    pub report_all: bool,
    pub kind: u8,
    pub thr: usize,
    pub mem: usize,
    pub unit: usize,
}

pub struct Res {
    pub table: Vec<(Vec<u8>, u8, V)>,
    pub table_get: Vec<(Vec<u8>, u8, V)>,
    pub all: Vec<Vec<u8>>,
    pub passes: usize,
}

fn collect<T: KS, DS: std::fmt::Debug + PartialEq>(
    res: (boomphf::hashmap::BoomHashMap2<T, Exts, DS>, Vec<T>),
    dv: &dyn Fn(&DS) -> V,
    rng_extra: &[Vec<u8>],
) -> Res {
    let (map, all) = res;
    let passes = verif_hooks::last_pass_count();
    let mut table: Vec<(Vec<u8>, u8, V)> = map.iter().map(|(k, e, d)| (bases_of(k), e.val, dv(d))).collect();
    table.sort_by(|a, b| a.0.cmp(&b.0));
    let all_b: Vec<Vec<u8>> = all.iter().map(bases_of).collect();
    // the same table through get(): present keys, their reverse complements, rejected k-mers, strangers
    let mut queries: Vec<Vec<u8>> = table.iter().map(|t| t.0.clone()).collect();
    queries.extend(all_b.iter().cloned());
    let rcs: Vec<Vec<u8>> = queries.iter().map(|q| rc_seq(q)).collect();
    queries.extend(rcs);
    queries.extend(rng_extra.iter().cloned());
    queries.sort();
    queries.dedup();
    let mut table_get = Vec::new();
    for q in queries {
        let kq = T::from_bytes(&q);
        if let Some((e, d)) = map.get(&kq) {
            // boomphf returns a slot for strangers too unless the key matches: BoomHashMap2 verifies the key
            table_get.push((q, e.val, dv(d)));
        }
    }
    Res { table, table_get, all: all_b, passes }
}

fn run_v<T: KS, L: Lab, Vm: Vmer>(seqs: Vec<(Vm, Exts, L)>, p: &Params, extra: &[Vec<u8>]) -> Option<Res> {
    verif_hooks::set_mem_unit(p.unit);
    let r = guard(AssertUnwindSafe(|| {
        if p.kind == 0 {
            let s = Box::new(CountFilter::new(p.thr));
            let res = filter_kmers::<T, _, _, _, _>(&seqs, &s, p.stranded, p.report_all, p.mem);
            collect::<T, u16>(res, &|d: &u16| n(*d), extra)
        } else {
            let s: Box<CountFilterSet<L>> = Box::new(CountFilterSet::new(p.thr));
            let res = filter_kmers::<T, _, _, _, _>(&seqs, &s, p.stranded, p.report_all, p.mem);
            collect::<T, Vec<L>>(res, &|d: &Vec<L>| l(d.iter().map(|x| V::N(x.v())).collect()), extra)
        }
    }));
    verif_hooks::set_mem_unit(0);
    r
}

pub fn run<T: KS, L: Lab>(reads: &[Read], p: &Params, container: usize, extra: &[Vec<u8>]) -> Option<Res> {
    if container == 0 {
        let seqs: Vec<(DnaString, Exts, L)> =
            reads.iter().map(|r| (DnaString::from_bytes(&r.seq), Exts::new(r.exts), L::of(r.lab))).collect();
        run_v::<T, L, _>(seqs, p, extra)
    } else {
        let seqs: Vec<(DnaBytes, Exts, L)> =
            reads.iter().map(|r| (DnaBytes(r.seq.clone()), Exts::new(r.exts), L::of(r.lab))).collect();
        run_v::<T, L, _>(seqs, p, extra)
    }
}

fn reads_v<L: Lab>(reads: &[Read]) -> V {
    l(reads.iter().map(|r| l(vec![dna(&r.seq), n(r.exts), V::N(L::of(r.lab).v())])).collect())
}
fn table_v(t: &[(Vec<u8>, u8, V)]) -> V {
    l(t.iter().map(|(k, e, d)| l(vec![dna(k), n(*e), d.clone()])).collect())
}
fn all_v(a: &[Vec<u8>]) -> V {
    l(a.iter().map(|k| dna(k)).collect())
}

/// some k-mer (canonical unless stranded) is observed at least twice
fn has_repeat(reads: &[Read], k: usize, stranded: bool) -> bool {
    let mut m: BTreeMap<Vec<u8>, usize> = BTreeMap::new();
    for r in reads {
        if r.seq.len() < k {
            continue;
        }
        for i in 0..=(r.seq.len() - k) {
            let w = r.seq[i..i + k].to_vec();
            let c = if stranded { w } else { std::cmp::min(w.clone(), rc_seq(&w)) };
            *m.entry(c).or_insert(0) += 1;
        }
    }
    m.values().any(|c| *c >= 2)
}

/// memory parameters (memory_size, unit) aiming at a given number of slices
fn mem_for(rng: &mut Rng, kmer_mem: usize, slices: usize) -> (usize, usize) {
    if slices <= 1 {
        // one pass: either the built-in unit (hook off) or a budget above the need
        if rng.chance(1, 3) {
            return (rng.range(1, 4), 0);
        }
        let m = kmer_mem + 1 + rng.below(5);
        return split(rng, m);
    }
    let m = std::cmp::max(1, kmer_mem / (slices - 1));
    // smallest m' with kmer_mem / m' + 1 == slices would be nicer; any m giving >= slices is fine
    split(rng, m)
}
fn split(rng: &mut Rng, m: usize) -> (usize, usize) {
    // m = memory_size * unit
    let mut divs = vec![1usize];
    for d in 2..=std::cmp::min(m, 64) {
        if m % d == 0 {
            divs.push(d);
        }
    }
    let d = divs[rng.below(divs.len())];
    if rng.chance(1, 2) {
        (d, m / d)
    } else {
        (m / d, d)
    }
}

pub struct Stats {
    pub passes: BTreeMap<usize, usize>,
}

fn one_set<T: KS, L: Lab>(out: &mut Out, rng: &mut Rng, reads: &[Read], ncombos: usize, stats: &mut Stats) {
    let k = T::k();
    let size_of = std::mem::size_of::<(T, L)>();
    let input_kmers: usize = reads.iter().map(|r| r.seq.len().saturating_sub(k - 1)).sum();
    let kmer_mem = input_kmers * size_of;
    let extra: Vec<Vec<u8>> = (0..4).map(|_| (0..k).map(|_| rng.base()).collect()).collect();
    for _ in 0..ncombos {
        let slices = match rng.below(10) {
            0 | 1 => 1,
            2..=4 => rng.range(2, 9),
            5 | 6 => rng.range(10, 130),
            7 => rng.range(131, 256),
            _ => 257 + rng.below(4),
        };
        let (mem, unit) = if rng.chance(1, 60) { (0, rng.below(3)) } else { mem_for(rng, kmer_mem, slices) };
        let p = Params {
            stranded: rng.chance(1, 2),
            report_all: rng.chance(1, 2),
            kind: rng.below(2) as u8,
            thr: match rng.below(8) {
                0 => 0,
                1..=3 => 1,
                4 | 5 => 2,
                6 => 3,
                _ => 4,
            },
            mem,
            unit,
        };
        let container = rng.below(2);
        let r = run::<T, L>(reads, &p, container, &extra);
        let rv = reads_v::<L>(reads);
        let head = vec![nu(k), b(p.stranded), b(p.report_all), n(p.kind), nu(p.thr)];
        let rep = has_repeat(reads, k, p.stranded);
        // model-level: pass-by-pass model with the same memory parameters
        let mut fin = head.clone();
        fin.extend(vec![nu(size_of), nu(p.mem), nu(p.unit), rv.clone()]);
        match &r {
            Some(res) => {
                *stats.passes.entry(res.passes).or_insert(0) += 1;
                out.nt = rep && res.passes >= 2;
                out.case("f.filter", l(fin), l(vec![table_v(&res.table), all_v(&res.all), nu(res.passes)]));
                let mut sin = head.clone();
                sin.push(rv.clone());
                out.nt = rep;
                out.case("s.filter", l(sin.clone()), l(vec![table_v(&res.table), all_v(&res.all)]));
                out.case("s.filter_get", l(sin), l(vec![table_v(&res.table_get), all_v(&res.all)]));
            }
            None => {
                *stats.passes.entry(0).or_insert(0) += 1;
                out.nt = false;
                out.case("f.filter", l(fin), V::Bot);
                // with a non-zero budget filter_kmers returns for EVERY read set (C05_filter_spec; only the zero
                // budget panics: C05_zero_budget_panics) - a panic is a failing input of the property
                if p.mem >= 1 {
                    let mut sin = head.clone();
                    sin.push(rv.clone());
                    out.case("s.filter", l(sin), V::Bot);
                }
            }
        }
        out.nt = false;
    }
}

fn c05_type<T: KS, L: Lab>(out: &mut Out, rng0: &mut Rng, tier: &Tier, nsets: usize, stats: &mut Stats) {
    let k = T::k();
    let mut rng = Rng::new(rng0.next() ^ (tier.shard as u64).wrapping_mul(0x9E37_79B9_7F4A_7C15));
    let size_of = std::mem::size_of::<(T, L)>();
    for i in 0..nsets {
        // every third set is large enough that 256 passes are reachable (kmer_mem >= 256 bytes)
        let min_kmers = if i % 3 == 2 { 256 / size_of + 2 } else { 0 };
        let reads = gen_reads(&mut rng, k, min_kmers);
        one_set::<T, L>(out, &mut rng, &reads, if tier.thorough { 6 } else { 4 }, stats);
    }
}

/// > 65535 observations of one k-mer (40000 A^K + 30000 T^K): the saturating u16 count (shard 0 only; quick tier: thresholds 1 and 65536)
fn saturating<T: KS>(out: &mut Out, stats: &mut Stats, thorough: bool) {
    let k = T::k();
    // many reads of 250 k-mers each (the model's positional iterator is quadratic in the read length)
    let mut reads: Vec<Read> = Vec::new();
    for _ in 0..160 {
        reads.push(Read { seq: vec![0u8; 250 + k - 1], exts: 0, lab: 1 });
    }
    for _ in 0..120 {
        reads.push(Read { seq: vec![3u8; 250 + k - 1], exts: 0x11, lab: 2 });
    }
    reads.push(Read { seq: vec![1u8; 100 + k - 1], exts: 0, lab: 3 });
    // the LAST observations of the saturated k-mer bring flanking bases no earlier observation had (C . A^K . G, and
    // boundary extensions on a bare A^K): the extension set is the union over ALL observations, also those beyond
    // the 65535th
    {
        let mut r = vec![1u8];
        r.extend(vec![0u8; k]);
        r.push(2u8);
        reads.push(Read { seq: r, exts: 0, lab: 4 });
        reads.push(Read { seq: vec![0u8; k], exts: 0x84, lab: 5 });
    }
    let size_of = std::mem::size_of::<(T, u8)>();
    for (stranded, thr, mem, unit) in [
        (false, 1usize, 1usize, 0usize),
        (false, 65535, 1, 0),
        (false, 65536, 1, 0),
        (false, 70000, 70_000 * size_of, 1),
        (true, 40001, 1, 0),
        (false, 3, 100_000, 1),
    ] {
        if !thorough && !(thr == 1 || thr == 65536) {
            continue;
        }
        let p = Params { stranded, report_all: true, kind: 0, thr, mem, unit };
        let r = run::<T, u8>(&reads, &p, 0, &[]);
        let rv = reads_v::<u8>(&reads);
        let head = vec![nu(k), b(p.stranded), b(p.report_all), n(p.kind), nu(p.thr)];
        out.nt = true;
        if let Some(res) = &r {
            *stats.passes.entry(res.passes).or_insert(0) += 1;
            let mut fin = head.clone();
            fin.extend(vec![nu(size_of), nu(p.mem), nu(p.unit), rv.clone()]);
            out.case("f.filter", l(fin), l(vec![table_v(&res.table), all_v(&res.all), nu(res.passes)]));
            let mut sin = head.clone();
            sin.push(rv);
            out.case("s.filter", l(sin), l(vec![table_v(&res.table), all_v(&res.all)]));
        } else {
            let mut sin = head.clone();
            sin.push(rv);
            out.case("s.filter", l(sin), V::Bot);
        }
        out.nt = false;
    }
}

fn stat_line(out: &mut Out, stats: &Stats) {
    let s: Vec<String> = stats.passes.iter().map(|(p, c)| format!("{}:{}", p, c)).collect();
    out.comment(&format!("stat pass_count_histogram (passes:cases, 0 = panicked) {}", s.join(" ")));
}

pub fn c05(out: &mut Out, rng: &mut Rng, tier: &Tier) {
    use debruijn::kmer::*;
    let mut stats = Stats { passes: BTreeMap::new() };
    let (ns, nb) = if tier.thorough { (60, 12) } else { (10, 2) };
    c05_type::<Kmer4, u8>(out, rng, tier, ns, &mut stats);
    c05_type::<Kmer4, u32>(out, rng, tier, ns / 2, &mut stats);
    c05_type::<Kmer5, u8>(out, rng, tier, ns, &mut stats);
    c05_type::<Kmer6, u32>(out, rng, tier, ns, &mut stats);
    c05_type::<Kmer8, u8>(out, rng, tier, ns / 2, &mut stats);
    c05_type::<Kmer8, u32>(out, rng, tier, ns, &mut stats);
    c05_type::<Kmer15, u8>(out, rng, tier, nb, &mut stats);
    c05_type::<Kmer16, u32>(out, rng, tier, nb, &mut stats);
    c05_type::<VarIntKmer<u64, K31>, u8>(out, rng, tier, nb, &mut stats);
    c05_type::<Kmer32, u32>(out, rng, tier, nb, &mut stats);
    // every run (one shard): a k-mer with more than 65535 observations - the saturating u16 count
    if tier.shard == 0 {
        saturating::<Kmer4>(out, &mut stats, tier.thorough);
    }
    stat_line(out, &stats);
}

// ------------------------------------------------------------------------------------------ C06, filter half
fn c06_type<T: KS, L: Lab>(out: &mut Out, rng0: &mut Rng, tier: &Tier, nsets: usize, nflips: &mut BTreeMap<usize, usize>) {
    let k = T::k();
    let mut rng = Rng::new(rng0.next() ^ (tier.shard as u64).wrapping_mul(0x9E37_79B9_7F4A_7C15));
    for _ in 0..nsets {
        let mut reads = gen_reads(&mut rng, k, 0);
        if reads.len() > 9 {
            reads.truncate(9);
        }
        let nr = reads.len();
        let p = Params {
            stranded: false,
            report_all: rng.chance(1, 2),
            kind: rng.below(2) as u8,
            thr: rng.range(1, 3),
            mem: 1,
            unit: 0,
        };
        // all 2^n subsets for n <= 6 (quick: n <= 4), sampled beyond
        let full = if tier.thorough { 6 } else { 4 };
        let subsets: Vec<u32> = if nr <= full {
            (0..(1u32 << nr)).collect()
        } else {
            let mut v: Vec<u32> = vec![0, (1u32 << nr) - 1];
            for _ in 0..(if tier.thorough { 40 } else { 10 }) {
                v.push((rng.next() as u32) & ((1u32 << nr) - 1));
            }
            v
        };
        let rep = has_repeat(&reads, k, false);
        let rv = reads_v::<L>(&reads);
        for s in subsets {
            let flips: Vec<bool> = (0..nr).map(|i| (s >> i) & 1 == 1).collect();
            let fr: Vec<Read> = reads
                .iter()
                .zip(flips.iter())
                .map(|(r, f)| {
                    if *f {
                        Read { seq: rc_seq(&r.seq), exts: Exts::new(r.exts).rc().val, lab: r.lab }
                    } else {
                        r.clone()
                    }
                })
                .collect();
            // half of the runs under a memory budget that forces several bucket passes (hook H1): the table of the
            // flipped reads must not depend on it either
            let pp = if rng.chance(1, 2) {
                let size_of = std::mem::size_of::<(T, L)>();
                let input_kmers: usize = fr.iter().map(|r| r.seq.len().saturating_sub(k - 1)).sum();
                let slices = match rng.below(4) {
                    0 => 2,
                    1 => rng.range(3, 9),
                    2 => rng.range(10, 130),
                    _ => 257,
                };
                let (mem, unit) = mem_for(&mut rng, input_kmers * size_of, slices);
                Params { mem, unit, ..p.clone() }
            } else {
                p.clone()
            };
            let res = run::<T, L>(&fr, &pp, rng.below(2), &[]);
            *nflips.entry(flips.iter().filter(|f| **f).count()).or_insert(0) += 1;
            out.nt = rep && s != 0;
            let input = vec![nu(k), b(p.report_all), n(p.kind), nu(p.thr), rv.clone(), l(flips.iter().map(|f| b(*f)).collect())];
            match res {
                Some(res) => {
                    let mut i2 = input;
                    i2.push(table_v(&res.table));
                    i2.push(all_v(&res.all));
                    out.case("chk.filter_rc", l(i2), n(1u8));
                    // and the flipped read set against its own reference grouping
                    let sin = vec![nu(k), b(false), b(p.report_all), n(p.kind), nu(p.thr), reads_v::<L>(&fr)];
                    out.case("s.filter", l(sin), l(vec![table_v(&res.table), all_v(&res.all)]));
                }
                None => {
                    let sin = vec![nu(k), b(false), b(p.report_all), n(p.kind), nu(p.thr), reads_v::<L>(&fr)];
                    out.case("s.filter", l(sin), V::Bot);
                }
            }
            out.nt = false;
        }
        // stranded mode: exactly the forward k-mers (reference grouping in stranded mode)
        let ps = Params { stranded: true, ..p.clone() };
        if let Some(res) = run::<T, L>(&reads, &ps, 0, &[]) {
            out.nt = rep;
            let sin = vec![nu(k), b(true), b(ps.report_all), n(ps.kind), nu(ps.thr), rv.clone()];
            out.case("s.filter", l(sin), l(vec![table_v(&res.table), all_v(&res.all)]));
            out.nt = false;
        }
    }
}

pub fn c06_filter(out: &mut Out, rng: &mut Rng, tier: &Tier) {
    use debruijn::kmer::*;
    let mut nf: BTreeMap<usize, usize> = BTreeMap::new();
    let (ns, nb) = if tier.thorough { (40, 8) } else { (6, 1) };
    c06_type::<Kmer4, u8>(out, rng, tier, ns, &mut nf);
    c06_type::<Kmer5, u32>(out, rng, tier, ns, &mut nf);
    c06_type::<Kmer6, u8>(out, rng, tier, ns, &mut nf);
    c06_type::<Kmer8, u32>(out, rng, tier, ns, &mut nf);
    c06_type::<Kmer15, u8>(out, rng, tier, nb, &mut nf);
    c06_type::<Kmer16, u8>(out, rng, tier, nb, &mut nf);
    c06_type::<VarIntKmer<u64, K31>, u32>(out, rng, tier, nb, &mut nf);
    c06_type::<Kmer32, u8>(out, rng, tier, nb, &mut nf);
    c06_type::<VarIntKmer<u8, K4>, u8>(out, rng, tier, ns, &mut nf);
    let s: Vec<String> = nf.iter().map(|(p, c)| format!("{}:{}", p, c)).collect();
    out.comment(&format!("stat flipped_reads_histogram (flipped:cases) {}", s.join(" ")));
}
