//! Interchange values (see coq/Interop/Val.v): hex numbers, ( lists ), "ACGT" strings, ! for panic.
use std::fmt::Write;

#[derive(Clone, Debug, PartialEq)]
pub enum V {
    N(u128),
    L(Vec<V>),
    Dna(Vec<u8>),
    Bot,
}

impl V {
    pub fn write(&self, out: &mut String) {
        match self {
            V::N(n) => {
                write!(out, "{:x}", n).unwrap();
            }
            V::L(l) => {
                out.push('(');
                for x in l {
                    out.push(' ');
                    x.write(out);
                }
                out.push_str(" )");
            }
            V::Dna(d) => {
                if d.iter().all(|b| *b < 4) {
                    out.push('"');
                    for b in d {
                        out.push(b"ACGT"[*b as usize] as char);
                    }
                    out.push('"');
                } else {
                    out.push('(');
                    for x in d {
                        write!(out, " {:x}", x).unwrap();
                    }
                    out.push_str(" )");
                }
            }
            V::Bot => out.push('!'),
        }
    }
}

pub fn n<T: Into<u128>>(x: T) -> V {
    V::N(x.into())
}
pub fn nu(x: usize) -> V {
    V::N(x as u128)
}
pub fn b(x: bool) -> V {
    V::N(x as u128)
}
pub fn l(v: Vec<V>) -> V {
    V::L(v)
}
pub fn bytes(v: &[u8]) -> V {
    V::L(v.iter().map(|x| V::N(*x as u128)).collect())
}
pub fn dna(v: &[u8]) -> V {
    V::Dna(v.to_vec())
}
pub fn opt(v: Option<V>) -> V {
    v.unwrap_or(V::Bot)
}

/// Output sink: one case per line `op input result`.
pub struct Out {
    buf: String,
    w: std::io::BufWriter<std::fs::File>,
    pub lines: u64,
    /// when set, emitted cases are flagged non-trivial (trailing `+`), per the property's stated rule
    pub nt: bool,
}

impl Out {
    pub fn new(path: &str) -> Out {
        Out {
            buf: String::new(),
            w: std::io::BufWriter::new(std::fs::File::create(path).expect("create out")),
            lines: 0,
            nt: false,
        }
    }
    pub fn case(&mut self, op: &str, input: V, result: V) {
        use std::io::Write as _;
        self.buf.clear();
        self.buf.push_str(op);
        self.buf.push(' ');
        input.write(&mut self.buf);
        self.buf.push(' ');
        result.write(&mut self.buf);
        if self.nt {
            self.buf.push_str(" +");
        }
        self.buf.push('\n');
        self.w.write_all(self.buf.as_bytes()).unwrap();
        self.lines += 1;
    }
    pub fn comment(&mut self, s: &str) {
        use std::io::Write as _;
        writeln!(self.w, "# {}", s).unwrap();
    }
    pub fn finish(mut self) {
        use std::io::Write as _;
        self.w.flush().unwrap();
    }
}

/// xorshift64* — the only source of randomness, seeded from VERIF_SEED/shard.
pub struct Rng(pub u64);
impl Rng {
    pub fn new(seed: u64) -> Rng {
        let mut r = Rng(seed.wrapping_mul(0x9E3779B97F4A7C15) ^ 0xD1B54A32D192ED03);
        if r.0 == 0 {
            r.0 = 1;
        }
        for _ in 0..4 {
            r.next();
        }
        r
    }
    pub fn next(&mut self) -> u64 {
        let mut x = self.0;
        x ^= x >> 12;
        x ^= x << 25;
        x ^= x >> 27;
        self.0 = x;
        x.wrapping_mul(0x2545F4914F6CDD1D)
    }
    pub fn below(&mut self, n: usize) -> usize {
        if n == 0 {
            0
        } else {
            (self.next() % n as u64) as usize
        }
    }
    pub fn range(&mut self, lo: usize, hi: usize) -> usize {
        lo + self.below(hi - lo + 1)
    }
    pub fn chance(&mut self, num: usize, den: usize) -> bool {
        self.below(den) < num
    }
    pub fn u128(&mut self) -> u128 {
        ((self.next() as u128) << 64) | self.next() as u128
    }
    pub fn base(&mut self) -> u8 {
        (self.next() & 3) as u8
    }
    pub fn pick<'a, T>(&mut self, xs: &'a [T]) -> &'a T {
        &xs[self.below(xs.len())]
    }
}

/// run impl code, mapping a panic to None
pub fn guard<T, F: FnOnce() -> T + std::panic::UnwindSafe>(f: F) -> Option<T> {
    std::panic::catch_unwind(f).ok()
}
