//! C04 (sharded assembly = unsharded assembly) and the graph half of C06 (strand symmetry / strand separation
//! of the finished graph), END TO END on the real code:
//!   sharded : msp_sequence per read -> pieces grouped by bucket -> per shard filter_kmers (CountFilterSet) ->
//!             [remove_censored_exts_sharded] -> compress_kmers_with_hash -> BaseGraph::combine -> finish ->
//!             compress_graph(stranded, spec, combined, None)
//!   direct  : filter_kmers on whole reads -> remove_censored_exts (threshold > 1) -> compress_kmers_with_hash -> finish
//!   single  : the direct table as one node per k-mer -> finish -> compress_graph          ("re-compressed" route 1)
//!   recomp  : compress_graph of the direct graph                                           ("re-compressed" route 2)
//! ops written (coq/Interop/DispatchPipeline.v):
//!   p.sharded ( K P stranded perm? thr mode variant maxlen reads orders ) -> ( buckets shard_graphs final ) | !
//!   p.direct  ( K stranded thr mode route reads order )                   -> graph | !
//!   chk.c04 / chk.c06.graph ( K stranded mode gA gB )                      -> 1   (verified checker same_assembly)
//!   chk.graph_exact / chk.c06.stranded ( K stranded thr reads g )          -> 1   (k-mers and links vs Layer S)
//! reads = ( ( "ACGT" label ) .. ); graph = ( ( "SEQ" exts colour ( ids ) ) .. ); payload = (colour = bit mask of the
//! labels of the reads containing the k-mer, ids = [k-mer rank]), reduce keeps the colour and concatenates ids.
use crate::gen::*;
use crate::kmers::*;
use crate::val::*;
use boomphf::hashmap::BoomHashMap2;
use debruijn::compression::*;
use debruijn::dna_string::DnaString;
use debruijn::filter::*;
use debruijn::graph::BaseGraph;
use debruijn::{Exts, Vmer};
use std::collections::BTreeMap;
use std::panic::AssertUnwindSafe;

pub type Pay = (u8, Vec<u64>);
pub struct PaySpec {
    pub mode: u8,
}
impl CompressionSpec<Pay> for PaySpec {
    fn reduce(&self, mut d: Pay, other: &Pay) -> Pay {
        d.1.extend(other.1.iter().cloned());
        d
    }
    fn join_test(&self, a: &Pay, b: &Pay) -> bool {
        self.mode == 0 || a.0 == b.0
    }
}

type Tbl<T> = Vec<(T, (Exts, Pay))>;
pub type Nodes = Vec<(Vec<u8>, u8, u8, Vec<u64>)>;
pub type LRead = (Vec<u8>, u8);

fn nodes_of<T: KS>(g: &BaseGraph<T, Pay>) -> Nodes {
    (0..g.len())
        .map(|i| (g.sequences.get(i).bytes(), g.exts[i].val, g.data[i].0, g.data[i].1.clone()))
        .collect()
}
pub fn nodes_v(g: &Nodes) -> V {
    l(g.iter()
        .map(|x| l(vec![dna(&x.0), n(x.1), n(x.2), l(x.3.iter().map(|i| n(*i)).collect())]))
        .collect())
}
pub fn reads_v(reads: &[LRead]) -> V {
    l(reads.iter().map(|r| l(vec![dna(&r.0), n(r.1)])).collect())
}

/// filter_kmers (CountFilterSet over the read labels), table sorted by key, optional pruning
/// variant: 0 none, 1 remove_censored_exts, 2 remove_censored_exts_sharded(all_kmers of this call)
fn table_of<T: KS>(seqs: &[(DnaString, Exts, u8)], stranded: bool, thr: usize, variant: u8) -> Tbl<T> {
    let s: Box<CountFilterSet<u8>> = Box::new(CountFilterSet::new(thr));
    let (hash, all) = filter_kmers::<T, _, _, _, _>(seqs, &s, stranded, true, 1);
    let mut tbl: Tbl<T> = hash
        .iter()
        .map(|(k, e, d)| (*k, (*e, (d.iter().fold(0u8, |m, x| m | (1u8 << (*x & 7))), vec![k.to_u64()]))))
        .collect();
    tbl.sort_by_key(|x| x.0);
    match variant {
        1 => remove_censored_exts(stranded, &mut tbl),
        2 => remove_censored_exts_sharded(stranded, &mut tbl, &all),
        _ => {}
    }
    tbl
}
fn boom_of<T: KS>(tbl: &Tbl<T>) -> BoomHashMap2<T, Exts, Pay> {
    BoomHashMap2::new(
        tbl.iter().map(|x| x.0).collect(),
        tbl.iter().map(|x| (x.1).0).collect(),
        tbl.iter().map(|x| (x.1).1.clone()).collect(),
    )
}
fn order_of<T: KS>(h: &BoomHashMap2<T, Exts, Pay>) -> Vec<Vec<u8>> {
    h.iter().map(|(k, _, _)| bases_of(k)).collect()
}
fn order_v(o: &[Vec<u8>]) -> V {
    l(o.iter().map(|k| dna(k)).collect())
}

pub struct Sharded {
    pub buckets: Vec<u32>,
    pub orders: Vec<Vec<Vec<u8>>>,
    pub shard_graphs: Vec<Nodes>,
    pub fin: Nodes,
}

pub fn run_sharded<T: KS + Send + Sync, P: KS>(
    reads: &[LRead],
    stranded: bool,
    perm: Option<&[usize]>,
    thr: usize,
    mode: u8,
    variant: u8,
) -> Option<Sharded> {
    guard(AssertUnwindSafe(|| {
        let k = T::k();
        let mut shards: BTreeMap<u32, Vec<(DnaString, Exts, u8)>> = BTreeMap::new();
        for (r, lab) in reads {
            let pieces = debruijn::msp::msp_sequence::<P, DnaString>(k, r, perm, !stranded);
            for (b, e, v) in pieces {
                shards.entry(b).or_insert_with(Vec::new).push((v, e, *lab));
            }
        }
        let spec = PaySpec { mode };
        let mut buckets = Vec::new();
        let mut orders = Vec::new();
        let mut shard_graphs = Vec::new();
        let mut graphs = Vec::new();
        for (b, seqs) in shards.iter() {
            let tbl = table_of::<T>(seqs, stranded, thr, variant);
            let hash = boom_of(&tbl);
            let g = compress_kmers_with_hash(stranded, &spec, &hash);
            buckets.push(*b);
            orders.push(order_of(&hash));
            shard_graphs.push(nodes_of(&g));
            graphs.push(g);
        }
        let combined = BaseGraph::combine(graphs.into_iter()).finish();
        let fin = compress_graph(stranded, &spec, combined, None);
        Sharded { buckets, orders, shard_graphs, fin: nodes_of(&fin.base) }
    }))
}

/// route 0: compress_kmers_with_hash; 1: one node per k-mer, compress_graph; 2: route 0 then compress_graph
pub fn run_direct<T: KS + Send + Sync>(
    reads: &[LRead],
    stranded: bool,
    thr: usize,
    mode: u8,
    route: u8,
) -> Option<(Vec<Vec<u8>>, Nodes)> {
    guard(AssertUnwindSafe(|| {
        let seqs: Vec<(DnaString, Exts, u8)> =
            reads.iter().map(|(r, lab)| (DnaString::from_bytes(r), Exts::empty(), *lab)).collect();
        let tbl = table_of::<T>(&seqs, stranded, thr, if thr > 1 { 1 } else { 0 });
        let hash = boom_of(&tbl);
        let spec = PaySpec { mode };
        let order = order_of(&hash);
        let g = match route {
            0 => compress_kmers_with_hash(stranded, &spec, &hash).finish().base,
            1 => {
                let mut bg: BaseGraph<T, Pay> = BaseGraph::new(stranded);
                for (kmer, exts, d) in hash.iter() {
                    bg.add(kmer.iter(), *exts, d.clone());
                }
                compress_graph(stranded, &spec, bg.finish(), None).base
            }
            _ => {
                let g0 = compress_kmers_with_hash(stranded, &spec, &hash).finish();
                compress_graph(stranded, &spec, g0, None).base
            }
        };
        (order, nodes_of(&g))
    }))
}

fn perm_v(perm: &Option<Vec<usize>>) -> V {
    match perm {
        Some(t) => l(vec![l(t.iter().map(|x| nu(*x)).collect())]),
        None => l(vec![]),
    }
}
fn gen_perm(rng: &mut Rng, p: usize) -> Option<Vec<usize>> {
    if p <= 5 && rng.chance(1, 2) {
        let np = 1usize << (2 * p);
        let mut t: Vec<usize> = (0..np).collect();
        for i in (1..np).rev() {
            t.swap(i, rng.below(i + 1));
        }
        Some(t)
    } else {
        None
    }
}

/// read sets dense in shard junctions on repeats / palindromes / hairpins
fn gen_lreads(rng: &mut Rng, k: usize) -> Vec<LRead> {
    let mut reads = read_set(rng, k);
    // more coverage so that thresholds 2-3 keep something: repeat some reads (either strand)
    if rng.chance(1, 2) {
        let extra = rng.range(1, 3);
        for _ in 0..extra {
            let r = reads[rng.below(reads.len())].clone();
            reads.push(if rng.chance(1, 2) { rc_bytes(&r) } else { r });
        }
    }
    reads.into_iter().map(|r| (r, rng.below(3) as u8)).collect()
}

#[derive(Default)]
pub struct Stats {
    pub shards: BTreeMap<usize, usize>,
    pub cross: usize,
    pub cases: usize,
}

fn emit_sharded<T: KS, P: KS>(
    out: &mut Out,
    reads: &[LRead],
    stranded: bool,
    perm: &Option<Vec<usize>>,
    thr: usize,
    mode: u8,
    variant: u8,
    s: &Option<Sharded>,
) {
    let orders = match s {
        Some(s) => l(s.orders.iter().map(|o| order_v(o)).collect()),
        None => l(vec![]),
    };
    let res = s.as_ref().map(|s| {
        l(vec![
            l(s.buckets.iter().map(|b| n(*b)).collect()),
            l(s.shard_graphs.iter().map(nodes_v).collect()),
            nodes_v(&s.fin),
        ])
    });
    out.case(
        "p.sharded",
        l(vec![
            nu(T::k()),
            nu(P::k()),
            b(stranded),
            perm_v(perm),
            nu(thr),
            n(mode),
            n(variant),
            V::N(DnaString::max_len() as u128),
            reads_v(reads),
            orders,
        ]),
        opt(res),
    );
}
fn shards_bin(nsh: usize) -> &'static str {
    match nsh {
        0 => "p.shards.0",
        1 => "p.shards.1",
        2..=3 => "p.shards.2-3",
        4..=7 => "p.shards.4-7",
        8..=15 => "p.shards.8-15",
        16..=31 => "p.shards.16-31",
        32..=63 => "p.shards.32-63",
        _ => "p.shards.64+",
    }
}
fn emit_shards<T: KS, P: KS>(out: &mut Out, reads: &[LRead], stranded: bool, perm: &Option<Vec<usize>>, s: &Option<Sharded>) {
    let res = s.as_ref().map(|s| nu(s.buckets.len()));
    out.case(
        shards_bin(s.as_ref().map(|s| s.buckets.len()).unwrap_or(0)),
        l(vec![nu(T::k()), nu(P::k()), b(stranded), perm_v(perm), V::N(DnaString::max_len() as u128), reads_v(reads)]),
        opt(res),
    );
}
fn emit_direct<T: KS>(
    out: &mut Out,
    reads: &[LRead],
    stranded: bool,
    thr: usize,
    mode: u8,
    route: u8,
    d: &Option<(Vec<Vec<u8>>, Nodes)>,
) {
    let order = match d {
        Some(d) => order_v(&d.0),
        None => l(vec![]),
    };
    out.case(
        "p.direct",
        l(vec![nu(T::k()), b(stranded), nu(thr), n(mode), n(route), reads_v(reads), order]),
        opt(d.as_ref().map(|d| nodes_v(&d.1))),
    );
}
fn emit_same(out: &mut Out, op: &str, k: usize, stranded: bool, mode: u8, reads: &[LRead], a: &Option<Nodes>, bb: &Option<Nodes>) {
    match (a, bb) {
        (Some(a), Some(bb)) => out.case(op, l(vec![nu(k), b(stranded), n(mode), nodes_v(a), nodes_v(bb)]), n(1u8)),
        // a pipeline panicked: the line carries the reads so that the replay shows the failing input
        _ => out.case(
            op,
            l(vec![
                nu(k),
                b(stranded),
                n(mode),
                a.as_ref().map(nodes_v).unwrap_or(V::Bot),
                bb.as_ref().map(nodes_v).unwrap_or(V::Bot),
                reads_v(reads),
            ]),
            V::Bot,
        ),
    }
}
fn emit_exact(out: &mut Out, op: &str, k: usize, stranded: bool, thr: usize, reads: &[LRead], g: &Option<Nodes>) {
    match g {
        Some(g) => out.case(op, l(vec![nu(k), b(stranded), nu(thr), reads_v(reads), nodes_v(g)]), n(1u8)),
        None => out.case(op, l(vec![nu(k), b(stranded), nu(thr), reads_v(reads), V::Bot]), V::Bot),
    }
}
fn emit_unitig(out: &mut Out, k: usize, stranded: bool, mode: u8, reads: &[LRead], g: &Option<Nodes>) {
    match g {
        Some(g) => out.case("chk.unitig", l(vec![nu(k), b(stranded), n(mode), reads_v(reads), nodes_v(g)]), n(1u8)),
        None => out.case("chk.unitig", l(vec![nu(k), b(stranded), n(mode), reads_v(reads), V::Bot]), V::Bot),
    }
}

fn c04_pair<T: KS + Send + Sync, P: KS>(out: &mut Out, seed: u64, tier: &Tier, counter: &mut usize, nsets: usize, st: &mut Stats) {
    let k = T::k();
    let p = P::k();
    for _ in 0..nsets {
        *counter += 1;
        if *counter % tier.nshards != tier.shard {
            continue;
        }
        let mut rng = Rng::new(seed ^ (*counter as u64).wrapping_mul(0x9E37_79B9_7F4A_7C15));
        let reads = gen_lreads(&mut rng, k);
        let stranded = rng.chance(1, 3);
        let thr = match rng.below(6) {
            0 | 1 => 2,
            2 => 3,
            _ => 1,
        };
        let mode = if rng.chance(1, 3) { 1u8 } else { 0u8 };
        // variant 2 = remove_censored_exts_sharded per shard (the documented use); 0 = leave it to compress_graph
        let variant = if rng.chance(1, 2) { 2u8 } else { 0u8 };
        let perm = gen_perm(&mut rng, p);
        let sh = run_sharded::<T, P>(&reads, stranded, perm.as_deref(), thr, mode, variant);
        let di = run_direct::<T>(&reads, stranded, thr, mode, 0);
        let (nsh, cross) = match &sh {
            Some(s) => (s.buckets.len(), s.fin.len() < s.shard_graphs.iter().map(|g| g.len()).sum::<usize>()),
            None => (0, false),
        };
        *st.shards.entry(nsh).or_insert(0) += 1;
        st.cases += 1;
        if cross {
            st.cross += 1;
        }
        // non-trivial: at least two shards and at least one merge across former shard-graph nodes
        out.nt = nsh >= 2 && cross;
        emit_shards::<T, P>(out, &reads, stranded, &perm, &sh);
        emit_sharded::<T, P>(out, &reads, stranded, &perm, thr, mode, variant, &sh);
        emit_direct::<T>(out, &reads, stranded, thr, mode, 0, &di);
        let gs = sh.map(|s| s.fin);
        let gd = di.map(|d| d.1);
        emit_same(out, "chk.c04", k, stranded, mode, &reads, &gs, &gd);
        emit_exact(out, "chk.graph_exact", k, stranded, thr, &reads, &gs);
        emit_exact(out, "chk.graph_exact", k, stranded, thr, &reads, &gd);
        emit_unitig(out, k, stranded, mode, &reads, &gs);
        emit_unitig(out, k, stranded, mode, &reads, &gd);
        out.nt = false;
    }
}

pub fn c04(out: &mut Out, rng: &mut Rng, tier: &Tier) {
    use debruijn::kmer::*;
    let seed = rng.next();
    let mut c = 0usize;
    let mut st = Stats::default();
    let (ns, nb) = if tier.thorough { (400, 60) } else { (48, 8) };
    type K31 = VarIntKmer<u64, debruijn::kmer::K31>;
    c04_pair::<Kmer4, Kmer2>(out, seed, tier, &mut c, ns, &mut st);
    c04_pair::<Kmer4, Kmer3>(out, seed, tier, &mut c, ns, &mut st);
    c04_pair::<Kmer5, Kmer2>(out, seed, tier, &mut c, ns, &mut st);
    c04_pair::<Kmer5, Kmer3>(out, seed, tier, &mut c, ns, &mut st);
    c04_pair::<Kmer5, Kmer4>(out, seed, tier, &mut c, ns, &mut st);
    c04_pair::<Kmer6, Kmer2>(out, seed, tier, &mut c, ns, &mut st);
    c04_pair::<Kmer6, Kmer3>(out, seed, tier, &mut c, ns, &mut st);
    c04_pair::<Kmer6, Kmer4>(out, seed, tier, &mut c, ns, &mut st);
    c04_pair::<Kmer6, Kmer5>(out, seed, tier, &mut c, ns, &mut st);
    c04_pair::<Kmer8, Kmer2>(out, seed, tier, &mut c, ns, &mut st);
    c04_pair::<Kmer8, Kmer3>(out, seed, tier, &mut c, ns, &mut st);
    c04_pair::<Kmer8, Kmer4>(out, seed, tier, &mut c, ns, &mut st);
    c04_pair::<Kmer8, Kmer5>(out, seed, tier, &mut c, ns, &mut st);
    c04_pair::<Kmer8, Kmer6>(out, seed, tier, &mut c, ns, &mut st);
    c04_pair::<Kmer15, Kmer4>(out, seed, tier, &mut c, nb, &mut st);
    c04_pair::<Kmer15, Kmer6>(out, seed, tier, &mut c, nb, &mut st);
    c04_pair::<Kmer16, Kmer3>(out, seed, tier, &mut c, nb, &mut st);
    c04_pair::<Kmer16, Kmer5>(out, seed, tier, &mut c, nb, &mut st);
    c04_pair::<K31, Kmer2>(out, seed, tier, &mut c, nb, &mut st);
    c04_pair::<K31, Kmer6>(out, seed, tier, &mut c, nb, &mut st);
    // minimizers wider than 8 bases (ranks beyond 16 bits), default permutation
    c04_pair::<Kmer16, Kmer10>(out, seed, tier, &mut c, nb, &mut st);
    c04_pair::<K31, Kmer10>(out, seed, tier, &mut c, nb, &mut st);
    c04_pair::<K31, Kmer12>(out, seed, tier, &mut c, nb, &mut st);
    // one contig-sized read (66 500 bases, beyond every 16-bit quantity): the list-level model cannot evaluate this size,
    // but both pipelines must RETURN on it (C04_sharded_total / C04_direct_total) and keep the same k-mers - a panic is a
    // failing input (seeded change C04-m9: interval lengths computed in u16 arithmetic, debug-build underflow)
    if tier.shard == 0 {
        let mut r2 = Rng::new(seed ^ 0x5EED_C04B);
        let long: Vec<u8> = (0..66_500).map(|_| r2.base()).collect();
        let reads: Vec<LRead> = vec![(long, 1)];
        for stranded in [false, true] {
            let sh = run_sharded::<Kmer20, Kmer5>(&reads, stranded, None, 1, 0, 2);
            let di = run_direct::<Kmer20>(&reads, stranded, 1, 0, 0);
            let count = |g: &Nodes| -> usize { g.iter().map(|n| n.0.len() + 1 - 20).sum() };
            let same = match (&sh, &di) {
                (Some(a), Some(bd)) => Some(count(&a.fin) == count(&bd.1)),
                _ => None,
            };
            out.nt = true;
            match same {
                Some(eq) => out.case("s.id", l(vec![b(true)]), b(eq)),
                None => out.case("s.no_panic", l(vec![nu(20), nu(5), nu(66_500)]), V::Bot),
            }
        }
        out.nt = false;
    }
    let s: Vec<String> = st.shards.iter().map(|(p, c)| format!("{}:{}", p, c)).collect();
    out.comment(&format!(
        "stat cases={} with_cross_shard_merge={} shards_produced_histogram (shards:cases) {}",
        st.cases,
        st.cross,
        s.join(" ")
    ));
}

// ------------------------------------------------------------------------------------------------ C06, graph half

fn flip(reads: &[LRead], mask: usize) -> Vec<LRead> {
    reads
        .iter()
        .enumerate()
        .map(|(i, (r, lab))| (if (mask >> i) & 1 == 1 { rc_bytes(r) } else { r.clone() }, *lab))
        .collect()
}

fn c06_pair<T: KS + Send + Sync, P: KS>(out: &mut Out, seed: u64, tier: &Tier, counter: &mut usize, nsets: usize, st: &mut Stats) {
    let k = T::k();
    let p = P::k();
    for _ in 0..nsets {
        *counter += 1;
        if *counter % tier.nshards != tier.shard {
            continue;
        }
        let mut rng = Rng::new(seed ^ (*counter as u64).wrapping_mul(0xD6E8_FEB8_6659_FD93));
        let reads = gen_lreads(&mut rng, k);
        let nr = reads.len();
        let thr = match rng.below(5) {
            0 => 2,
            1 => 3,
            _ => 1,
        };
        let mode = if rng.chance(1, 3) { 1u8 } else { 0u8 };
        let perm = gen_perm(&mut rng, p);
        let variant = if rng.chance(1, 2) { 2u8 } else { 0u8 };
        let delicate = is_delicate(&reads.iter().map(|r| r.0.clone()).collect::<Vec<_>>(), k);
        // ---- unstranded: reference = direct graph of the unflipped reads
        let g0 = run_direct::<T>(&reads, false, thr, mode, 0).map(|d| d.1);
        let full = 1usize << nr;
        let limit = if tier.thorough { 6 } else { 3 };
        let masks: Vec<usize> = if nr <= limit {
            (1..full).collect()
        } else {
            let mut m: Vec<usize> = (0..(if tier.thorough { 24 } else { 5 })).map(|_| 1 + rng.below(full - 1)).collect();
            m.push(full - 1);
            m
        };
        out.nt = delicate;
        emit_exact(out, "chk.graph_exact", k, false, thr, &reads, &g0);
        emit_unitig(out, k, false, mode, &reads, &g0);
        for (mi, mask) in masks.iter().enumerate() {
            let fr = flip(&reads, *mask);
            st.cases += 1;
            // direct
            let d = run_direct::<T>(&fr, false, thr, mode, 0);
            if mi == 0 {
                emit_direct::<T>(out, &fr, false, thr, mode, 0, &d);
            }
            emit_same(out, "chk.c06.graph", k, false, mode, &fr, &g0, &d.map(|d| d.1));
            // sharded
            let s = run_sharded::<T, P>(&fr, false, perm.as_deref(), thr, mode, variant);
            if let Some(s) = &s {
                *st.shards.entry(s.buckets.len()).or_insert(0) += 1;
            }
            if mi == 0 {
                emit_sharded::<T, P>(out, &fr, false, &perm, thr, mode, variant, &s);
            }
            let sf = s.map(|s| s.fin);
            if mi == 0 {
                emit_exact(out, "chk.graph_exact", k, false, thr, &fr, &sf);
                emit_unitig(out, k, false, mode, &fr, &sf);
            }
            emit_same(out, "chk.c06.graph", k, false, mode, &fr, &g0, &sf);
            // re-compressed: one node per k-mer (even masks) / compress_graph of the direct graph (odd masks)
            let route = 1 + (mask & 1) as u8;
            let r = run_direct::<T>(&fr, false, thr, mode, route);
            if mi == 0 {
                emit_direct::<T>(out, &fr, false, thr, mode, route, &r);
            }
            let rf = r.map(|d| d.1);
            if mi == 0 {
                emit_exact(out, "chk.graph_exact", k, false, thr, &fr, &rf);
                emit_unitig(out, k, false, mode, &fr, &rf);
            }
            emit_same(out, "chk.c06.graph", k, false, mode, &fr, &g0, &rf);
        }
        // ---- stranded: exactly the forward k-mers and links, in every pipeline variant; a flipped read set is a
        // different input (no invariance is claimed), checked against ITS forward strand
        let fr = flip(&reads, if nr > 0 { rng.below(full) } else { 0 });
        for rs in [&reads, &fr] {
            let d = run_direct::<T>(rs, true, thr, mode, 0);
            emit_direct::<T>(out, rs, true, thr, mode, 0, &d);
            emit_exact(out, "chk.c06.stranded", k, true, thr, rs, &d.map(|d| d.1));
            let s = run_sharded::<T, P>(rs, true, perm.as_deref(), thr, mode, variant);
            emit_sharded::<T, P>(out, rs, true, &perm, thr, mode, variant, &s);
            let sf = s.map(|s| s.fin);
            emit_exact(out, "chk.c06.stranded", k, true, thr, rs, &sf);
            emit_unitig(out, k, true, mode, rs, &sf);
            let r = run_direct::<T>(rs, true, thr, mode, 1);
            emit_direct::<T>(out, rs, true, thr, mode, 1, &r);
            emit_exact(out, "chk.c06.stranded", k, true, thr, rs, &r.map(|d| d.1));
        }
        out.nt = false;
    }
}

pub fn c06_graph(out: &mut Out, rng: &mut Rng, tier: &Tier) {
    use debruijn::kmer::*;
    let seed = rng.next();
    let mut c = 0usize;
    let mut st = Stats::default();
    let (ns, nb) = if tier.thorough { (160, 24) } else { (20, 3) };
    type K31 = VarIntKmer<u64, debruijn::kmer::K31>;
    c06_pair::<Kmer4, Kmer2>(out, seed, tier, &mut c, ns, &mut st);
    c06_pair::<Kmer5, Kmer3>(out, seed, tier, &mut c, ns, &mut st);
    c06_pair::<Kmer6, Kmer3>(out, seed, tier, &mut c, ns, &mut st);
    c06_pair::<Kmer6, Kmer4>(out, seed, tier, &mut c, ns, &mut st);
    c06_pair::<Kmer8, Kmer5>(out, seed, tier, &mut c, ns, &mut st);
    c06_pair::<Kmer15, Kmer6>(out, seed, tier, &mut c, nb, &mut st);
    c06_pair::<Kmer16, Kmer4>(out, seed, tier, &mut c, nb, &mut st);
    c06_pair::<K31, Kmer6>(out, seed, tier, &mut c, nb, &mut st);
    let s: Vec<String> = st.shards.iter().map(|(p, c)| format!("{}:{}", p, c)).collect();
    out.comment(&format!("stat graph_flip_runs={} shards_produced_histogram (shards:cases) {}", st.cases, s.join(" ")));
}
