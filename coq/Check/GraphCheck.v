(* Executable checkers run on the IMPLEMENTATION's outputs (DESIGN section 1): each decides one clause of a graph
   property on a concrete input/output pair. *)
From Coq Require Import NArith ZArith List Bool Arith.
From DBG Require Import Spec.Dna Spec.GraphIndex Spec.Unitig Packed.ExtsModel Algo.Compress Algo.KmerHist Algo.GraphModel.
Import ListNotations.
Open Scope N_scope.

Definition dna_list_eqb (a b : list dna) : bool :=
  Nat.eqb (length a) (length b) && forallb (fun p => dna_eqb (fst p) (snd p)) (combine a b).
Definition nat_list_eqb (a b : list nat) : bool :=
  Nat.eqb (length a) (length b) && forallb (fun p => Nat.eqb (fst p) (snd p)) (combine a b).
Definition sort_dna (l : list dna) : list dna := sort_by dna_leb l.
Definition sort_N (l : list N) : list N := sort_by N.leb l.
Definition N_list_eqb (a b : list N) : bool := dna_eqb a b.

(* payload used by the harness: (colour, ids); reduce keeps the colour and concatenates ids *)
Definition pay := (N * list N)%type.
Definition pay_reduce (a b : pay) : pay := (fst a, snd a ++ snd b).
Definition pay_join (mode : N) (a b : pay) : bool := if mode =? 0 then true else fst a =? fst b.

Section C01.
Variable K : nat.
Variable stranded : bool.
Local Notation table := (table pay).
Definition node_t := (dna * N * pay)%type.

Definition ck (x : dna) : dna := canon_k stranded x.

(* (1) the canonical k-mers of all node windows are exactly the keys, each once *)
Definition chk_partition (T : table) (nodes : list node_t) : bool :=
  dna_list_eqb (sort_dna (concat (map (fun n => map ck (kmers K (fst (fst n)))) nodes)))
               (sort_dna (keys pay T)).
(* (2) every step between consecutive k-mers of a node follows an extension recorded for both of them *)
Definition chk_steps (T : table) (nodes : list node_t) : bool :=
  forallb (fun n =>
    let s := fst (fst n) in
    let ks := kmers K s in
    forallb (fun p =>
      let x := fst p in let y := snd p in
      match oexts pay stranded T x, oexts pay stranded T y with
      | Some ex, Some ey => e_has_ext ex true (last y 0) && e_has_ext ey false (hd 0 x)
      | _, _ => false
      end) (combine ks (tl ks))) nodes.
(* (3) the payload is the reduction over exactly the payloads of the node's k-mers *)
Definition chk_payload (T : table) (nodes : list node_t) : bool :=
  forallb (fun n =>
    let ks := map ck (kmers K (fst (fst n))) in
    let ents := flat_map (fun k => match get_entry pay T k with Some e => [e] | None => [] end) ks in
    Nat.eqb (length ents) (length ks) &&
    N_list_eqb (sort_N (snd (snd n))) (sort_N (concat (map (fun e => snd (e_data pay e)) ents))) &&
    existsb (fun e => fst (e_data pay e) =? fst (snd n)) ents) nodes.
(* the node's terminal extensions are those of its end k-mers *)
Definition chk_terminal_exts (T : table) (nodes : list node_t) : bool :=
  forallb (fun n =>
    let s := fst (fst n) in
    match oexts pay stranded T (first_kmer K s), oexts pay stranded T (last_kmer K s) with
    | Some el, Some er => (snd (fst n)) =? e_from_single_dirs (e_single_dir el false) (e_single_dir er true)
    | _, _ => false
    end) nodes.
Definition chk_c01 (T : table) (nodes : list node_t) : bool :=
  chk_partition T nodes && chk_steps T nodes && chk_payload T nodes && chk_terminal_exts T nodes.

(* C02: two keys share a node iff they are connected by mergeable links *)
Definition node_of_key (nodes : list node_t) (k : dna) : option nat :=
  index_where (fun n => existsb (fun w => dna_eqb (ck w) k) (kmers K (fst (fst n)))) nodes.
Definition chk_c02 (mode : N) (T : table) (nodes : list node_t) : bool :=
  let lab := class_labels pay (pay_join mode) stranded T in
  let nd := map (fun e => node_of_key nodes (e_key pay e)) T in
  let idx := seq 0 (length T) in
  forallb (fun i => forallb (fun j =>
     match nth i nd None, nth j nd None with
     | Some a, Some b => Bool.eqb (Nat.eqb a b) (Nat.eqb (nth i lab 0%nat) (nth j lab 0%nat))
     | _, _ => false
     end) idx) idx.
End C01.
