(* Boolean forms of the hypotheses of the C01/C02 theorems ([tbl_ok], [exts_sym], [exts_closed]); run by the
   correspondence driver on every generated table, so that the run measures on which inputs the theorems apply. *)
From Coq Require Import NArith List Bool Arith.
From DBG Require Import Spec.Dna Spec.GraphIndex Spec.Unitig Spec.CompressSpec Packed.ExtsModel Algo.Compress.
Import ListNotations.
Open Scope N_scope.

Fixpoint nodupb (l : list dna) : bool :=
  match l with [] => true | x :: r => negb (existsb (dna_eqb x) r) && nodupb r end.

Section Hyp.
Variable D : Type.
Variable K : nat.
Variable stranded : bool.
Local Notation table := (table D).

Definition tbl_okb (T : table) : bool :=
  nodupb (keys D T) &&
  forallb (fun e => Nat.eqb (length (e_key D e)) K && wf_dnab (e_key D e) &&
                    (stranded || dna_eqb (canon (e_key D e)) (e_key D e)) && (e_exts D e <? 256)) T.

Definition exts_symb (T : table) : bool :=
  forallb (fun ent => forallb (fun d => forallb (fun b =>
    implb (e_has_ext (e_exts D ent) (dirb d) b)
      (let yf := kcanon_flip stranded (extend (e_key D ent) b d) in
       match get_entry D T (fst yf) with
       | None => true
       | Some yent =>
         kpal stranded (fst yf) ||
         e_has_ext (e_exts D yent) (dirb (cond_flip (dflip d) (snd yf)))
                   ((if snd yf then comp else (fun c => c)) (outer (e_key D ent) (dflip d)))
       end)) [0; 1; 2; 3]) [DLeft; DRight]) T.

Definition exts_closedb (T : table) : bool :=
  forallb (fun ent => forallb (fun d => forallb (fun b =>
    implb (e_has_ext (e_exts D ent) (dirb d) b)
      (match get_id D T (fst (kcanon_flip stranded (extend (e_key D ent) b d))) with Some _ => true | None => false end))
    [0; 1; 2; 3]) [DLeft; DRight]) T.
End Hyp.
