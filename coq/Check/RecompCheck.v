(* C09: specification-level notions for graph re-compression (node-level mergeability, validity of the input
   graph, restriction to the surviving nodes) and the executable checkers that are run on the graphs returned by the
   IMPLEMENTATION's compress_graph.  Soundness of every checker w.r.t. the Prop next to it: Proofs/RecompCheckProofs.v. *)
From Coq Require Import NArith List Bool Arith Permutation.
From DBG Require Import Spec.Dna Spec.GraphIndex Packed.ExtsModel Algo.Compress Algo.KmerHist Algo.GraphModel Algo.Recompress.
Import ListNotations.
Open Scope N_scope.

Definition bases4 : list N := [0; 1; 2; 3].
Definition dirs2 : list dir := [DLeft; DRight].
Definition opt_nd_eqb (a b : option (nat * dir)) : bool :=
  match a, b with
  | Some (x, d), Some (y, e) => Nat.eqb x y && dir_eqb d e
  | None, None => true
  | _, _ => false
  end.

(* generic boolean list equality / lexicographic order (used to compare multisets after sorting) *)
Fixpoint list_eqb {A} (eqb : A -> A -> bool) (a b : list A) : bool :=
  match a, b with
  | [], [] => true
  | x :: a', y :: b' => eqb x y && list_eqb eqb a' b'
  | _, _ => false
  end.
Fixpoint lex_leb {A} (eqb leb : A -> A -> bool) (a b : list A) : bool :=
  match a, b with
  | [], _ => true
  | _ :: _, [] => false
  | x :: a', y :: b' => if eqb x y then lex_leb eqb leb a' b' else leb x y
  end.
Fixpoint nodupb (l : list dna) : bool :=
  match l with [] => true | x :: r => negb (existsb (dna_eqb x) r) && nodupb r end.
Fixpoint nodupb_nat (l : list nat) : bool :=
  match l with [] => true | x :: r => negb (existsb (Nat.eqb x) r) && nodupb_nat r end.

Section RSpec.
Variable D : Type.
Variable join : D -> D -> bool.
Variable K : nat.
Variable stranded : bool.
Local Notation graph := (graph D).
Local Notation gnode := (gnode D).
Local Notation find_link := (find_link D K stranded).

Definition ck9 (x : dna) : dna := if stranded then x else canon x.

(* a single-k-mer node whose k-mer is its own reverse complement (unstranded graphs only) *)
Definition pal_single (n : gnode) : bool :=
  negb stranded && Nat.eqb (length (n_seq D n)) K && is_palindrome (first_kmer K (n_seq D n)).

(* extension b on side d of node x, resolved to the node end it denotes *)
Definition ext_link (g : graph) (x : nat) (d : dir) (b : N) : option link :=
  match nth_error g x with
  | Some n => if e_has_ext (n_exts D n) (dirb d) b
              then find_link g (extend (term_kmer K (n_seq D n) d) b d) d else None
  | None => None
  end.

(* node-level mergeability = the static step conditions of try_extend_node (no availability):
   leaving node [id] through side [d] one enters node y through side t *)
Definition rnext (g : graph) (id : nat) (d : dir) : option (nat * dir) :=
  match nth_error g id with
  | None => None
  | Some n =>
    if negb (e_num_ext_dir (n_exts D n) (dirb d) =? 1) || pal_single n then None else
    match e_get_unique_extension (n_exts D n) (dirb d) with
    | None => None
    | Some b =>
      let nk := extend (term_kmer K (n_seq D n) d) b d in
      match find_link g nk d with
      | None => None
      | Some (y, t, _) =>
        match nth_error g y with
        | None => None
        | Some m =>
          if (negb stranded && is_palindrome nk) || negb (join (n_data D n) (n_data D m)) then None
          else if e_num_ext_dir (n_exts D m) (dirb t) =? 1 then Some (y, t) else None
        end
      end
    end
  end.

(* the graph restricted to the surviving nodes S: an extension is kept iff it resolves to a node of S
   (this is fix_exts(Some(available)), the first step of compress_graph) *)
Definition restrict (g : graph) (S : list nat) : option graph := fix_exts D K stranded g (Some S).

(* ---- validity of an input graph ---------------------------------------------------------------------- *)
Definition node_ok (n : gnode) : Prop :=
  wf_dna (n_seq D n) /\ (1 <= K <= length (n_seq D n))%nat /\ n_exts D n < 256.
(* a palindromic k-mer occurs only as a node of its own *)
Definition pal_ends (g : graph) : Prop :=
  stranded = false -> forall n d, In n g -> is_palindrome (term_kmer K (n_seq D n) d) = true -> length (n_seq D n) = K.
(* every extension resolves to a node end *)
Definition resolvable (g : graph) : Prop :=
  forall x d b n, nth_error g x = Some n -> In b bases4 -> e_has_ext (n_exts D n) (dirb d) b = true ->
    ext_link g x d b <> None.
(* extensions are symmetric: the node reached has an extension leading back; the side on which a palindromic
   single-k-mer node stores it, and the side of such a node that the search reports, are not constrained
   ("the two sides of a palindromic single-k-mer node are identified") *)
Definition links_sym (g : graph) : Prop :=
  forall x d b y t f n m, nth_error g x = Some n -> nth_error g y = Some m -> In b bases4 ->
    ext_link g x d b = Some (y, t, f) ->
    exists t' b' d' f', In b' bases4 /\ ext_link g y t' b' = Some (x, d', f') /\
      (pal_single m = false -> t' = t) /\ (pal_single n = false -> d' = d).
Definition rvalid (g : graph) : Prop :=
  Forall node_ok g /\
  NoDup (ends_of K (g_seqs D g) DLeft) /\ NoDup (ends_of K (g_seqs D g) DRight) /\
  pal_ends g /\ resolvable g /\ links_sym g.

Definition node_okb (n : gnode) : bool :=
  wf_dnab (n_seq D n) && Nat.leb 1 K && Nat.leb K (length (n_seq D n)) && (n_exts D n <? 256).
Definition pal_endsb (g : graph) : bool :=
  stranded || forallb (fun n => forallb (fun d =>
     negb (is_palindrome (term_kmer K (n_seq D n) d)) || Nat.eqb (length (n_seq D n)) K) dirs2) g.
Definition resolvableb (g : graph) : bool :=
  forallb (fun x => forallb (fun d => forallb (fun b =>
    match nth_error g x with
    | Some n => negb (e_has_ext (n_exts D n) (dirb d) b) ||
                match ext_link g x d b with Some _ => true | None => false end
    | None => true end) bases4) dirs2) (seq 0 (length g)).
Definition back_link (g : graph) (x : nat) (d : dir) (n : gnode) (y : nat) (t : dir) (m : gnode) : bool :=
  existsb (fun t' => existsb (fun b' =>
    match ext_link g y t' b' with
    | Some (x', d', _) => Nat.eqb x' x && (pal_single m || dir_eqb t' t) && (pal_single n || dir_eqb d' d)
    | None => false end) bases4) dirs2.
Definition links_symb (g : graph) : bool :=
  forallb (fun x => forallb (fun d => forallb (fun b =>
    match ext_link g x d b with
    | Some (y, t, _) =>
        match nth_error g x, nth_error g y with
        | Some n, Some m => back_link g x d n y t m
        | _, _ => true end
    | None => true end) bases4) dirs2) (seq 0 (length g)).
Definition rvalidb (g : graph) : bool :=
  forallb node_okb g && nodupb (ends_of K (g_seqs D g) DLeft) && nodupb (ends_of K (g_seqs D g) DRight) &&
  pal_endsb g && resolvableb g && links_symb g.

(* ---- decomposition of a result node into the input nodes it was merged from --------------------------- *)
(* greedy tiling of the sequence [s] by oriented input nodes overlapping in K-1 bases (a witness search only:
   whatever it returns is re-checked with sequence_of_path) *)
Fixpoint tile (fuel : nat) (g : graph) (s : dna) : option (list (nat * dir)) :=
  match fuel with
  | O => None
  | S f =>
    match find_link g (first_kmer K s) DRight with
    | None => None
    | Some (i, t, _) =>
      match nth_error g i with
      | None => None
      | Some n =>
        let o := oriented D n t in
        if Nat.leb (length s) (length o) then Some [(i, t)]
        else match tile f g (skipn (length o - (K - 1)) s) with
             | Some p => Some ((i, t) :: p)
             | None => None
             end
      end
    end
  end.
Definition node_path (g : graph) (s : dna) : option (list (nat * dir)) :=
  match tile (S (length s)) g s with
  | Some p => match sequence_of_path D K g p with
              | Some s' => if dna_eqb s' s then Some p else None
              | None => None end
  | None => None
  end.

(* consecutive path elements (x entered through dx, left through the other side) are joined by a sole mutual link
   between two distinct nodes *)
Definition step_ok (g : graph) (a b : nat * dir) : bool :=
  opt_nd_eqb (rnext g (fst a) (dflip (snd a))) (Some b) &&
  opt_nd_eqb (rnext g (fst b) (snd b)) (Some (fst a, dflip (snd a))) &&
  negb (Nat.eqb (fst a) (fst b)).
Definition linkedb (g : graph) (p : list (nat * dir)) : bool :=
  forallb (fun ab => step_ok g (fst ab) (snd ab)) (combine p (tl p)).
Definition Linked (g : graph) (p : list (nat * dir)) : Prop :=
  Forall (fun ab => step_ok g (fst ab) (snd ab) = true) (combine p (tl p)).

Definition survivors (g : graph) (censor : option (list nat)) : list nat := initial_avail (length g) censor.
Definition node_kmers (n : gnode) : list dna := map ck9 (kmers K (n_seq D n)).
Definition graph_kmers (g : graph) : list dna := concat (map node_kmers g).
Definition surv_kmers (g : graph) (S : list nat) : list dna :=
  concat (map (fun i => match nth_error g i with Some n => node_kmers n | None => [] end) S).

(* (1) k-mers: those of the non-censored input nodes, each exactly once (canonical form when unstranded) *)
Definition kmers_exact (g : graph) (censor : option (list nat)) (out : graph) : Prop :=
  Permutation (graph_kmers out) (surv_kmers g (survivors g censor)) /\ NoDup (graph_kmers out).
Definition chk_kmers (g : graph) (censor : option (list nat)) (out : graph) : bool :=
  list_eqb dna_eqb (sort_by dna_leb (graph_kmers out)) (sort_by dna_leb (surv_kmers g (survivors g censor))) &&
  nodupb (graph_kmers out).

(* (3) no extension of a result node is left dangling *)
Definition no_dangling (out : graph) : Prop :=
  forall i n d b, nth_error out i = Some n -> In b bases4 -> e_has_ext (n_exts D n) (dirb d) b = true ->
    find_link out (extend (term_kmer K (n_seq D n) d) b d) d <> None.
Definition chk_no_dangling (out : graph) : bool :=
  forallb (fun n => forallb (fun d => forallb (fun b =>
    negb (e_has_ext (n_exts D n) (dirb d) b) ||
    match find_link out (extend (term_kmer K (n_seq D n) d) b d) d with Some _ => true | None => false end)
    bases4) dirs2) out.

(* (2) maximality *)
(* (a) no two distinct result nodes are mergeable *)
Definition out_maximal (out : graph) : Prop :=
  forall i d j t, rnext out i d = Some (j, t) -> j = i.
Definition chk_out_maximal (out : graph) : bool :=
  forallb (fun i => forallb (fun d =>
    match rnext out i d with Some (j, _) => Nat.eqb j i | None => true end) dirs2) (seq 0 (length out)).
(* (b) every result node spells a path of distinct surviving input nodes, consecutive ones joined by sole mutual
   links of the restricted input graph *)
Definition merged_ok (g1 : graph) (S : list nat) (n : gnode) : Prop :=
  exists p, sequence_of_path D K g1 p = Some (n_seq D n) /\ Linked g1 p /\ NoDup (map fst p) /\
            (forall x, In x (map fst p) -> In x S).
Definition chk_merged (g1 : graph) (S : list nat) (n : gnode) : bool :=
  match node_path g1 (n_seq D n) with
  | Some p => linkedb g1 p && nodupb_nat (map fst p) && forallb (fun x => mem_nat x S) (map fst p)
  | None => false
  end.
Definition maximal_ok (g : graph) (censor : option (list nat)) (out : graph) : Prop :=
  out_maximal out /\
  exists g1, restrict g (survivors g censor) = Some g1 /\ Forall (merged_ok g1 (survivors g censor)) out.
Definition chk_maximal (g : graph) (censor : option (list nat)) (out : graph) : bool :=
  chk_out_maximal out &&
  match restrict g (survivors g censor) with
  | Some g1 => forallb (chk_merged g1 (survivors g censor)) out
  | None => false
  end.
(* (2c) terminal extensions: those of the two end nodes of the path in the restricted input graph, read in the
   orientation in which the node is traversed (complemented when flipped) - nothing is lost, nothing invented *)
Definition left_of (e : N) (d : dir) : N :=
  match d with DLeft => e_single_dir e false | DRight => e_complement (e_single_dir e true) end.
Definition right_of (e : N) (d : dir) : N :=
  match d with DLeft => e_single_dir e true | DRight => e_complement (e_single_dir e false) end.
Definition path_exts (g1 : graph) (p : list (nat * dir)) : option N :=
  match p with
  | [] => None
  | a :: _ =>
    let z := last p a in
    match nth_error g1 (fst a), nth_error g1 (fst z) with
    | Some na, Some nz =>
        Some (e_from_single_dirs (left_of (n_exts D na) (snd a)) (right_of (n_exts D nz) (snd z)))
    | _, _ => None
    end
  end.
Definition exts_ok (g1 : graph) (n : gnode) : Prop :=
  exists p, sequence_of_path D K g1 p = Some (n_seq D n) /\ path_exts g1 p = Some (n_exts D n).
Definition chk_exts_node (g1 : graph) (n : gnode) : bool :=
  match node_path g1 (n_seq D n) with
  | Some p => match path_exts g1 p with Some e => e =? n_exts D n | None => false end
  | None => false
  end.
Definition exts_exact (g : graph) (censor : option (list nat)) (out : graph) : Prop :=
  exists g1, restrict g (survivors g censor) = Some g1 /\ Forall (exts_ok g1) out.
Definition chk_exts (g : graph) (censor : option (list nat)) (out : graph) : bool :=
  match restrict g (survivors g censor) with
  | Some g1 => forallb (chk_exts_node g1) out
  | None => false
  end.
End RSpec.

(* ---- the harness payload: (colour, ids); reduce keeps the colour and concatenates ids -------------------- *)
Definition rpay := (N * list N)%type.
Definition rpay_reduce (a b : rpay) : rpay := (fst a, snd a ++ snd b).
Definition rpay_join (mode : N) (a b : rpay) : bool := if mode =? 0 then true else fst a =? fst b.
Definition rnode := (dna * N * rpay)%type.

Section RPay.
Variable K : nat.
Variable stranded : bool.
Local Notation graph := (graph rpay).

Definition path_ids (g : graph) (p : list (nat * dir)) : list N :=
  concat (map (fun x => match nth_error g (fst x) with Some n => snd (n_data rpay n) | None => [] end) p).
Definition path_colours (g : graph) (p : list (nat * dir)) : list N :=
  flat_map (fun x => match nth_error g (fst x) with Some n => [fst (n_data rpay n)] | None => [] end) p.
(* (4) payload: the ids of a result node are exactly those of the input nodes it spells; its colour is one of theirs *)
Definition payload_ok (g : graph) (n : rnode) : Prop :=
  exists p, sequence_of_path rpay K g p = Some (n_seq rpay n) /\
            Permutation (snd (n_data rpay n)) (path_ids g p) /\ In (fst (n_data rpay n)) (path_colours g p).
Definition chk_payload_node (g : graph) (n : rnode) : bool :=
  match node_path rpay K stranded g (n_seq rpay n) with
  | Some p => list_eqb N.eqb (sort_by N.leb (snd (n_data rpay n))) (sort_by N.leb (path_ids g p)) &&
              existsb (N.eqb (fst (n_data rpay n))) (path_colours g p)
  | None => false
  end.
Definition chk_payload (g out : graph) : bool := forallb (chk_payload_node g) out.

(* ---- (5) idempotence: canonical node sequences (isolated cycles up to rotation) and payload multisets -------- *)
Definition canon_lin (s : dna) : dna := if stranded then s else (if dna_leb s (rc s) then s else rc s).
(* a node that bites its own tail through its only right extension *)
Definition is_cycle (n : rnode) : bool :=
  match e_get_unique_extension (n_exts rpay n) true with
  | Some b => dna_eqb (extend_right (last_kmer K (n_seq rpay n)) b) (first_kmer K (n_seq rpay n))
  | None => false
  end.
Definition rotate (s : dna) (r : nat) : dna :=
  let L := length s in
  let cyc := firstn (L + 1 - K) s in
  firstn L (skipn r (concat (repeat cyc (S L)))).
Definition dna_min (a b : dna) : dna := if dna_leb a b then a else b.
Definition canon_seq (n : rnode) : dna :=
  let s := n_seq rpay n in
  if is_cycle n
  then fold_left (fun acc r => dna_min acc (canon_lin (rotate s r))) (seq 0 (length s + 1 - K)) (canon_lin s)
  else canon_lin s.
Definition cnode (n : rnode) : dna * dna := (canon_seq n, sort_by N.leb (snd (n_data rpay n))).
Definition pair_eqb (a b : dna * dna) : bool := dna_eqb (fst a) (fst b) && dna_eqb (snd a) (snd b).
Definition pair_leb (a b : dna * dna) : bool :=
  if dna_eqb (fst a) (fst b) then dna_leb (snd a) (snd b) else dna_leb (fst a) (fst b).
Definition same_nodes (a b : graph) : Prop := Permutation (map cnode a) (map cnode b).
Definition chk_same_nodes (a b : graph) : bool :=
  list_eqb pair_eqb (sort_by pair_leb (map cnode a)) (sort_by pair_leb (map cnode b)).

(* ---- (6) singleton route: same partition of the (canonical) k-mers into nodes ---------------------------- *)
Definition kpart (n : rnode) : list dna := sort_by dna_leb (node_kmers rpay K stranded n).
Definition same_partition (a b : graph) : Prop := Permutation (map kpart a) (map kpart b).
Definition chk_same_partition (a b : graph) : bool :=
  list_eqb (list_eqb dna_eqb) (sort_by (lex_leb dna_eqb dna_leb) (map kpart a))
                              (sort_by (lex_leb dna_eqb dna_leb) (map kpart b)).
End RPay.
