(* A LINEAR-TIME checker for the special case "the whole k-mer table is one simple unbranched chain" (C02 / C09 on very
   long unbranched paths: the general checkers chk_c02p etc. and the list model are quadratic in the table size).
   Executable definitions only; soundness is in Proofs/ChainCheckProofs.v, the statements in Properties/C02Chain.v.

   The table is given IN CHAIN ORDER: entry i+1 is the k-mer reached from entry i.  The checker follows the static step
   of try_extend_kmer along the list - one step costs O(K) (extend, canonical form, comparison with the next key); no
   table lookup is made - and checks key distinctness with a binary trie over the ranks (PositiveMap: O(2K) per key).
   In the frame of the keys: [d] is the side through which the walk leaves the current key (stranded: always the right
   side; unstranded: the right side when the key is read on the strand of the contig, the left side when the key is
   the reverse complement of the window of the contig). *)
From Coq Require Import NArith List Bool Arith FMapPositive.
From DBG Require Import Spec.Dna Spec.GraphIndex Spec.Unitig Spec.CompressSpec Packed.ExtsModel Algo.Compress.
Import ListNotations.
Open Scope N_scope.

(* pairwise distinct positives: insertion into a trie, failing on the first repetition *)
Fixpoint distinct_pos (seen : PositiveMap.t unit) (l : list positive) : bool :=
  match l with
  | [] => true
  | p :: r =>
    match PositiveMap.find p seen with
    | Some _ => false
    | None => distinct_pos (PositiveMap.add p tt seen) r
    end
  end.
Definition key_code (k : dna) : positive := N.succ_pos (rank k).
Definition distinct_keysb (ks : list dna) : bool := distinct_pos (PositiveMap.empty unit) (map key_code ks).

Section Chain.
Variable D : Type.
Variable join : D -> D -> bool.
Variable K : nat.
Variable stranded : bool.
Local Notation entry := (entry D).
Local Notation table := (table D).

(* one entry: key of length K over {0..3}, canonical and not a palindrome when unstranded, extension byte < 256 *)
Definition entry_okb (e : entry) : bool :=
  Nat.eqb (length (e_key D e)) K && wf_dnab (e_key D e) &&
  (stranded || dna_eqb (canon (e_key D e)) (e_key D e)) && (e_exts D e <? 256) &&
  negb (kpal stranded (e_key D e)).

(* one junction, leaving [ent] through side [d]: [ent] has exactly one extension there, it leads to the key of [yent]
   (entered through side d'), [yent] has exactly one extension on side d', namely the base [ent] loses (read on the
   strand of [yent]), and the join predicate accepts the two payloads.  Returns d'. *)
Definition step_okb (ent yent : entry) (d : dir) : option dir :=
  if negb (e_num_ext_dir (e_exts D ent) (dirb d) =? 1) then None
  else
    match e_get_unique_extension (e_exts D ent) (dirb d) with
    | None => None
    | Some b =>
      let yf := kcanon_flip stranded (extend (e_key D ent) b d) in
      let d' := cond_flip (dflip d) (snd yf) in
      if dna_eqb (fst yf) (e_key D yent) && (e_num_ext_dir (e_exts D yent) (dirb d') =? 1) &&
         e_has_ext (e_exts D yent) (dirb d') ((if snd yf then comp else (fun c => c)) (outer (e_key D ent) (dflip d))) &&
         join (e_data D ent) (e_data D yent)
      then Some d' else None
    end.

(* the walk along the list; the last entry has no extension on its leaving side *)
Fixpoint chain_walk (ent : entry) (d : dir) (rest : list entry) : bool :=
  match rest with
  | [] => e_num_ext_dir (e_exts D ent) (dirb d) =? 0
  | y :: rest' =>
    match step_okb ent y d with
    | Some d' => chain_walk y (dflip d') rest'
    | None => false
    end
  end.

(* the whole table: K >= 1, at least one entry, all entries well formed, keys distinct, and the list is a chain from its
   first entry (which has no extension on the side facing away from the chain) to its last.  The first key may be read
   on either strand: both leaving sides are tried. *)
Definition chain_table_okb (T : table) : bool :=
  match T with
  | [] => false
  | e0 :: rest =>
    Nat.leb 1 K && forallb entry_okb T && distinct_keysb (keys D T) &&
    (((e_num_ext_dir (e_exts D e0) (dirb DLeft) =? 0) && chain_walk e0 DRight rest) ||
     ((e_num_ext_dir (e_exts D e0) (dirb DRight) =? 0) && chain_walk e0 DLeft rest))
  end.

(* the implementation-side claim: one node, spelling all the k-mers *)
Definition chk_single_node (nodes : list (node D)) (nkeys : nat) : bool :=
  match nodes with
  | [n] => Nat.eqb (length (n_seq D n)) (nkeys + K - 1)
  | _ => false
  end.
End Chain.

(* ---- the chain table of a contig, in chain order, in time O(K * length): for harness and timing -------------------- *)
(* windows of [s] with the base before and the base after each *)
Fixpoint contig_windows (K : nat) (fuel : nat) (prev : option N) (s : dna) : list (option N * dna * option N) :=
  match fuel with
  | O => []
  | S f =>
    match s with
    | [] => []
    | b :: s' => (prev, firstn K s, nth_error s K) :: contig_windows K f (Some b) s'
    end
  end.
Definition ext_bit (o : option N) : N := match o with Some b => N.shiftl 1 b | None => 0 end.
(* extension byte in the frame of the window; key and byte of the entry: reverse-complemented when the window is not
   canonical (unstranded) *)
Definition contig_entry {D} (stranded : bool) (dat : nat -> D) (i : nat) (w : option N * dna * option N) : entry D :=
  let '(l, x, r) := w in
  let e := e_from_single_dirs (ext_bit l) (ext_bit r) in
  if stranded then (x, e, dat i)
  else if snd (canon_flip x) then (rc x, e_rc e, dat i) else (x, e, dat i).
Definition map_idx {A B} (f : nat -> A -> B) (l : list A) : list B :=
  map (fun p => f (fst p) (snd p)) (combine (seq 0 (length l)) l).
Definition chain_table_of_contig {D} (K : nat) (stranded : bool) (dat : nat -> D) (s : dna) : table D :=
  map_idx (contig_entry stranded dat) (contig_windows K (length s + 1 - K) None s).

(* a deterministic pseudo-random base sequence (linear congruential generator on 32 bits, top two bits of each state) *)
Fixpoint lcg_bases (n : nat) (x : N) : dna :=
  match n with
  | O => []
  | S m => let x' := (1664525 * x + 1013904223) mod 4294967296 in (x' / 1073741824) :: lcg_bases m x'
  end.
