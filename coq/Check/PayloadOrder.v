(* C01, payload clause at full strength for the harness payload (colour, id list) with the NON-commutative reduction
   "keep the accumulator's colour, append the other's ids": C01_node_facts proves the fold order seed, left path (from
   the seed outwards), right path.  Read on a node of n k-mers whose seed sits at offset p this means: the ids are those
   of the k-mers at offsets p, p-1, ..., 0, p+1, ..., n-1 and the colour is the seed's; the seed is the node's first k-mer
   in table order (so a fold that starts from another k-mer of the node, e.g. reduce(kmer, acc), is rejected).  [chk_payload_order] decides
   exactly that on an implementation output (every table entry carries one unique id).  Not proved sound in Coq: it
   is a direct reading of the proved fold order; a failure is reported with the input as a failing case of C01. *)
From Coq Require Import NArith List Bool Arith.
From DBG Require Import Spec.Dna Spec.GraphIndex Spec.Unitig Algo.Compress Check.GraphCheck.
Import ListNotations.
Open Scope N_scope.

Definition expected_order (p n : nat) : list nat := p :: rev (seq 0 p) ++ seq (S p) (n - S p).
Definition onat_eqb (a b : option nat) : bool :=
  match a, b with Some x, Some y => Nat.eqb x y | None, None => true | _, _ => false end.
Fixpoint olist_eqb (a b : list (option nat)) : bool :=
  match a, b with
  | [], [] => true
  | x :: a', y :: b' => onat_eqb x y && olist_eqb a' b'
  | _, _ => false
  end.

Definition chk_payload_order (K : nat) (stranded : bool) (T : table pay) (nodes : list node_t) : bool :=
  forallb (fun n =>
    let ks := map (ck stranded) (kmers K (fst (fst n))) in
    let ids := snd (snd n) in
    let ent_of (id : N) := find (fun e => N_list_eqb (snd (e_data pay e)) [id]) T in
    let offs := map (fun id => match ent_of id with
                               | Some e => index_where (dna_eqb (e_key pay e)) ks
                               | None => None end) ids in
    (* position in the table (= iteration order = slot id) of the entry carrying [id] *)
    let pos_of (id : N) := index_where (fun e => N_list_eqb (snd (e_data pay e)) [id]) T in
    match offs, ids with
    | Some p :: _, id0 :: rest =>
        olist_eqb offs (map Some (expected_order p (length ks))) &&
        match ent_of id0 with Some e => fst (e_data pay e) =? fst (snd n) | None => false end &&
        (* the seed (first payload of the fold) is the node's FIRST k-mer in table order: the outer loop of
           compress_kmers visits the slots in order and seeds a node at the first slot that is still available, and
           every k-mer of the node was available then *)
        match pos_of id0 with
        | Some i0 => forallb (fun id => match pos_of id with Some i => Nat.ltb i0 i | None => false end) rest
        | None => false
        end
    | _, _ => false
    end) nodes.
