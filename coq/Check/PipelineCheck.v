(* C04 / C06 (graph half): what "the same assembly" means, on plain lists, and the boolean checkers the
   correspondence driver runs on the IMPLEMENTATION's graphs.  Soundness proofs: Proofs/PipelineCheckProofs.v.

   A graph is the list of its nodes (sequence, extension byte, payload = (colour, ids)).
   - the k-mers of a node: all K-windows of its sequence, canonical (min of k-mer and rc) when unstranded;
   - the links of a graph: every (K+1)-window of every node sequence (the steps inside nodes) plus, for every
     node end and every base of its extension set, the (K+1)-mer formed by the end k-mer and that base; canonical
     when unstranded.  A link names both its k-mers, so the link set determines the adjacency relation between the
     nodes of a given partition, with sides; it does not depend on the orientation a node is spelled in nor on where
     an isolated cycle is cut; the two sides of a palindromic k-mer are identified by canonicalisation
     (x.b and comp(b).x are reverse complements when x = rc x). *)
From Coq Require Import NArith List Bool Arith Permutation.
From DBG Require Import Spec.Dna Spec.GraphIndex Packed.ExtsModel Algo.KmerHist Check.GraphCheck.
Import ListNotations.
Open Scope N_scope.

Section Same.
Variable K : nat.
Variable stranded : bool.
Variable mode : N.                       (* join mode: 0 = always join (node colour = its seed's), 1 = equal colours *)

Definition cn (x : dna) : dna := if stranded then x else canon x.
Definition nd_seq (n : node_t) : dna := fst (fst n).
Definition nd_exts (n : node_t) : N := snd (fst n).
Definition nd_colour (n : node_t) : N := fst (snd n).
Definition nd_ids (n : node_t) : list N := snd (snd n).

Definition node_kmers (n : node_t) : list dna := map cn (kmers K (nd_seq n)).
Definition node_links (n : node_t) : list dna :=
  map cn (kmers (S K) (nd_seq n)) ++
  map (fun b => cn (b :: first_kmer K (nd_seq n))) (e_get (nd_exts n) false) ++
  map (fun b => cn (last_kmer K (nd_seq n) ++ [b])) (e_get (nd_exts n) true).
Definition graph_kmers (g : list node_t) : list dna := flat_map node_kmers g.
Definition graph_links (g : list node_t) : list dna := flat_map node_links g.

(* ---- the property ---- *)
Definition node_equiv (a b : node_t) : Prop :=
  Permutation (node_kmers a) (node_kmers b) /\ Permutation (nd_ids a) (nd_ids b) /\
  (mode <> 0 -> nd_colour a = nd_colour b).
(* same partition of the (canonical) k-mers into nodes - whatever the orientation / cycle cut of each node -, same
   payload totals per node, same links *)
Definition same_assembly (g1 g2 : list node_t) : Prop :=
  (exists g2', Permutation g2 g2' /\ Forall2 node_equiv g1 g2') /\
  (forall w, In w (graph_links g1) <-> In w (graph_links g2)).

(* ---- the checker ---- *)
Definition node_equivb (a b : node_t) : bool :=
  dna_list_eqb (sort_dna (node_kmers a)) (sort_dna (node_kmers b)) &&
  N_list_eqb (sort_N (nd_ids a)) (sort_N (nd_ids b)) &&
  ((mode =? 0) || (nd_colour a =? nd_colour b)).
Fixpoint remove_first {A} (p : A -> bool) (l : list A) : option (list A) :=
  match l with
  | [] => None
  | x :: r => if p x then Some r else match remove_first p r with Some t => Some (x :: t) | None => None end
  end.
Fixpoint match_nodes (g1 g2 : list node_t) : bool :=
  match g1 with
  | [] => match g2 with [] => true | _ => false end
  | n :: r => match remove_first (node_equivb n) g2 with Some g2' => match_nodes r g2' | None => false end
  end.
Definition subsetb (a b : list dna) : bool := forallb (fun w => existsb (dna_eqb w) b) a.
Definition chk_same_assembly (g1 g2 : list node_t) : bool :=
  match_nodes g1 g2 && subsetb (graph_links g1) (graph_links g2) && subsetb (graph_links g2) (graph_links g1).
End Same.

(* ---- the graph of a read set, on Layer S: retained k-mers and links ---- *)
Section Exact.
Variable K : nat.
Variable stranded : bool.
Variable thr : N.
Variable reads : list dna.

Definition read_kmers : list dna := flat_map (fun r => map (cn stranded) (kmers K r)) reads.
Definition occurrences (x : dna) : N := N.of_nat (length (filter (dna_eqb x) read_kmers)).
Definition is_retained (x : dna) : bool := thr <=? occurrences x.
(* distinct retained k-mers, ascending *)
Definition retained : list dna := filter is_retained (dedup_by dna_eqb (sort_dna read_kmers)).
(* forward (K+1)-mers of the reads whose two k-mers are both retained *)
Definition link_retained (w : dna) : bool :=
  is_retained (cn stranded (firstn K w)) && is_retained (cn stranded (skipn 1 w)).
Definition spec_links : list dna :=
  map (cn stranded) (filter link_retained (flat_map (fun r => kmers (S K) r) reads)).

Definition graph_exact (g : list node_t) : Prop :=
  Permutation (graph_kmers K stranded g) retained /\
  (forall w, In w (graph_links K stranded g) <-> In w spec_links).
Definition chk_graph_exact (g : list node_t) : bool :=
  dna_list_eqb (sort_dna (graph_kmers K stranded g)) retained &&
  subsetb (graph_links K stranded g) spec_links && subsetb spec_links (graph_links K stranded g).
End Exact.

(* ---- unitig graphs: the nodes are exactly the maximal unbranched paths of the link set --------------------------
   Everything is read off the graph's own link set L (a list of canonical (K+1)-mers) and a join predicate on
   canonical k-mers: the right / left links of an ORIENTED k-mer x, and when the step x -> y is a merge
   (mirrors the static conditions of try_extend_kmer / try_extend_node: sole link on both facing sides, no
   palindrome when unstranded, y is another k-mer, join_test). *)
Section Unitig.
Variable K : nat.
Variable stranded : bool.
Variable kjoin : dna -> dna -> bool.
Variable L : list dna.

Definition has_link (w : dna) : bool := existsb (dna_eqb (cn stranded w)) L.
Definition rlinks (x : dna) : list N := filter (fun b => has_link (x ++ [b])) [0; 1; 2; 3].
Definition llinks (x : dna) : list N := filter (fun b => has_link (b :: x)) [0; 1; 2; 3].
Definition palb (x : dna) : bool := negb stranded && is_palindrome x.
Definition mergeableb (x y : dna) : bool :=
  match rlinks x, llinks y with
  | [b], [c] => dna_eqb y (tl x ++ [b]) && (c =? hd 0 x) && negb (palb x) && negb (palb y) &&
                negb (dna_eqb (cn stranded x) (cn stranded y)) && kjoin (cn stranded x) (cn stranded y)
  | _, _ => false
  end.

(* consecutive k-mers of a node, plus the closing pair (last, first) of a possible cycle; both strands *)
Definition inner_pairs (n : node_t) : list (dna * dna) := let ks := kmers K (nd_seq n) in combine ks (tl ks).
Definition node_pairs (n : node_t) : list (dna * dna) :=
  let ks := kmers K (nd_seq n) in inner_pairs n ++ [(last ks [], hd [] ks)].
Definition opairs (n : node_t) : list (dna * dna) :=
  node_pairs n ++ (if stranded then [] else map (fun p => (rc (snd p), rc (fst p))) (node_pairs n)).
Definition okmers (n : node_t) : list dna :=
  kmers K (nd_seq n) ++ (if stranded then [] else map rc (kmers K (nd_seq n))).
Definition adjacent_inb (g : list node_t) (x y : dna) : bool :=
  existsb (fun n => existsb (fun p => dna_eqb (fst p) x && dna_eqb (snd p) y) (opairs n)) g.

Definition node_wfb (n : node_t) : bool := wf_dnab (nd_seq n) && Nat.leb K (length (nd_seq n)).
Definition node_wf (n : node_t) : Prop := wf_dna (nd_seq n) /\ (K <= length (nd_seq n))%nat.
Definition adjacent_in (g : list node_t) (x y : dna) : Prop :=
  exists n p, In n g /\ In p (opairs n) /\ fst p = x /\ snd p = y.
Definition unbranched (g : list node_t) : Prop :=
  forall n p, In n g -> In p (inner_pairs n) -> mergeableb (fst p) (snd p) = true.
Definition maximal (g : list node_t) : Prop :=
  forall n x y, In n g -> In x (okmers n) -> mergeableb x y = true -> adjacent_in g x y.
(* U2: every step inside a node is a merge;  U3: every merge of the link set is a step inside a node (or closes it) *)
Definition chk_unbranched (g : list node_t) : bool := forallb (fun n => forallb (fun p => mergeableb (fst p) (snd p)) (inner_pairs n)) g.
Definition chk_maximal (g : list node_t) : bool :=
  forallb (fun n => forallb (fun x => forallb (fun b =>
     let y := tl x ++ [b] in negb (mergeableb x y) || adjacent_inb g x y) [0; 1; 2; 3]) (okmers n)) g.
End Unitig.

(* ---- payloads against Layer S: ids = ranks of the node's k-mers; colour = labels of the reads containing a k-mer *)
Section Payload.
Variable K : nat.
Variable stranded : bool.
Variable mode : N.
Variable lreads : list (dna * N).
Definition kmer_colour (x : dna) : N :=
  fold_left (fun m r => if existsb (fun w => dna_eqb (cn stranded w) x) (kmers K (fst r))
                        then N.lor m (N.shiftl 1 (N.land (snd r) 7)) else m) lreads 0.
Definition kjoin_f (colf : dna -> N) (x y : dna) : bool := (mode =? 0) || (colf x =? colf y).
Definition kjoin_of : dna -> dna -> bool := kjoin_f kmer_colour.
Definition chk_payload_s (g : list node_t) : bool :=
  forallb (fun n =>
    N_list_eqb (sort_N (nd_ids n)) (sort_N (map rank (node_kmers K stranded n))) &&
    (if mode =? 0 then existsb (fun k => kmer_colour k =? nd_colour n) (node_kmers K stranded n)
     else forallb (fun k => kmer_colour k =? nd_colour n) (node_kmers K stranded n))) g.
Definition payload_ok (idf colf : dna -> N) (g : list node_t) : Prop :=
  forall n, In n g ->
    Permutation (nd_ids n) (map idf (node_kmers K stranded n)) /\
    (mode <> 0 -> forall k, In k (node_kmers K stranded n) -> colf k = nd_colour n) /\
    (mode = 0 -> exists k, In k (node_kmers K stranded n) /\ colf k = nd_colour n).
(* the nodes of g are exactly the maximal unbranched paths of g's own link set *)
Definition unitig_graph (colf : dna -> N) (g : list node_t) : Prop :=
  (1 <= K)%nat /\ Forall (node_wf K) g /\
  unbranched K stranded (kjoin_f colf) (graph_links K stranded g) g /\
  maximal K stranded (kjoin_f colf) (graph_links K stranded g) g.
(* all hypotheses about ONE graph that the uniqueness theorem needs, besides graph_exact *)
Definition chk_unitig (g : list node_t) : bool :=
  Nat.leb 1 K && forallb (node_wfb K) g &&
  chk_unbranched K stranded kjoin_of (graph_links K stranded g) g &&
  chk_maximal K stranded kjoin_of (graph_links K stranded g) g &&
  chk_payload_s g.
End Payload.

(* ---- THE assembly of a labelled read set (specification of every pipeline variant): the graph's k-mers and
   links are exactly the retained k-mers and links of the reads (Layer S), its nodes are exactly the maximal unbranched
   paths, and every node carries the payloads of its k-mers *)
Definition assembly_of (K : nat) (stranded : bool) (thr mode : N) (lreads : list (dna * N)) (g : list node_t) : Prop :=
  graph_exact K stranded thr (map fst lreads) g /\
  unitig_graph K stranded mode (kmer_colour K stranded lreads) g /\
  payload_ok K stranded mode rank (kmer_colour K stranded lreads) g.
Definition chk_assembly (K : nat) (stranded : bool) (thr mode : N) (lreads : list (dna * N)) (g : list node_t) : bool :=
  chk_graph_exact K stranded thr (map fst lreads) g && chk_unitig K stranded mode lreads g.
