(* C04 / C06 (graph half): what "the same assembly" means, on plain lists, and the boolean checkers the
   correspondence driver runs on the IMPLEMENTATION's graphs.  Soundness proofs: Proofs/PipelineCheckProofs.v.

   A graph is the list of its nodes (sequence, extension byte, payload = (colour, ids)).
   - the k-mers of a node: all K-windows of its sequence, canonical (min of k-mer and rc) when unstranded;
   - the links of a graph: every (K+1)-window of every node sequence (the steps inside nodes) plus, for every
     node end and every base of its extension set, the (K+1)-mer formed by the end k-mer and that base; canonical
     when unstranded.  A link names both its k-mers, so the link set determines the adjacency relation between the
     nodes of a given partition, with sides; it does not depend on the orientation a node is spelled in nor on where
     an isolated cycle is cut; the two sides of a palindromic k-mer are identified by canonicalisation
     (x.b and comp(b).x are reverse complements when x = rc x). *)
From Coq Require Import NArith List Bool Arith Permutation.
From DBG Require Import Spec.Dna Spec.GraphIndex Packed.ExtsModel Algo.KmerHist Check.GraphCheck.
Import ListNotations.
Open Scope N_scope.

Section Same.
Variable K : nat.
Variable stranded : bool.
Variable mode : N.                       (* join mode: 0 = always join (node colour = its seed's), 1 = equal colours *)

Definition cn (x : dna) : dna := if stranded then x else canon x.
Definition nd_seq (n : node_t) : dna := fst (fst n).
Definition nd_exts (n : node_t) : N := snd (fst n).
Definition nd_colour (n : node_t) : N := fst (snd n).
Definition nd_ids (n : node_t) : list N := snd (snd n).

Definition node_kmers (n : node_t) : list dna := map cn (kmers K (nd_seq n)).
Definition node_links (n : node_t) : list dna :=
  map cn (kmers (S K) (nd_seq n)) ++
  map (fun b => cn (b :: first_kmer K (nd_seq n))) (e_get (nd_exts n) false) ++
  map (fun b => cn (last_kmer K (nd_seq n) ++ [b])) (e_get (nd_exts n) true).
Definition graph_kmers (g : list node_t) : list dna := flat_map node_kmers g.
Definition graph_links (g : list node_t) : list dna := flat_map node_links g.

(* ---- the property ---- *)
Definition node_equiv (a b : node_t) : Prop :=
  Permutation (node_kmers a) (node_kmers b) /\ Permutation (nd_ids a) (nd_ids b) /\
  (mode <> 0 -> nd_colour a = nd_colour b).
(* same partition of the (canonical) k-mers into nodes - whatever the orientation / cycle cut of each node -, same
   payload totals per node, same links *)
Definition same_assembly (g1 g2 : list node_t) : Prop :=
  (exists g2', Permutation g2 g2' /\ Forall2 node_equiv g1 g2') /\
  (forall w, In w (graph_links g1) <-> In w (graph_links g2)).

(* ---- the checker ---- *)
Definition node_equivb (a b : node_t) : bool :=
  dna_list_eqb (sort_dna (node_kmers a)) (sort_dna (node_kmers b)) &&
  N_list_eqb (sort_N (nd_ids a)) (sort_N (nd_ids b)) &&
  ((mode =? 0) || (nd_colour a =? nd_colour b)).
Fixpoint remove_first {A} (p : A -> bool) (l : list A) : option (list A) :=
  match l with
  | [] => None
  | x :: r => if p x then Some r else match remove_first p r with Some t => Some (x :: t) | None => None end
  end.
Fixpoint match_nodes (g1 g2 : list node_t) : bool :=
  match g1 with
  | [] => match g2 with [] => true | _ => false end
  | n :: r => match remove_first (node_equivb n) g2 with Some g2' => match_nodes r g2' | None => false end
  end.
Definition subsetb (a b : list dna) : bool := forallb (fun w => existsb (dna_eqb w) b) a.
Definition chk_same_assembly (g1 g2 : list node_t) : bool :=
  match_nodes g1 g2 && subsetb (graph_links g1) (graph_links g2) && subsetb (graph_links g2) (graph_links g1).
End Same.

(* ---- the graph of a read set, on Layer S: retained k-mers and links ---- *)
Section Exact.
Variable K : nat.
Variable stranded : bool.
Variable thr : N.
Variable reads : list dna.

Definition read_kmers : list dna := flat_map (fun r => map (cn stranded) (kmers K r)) reads.
Definition occurrences (x : dna) : N := N.of_nat (length (filter (dna_eqb x) read_kmers)).
Definition is_retained (x : dna) : bool := thr <=? occurrences x.
(* distinct retained k-mers, ascending *)
Definition retained : list dna := filter is_retained (dedup_by dna_eqb (sort_dna read_kmers)).
(* forward (K+1)-mers of the reads whose two k-mers are both retained *)
Definition link_retained (w : dna) : bool :=
  is_retained (cn stranded (firstn K w)) && is_retained (cn stranded (skipn 1 w)).
Definition spec_links : list dna :=
  map (cn stranded) (filter link_retained (flat_map (fun r => kmers (S K) r) reads)).

Definition graph_exact (g : list node_t) : Prop :=
  Permutation (graph_kmers K stranded g) retained /\
  (forall w, In w (graph_links K stranded g) <-> In w spec_links).
Definition chk_graph_exact (g : list node_t) : bool :=
  dna_list_eqb (sort_dna (graph_kmers K stranded g)) retained &&
  subsetb (graph_links K stranded g) spec_links && subsetb spec_links (graph_links K stranded g).
End Exact.
