(* C09 for input graphs with DANGLING extension bits (work package c09x).
   [rvalid_loose] is [rvalid] (Check/RecompCheck.v) WITHOUT [resolvable]: an extension bit of a node may point to a
   k-mer that is the end of no node (graphs built from a count-filtered table, shard graphs combined by
   BaseGraph::combine).  [links_sym] is already conditional on the extension resolving, so it is kept as it is: only
   the extensions that DO resolve must have a return extension.  [prune g] = fix_exts(None): [g] with exactly the
   dangling bits removed.  Proofs: Proofs/RecompLoose.v; statements: Properties/C09.v. *)
From Coq Require Import NArith List Bool Arith.
From DBG Require Import Spec.Dna Spec.GraphIndex Packed.ExtsModel Algo.Compress Algo.KmerHist Algo.GraphModel
  Algo.Recompress Check.RecompCheck.
Import ListNotations.
Open Scope N_scope.

Section RLoose.
Variable D : Type.
Variable K : nat.
Variable stranded : bool.
Local Notation graph := (graph D).

Definition rvalid_loose (g : graph) : Prop :=
  Forall (node_ok D K) g /\
  NoDup (ends_of K (g_seqs D g) DLeft) /\ NoDup (ends_of K (g_seqs D g) DRight) /\
  pal_ends D K stranded g /\ links_sym D K stranded g.

Definition rvalid_looseb (g : graph) : bool :=
  forallb (node_okb D K) g && nodupb (ends_of K (g_seqs D g) DLeft) && nodupb (ends_of K (g_seqs D g) DRight) &&
  pal_endsb D K stranded g && links_symb D K stranded g.

(* the graph with its dangling extension bits removed (an extension is kept iff it resolves to some node end) *)
Definition prune (g : graph) : option graph := fix_exts D K stranded g None.

(* extension (d, b) of node x is present but resolves to no node end *)
Definition dangling (g : graph) (x : nat) (d : dir) (b : N) : Prop :=
  exists n, nth_error g x = Some n /\ e_has_ext (n_exts D n) (dirb d) b = true /\ ext_link D K stranded g x d b = None.

(* ---- combined graphs (BaseGraph::combine = concatenation of shard graphs) ------------------------------------ *)
(* [links_sym] required only of the links x -> y with P x y *)
Definition links_sym_on (P : nat -> nat -> Prop) (g : graph) : Prop :=
  forall x d b y t f n m, P x y -> nth_error g x = Some n -> nth_error g y = Some m -> In b bases4 ->
    ext_link D K stranded g x d b = Some (y, t, f) ->
    exists t' b' d' f', In b' bases4 /\ ext_link D K stranded g y t' b' = Some (x, d', f') /\
      (pal_single D K stranded m = false -> t' = t) /\ (pal_single D K stranded n = false -> d' = d).
(* node ids x and y of [concat gs] lie in the same shard graph *)
Fixpoint same_shard (gs : list graph) (x y : nat) : Prop :=
  match gs with
  | [] => False
  | g :: r => (x < length g /\ y < length g)%nat \/
              (length g <= x /\ length g <= y /\ same_shard r (x - length g) (y - length g))%nat
  end.
(* [rvalid_loose] minus the symmetry of the links that cross from one shard graph to another *)
Definition rvalid_loose_within (gs : list graph) (g : graph) : Prop :=
  Forall (node_ok D K) g /\
  NoDup (ends_of K (g_seqs D g) DLeft) /\ NoDup (ends_of K (g_seqs D g) DRight) /\
  pal_ends D K stranded g /\ links_sym_on (same_shard gs) g.
End RLoose.
