(* C03: executable checkers run on the IMPLEMENTATION's graphs, edge lists, walks and pruned tables.
   Each decides one Prop of Spec/EdgeSpec.v; soundness (and completeness) is in Proofs/EdgeCheckProofs.v. *)
From Coq Require Import NArith ZArith List Bool Arith.
From DBG Require Import Spec.Dna Spec.GraphIndex Packed.ExtsModel Algo.Compress Algo.GraphModel Spec.EdgeSpec.
Import ListNotations.
Local Open Scope nat_scope.

Fixpoint nodup_dnab (l : list dna) : bool :=
  match l with [] => true | x :: r => negb (existsb (dna_eqb x) r) && nodup_dnab r end.
Fixpoint nodup_natb (l : list nat) : bool :=
  match l with [] => true | x :: r => negb (existsb (Nat.eqb x) r) && nodup_natb r end.
Fixpoint dnas_eqb (a b : list dna) : bool :=
  match a, b with
  | [], [] => true
  | x :: a', y :: b' => dna_eqb x y && dnas_eqb a' b'
  | _, _ => false
  end.
Definition incl_dnab (a b : list dna) : bool := forallb (fun x => existsb (dna_eqb x) b) a.
Fixpoint chainb {A} (r : A -> A -> bool) (l : list A) : bool :=
  match l with
  | [] => true
  | a :: t => match t with b :: _ => r a b | [] => true end && chainb r t
  end.
Definition sides : list dir := [DLeft; DRight].

Section EdgeCheck.
Variable D : Type.
Variable K : nat.
Variable stranded : bool.
Local Notation graph := (graph D).
Local Notation node_seq := (node_seq D).
Local Notation node_exts := (node_exts D).

Definition ids (g : graph) : list nat := seq 0 (length g).

(* ---- validity of the graph *)
Definition chk_wf_graph (g : graph) : bool :=
  (1 <=? K) && forallb (fun n => (K <=? length (n_seq D n)) && wf_dnab (n_seq D n)) g.
Definition pal_singleb (g : graph) (v : nat) : bool :=
  negb stranded && (v <? length g) && Nat.eqb (length (node_seq g v)) K && dna_eqb (node_seq g v) (rc (node_seq g v)).
Definition chk_ends_ok (g : graph) : bool :=
  nodup_dnab (ends_of K (g_seqs D g) DLeft) && nodup_dnab (ends_of K (g_seqs D g) DRight) &&
  (stranded ||
   forallb (fun u => forallb (fun s =>
      match end_index (ends_of K (g_seqs D g) (dflip s)) (rc (term_kmer K (node_seq g u) s)) with
      | None => true
      | Some w => Nat.eqb w u && Nat.eqb (length (node_seq g u)) K
      end) sides) (ids g)).
Definition chk_exts_sym (g : graph) : bool :=
  forallb (fun u => forallb (fun s => forallb (fun b =>
    if e_has_ext (node_exts g u) (dirb s) b then
      match find_link D K stranded g (extend (term_kmer K (node_seq g u) s) b s) s with
      | None => true
      | Some (v, t, f) =>
          let b' := back_base (term_kmer K (node_seq g u) s) s f in
          e_has_ext (node_exts g v) (dirb t) b' ||
          (pal_singleb g v && e_has_ext (node_exts g v) (dirb (dflip t)) (comp b'))
      end
    else true) bases) sides) (ids g).
Definition chk_resolvable (g : graph) : bool :=
  forallb (fun u => forallb (fun s => forallb (fun b =>
    if e_has_ext (node_exts g u) (dirb s) b then
      match find_link D K stranded g (extend (term_kmer K (node_seq g u) s) b s) s with None => false | Some _ => true end
    else true) bases) sides) (ids g).
Definition chk_graph_ok (g : graph) : bool := chk_wf_graph g && chk_ends_ok g && chk_exts_sym g.
Definition chk_valid_graph (g : graph) : bool := chk_graph_ok g && chk_resolvable g.

(* ---- the edge lists reported by the implementation: one (left edges, right edges) pair per node *)
Definition edge_lists := list (list link * list link).
Definition E_of (el : edge_lists) (u : nat) (s : dir) : list link :=
  match nth_error el u with
  | Some p => match s with DLeft => fst p | DRight => snd p end
  | None => []
  end.

Definition chk_edge_ok (g : graph) (u : nat) (s : dir) (l : link) : bool :=
  let '(v, t, f) := l in
  let o := out_kmer D K g u s in
  let i := in_kmer D K g v t in
  (v <? length g) &&
  existsb (fun c => e_has_ext (node_exts g u) (dirb s) (match s with DRight => c | DLeft => comp c end) &&
                    dna_eqb i (extend_right o c)) bases &&
  dna_eqb (tl o) (removelast i) && Bool.eqb f (dir_eqb s t) && (negb stranded || negb f).
Definition chk_edges_overlap (g : graph) (el : edge_lists) : bool :=
  forallb (fun u => forallb (fun s => forallb (chk_edge_ok g u s) (E_of el u s)) sides) (ids g).

Definition chk_edges_symmetric (g : graph) (el : edge_lists) : bool :=
  forallb (fun u => forallb (fun s => forallb (fun l : link =>
    let '(v, t, f) := l in
    existsb (fun t' => existsb (fun l' : link =>
      let '(u', s', f') := l' in
      Nat.eqb u' u && (dir_eqb t' t || pal_singleb g v) && (dir_eqb s' s || pal_singleb g u) &&
      Bool.eqb f' (dir_eqb t' s')) (E_of el v t')) sides) (E_of el u s)) sides) (ids g).

(* ---- walks *)
Definition step_okb (g : graph) (a b : nat * dir) : bool :=
  existsb (fun s => existsb (fun l : link =>
    let '(v, t, _) := l in
    Nat.eqb v (fst b) && (dir_eqb s (dflip (snd a)) || pal_singleb g (fst a)) &&
    (dir_eqb t (snd b) || pal_singleb g (fst b))) (edges_of D K stranded g (fst a) s)) sides.
Definition chk_valid_walk (g : graph) (p : list (nat * dir)) : bool :=
  forallb (fun x => fst x <? length g) p && chainb (step_okb g) p.
(* the walk is valid and the sequence reported for it spells the walked nodes' k-mers in order *)
Definition chk_walk (g : graph) (p : list (nat * dir)) (sq : dna) : bool :=
  chk_valid_walk g p && dnas_eqb (kmers K sq) (walk_kmers D K g p).
Definition chk_max_path (g : graph) (p : list (nat * dir)) (sq : dna) : bool :=
  chk_walk g p sq && nodup_natb (map fst p).
End EdgeCheck.

(* ---- resolvable edges = observed adjacencies between retained k-mers *)
Definition E_list (el : edge_lists) : list (nat * dir * list link) :=
  flat_map (fun p => [(fst p, DLeft, fst (snd p)); (fst p, DRight, snd (snd p))]) (combine (seq 0 (length el)) el).
Definition chk_edges_observed (K : nat) (stranded : bool) (thr : nat) (reads seqs : list dna) (el : edge_lists) : bool :=
  let ga := graph_adjs K stranded seqs (E_list el) in
  let oa := observed_adjs K stranded thr reads in
  incl_dnab ga oa && incl_dnab oa ga.

(* ---- pruned tables: tbl = (key, exts before); new = exts after remove_censored_exts(_sharded) *)
Definition chk_pruned_with (stranded : bool) (keep : dna -> bool) (k : dna) (e e' : N) : bool :=
  (e' <? 256)%N &&
  forallb (fun d => forallb (fun b =>
     Bool.eqb (e_has_ext e' (dirb d) b) (e_has_ext e (dirb d) b && keep (canon_s stranded (extend k b d)))) bases) sides.
Definition chk_pruned (stranded : bool) (tbl : list (dna * N)) (new : list N) : bool :=
  let keys := map fst tbl in
  Nat.eqb (length new) (length tbl) &&
  forallb (fun p => chk_pruned_with stranded (key_in keys) (fst (fst p)) (snd (fst p)) (snd p)) (combine tbl new).
Definition chk_pruned_sharded (stranded : bool) (tbl : list (dna * N)) (all_kmers : list dna) (new : list N) : bool :=
  let keys := map fst tbl in
  Nat.eqb (length new) (length tbl) &&
  forallb (fun p => chk_pruned_with stranded (fun x => key_in keys x || negb (key_in all_kmers x))
                                    (fst (fst p)) (snd (fst p)) (snd p)) (combine tbl new).
