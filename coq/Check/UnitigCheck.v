(* C02: verified boolean checker run on the IMPLEMENTATION's nodes (path form).  It accepts iff
   - the table meets [tbl_ok] (checked, not assumed),
   - every window of every node is a key and the window keys of all nodes are a permutation of the table indices,
   - inside a node consecutive keys are joined by a mergeable link ([mlink], Spec/Unitig.v),
   - no mergeable link leaves a node.
   Soundness (Proofs/UnitigCheckProofs.v): acceptance implies same_node <-> mconn for all keys. *)
From Coq Require Import NArith List Bool Arith.
From DBG Require Import Spec.Dna Spec.GraphIndex Spec.Unitig Spec.CompressSpec Packed.ExtsModel Algo.Compress
  Algo.KmerHist Check.CompressHyp.
Import ListNotations.
Local Open Scope nat_scope.

Fixpoint linkedb {A} (r : A -> A -> bool) (l : list A) : bool :=
  match l with
  | a :: (b :: _) as t => r a b && linkedb r t
  | _ => true
  end.
Fixpoint all_some {A} (l : list (option A)) : option (list A) :=
  match l with
  | [] => Some []
  | Some x :: r => match all_some r with Some t => Some (x :: t) | None => None end
  | None :: _ => None
  end.
Definition nat_eqb_list (a b : list nat) : bool :=
  Nat.eqb (length a) (length b) && forallb (fun p => Nat.eqb (fst p) (snd p)) (combine a b).

Section Chk.
Variable D : Type.
Variable join : D -> D -> bool.
Variable K : nat.
Variable stranded : bool.
Local Notation table := (table D).
Local Notation node := (Compress.node D).

Definition node_ids (T : table) (n : node) : option (list nat) :=
  all_some (map (fun w => get_id D T (canon_k stranded w)) (kmers K (fst (fst n)))).
Definition mlinkb (T : table) (a b : nat) : bool :=
  existsb (fun d => match mlink D join stranded T a d with Some (j, _) => Nat.eqb j b | None => false end) [DLeft; DRight].
Definition node_of (nids : list (list nat)) (i : nat) : option nat := index_where (fun ids => mem_nat i ids) nids.

Definition chk_c02p (T : table) (nodes : list node) : bool :=
  tbl_okb D K stranded T &&
  match all_some (map (node_ids T) nodes) with
  | None => false
  | Some nids =>
    nat_eqb_list (sort_by Nat.leb (concat nids)) (seq 0 (length T)) &&
    forallb (linkedb (mlinkb T)) nids &&
    forallb (fun i => forallb (fun d =>
      match mlink D join stranded T i d with
      | Some (j, _) => match node_of nids i, node_of nids j with Some a, Some b => Nat.eqb a b | _, _ => false end
      | None => true
      end) [DLeft; DRight]) (seq 0 (length T))
  end.
End Chk.
