(* C09, payload clause at full strength for the harness payload (colour, id list) with the NON-commutative reduction
   "keep the accumulator's colour, append the other's ids": C09_payload_fold proves the fold order seed, left path
   (walking away from the seed), right path, and the seed of a result node is its lowest-numbered input node (the outer
   loop of compress_graph visits the node ids in order and seeds a path at the first id still available).
   Read on a result node that spells the input nodes p_0 .. p_{n-1} (in the result's orientation; [node_path] finds
   them) with the seed at position s: ids = ids(p_s) ++ ids(p_{s-1}) ++ .. ++ ids(p_0) ++ ids(p_{s+1}) ++ .. and the
   colour is the seed's.  [chk_payload_order] decides exactly that on an implementation output.  Not proved sound in Coq
   (a direct reading of the proved fold order, like Check/PayloadOrder.v for C01); a failure is reported with its input. *)
From Coq Require Import NArith List Bool Arith.
From DBG Require Import Spec.Dna Spec.GraphIndex Algo.KmerHist Algo.Compress Algo.GraphModel Algo.Recompress Check.RecompCheck.
Import ListNotations.
Open Scope N_scope.

Section ROrder.
Variable K : nat.
Variable stranded : bool.
Local Notation graph := (list rnode).

Definition ids_at (g : graph) (x : nat * dir) : list N :=
  match nth_error g (fst x) with Some n => snd (n_data rpay n) | None => [] end.
Definition colour_at (g : graph) (x : nat * dir) : option N :=
  match nth_error g (fst x) with Some n => Some (fst (n_data rpay n)) | None => None end.
(* position of the smallest node id of the path *)
Fixpoint min_pos (p : list (nat * dir)) (i : nat) (best : nat * nat) : nat :=
  match p with
  | [] => snd best
  | x :: r => min_pos r (S i) (if Nat.ltb (fst x) (fst best) then (fst x, i) else best)
  end.
Definition chk_payload_order_node (g : graph) (n : rnode) : bool :=
  match node_path rpay K stranded g (n_seq rpay n) with
  | Some (x0 :: r) =>
      let p := x0 :: r in
      let s := min_pos r 1 (fst x0, 0%nat) in
      let before := firstn s p in
      let after := skipn (S s) p in
      match nth_error p s with
      | Some xs =>
          list_eqb N.eqb (snd (n_data rpay n))
                   (ids_at g xs ++ concat (map (ids_at g) (rev before)) ++ concat (map (ids_at g) after)) &&
          match colour_at g xs with Some c => c =? fst (n_data rpay n) | None => false end
      | None => false
      end
  | _ => false
  end.
Definition chk_payload_order (g out : graph) : bool := forallb (chk_payload_order_node g) out.
End ROrder.
