(* Boolean checkers for C07 / C08, run on the IMPLEMENTATION's outputs by the correspondence driver.
   They need no score function: the harness passes the score of the p-mer at every position as a list.
   Soundness w.r.t. the Prop statements of Spec/ScanSpec.v is proved in Proofs/ScanCheckProofs.v. *)
From Coq Require Import NArith List Bool Arith.
From DBG Require Import Spec.Dna Spec.ScanSpec.
Import ListNotations.
Open Scope nat_scope.

Definition dna_eq (a b : dna) : bool := if list_eq_dec N.eq_dec a b then true else false.

Section CheckScan.
  Variable seq : dna.
  Variable k p : nat.
  Variable sc : list N.          (* sc[j] = score of the p-mer at position j, j = 0 .. |seq|-p *)

  (* (c), (d), (e) for one interval *)
  Definition check_iv (x : sivl) : bool :=
    let st := s_start x in
    let ln := s_len x in
    let q := s_mpos x in
    (k <=? ln) && (ln <=? 2 * k - p) &&
    dna_eq (s_min x) (sub q p seq) &&
    (st + ln - k <=? q) && (q + p <=? st + k) &&
    (st + ln <=? length seq) &&
    forallb (fun v => (nth q sc 0 <=? v)%N) (sub st (ln - p + 1) sc).

  (* (f) *)
  Definition check_end (x : sivl) : bool :=
    let e := s_start x + s_len x - k + 1 in
    (s_mpos x <? e) || ((e + k <=? length seq) && (nth (e + k - p) sc 0 <? nth (s_mpos x) sc 0)%N).

  (* (a), (b), (f) along the list *)
  Fixpoint check_chain (l : list sivl) : bool :=
    match l with
    | [] => false
    | x :: r =>
        match r with
        | [] => s_start x + s_len x =? length seq
        | y :: _ => (s_start x <? s_start y) && (s_start y =? s_start x + s_len x - (k - 1)) &&
                    check_end x && check_chain r
        end
    end.

  Definition check_scan (l : list sivl) : bool :=
    (1 <=? p) && (p <=? k) && (k <=? length seq) && (length sc =? length seq + 1 - p) &&
    match l with x :: _ => s_start x =? 0 | [] => false end &&
    forallb check_iv l && check_chain l.
End CheckScan.

(* ---- C08 ---- *)
Section CheckMsp.
  Variable k : nat.
  Variable rcmode : bool.

  (* pieces of one read, in order: piece j starts where C07(b) says; returns the (k-mer key, bucket)
     observations, or None if a piece is not the exact substring / has wrong extensions / the tiling is off *)
  Fixpoint check_pieces (read : dna) (start : nat) (out : list (N * N * dna)) : option (list (dna * N)) :=
    match out with
    | [] => None
    | (bucket, exts, piece) :: r =>
        let len := length piece in
        if (k <=? len) && dna_eq piece (sub start len read) && (exts =? flank_exts read start len)%N then
          let obs := map (fun i => (let x := sub i k read in if rcmode then canon x else x, bucket))
                         (seq start (len + 1 - k)) in
          match r with
          | [] => if start + len =? length read then Some obs else None
          | _ :: _ => match check_pieces read (start + len - (k - 1)) r with
                      | Some o => Some (obs ++ o)
                      | None => None
                      end
          end
        else None
    end.
  Definition check_read (ro : dna * list (N * N * dna)) : option (list (dna * N)) :=
    let '(read, out) := ro in
    if length read <? k then (match out with [] => Some [] | _ => None end)
    else check_pieces read 0 out.

  Fixpoint all_obs (l : list (dna * list (N * N * dna))) : option (list (dna * N)) :=
    match l with
    | [] => Some []
    | ro :: r => match check_read ro, all_obs r with Some a, Some b => Some (a ++ b) | _, _ => None end
    end.

  (* bucket is a function of the key *)
  Fixpoint functional (obs : list (dna * N)) : bool :=
    match obs with
    | [] => true
    | (x, b) :: r => forallb (fun yb => negb (dna_eq x (fst yb)) || (b =? snd yb)%N) r && functional r
    end.

  Definition check_msp (l : list (dna * list (N * N * dna))) : bool :=
    (1 <=? k) && match all_obs l with Some obs => functional obs | None => false end.
  (* the piece half alone (exact substrings, true flanking extensions, tiling with k-1 overlap), linear in the read
     length: used for reads of tens of thousands of bases, where the quadratic purity test is too slow *)
  Definition check_tiling (l : list (dna * list (N * N * dna))) : bool :=
    (1 <=? k) && match all_obs l with Some _ => true | None => false end.
End CheckMsp.

(* ---- C07 for simple_scan, whose intervals carry (bucket, start, len) but no minimizer position: an interval is accepted
   iff SOME p-mer position q makes it a good interval in the sense of [check_iv] (length bounds, q inside every k-mer of the
   interval, minimal score in the interval) and has the reported bucket (rank of the canonical p-mer, as u16); the chain
   conditions (a), (b) are those of [check_chain] without the end condition (f), which speaks about the position. *)
Section CheckSimple.
  Variable seq : dna.
  Variable k p : nat.
  Variable sc : list N.
  Definition bucket16 (x : dna) : N := (rank (canon x) mod 65536)%N.
  Definition check_simple_iv (x : N * nat * nat) : bool :=
    let '(b, st, ln) := x in
    existsb (fun q => check_iv seq k p sc (mkS (sub q p seq) q st ln) && (bucket16 (sub q p seq) =? b)%N)
            (List.seq 0 (S (length seq))).
  Fixpoint check_simple_chain (l : list (N * nat * nat)) : bool :=
    match l with
    | [] => false
    | (_, st, ln) :: r =>
        match r with
        | [] => st + ln =? length seq
        | (_, st', _) :: _ => (st <? st') && (st' =? st + ln - (k - 1)) && check_simple_chain r
        end
    end.
  Definition check_simple (l : list (N * nat * nat)) : bool :=
    (1 <=? p) && (p <=? k) && (k <=? length seq) && (length sc =? length seq + 1 - p) &&
    match l with (_, st, _) :: _ => st =? 0 | [] => false end &&
    forallb check_simple_iv l && check_simple_chain l.
End CheckSimple.
