(* Boolean checkers of the GFA clauses of C20, run by the correspondence driver on the L lines the
   IMPLEMENTATION writes against the edge lists the IMPLEMENTATION reports (Proofs/ExportCheckProofs.v:
   sound and complete w.r.t. the Props of Spec/ExportSpec.v). *)
From Coq Require Import List Bool Arith.
From DBG Require Import Spec.GraphIndex Spec.ExportSpec.
Import ListNotations.
Local Open Scope nat_scope.

Definition nend_eqb (x y : nend) : bool := Nat.eqb (fst x) (fst y) && dir_eqb (snd x) (snd y).
Definition mem_end (e : nend) (l : list nend) : bool := existsb (nend_eqb e) l.

Definition chk_link_sound (K : nat) (E : etab) (l : lline) : bool :=
  let '(u, o1, v, o2, ov) := l in Nat.eqb ov (K - 1) && mem_end (v, in_side o2) (tab_edges E u (out_side o1)).
Definition chk_gfa_sound (K : nat) (E : etab) (lines : list lline) : bool := forallb (chk_link_sound K E) lines.

(* every (end, reported end) pair of the table *)
Definition reports (E : etab) : list (nend * nend) :=
  flat_map (fun u => map (fun e => ((u, DLeft), e)) (tab_edges E u DLeft) ++
                     map (fun e => ((u, DRight), e)) (tab_edges E u DRight)) (seq 0 (length E)).
Definition chk_once (pal : nat -> bool) (lines : list lline) (r : nend * nend) : bool :=
  let c := count_denoting pal lines (fst r) (snd r) in
  if pal (fst (fst r)) || pal (fst (snd r)) then (1 <=? c) && (c <=? 2) else c =? 1.
Definition chk_gfa_complete_once (pal : nat -> bool) (E : etab) (lines : list lline) : bool :=
  forallb (chk_once pal lines) (reports E).

(* the hypotheses *)
Definition chk_symmetric (pal : nat -> bool) (E : etab) : bool :=
  forallb (fun r : nend * nend =>
             let '((u, a), (v, b)) := r in
             existsb (fun a' => existsb (fun b' => (dir_eqb a' a || pal u) && (dir_eqb b' b || pal v) &&
                                                   mem_end (u, a') (tab_edges E v b')) [DLeft; DRight])
                     [DLeft; DRight]) (reports E).
Fixpoint nodup_ends (l : list nend) : bool :=
  match l with
  | [] => true
  | x :: r => negb (mem_end x r) && nodup_ends r
  end.
Definition chk_distinct (pal : nat -> bool) (E : etab) : bool :=
  forallb (fun u => nodup_ends (map (end_key pal) (tab_edges E u DLeft)) &&
                    nodup_ends (map (end_key pal) (tab_edges E u DRight))) (seq 0 (length E)).
Definition chk_pal_no_self (pal : nat -> bool) (E : etab) : bool :=
  forallb (fun r : nend * nend => negb (pal (fst (fst r)) && Nat.eqb (fst (snd r)) (fst (fst r)))) (reports E).
Definition chk_tab_ok (pal : nat -> bool) (E : etab) : bool :=
  chk_symmetric pal E && chk_distinct pal E && chk_pal_no_self pal E.
