(* Extraction of the executable models for the correspondence check.  ExtrOcamlBasic only: bool, option,
   unit, list, prod, sumbool, sumor are mapped to their OCaml counterparts (and andb/orb inlined); nat,
   positive, N, Z, ascii and string stay the extracted inductive types.  No directive of our own. *)
From Coq Require Import Extraction ExtrOcamlBasic.
From DBG Require Import Interop.Val Interop.Dispatch.
Extraction Language OCaml.
Extraction "model.ml" dispatch val_accepts val_eqb.
