
(** val negb : bool -> bool **)

let negb = function
| true -> false
| false -> true

type nat =
| O
| S of nat

(** val fst : ('a1 * 'a2) -> 'a1 **)

let fst = function
| (x, _) -> x

(** val snd : ('a1 * 'a2) -> 'a2 **)

let snd = function
| (_, y) -> y

(** val length : 'a1 list -> nat **)

let rec length = function
| [] -> O
| _ :: l' -> S (length l')

(** val app : 'a1 list -> 'a1 list -> 'a1 list **)

let rec app l m =
  match l with
  | [] -> m
  | a :: l1 -> a :: (app l1 m)

type comparison =
| Eq
| Lt
| Gt

module Coq__1 = struct
 (** val add : nat -> nat -> nat **)
 let rec add n0 m =
   match n0 with
   | O -> m
   | S p -> S (add p m)
end
include Coq__1

(** val mul : nat -> nat -> nat **)

let rec mul n0 m =
  match n0 with
  | O -> O
  | S p -> add m (mul p m)

(** val sub : nat -> nat -> nat **)

let rec sub n0 m =
  match n0 with
  | O -> n0
  | S k -> (match m with
            | O -> n0
            | S l -> sub k l)

type positive =
| XI of positive
| XO of positive
| XH

type n =
| N0
| Npos of positive

(** val eqb : bool -> bool -> bool **)

let eqb b1 b2 =
  if b1 then b2 else if b2 then false else true

module Nat =
 struct
  (** val eqb : nat -> nat -> bool **)

  let rec eqb n0 m =
    match n0 with
    | O -> (match m with
            | O -> true
            | S _ -> false)
    | S n' -> (match m with
               | O -> false
               | S m' -> eqb n' m')

  (** val leb : nat -> nat -> bool **)

  let rec leb n0 m =
    match n0 with
    | O -> true
    | S n' -> (match m with
               | O -> false
               | S m' -> leb n' m')

  (** val ltb : nat -> nat -> bool **)

  let ltb n0 m =
    leb (S n0) m

  (** val min : nat -> nat -> nat **)

  let rec min n0 m =
    match n0 with
    | O -> O
    | S n' -> (match m with
               | O -> O
               | S m' -> S (min n' m'))

  (** val even : nat -> bool **)

  let rec even = function
  | O -> true
  | S n1 -> (match n1 with
             | O -> false
             | S n' -> even n')

  (** val divmod : nat -> nat -> nat -> nat -> nat * nat **)

  let rec divmod x y q u =
    match x with
    | O -> (q, u)
    | S x' ->
      (match u with
       | O -> divmod x' y (S q) y
       | S u' -> divmod x' y q u')

  (** val div : nat -> nat -> nat **)

  let div x y = match y with
  | O -> y
  | S y' -> fst (divmod x y' O y')
 end

module Pos =
 struct
  type mask =
  | IsNul
  | IsPos of positive
  | IsNeg
 end

module Coq_Pos =
 struct
  (** val succ : positive -> positive **)

  let rec succ = function
  | XI p -> XO (succ p)
  | XO p -> XI p
  | XH -> XO XH

  (** val add : positive -> positive -> positive **)

  let rec add x y =
    match x with
    | XI p ->
      (match y with
       | XI q -> XO (add_carry p q)
       | XO q -> XI (add p q)
       | XH -> XO (succ p))
    | XO p ->
      (match y with
       | XI q -> XI (add p q)
       | XO q -> XO (add p q)
       | XH -> XI p)
    | XH -> (match y with
             | XI q -> XO (succ q)
             | XO q -> XI q
             | XH -> XO XH)

  (** val add_carry : positive -> positive -> positive **)

  and add_carry x y =
    match x with
    | XI p ->
      (match y with
       | XI q -> XI (add_carry p q)
       | XO q -> XO (add_carry p q)
       | XH -> XI (succ p))
    | XO p ->
      (match y with
       | XI q -> XO (add_carry p q)
       | XO q -> XI (add p q)
       | XH -> XO (succ p))
    | XH ->
      (match y with
       | XI q -> XI (succ q)
       | XO q -> XO (succ q)
       | XH -> XI XH)

  (** val pred_double : positive -> positive **)

  let rec pred_double = function
  | XI p -> XI (XO p)
  | XO p -> XI (pred_double p)
  | XH -> XH

  (** val pred_N : positive -> n **)

  let pred_N = function
  | XI p -> Npos (XO p)
  | XO p -> Npos (pred_double p)
  | XH -> N0

  type mask = Pos.mask =
  | IsNul
  | IsPos of positive
  | IsNeg

  (** val succ_double_mask : mask -> mask **)

  let succ_double_mask = function
  | IsNul -> IsPos XH
  | IsPos p -> IsPos (XI p)
  | IsNeg -> IsNeg

  (** val double_mask : mask -> mask **)

  let double_mask = function
  | IsPos p -> IsPos (XO p)
  | x0 -> x0

  (** val double_pred_mask : positive -> mask **)

  let double_pred_mask = function
  | XI p -> IsPos (XO (XO p))
  | XO p -> IsPos (XO (pred_double p))
  | XH -> IsNul

  (** val sub_mask : positive -> positive -> mask **)

  let rec sub_mask x y =
    match x with
    | XI p ->
      (match y with
       | XI q -> double_mask (sub_mask p q)
       | XO q -> succ_double_mask (sub_mask p q)
       | XH -> IsPos (XO p))
    | XO p ->
      (match y with
       | XI q -> succ_double_mask (sub_mask_carry p q)
       | XO q -> double_mask (sub_mask p q)
       | XH -> IsPos (pred_double p))
    | XH -> (match y with
             | XH -> IsNul
             | _ -> IsNeg)

  (** val sub_mask_carry : positive -> positive -> mask **)

  and sub_mask_carry x y =
    match x with
    | XI p ->
      (match y with
       | XI q -> succ_double_mask (sub_mask_carry p q)
       | XO q -> double_mask (sub_mask p q)
       | XH -> IsPos (pred_double p))
    | XO p ->
      (match y with
       | XI q -> double_mask (sub_mask_carry p q)
       | XO q -> succ_double_mask (sub_mask_carry p q)
       | XH -> double_pred_mask p)
    | XH -> IsNeg

  (** val mul : positive -> positive -> positive **)

  let rec mul x y =
    match x with
    | XI p -> add y (XO (mul p y))
    | XO p -> XO (mul p y)
    | XH -> y

  (** val iter : ('a1 -> 'a1) -> 'a1 -> positive -> 'a1 **)

  let rec iter f x = function
  | XI n' -> f (iter f (iter f x n') n')
  | XO n' -> iter f (iter f x n') n'
  | XH -> f x

  (** val pow : positive -> positive -> positive **)

  let pow x =
    iter (mul x) XH

  (** val compare_cont : comparison -> positive -> positive -> comparison **)

  let rec compare_cont r x y =
    match x with
    | XI p ->
      (match y with
       | XI q -> compare_cont r p q
       | XO q -> compare_cont Gt p q
       | XH -> Gt)
    | XO p ->
      (match y with
       | XI q -> compare_cont Lt p q
       | XO q -> compare_cont r p q
       | XH -> Gt)
    | XH -> (match y with
             | XH -> r
             | _ -> Lt)

  (** val compare : positive -> positive -> comparison **)

  let compare =
    compare_cont Eq

  (** val eqb : positive -> positive -> bool **)

  let rec eqb p q =
    match p with
    | XI p0 -> (match q with
                | XI q0 -> eqb p0 q0
                | _ -> false)
    | XO p0 -> (match q with
                | XO q0 -> eqb p0 q0
                | _ -> false)
    | XH -> (match q with
             | XH -> true
             | _ -> false)

  (** val coq_Nsucc_double : n -> n **)

  let coq_Nsucc_double = function
  | N0 -> Npos XH
  | Npos p -> Npos (XI p)

  (** val coq_Ndouble : n -> n **)

  let coq_Ndouble = function
  | N0 -> N0
  | Npos p -> Npos (XO p)

  (** val coq_lor : positive -> positive -> positive **)

  let rec coq_lor p q =
    match p with
    | XI p0 ->
      (match q with
       | XI q0 -> XI (coq_lor p0 q0)
       | XO q0 -> XI (coq_lor p0 q0)
       | XH -> p)
    | XO p0 ->
      (match q with
       | XI q0 -> XI (coq_lor p0 q0)
       | XO q0 -> XO (coq_lor p0 q0)
       | XH -> XI p0)
    | XH -> (match q with
             | XO q0 -> XI q0
             | _ -> q)

  (** val coq_land : positive -> positive -> n **)

  let rec coq_land p q =
    match p with
    | XI p0 ->
      (match q with
       | XI q0 -> coq_Nsucc_double (coq_land p0 q0)
       | XO q0 -> coq_Ndouble (coq_land p0 q0)
       | XH -> Npos XH)
    | XO p0 ->
      (match q with
       | XI q0 -> coq_Ndouble (coq_land p0 q0)
       | XO q0 -> coq_Ndouble (coq_land p0 q0)
       | XH -> N0)
    | XH -> (match q with
             | XO _ -> N0
             | _ -> Npos XH)

  (** val coq_lxor : positive -> positive -> n **)

  let rec coq_lxor p q =
    match p with
    | XI p0 ->
      (match q with
       | XI q0 -> coq_Ndouble (coq_lxor p0 q0)
       | XO q0 -> coq_Nsucc_double (coq_lxor p0 q0)
       | XH -> Npos (XO p0))
    | XO p0 ->
      (match q with
       | XI q0 -> coq_Nsucc_double (coq_lxor p0 q0)
       | XO q0 -> coq_Ndouble (coq_lxor p0 q0)
       | XH -> Npos (XI p0))
    | XH ->
      (match q with
       | XI q0 -> Npos (XO q0)
       | XO q0 -> Npos (XI q0)
       | XH -> N0)

  (** val shiftl : positive -> n -> positive **)

  let shiftl p = function
  | N0 -> p
  | Npos n1 -> iter (fun x -> XO x) p n1

  (** val testbit : positive -> n -> bool **)

  let rec testbit p n0 =
    match p with
    | XI p0 -> (match n0 with
                | N0 -> true
                | Npos n1 -> testbit p0 (pred_N n1))
    | XO p0 -> (match n0 with
                | N0 -> false
                | Npos n1 -> testbit p0 (pred_N n1))
    | XH -> (match n0 with
             | N0 -> true
             | Npos _ -> false)

  (** val iter_op : ('a1 -> 'a1 -> 'a1) -> positive -> 'a1 -> 'a1 **)

  let rec iter_op op p a =
    match p with
    | XI p0 -> op a (iter_op op p0 (op a a))
    | XO p0 -> iter_op op p0 (op a a)
    | XH -> a

  (** val to_nat : positive -> nat **)

  let to_nat x =
    iter_op Coq__1.add x (S O)

  (** val of_succ_nat : nat -> positive **)

  let rec of_succ_nat = function
  | O -> XH
  | S x -> succ (of_succ_nat x)
 end

module N =
 struct
  (** val succ_double : n -> n **)

  let succ_double = function
  | N0 -> Npos XH
  | Npos p -> Npos (XI p)

  (** val double : n -> n **)

  let double = function
  | N0 -> N0
  | Npos p -> Npos (XO p)

  (** val pred : n -> n **)

  let pred = function
  | N0 -> N0
  | Npos p -> Coq_Pos.pred_N p

  (** val add : n -> n -> n **)

  let add n0 m =
    match n0 with
    | N0 -> m
    | Npos p -> (match m with
                 | N0 -> n0
                 | Npos q -> Npos (Coq_Pos.add p q))

  (** val sub : n -> n -> n **)

  let sub n0 m =
    match n0 with
    | N0 -> N0
    | Npos n' ->
      (match m with
       | N0 -> n0
       | Npos m' ->
         (match Coq_Pos.sub_mask n' m' with
          | Coq_Pos.IsPos p -> Npos p
          | _ -> N0))

  (** val mul : n -> n -> n **)

  let mul n0 m =
    match n0 with
    | N0 -> N0
    | Npos p -> (match m with
                 | N0 -> N0
                 | Npos q -> Npos (Coq_Pos.mul p q))

  (** val compare : n -> n -> comparison **)

  let compare n0 m =
    match n0 with
    | N0 -> (match m with
             | N0 -> Eq
             | Npos _ -> Lt)
    | Npos n' -> (match m with
                  | N0 -> Gt
                  | Npos m' -> Coq_Pos.compare n' m')

  (** val eqb : n -> n -> bool **)

  let eqb n0 m =
    match n0 with
    | N0 -> (match m with
             | N0 -> true
             | Npos _ -> false)
    | Npos p -> (match m with
                 | N0 -> false
                 | Npos q -> Coq_Pos.eqb p q)

  (** val leb : n -> n -> bool **)

  let leb x y =
    match compare x y with
    | Gt -> false
    | _ -> true

  (** val ltb : n -> n -> bool **)

  let ltb x y =
    match compare x y with
    | Lt -> true
    | _ -> false

  (** val div2 : n -> n **)

  let div2 = function
  | N0 -> N0
  | Npos p0 -> (match p0 with
                | XI p -> Npos p
                | XO p -> Npos p
                | XH -> N0)

  (** val pow : n -> n -> n **)

  let pow n0 = function
  | N0 -> Npos XH
  | Npos p0 -> (match n0 with
                | N0 -> N0
                | Npos q -> Npos (Coq_Pos.pow q p0))

  (** val pos_div_eucl : positive -> n -> n * n **)

  let rec pos_div_eucl a b =
    match a with
    | XI a' ->
      let (q, r) = pos_div_eucl a' b in
      let r' = succ_double r in
      if leb b r' then ((succ_double q), (sub r' b)) else ((double q), r')
    | XO a' ->
      let (q, r) = pos_div_eucl a' b in
      let r' = double r in
      if leb b r' then ((succ_double q), (sub r' b)) else ((double q), r')
    | XH ->
      (match b with
       | N0 -> (N0, (Npos XH))
       | Npos p -> (match p with
                    | XH -> ((Npos XH), N0)
                    | _ -> (N0, (Npos XH))))

  (** val div_eucl : n -> n -> n * n **)

  let div_eucl a b =
    match a with
    | N0 -> (N0, N0)
    | Npos na -> (match b with
                  | N0 -> (N0, a)
                  | Npos _ -> pos_div_eucl na b)

  (** val div : n -> n -> n **)

  let div a b =
    fst (div_eucl a b)

  (** val modulo : n -> n -> n **)

  let modulo a b =
    snd (div_eucl a b)

  (** val coq_lor : n -> n -> n **)

  let coq_lor n0 m =
    match n0 with
    | N0 -> m
    | Npos p -> (match m with
                 | N0 -> n0
                 | Npos q -> Npos (Coq_Pos.coq_lor p q))

  (** val coq_land : n -> n -> n **)

  let coq_land n0 m =
    match n0 with
    | N0 -> N0
    | Npos p -> (match m with
                 | N0 -> N0
                 | Npos q -> Coq_Pos.coq_land p q)

  (** val coq_lxor : n -> n -> n **)

  let coq_lxor n0 m =
    match n0 with
    | N0 -> m
    | Npos p -> (match m with
                 | N0 -> n0
                 | Npos q -> Coq_Pos.coq_lxor p q)

  (** val shiftl : n -> n -> n **)

  let shiftl a n0 =
    match a with
    | N0 -> N0
    | Npos a0 -> Npos (Coq_Pos.shiftl a0 n0)

  (** val shiftr : n -> n -> n **)

  let shiftr a = function
  | N0 -> a
  | Npos p -> Coq_Pos.iter div2 a p

  (** val testbit : n -> n -> bool **)

  let testbit a n0 =
    match a with
    | N0 -> false
    | Npos p -> Coq_Pos.testbit p n0

  (** val to_nat : n -> nat **)

  let to_nat = function
  | N0 -> O
  | Npos p -> Coq_Pos.to_nat p

  (** val of_nat : nat -> n **)

  let of_nat = function
  | O -> N0
  | S n' -> Npos (Coq_Pos.of_succ_nat n')

  (** val b2n : bool -> n **)

  let b2n = function
  | true -> Npos XH
  | false -> N0

  (** val ones : n -> n **)

  let ones n0 =
    pred (shiftl (Npos XH) n0)
 end

(** val tl : 'a1 list -> 'a1 list **)

let tl = function
| [] -> []
| _ :: m -> m

(** val nth : nat -> 'a1 list -> 'a1 -> 'a1 **)

let rec nth n0 l default =
  match n0 with
  | O -> (match l with
          | [] -> default
          | x :: _ -> x)
  | S m -> (match l with
            | [] -> default
            | _ :: t -> nth m t default)

(** val removelast : 'a1 list -> 'a1 list **)

let rec removelast = function
| [] -> []
| a :: l0 -> (match l0 with
              | [] -> []
              | _ :: _ -> a :: (removelast l0))

(** val rev : 'a1 list -> 'a1 list **)

let rec rev = function
| [] -> []
| x :: l' -> app (rev l') (x :: [])

(** val map : ('a1 -> 'a2) -> 'a1 list -> 'a2 list **)

let rec map f = function
| [] -> []
| a :: t -> (f a) :: (map f t)

(** val fold_left : ('a1 -> 'a2 -> 'a1) -> 'a2 list -> 'a1 -> 'a1 **)

let rec fold_left f l a0 =
  match l with
  | [] -> a0
  | b :: t -> fold_left f t (f a0 b)

(** val fold_right : ('a2 -> 'a1 -> 'a1) -> 'a1 -> 'a2 list -> 'a1 **)

let rec fold_right f a0 = function
| [] -> a0
| b :: t -> f b (fold_right f a0 t)

(** val existsb : ('a1 -> bool) -> 'a1 list -> bool **)

let rec existsb f = function
| [] -> false
| a :: l0 -> (||) (f a) (existsb f l0)

(** val firstn : nat -> 'a1 list -> 'a1 list **)

let rec firstn n0 l =
  match n0 with
  | O -> []
  | S n1 -> (match l with
             | [] -> []
             | a :: l0 -> a :: (firstn n1 l0))

(** val skipn : nat -> 'a1 list -> 'a1 list **)

let rec skipn n0 l =
  match n0 with
  | O -> l
  | S n1 -> (match l with
             | [] -> []
             | _ :: l0 -> skipn n1 l0)

(** val seq : nat -> nat -> nat list **)

let rec seq start = function
| O -> []
| S len0 -> start :: (seq (S start) len0)

(** val repeat : 'a1 -> nat -> 'a1 list **)

let rec repeat x = function
| O -> []
| S k -> x :: (repeat x k)

type ascii =
| Ascii of bool * bool * bool * bool * bool * bool * bool * bool

(** val eqb0 : ascii -> ascii -> bool **)

let eqb0 a b =
  let Ascii (a0, a1, a2, a3, a4, a5, a6, a7) = a in
  let Ascii (b0, b1, b2, b3, b4, b5, b6, b7) = b in
  if if if if if if if eqb a0 b0 then eqb a1 b1 else false
                 then eqb a2 b2
                 else false
              then eqb a3 b3
              else false
           then eqb a4 b4
           else false
        then eqb a5 b5
        else false
     then eqb a6 b6
     else false
  then eqb a7 b7
  else false

type string =
| EmptyString
| String of ascii * string

(** val eqb1 : string -> string -> bool **)

let rec eqb1 s1 s2 =
  match s1 with
  | EmptyString ->
    (match s2 with
     | EmptyString -> true
     | String (_, _) -> false)
  | String (c1, s1') ->
    (match s2 with
     | EmptyString -> false
     | String (c2, s2') -> if eqb0 c1 c2 then eqb1 s1' s2' else false)

(** val substring : nat -> nat -> string -> string **)

let rec substring n0 m s =
  match n0 with
  | O ->
    (match m with
     | O -> EmptyString
     | S m' ->
       (match s with
        | EmptyString -> s
        | String (c, s') -> String (c, (substring O m' s'))))
  | S n' ->
    (match s with
     | EmptyString -> s
     | String (_, s') -> substring n' m s')

type val0 =
| VN of n
| VL of val0 list
| VBot
| VAny

(** val val_eqb : val0 -> val0 -> bool **)

let rec val_eqb a b =
  match a with
  | VN x -> (match b with
             | VN y -> N.eqb x y
             | _ -> false)
  | VL x ->
    (match b with
     | VL y ->
       let rec go x0 y0 =
         match x0 with
         | [] -> (match y0 with
                  | [] -> true
                  | _ :: _ -> false)
         | u :: x' ->
           (match y0 with
            | [] -> false
            | v :: y' -> (&&) (val_eqb u v) (go x' y'))
       in go x y
     | _ -> false)
  | VBot -> (match b with
             | VBot -> true
             | _ -> false)
  | VAny -> (match b with
             | VAny -> true
             | _ -> false)

(** val val_accepts : val0 -> val0 -> bool **)

let rec val_accepts m impl =
  match m with
  | VN x -> (match impl with
             | VN y -> N.eqb x y
             | _ -> false)
  | VL x ->
    (match impl with
     | VL y ->
       let rec go x0 y0 =
         match x0 with
         | [] -> (match y0 with
                  | [] -> true
                  | _ :: _ -> false)
         | u :: x' ->
           (match y0 with
            | [] -> false
            | v :: y' -> (&&) (val_accepts u v) (go x' y'))
       in go x y
     | _ -> false)
  | VBot -> (match impl with
             | VBot -> true
             | _ -> false)
  | VAny -> true

(** val vlistN : val0 list -> n list option **)

let rec vlistN = function
| [] -> Some []
| v :: r ->
  (match v with
   | VN n0 -> (match vlistN r with
               | Some t -> Some (n0 :: t)
               | None -> None)
   | _ -> None)

(** val vNs : val0 -> n list option **)

let vNs = function
| VL l -> vlistN l
| _ -> None

(** val omap : ('a1 -> 'a2 option) -> 'a1 list -> 'a2 list option **)

let rec omap f = function
| [] -> Some []
| x :: r ->
  (match f x with
   | Some y -> (match omap f r with
                | Some t -> Some (y :: t)
                | None -> None)
   | None -> None)

(** val ofN : n -> val0 **)

let ofN n0 =
  VN n0

(** val ofbool : bool -> val0 **)

let ofbool b =
  VN (if b then Npos XH else N0)

(** val ofNs : n list -> val0 **)

let ofNs l =
  VL (map (fun x -> VN x) l)

(** val ofopt : ('a1 -> val0) -> 'a1 option -> val0 **)

let ofopt f = function
| Some x -> f x
| None -> VBot

type dna = n list

(** val comp : n -> n **)

let comp b =
  N.sub (Npos (XI XH)) b

(** val rc : dna -> dna **)

let rc l =
  map comp (rev l)

(** val sub0 : nat -> nat -> 'a1 list -> 'a1 list **)

let sub0 start len l =
  firstn len (skipn start l)

(** val kmer_at : nat -> dna -> nat -> dna **)

let kmer_at k l i =
  sub0 i k l

(** val kmers : nat -> dna -> dna list **)

let kmers k l =
  map (kmer_at k l) (seq O (sub (add (length l) (S O)) k))

(** val upd : nat -> 'a1 list -> 'a1 -> 'a1 list **)

let upd pos l v =
  app (firstn pos l) (v :: (skipn (S pos) l))

(** val splice : nat -> 'a1 list -> 'a1 list -> 'a1 list **)

let splice pos run0 l =
  app (firstn pos l) (app run0 (skipn (add pos (length run0)) l))

(** val dna_compare : dna -> dna -> comparison **)

let rec dna_compare a b =
  match a with
  | [] -> (match b with
           | [] -> Eq
           | _ :: _ -> Lt)
  | x :: a' ->
    (match b with
     | [] -> Gt
     | y :: b' ->
       (match N.compare x y with
        | Eq -> dna_compare a' b'
        | x0 -> x0))

(** val dna_ltb : dna -> dna -> bool **)

let dna_ltb a b =
  match dna_compare a b with
  | Lt -> true
  | _ -> false

(** val dna_eqb : dna -> dna -> bool **)

let dna_eqb a b =
  match dna_compare a b with
  | Eq -> true
  | _ -> false

(** val dna_leb : dna -> dna -> bool **)

let dna_leb a b =
  match dna_compare a b with
  | Gt -> false
  | _ -> true

(** val canon : dna -> dna **)

let canon x =
  if dna_ltb x (rc x) then x else rc x

(** val canon_flip : dna -> dna * bool **)

let canon_flip x =
  if dna_ltb x (rc x) then (x, false) else ((rc x), true)

(** val is_palindrome : dna -> bool **)

let is_palindrome x =
  dna_eqb x (rc x)

(** val rank : dna -> n **)

let rank l =
  fold_left (fun acc b -> N.add (N.mul (Npos (XO (XO XH))) acc) b) l N0

(** val extend_left : dna -> n -> dna **)

let extend_left x b =
  b :: (removelast x)

(** val extend_right : dna -> n -> dna **)

let extend_right x b =
  app (tl x) (b :: [])

(** val count_diff : dna -> dna -> n **)

let rec count_diff a b =
  match a with
  | [] -> N0
  | x :: a' ->
    (match b with
     | [] -> N0
     | y :: b' -> N.add (if N.eqb x y then N0 else Npos XH) (count_diff a' b'))

(** val is_at : n -> bool **)

let is_at b =
  (||) (N.eqb b N0) (N.eqb b (Npos (XI XH)))

(** val is_gc : n -> bool **)

let is_gc b =
  (||) (N.eqb b (Npos XH)) (N.eqb b (Npos (XO XH)))

(** val count_if : (n -> bool) -> dna -> n **)

let count_if f a =
  fold_right (fun b acc -> N.add (N.b2n (f b)) acc) N0 a

(** val at_count : dna -> n **)

let at_count a =
  count_if is_at a

(** val gc_count : dna -> n **)

let gc_count a =
  count_if is_gc a

(** val base_char : n -> n **)

let base_char = function
| N0 -> Npos (XI (XO (XO (XO (XO (XO XH))))))
| Npos p ->
  (match p with
   | XI p0 ->
     (match p0 with
      | XH -> Npos (XO (XO (XI (XO (XI (XO XH))))))
      | _ -> Npos (XO (XO (XO (XI (XI (XO XH)))))))
   | XO p0 ->
     (match p0 with
      | XH -> Npos (XI (XI (XI (XO (XO (XO XH))))))
      | _ -> Npos (XO (XO (XO (XI (XI (XO XH)))))))
   | XH -> Npos (XI (XI (XO (XO (XO (XO XH)))))))

(** val text : dna -> n list **)

let text l =
  map base_char l

(** val ascii_base : n -> n **)

let ascii_base = function
| N0 -> N0
| Npos p ->
  (match p with
   | XI p0 ->
     (match p0 with
      | XI p1 ->
        (match p1 with
         | XI p2 ->
           (match p2 with
            | XO p3 ->
              (match p3 with
               | XO p4 ->
                 (match p4 with
                  | XI p5 -> (match p5 with
                              | XH -> Npos (XO XH)
                              | _ -> N0)
                  | XO p5 -> (match p5 with
                              | XH -> Npos (XO XH)
                              | _ -> N0)
                  | XH -> N0)
               | _ -> N0)
            | _ -> N0)
         | XO p2 ->
           (match p2 with
            | XO p3 ->
              (match p3 with
               | XO p4 ->
                 (match p4 with
                  | XI p5 -> (match p5 with
                              | XH -> Npos XH
                              | _ -> N0)
                  | XO p5 -> (match p5 with
                              | XH -> Npos XH
                              | _ -> N0)
                  | XH -> N0)
               | _ -> N0)
            | _ -> N0)
         | XH -> N0)
      | _ -> N0)
   | XO p0 ->
     (match p0 with
      | XO p1 ->
        (match p1 with
         | XI p2 ->
           (match p2 with
            | XO p3 ->
              (match p3 with
               | XI p4 ->
                 (match p4 with
                  | XI p5 -> (match p5 with
                              | XH -> Npos (XI XH)
                              | _ -> N0)
                  | XO p5 -> (match p5 with
                              | XH -> Npos (XI XH)
                              | _ -> N0)
                  | XH -> N0)
               | _ -> N0)
            | _ -> N0)
         | _ -> N0)
      | _ -> N0)
   | XH -> N0)

(** val digits4 : nat -> n -> dna **)

let digits4 k v =
  map (fun p ->
    N.modulo
      (N.div v (N.pow (Npos (XO (XO XH))) (N.of_nat (sub (sub k (S O)) p))))
      (Npos (XO (XO XH)))) (seq O k)

type wexp =
| Var of nat * nat
| Const of n
| And of wexp * wexp
| Or of wexp * wexp
| Xor of wexp * wexp
| Not of nat * wexp
| Shl of nat * nat * wexp
| Shr of nat * wexp
| Trunc of nat * wexp

(** val evalN : (nat -> n) -> wexp -> n **)

let rec evalN env = function
| Var (v, w) -> N.modulo (env v) (N.pow (Npos (XO XH)) (N.of_nat w))
| Const c -> c
| And (a, b) -> N.coq_land (evalN env a) (evalN env b)
| Or (a, b) -> N.coq_lor (evalN env a) (evalN env b)
| Xor (a, b) -> N.coq_lxor (evalN env a) (evalN env b)
| Not (w, a) ->
  N.coq_lxor (N.modulo (evalN env a) (N.pow (Npos (XO XH)) (N.of_nat w)))
    (N.ones (N.of_nat w))
| Shl (w, k, a) ->
  N.modulo (N.shiftl (evalN env a) (N.of_nat k))
    (N.pow (Npos (XO XH)) (N.of_nat w))
| Shr (k, a) -> N.shiftr (evalN env a) (N.of_nat k)
| Trunc (w, a) -> N.modulo (evalN env a) (N.pow (Npos (XO XH)) (N.of_nat w))

(** val shifts_ok : wexp -> bool **)

let rec shifts_ok = function
| And (a, b) -> (&&) (shifts_ok a) (shifts_ok b)
| Or (a, b) -> (&&) (shifts_ok a) (shifts_ok b)
| Xor (a, b) -> (&&) (shifts_ok a) (shifts_ok b)
| Not (_, a) -> shifts_ok a
| Shl (w, k, a) -> (&&) (Nat.ltb k w) (shifts_ok a)
| Shr (_, a) -> shifts_ok a
| Trunc (_, a) -> shifts_ok a
| _ -> true

(** val ladder_8 : (((n * nat) * nat) * n) list **)

let ladder_8 =
  ((((Npos (XI (XI (XO (XO (XI XH)))))), (S (S O))), (S (S O))), (Npos (XI
    (XI (XO (XO (XI XH))))))) :: (((((Npos (XI (XI (XI XH)))), (S (S (S (S
    O))))), (S (S (S (S O))))), (Npos (XI (XI (XI XH))))) :: [])

(** val lower_of_two_8 : n **)

let lower_of_two_8 =
  Npos (XI (XO (XI (XO (XI (XO XH))))))

(** val ladder_16 : (((n * nat) * nat) * n) list **)

let ladder_16 =
  ((((Npos (XI (XI (XO (XO (XI (XI (XO (XO (XI (XI (XO (XO (XI
    XH)))))))))))))), (S (S O))), (S (S O))), (Npos (XI (XI (XO (XO (XI (XI
    (XO (XO (XI (XI (XO (XO (XI XH))))))))))))))) :: (((((Npos (XI (XI (XI
    (XI (XO (XO (XO (XO (XI (XI (XI XH)))))))))))), (S (S (S (S O))))), (S (S
    (S (S O))))), (Npos (XI (XI (XI (XI (XO (XO (XO (XO (XI (XI (XI
    XH))))))))))))) :: (((((Npos (XI (XI (XI (XI (XI (XI (XI XH)))))))), (S
    (S (S (S (S (S (S (S O))))))))), (S (S (S (S (S (S (S (S O))))))))),
    (Npos (XI (XI (XI (XI (XI (XI (XI XH))))))))) :: []))

(** val lower_of_two_16 : n **)

let lower_of_two_16 =
  Npos (XI (XO (XI (XO (XI (XO (XI (XO (XI (XO (XI (XO (XI (XO
    XH))))))))))))))

(** val ladder_32 : (((n * nat) * nat) * n) list **)

let ladder_32 =
  ((((Npos (XI (XI (XO (XO (XI (XI (XO (XO (XI (XI (XO (XO (XI (XI (XO (XO
    (XI (XI (XO (XO (XI (XI (XO (XO (XI (XI (XO (XO (XI
    XH)))))))))))))))))))))))))))))), (S (S O))), (S (S O))), (Npos (XI (XI
    (XO (XO (XI (XI (XO (XO (XI (XI (XO (XO (XI (XI (XO (XO (XI (XI (XO (XO
    (XI (XI (XO (XO (XI (XI (XO (XO (XI
    XH))))))))))))))))))))))))))))))) :: (((((Npos (XI (XI (XI (XI (XO (XO
    (XO (XO (XI (XI (XI (XI (XO (XO (XO (XO (XI (XI (XI (XI (XO (XO (XO (XO
    (XI (XI (XI XH)))))))))))))))))))))))))))), (S (S (S (S O))))), (S (S (S
    (S O))))), (Npos (XI (XI (XI (XI (XO (XO (XO (XO (XI (XI (XI (XI (XO (XO
    (XO (XO (XI (XI (XI (XI (XO (XO (XO (XO (XI (XI (XI
    XH))))))))))))))))))))))))))))) :: (((((Npos (XI (XI (XI (XI (XI (XI (XI
    (XI (XO (XO (XO (XO (XO (XO (XO (XO (XI (XI (XI (XI (XI (XI (XI
    XH)))))))))))))))))))))))), (S (S (S (S (S (S (S (S O))))))))), (S (S (S
    (S (S (S (S (S O))))))))), (Npos (XI (XI (XI (XI (XI (XI (XI (XI (XO (XO
    (XO (XO (XO (XO (XO (XO (XI (XI (XI (XI (XI (XI (XI
    XH))))))))))))))))))))))))) :: (((((Npos (XI (XI (XI (XI (XI (XI (XI (XI
    (XI (XI (XI (XI (XI (XI (XI XH)))))))))))))))), (S (S (S (S (S (S (S (S
    (S (S (S (S (S (S (S (S O))))))))))))))))), (S (S (S (S (S (S (S (S (S (S
    (S (S (S (S (S (S O))))))))))))))))), (Npos (XI (XI (XI (XI (XI (XI (XI
    (XI (XI (XI (XI (XI (XI (XI (XI XH))))))))))))))))) :: [])))

(** val lower_of_two_32 : n **)

let lower_of_two_32 =
  Npos (XI (XO (XI (XO (XI (XO (XI (XO (XI (XO (XI (XO (XI (XO (XI (XO (XI
    (XO (XI (XO (XI (XO (XI (XO (XI (XO (XI (XO (XI (XO
    XH))))))))))))))))))))))))))))))

(** val ladder_64 : (((n * nat) * nat) * n) list **)

let ladder_64 =
  ((((Npos (XI (XI (XO (XO (XI (XI (XO (XO (XI (XI (XO (XO (XI (XI (XO (XO
    (XI (XI (XO (XO (XI (XI (XO (XO (XI (XI (XO (XO (XI (XI (XO (XO (XI (XI
    (XO (XO (XI (XI (XO (XO (XI (XI (XO (XO (XI (XI (XO (XO (XI (XI (XO (XO
    (XI (XI (XO (XO (XI (XI (XO (XO (XI
    XH)))))))))))))))))))))))))))))))))))))))))))))))))))))))))))))), (S (S
    O))), (S (S O))), (Npos (XI (XI (XO (XO (XI (XI (XO (XO (XI (XI (XO (XO
    (XI (XI (XO (XO (XI (XI (XO (XO (XI (XI (XO (XO (XI (XI (XO (XO (XI (XI
    (XO (XO (XI (XI (XO (XO (XI (XI (XO (XO (XI (XI (XO (XO (XI (XI (XO (XO
    (XI (XI (XO (XO (XI (XI (XO (XO (XI (XI (XO (XO (XI
    XH))))))))))))))))))))))))))))))))))))))))))))))))))))))))))))))) :: (((((Npos
    (XI (XI (XI (XI (XO (XO (XO (XO (XI (XI (XI (XI (XO (XO (XO (XO (XI (XI
    (XI (XI (XO (XO (XO (XO (XI (XI (XI (XI (XO (XO (XO (XO (XI (XI (XI (XI
    (XO (XO (XO (XO (XI (XI (XI (XI (XO (XO (XO (XO (XI (XI (XI (XI (XO (XO
    (XO (XO (XI (XI (XI
    XH)))))))))))))))))))))))))))))))))))))))))))))))))))))))))))), (S (S (S
    (S O))))), (S (S (S (S O))))), (Npos (XI (XI (XI (XI (XO (XO (XO (XO (XI
    (XI (XI (XI (XO (XO (XO (XO (XI (XI (XI (XI (XO (XO (XO (XO (XI (XI (XI
    (XI (XO (XO (XO (XO (XI (XI (XI (XI (XO (XO (XO (XO (XI (XI (XI (XI (XO
    (XO (XO (XO (XI (XI (XI (XI (XO (XO (XO (XO (XI (XI (XI
    XH))))))))))))))))))))))))))))))))))))))))))))))))))))))))))))) :: (((((Npos
    (XI (XI (XI (XI (XI (XI (XI (XI (XO (XO (XO (XO (XO (XO (XO (XO (XI (XI
    (XI (XI (XI (XI (XI (XI (XO (XO (XO (XO (XO (XO (XO (XO (XI (XI (XI (XI
    (XI (XI (XI (XI (XO (XO (XO (XO (XO (XO (XO (XO (XI (XI (XI (XI (XI (XI
    (XI XH)))))))))))))))))))))))))))))))))))))))))))))))))))))))), (S (S (S
    (S (S (S (S (S O))))))))), (S (S (S (S (S (S (S (S O))))))))), (Npos (XI
    (XI (XI (XI (XI (XI (XI (XI (XO (XO (XO (XO (XO (XO (XO (XO (XI (XI (XI
    (XI (XI (XI (XI (XI (XO (XO (XO (XO (XO (XO (XO (XO (XI (XI (XI (XI (XI
    (XI (XI (XI (XO (XO (XO (XO (XO (XO (XO (XO (XI (XI (XI (XI (XI (XI (XI
    XH))))))))))))))))))))))))))))))))))))))))))))))))))))))))) :: (((((Npos
    (XI (XI (XI (XI (XI (XI (XI (XI (XI (XI (XI (XI (XI (XI (XI (XI (XO (XO
    (XO (XO (XO (XO (XO (XO (XO (XO (XO (XO (XO (XO (XO (XO (XI (XI (XI (XI
    (XI (XI (XI (XI (XI (XI (XI (XI (XI (XI (XI
    XH)))))))))))))))))))))))))))))))))))))))))))))))), (S (S (S (S (S (S (S
    (S (S (S (S (S (S (S (S (S O))))))))))))))))), (S (S (S (S (S (S (S (S (S
    (S (S (S (S (S (S (S O))))))))))))))))), (Npos (XI (XI (XI (XI (XI (XI
    (XI (XI (XI (XI (XI (XI (XI (XI (XI (XI (XO (XO (XO (XO (XO (XO (XO (XO
    (XO (XO (XO (XO (XO (XO (XO (XO (XI (XI (XI (XI (XI (XI (XI (XI (XI (XI
    (XI (XI (XI (XI (XI
    XH))))))))))))))))))))))))))))))))))))))))))))))))) :: (((((Npos (XI (XI
    (XI (XI (XI (XI (XI (XI (XI (XI (XI (XI (XI (XI (XI (XI (XI (XI (XI (XI
    (XI (XI (XI (XI (XI (XI (XI (XI (XI (XI (XI
    XH)))))))))))))))))))))))))))))))), (S (S (S (S (S (S (S (S (S (S (S (S
    (S (S (S (S (S (S (S (S (S (S (S (S (S (S (S (S (S (S (S (S
    O))))))))))))))))))))))))))))))))), (S (S (S (S (S (S (S (S (S (S (S (S
    (S (S (S (S (S (S (S (S (S (S (S (S (S (S (S (S (S (S (S (S
    O))))))))))))))))))))))))))))))))), (Npos (XI (XI (XI (XI (XI (XI (XI (XI
    (XI (XI (XI (XI (XI (XI (XI (XI (XI (XI (XI (XI (XI (XI (XI (XI (XI (XI
    (XI (XI (XI (XI (XI XH))))))))))))))))))))))))))))))))) :: []))))

(** val lower_of_two_64 : n **)

let lower_of_two_64 =
  Npos (XI (XO (XI (XO (XI (XO (XI (XO (XI (XO (XI (XO (XI (XO (XI (XO (XI
    (XO (XI (XO (XI (XO (XI (XO (XI (XO (XI (XO (XI (XO (XI (XO (XI (XO (XI
    (XO (XI (XO (XI (XO (XI (XO (XI (XO (XI (XO (XI (XO (XI (XO (XI (XO (XI
    (XO (XI (XO (XI (XO (XI (XO (XI (XO
    XH))))))))))))))))))))))))))))))))))))))))))))))))))))))))))))))

(** val ladder_128 : (((n * nat) * nat) * n) list **)

let ladder_128 =
  ((((Npos (XI (XI (XO (XO (XI (XI (XO (XO (XI (XI (XO (XO (XI (XI (XO (XO
    (XI (XI (XO (XO (XI (XI (XO (XO (XI (XI (XO (XO (XI (XI (XO (XO (XI (XI
    (XO (XO (XI (XI (XO (XO (XI (XI (XO (XO (XI (XI (XO (XO (XI (XI (XO (XO
    (XI (XI (XO (XO (XI (XI (XO (XO (XI (XI (XO (XO (XI (XI (XO (XO (XI (XI
    (XO (XO (XI (XI (XO (XO (XI (XI (XO (XO (XI (XI (XO (XO (XI (XI (XO (XO
    (XI (XI (XO (XO (XI (XI (XO (XO (XI (XI (XO (XO (XI (XI (XO (XO (XI (XI
    (XO (XO (XI (XI (XO (XO (XI (XI (XO (XO (XI (XI (XO (XO (XI (XI (XO (XO
    (XI
    XH)))))))))))))))))))))))))))))))))))))))))))))))))))))))))))))))))))))))))))))))))))))))))))))))))))))))))))))))))))))))))))))),
    (S (S O))), (S (S O))), (Npos (XI (XI (XO (XO (XI (XI (XO (XO (XI (XI (XO
    (XO (XI (XI (XO (XO (XI (XI (XO (XO (XI (XI (XO (XO (XI (XI (XO (XO (XI
    (XI (XO (XO (XI (XI (XO (XO (XI (XI (XO (XO (XI (XI (XO (XO (XI (XI (XO
    (XO (XI (XI (XO (XO (XI (XI (XO (XO (XI (XI (XO (XO (XI (XI (XO (XO (XI
    (XI (XO (XO (XI (XI (XO (XO (XI (XI (XO (XO (XI (XI (XO (XO (XI (XI (XO
    (XO (XI (XI (XO (XO (XI (XI (XO (XO (XI (XI (XO (XO (XI (XI (XO (XO (XI
    (XI (XO (XO (XI (XI (XO (XO (XI (XI (XO (XO (XI (XI (XO (XO (XI (XI (XO
    (XO (XI (XI (XO (XO (XI
    XH))))))))))))))))))))))))))))))))))))))))))))))))))))))))))))))))))))))))))))))))))))))))))))))))))))))))))))))))))))))))))))))) :: (((((Npos
    (XI (XI (XI (XI (XO (XO (XO (XO (XI (XI (XI (XI (XO (XO (XO (XO (XI (XI
    (XI (XI (XO (XO (XO (XO (XI (XI (XI (XI (XO (XO (XO (XO (XI (XI (XI (XI
    (XO (XO (XO (XO (XI (XI (XI (XI (XO (XO (XO (XO (XI (XI (XI (XI (XO (XO
    (XO (XO (XI (XI (XI (XI (XO (XO (XO (XO (XI (XI (XI (XI (XO (XO (XO (XO
    (XI (XI (XI (XI (XO (XO (XO (XO (XI (XI (XI (XI (XO (XO (XO (XO (XI (XI
    (XI (XI (XO (XO (XO (XO (XI (XI (XI (XI (XO (XO (XO (XO (XI (XI (XI (XI
    (XO (XO (XO (XO (XI (XI (XI (XI (XO (XO (XO (XO (XI (XI (XI
    XH)))))))))))))))))))))))))))))))))))))))))))))))))))))))))))))))))))))))))))))))))))))))))))))))))))))))))))))))))))))))))))),
    (S (S (S (S O))))), (S (S (S (S O))))), (Npos (XI (XI (XI (XI (XO (XO (XO
    (XO (XI (XI (XI (XI (XO (XO (XO (XO (XI (XI (XI (XI (XO (XO (XO (XO (XI
    (XI (XI (XI (XO (XO (XO (XO (XI (XI (XI (XI (XO (XO (XO (XO (XI (XI (XI
    (XI (XO (XO (XO (XO (XI (XI (XI (XI (XO (XO (XO (XO (XI (XI (XI (XI (XO
    (XO (XO (XO (XI (XI (XI (XI (XO (XO (XO (XO (XI (XI (XI (XI (XO (XO (XO
    (XO (XI (XI (XI (XI (XO (XO (XO (XO (XI (XI (XI (XI (XO (XO (XO (XO (XI
    (XI (XI (XI (XO (XO (XO (XO (XI (XI (XI (XI (XO (XO (XO (XO (XI (XI (XI
    (XI (XO (XO (XO (XO (XI (XI (XI
    XH))))))))))))))))))))))))))))))))))))))))))))))))))))))))))))))))))))))))))))))))))))))))))))))))))))))))))))))))))))))))))))) :: (((((Npos
    (XI (XI (XI (XI (XI (XI (XI (XI (XO (XO (XO (XO (XO (XO (XO (XO (XI (XI
    (XI (XI (XI (XI (XI (XI (XO (XO (XO (XO (XO (XO (XO (XO (XI (XI (XI (XI
    (XI (XI (XI (XI (XO (XO (XO (XO (XO (XO (XO (XO (XI (XI (XI (XI (XI (XI
    (XI (XI (XO (XO (XO (XO (XO (XO (XO (XO (XI (XI (XI (XI (XI (XI (XI (XI
    (XO (XO (XO (XO (XO (XO (XO (XO (XI (XI (XI (XI (XI (XI (XI (XI (XO (XO
    (XO (XO (XO (XO (XO (XO (XI (XI (XI (XI (XI (XI (XI (XI (XO (XO (XO (XO
    (XO (XO (XO (XO (XI (XI (XI (XI (XI (XI (XI
    XH)))))))))))))))))))))))))))))))))))))))))))))))))))))))))))))))))))))))))))))))))))))))))))))))))))))))))))))))))))))))),
    (S (S (S (S (S (S (S (S O))))))))), (S (S (S (S (S (S (S (S O))))))))),
    (Npos (XI (XI (XI (XI (XI (XI (XI (XI (XO (XO (XO (XO (XO (XO (XO (XO (XI
    (XI (XI (XI (XI (XI (XI (XI (XO (XO (XO (XO (XO (XO (XO (XO (XI (XI (XI
    (XI (XI (XI (XI (XI (XO (XO (XO (XO (XO (XO (XO (XO (XI (XI (XI (XI (XI
    (XI (XI (XI (XO (XO (XO (XO (XO (XO (XO (XO (XI (XI (XI (XI (XI (XI (XI
    (XI (XO (XO (XO (XO (XO (XO (XO (XO (XI (XI (XI (XI (XI (XI (XI (XI (XO
    (XO (XO (XO (XO (XO (XO (XO (XI (XI (XI (XI (XI (XI (XI (XI (XO (XO (XO
    (XO (XO (XO (XO (XO (XI (XI (XI (XI (XI (XI (XI
    XH))))))))))))))))))))))))))))))))))))))))))))))))))))))))))))))))))))))))))))))))))))))))))))))))))))))))))))))))))))))))) :: (((((Npos
    (XI (XI (XI (XI (XI (XI (XI (XI (XI (XI (XI (XI (XI (XI (XI (XI (XO (XO
    (XO (XO (XO (XO (XO (XO (XO (XO (XO (XO (XO (XO (XO (XO (XI (XI (XI (XI
    (XI (XI (XI (XI (XI (XI (XI (XI (XI (XI (XI (XI (XO (XO (XO (XO (XO (XO
    (XO (XO (XO (XO (XO (XO (XO (XO (XO (XO (XI (XI (XI (XI (XI (XI (XI (XI
    (XI (XI (XI (XI (XI (XI (XI (XI (XO (XO (XO (XO (XO (XO (XO (XO (XO (XO
    (XO (XO (XO (XO (XO (XO (XI (XI (XI (XI (XI (XI (XI (XI (XI (XI (XI (XI
    (XI (XI (XI
    XH)))))))))))))))))))))))))))))))))))))))))))))))))))))))))))))))))))))))))))))))))))))))))))))))))))))))))))))))),
    (S (S (S (S (S (S (S (S (S (S (S (S (S (S (S (S O))))))))))))))))), (S (S
    (S (S (S (S (S (S (S (S (S (S (S (S (S (S O))))))))))))))))), (Npos (XI
    (XI (XI (XI (XI (XI (XI (XI (XI (XI (XI (XI (XI (XI (XI (XI (XO (XO (XO
    (XO (XO (XO (XO (XO (XO (XO (XO (XO (XO (XO (XO (XO (XI (XI (XI (XI (XI
    (XI (XI (XI (XI (XI (XI (XI (XI (XI (XI (XI (XO (XO (XO (XO (XO (XO (XO
    (XO (XO (XO (XO (XO (XO (XO (XO (XO (XI (XI (XI (XI (XI (XI (XI (XI (XI
    (XI (XI (XI (XI (XI (XI (XI (XO (XO (XO (XO (XO (XO (XO (XO (XO (XO (XO
    (XO (XO (XO (XO (XO (XI (XI (XI (XI (XI (XI (XI (XI (XI (XI (XI (XI (XI
    (XI (XI
    XH))))))))))))))))))))))))))))))))))))))))))))))))))))))))))))))))))))))))))))))))))))))))))))))))))))))))))))))))) :: (((((Npos
    (XI (XI (XI (XI (XI (XI (XI (XI (XI (XI (XI (XI (XI (XI (XI (XI (XI (XI
    (XI (XI (XI (XI (XI (XI (XI (XI (XI (XI (XI (XI (XI (XI (XO (XO (XO (XO
    (XO (XO (XO (XO (XO (XO (XO (XO (XO (XO (XO (XO (XO (XO (XO (XO (XO (XO
    (XO (XO (XO (XO (XO (XO (XO (XO (XO (XO (XI (XI (XI (XI (XI (XI (XI (XI
    (XI (XI (XI (XI (XI (XI (XI (XI (XI (XI (XI (XI (XI (XI (XI (XI (XI (XI
    (XI (XI (XI (XI (XI
    XH)))))))))))))))))))))))))))))))))))))))))))))))))))))))))))))))))))))))))))))))))))))))))))))))),
    (S (S (S (S (S (S (S (S (S (S (S (S (S (S (S (S (S (S (S (S (S (S (S (S
    (S (S (S (S (S (S (S (S O))))))))))))))))))))))))))))))))), (S (S (S (S
    (S (S (S (S (S (S (S (S (S (S (S (S (S (S (S (S (S (S (S (S (S (S (S (S
    (S (S (S (S O))))))))))))))))))))))))))))))))), (Npos (XI (XI (XI (XI (XI
    (XI (XI (XI (XI (XI (XI (XI (XI (XI (XI (XI (XI (XI (XI (XI (XI (XI (XI
    (XI (XI (XI (XI (XI (XI (XI (XI (XI (XO (XO (XO (XO (XO (XO (XO (XO (XO
    (XO (XO (XO (XO (XO (XO (XO (XO (XO (XO (XO (XO (XO (XO (XO (XO (XO (XO
    (XO (XO (XO (XO (XO (XI (XI (XI (XI (XI (XI (XI (XI (XI (XI (XI (XI (XI
    (XI (XI (XI (XI (XI (XI (XI (XI (XI (XI (XI (XI (XI (XI (XI (XI (XI (XI
    XH))))))))))))))))))))))))))))))))))))))))))))))))))))))))))))))))))))))))))))))))))))))))))))))))) :: (((((Npos
    (XI (XI (XI (XI (XI (XI (XI (XI (XI (XI (XI (XI (XI (XI (XI (XI (XI (XI
    (XI (XI (XI (XI (XI (XI (XI (XI (XI (XI (XI (XI (XI (XI (XI (XI (XI (XI
    (XI (XI (XI (XI (XI (XI (XI (XI (XI (XI (XI (XI (XI (XI (XI (XI (XI (XI
    (XI (XI (XI (XI (XI (XI (XI (XI (XI
    XH)))))))))))))))))))))))))))))))))))))))))))))))))))))))))))))))), (S (S
    (S (S (S (S (S (S (S (S (S (S (S (S (S (S (S (S (S (S (S (S (S (S (S (S
    (S (S (S (S (S (S (S (S (S (S (S (S (S (S (S (S (S (S (S (S (S (S (S (S
    (S (S (S (S (S (S (S (S (S (S (S (S (S (S
    O))))))))))))))))))))))))))))))))))))))))))))))))))))))))))))))))), (S (S
    (S (S (S (S (S (S (S (S (S (S (S (S (S (S (S (S (S (S (S (S (S (S (S (S
    (S (S (S (S (S (S (S (S (S (S (S (S (S (S (S (S (S (S (S (S (S (S (S (S
    (S (S (S (S (S (S (S (S (S (S (S (S (S (S
    O))))))))))))))))))))))))))))))))))))))))))))))))))))))))))))))))), (Npos
    (XI (XI (XI (XI (XI (XI (XI (XI (XI (XI (XI (XI (XI (XI (XI (XI (XI (XI
    (XI (XI (XI (XI (XI (XI (XI (XI (XI (XI (XI (XI (XI (XI (XI (XI (XI (XI
    (XI (XI (XI (XI (XI (XI (XI (XI (XI (XI (XI (XI (XI (XI (XI (XI (XI (XI
    (XI (XI (XI (XI (XI (XI (XI (XI (XI
    XH))))))))))))))))))))))))))))))))))))))))))))))))))))))))))))))))) :: [])))))

(** val lower_of_two_128 : n **)

let lower_of_two_128 =
  Npos (XI (XO (XI (XO (XI (XO (XI (XO (XI (XO (XI (XO (XI (XO (XI (XO (XI
    (XO (XI (XO (XI (XO (XI (XO (XI (XO (XI (XO (XI (XO (XI (XO (XI (XO (XI
    (XO (XI (XO (XI (XO (XI (XO (XI (XO (XI (XO (XI (XO (XI (XO (XI (XO (XI
    (XO (XI (XO (XI (XO (XI (XO (XI (XO (XI (XO (XI (XO (XI (XO (XI (XO (XI
    (XO (XI (XO (XI (XO (XI (XO (XI (XO (XI (XO (XI (XO (XI (XO (XI (XO (XI
    (XO (XI (XO (XI (XO (XI (XO (XI (XO (XI (XO (XI (XO (XI (XO (XI (XO (XI
    (XO (XI (XO (XI (XO (XI (XO (XI (XO (XI (XO (XI (XO (XI (XO (XI (XO (XI
    (XO
    XH))))))))))))))))))))))))))))))))))))))))))))))))))))))))))))))))))))))))))))))))))))))))))))))))))))))))))))))))))))))))))))))

(** val tbl_base_to_bits : n list **)

let tbl_base_to_bits =
  N0 :: (N0 :: (N0 :: (N0 :: (N0 :: (N0 :: (N0 :: (N0 :: (N0 :: (N0 :: (N0 :: (N0 :: (N0 :: (N0 :: (N0 :: (N0 :: (N0 :: (N0 :: (N0 :: (N0 :: (N0 :: (N0 :: (N0 :: (N0 :: (N0 :: (N0 :: (N0 :: (N0 :: (N0 :: (N0 :: (N0 :: (N0 :: (N0 :: (N0 :: (N0 :: (N0 :: (N0 :: (N0 :: (N0 :: (N0 :: (N0 :: (N0 :: (N0 :: (N0 :: (N0 :: (N0 :: (N0 :: (N0 :: (N0 :: (N0 :: (N0 :: (N0 :: (N0 :: (N0 :: (N0 :: (N0 :: (N0 :: (N0 :: (N0 :: (N0 :: (N0 :: (N0 :: (N0 :: (N0 :: (N0 :: (N0 :: (N0 :: ((Npos
    XH) :: (N0 :: (N0 :: (N0 :: ((Npos (XO
    XH)) :: (N0 :: (N0 :: (N0 :: (N0 :: (N0 :: (N0 :: (N0 :: (N0 :: (N0 :: (N0 :: (N0 :: (N0 :: ((Npos
    (XI
    XH)) :: (N0 :: (N0 :: (N0 :: (N0 :: (N0 :: (N0 :: (N0 :: (N0 :: (N0 :: (N0 :: (N0 :: (N0 :: (N0 :: (N0 :: ((Npos
    XH) :: (N0 :: (N0 :: (N0 :: ((Npos (XO
    XH)) :: (N0 :: (N0 :: (N0 :: (N0 :: (N0 :: (N0 :: (N0 :: (N0 :: (N0 :: (N0 :: (N0 :: (N0 :: ((Npos
    (XI
    XH)) :: (N0 :: (N0 :: (N0 :: (N0 :: (N0 :: (N0 :: (N0 :: (N0 :: (N0 :: (N0 :: (N0 :: (N0 :: (N0 :: (N0 :: (N0 :: (N0 :: (N0 :: (N0 :: (N0 :: (N0 :: (N0 :: (N0 :: (N0 :: (N0 :: (N0 :: (N0 :: (N0 :: (N0 :: (N0 :: (N0 :: (N0 :: (N0 :: (N0 :: (N0 :: (N0 :: (N0 :: (N0 :: (N0 :: (N0 :: (N0 :: (N0 :: (N0 :: (N0 :: (N0 :: (N0 :: (N0 :: (N0 :: (N0 :: (N0 :: (N0 :: (N0 :: (N0 :: (N0 :: (N0 :: (N0 :: (N0 :: (N0 :: (N0 :: (N0 :: (N0 :: (N0 :: (N0 :: (N0 :: (N0 :: (N0 :: (N0 :: (N0 :: (N0 :: (N0 :: (N0 :: (N0 :: (N0 :: (N0 :: (N0 :: (N0 :: (N0 :: (N0 :: (N0 :: (N0 :: (N0 :: (N0 :: (N0 :: (N0 :: (N0 :: (N0 :: (N0 :: (N0 :: (N0 :: (N0 :: (N0 :: (N0 :: (N0 :: (N0 :: (N0 :: (N0 :: (N0 :: (N0 :: (N0 :: (N0 :: (N0 :: (N0 :: (N0 :: (N0 :: (N0 :: (N0 :: (N0 :: (N0 :: (N0 :: (N0 :: (N0 :: (N0 :: (N0 :: (N0 :: (N0 :: (N0 :: (N0 :: (N0 :: (N0 :: (N0 :: (N0 :: (N0 :: (N0 :: (N0 :: (N0 :: (N0 :: (N0 :: (N0 :: (N0 :: (N0 :: (N0 :: (N0 :: (N0 :: (N0 :: (N0 :: (N0 :: (N0 :: (N0 :: (N0 :: (N0 :: [])))))))))))))))))))))))))))))))))))))))))))))))))))))))))))))))))))))))))))))))))))))))))))))))))))))))))))))))))))))))))))))))))))))))))))))))))))))))))))))))))))))))))))))))))))))))))))))))))))))))))))))))))))))))))))))))))))))))))))))))))))))))))))))))

(** val tbl_bits_to_base : n list **)

let tbl_bits_to_base =
  (Npos (XI (XO (XO (XO (XO (XO XH))))))) :: ((Npos (XI (XI (XO (XO (XO (XO
    XH))))))) :: ((Npos (XI (XI (XI (XO (XO (XO XH))))))) :: ((Npos (XO (XO
    (XI (XO (XI (XO XH))))))) :: ((Npos (XO (XO (XO (XI (XI (XO
    XH))))))) :: ((Npos (XO (XO (XO (XI (XI (XO XH))))))) :: ((Npos (XO (XO
    (XO (XI (XI (XO XH))))))) :: ((Npos (XO (XO (XO (XI (XI (XO
    XH))))))) :: ((Npos (XO (XO (XO (XI (XI (XO XH))))))) :: ((Npos (XO (XO
    (XO (XI (XI (XO XH))))))) :: ((Npos (XO (XO (XO (XI (XI (XO
    XH))))))) :: ((Npos (XO (XO (XO (XI (XI (XO XH))))))) :: ((Npos (XO (XO
    (XO (XI (XI (XO XH))))))) :: ((Npos (XO (XO (XO (XI (XI (XO
    XH))))))) :: ((Npos (XO (XO (XO (XI (XI (XO XH))))))) :: ((Npos (XO (XO
    (XO (XI (XI (XO XH))))))) :: ((Npos (XO (XO (XO (XI (XI (XO
    XH))))))) :: ((Npos (XO (XO (XO (XI (XI (XO XH))))))) :: ((Npos (XO (XO
    (XO (XI (XI (XO XH))))))) :: ((Npos (XO (XO (XO (XI (XI (XO
    XH))))))) :: ((Npos (XO (XO (XO (XI (XI (XO XH))))))) :: ((Npos (XO (XO
    (XO (XI (XI (XO XH))))))) :: ((Npos (XO (XO (XO (XI (XI (XO
    XH))))))) :: ((Npos (XO (XO (XO (XI (XI (XO XH))))))) :: ((Npos (XO (XO
    (XO (XI (XI (XO XH))))))) :: ((Npos (XO (XO (XO (XI (XI (XO
    XH))))))) :: ((Npos (XO (XO (XO (XI (XI (XO XH))))))) :: ((Npos (XO (XO
    (XO (XI (XI (XO XH))))))) :: ((Npos (XO (XO (XO (XI (XI (XO
    XH))))))) :: ((Npos (XO (XO (XO (XI (XI (XO XH))))))) :: ((Npos (XO (XO
    (XO (XI (XI (XO XH))))))) :: ((Npos (XO (XO (XO (XI (XI (XO
    XH))))))) :: ((Npos (XO (XO (XO (XI (XI (XO XH))))))) :: ((Npos (XO (XO
    (XO (XI (XI (XO XH))))))) :: ((Npos (XO (XO (XO (XI (XI (XO
    XH))))))) :: ((Npos (XO (XO (XO (XI (XI (XO XH))))))) :: ((Npos (XO (XO
    (XO (XI (XI (XO XH))))))) :: ((Npos (XO (XO (XO (XI (XI (XO
    XH))))))) :: ((Npos (XO (XO (XO (XI (XI (XO XH))))))) :: ((Npos (XO (XO
    (XO (XI (XI (XO XH))))))) :: ((Npos (XO (XO (XO (XI (XI (XO
    XH))))))) :: ((Npos (XO (XO (XO (XI (XI (XO XH))))))) :: ((Npos (XO (XO
    (XO (XI (XI (XO XH))))))) :: ((Npos (XO (XO (XO (XI (XI (XO
    XH))))))) :: ((Npos (XO (XO (XO (XI (XI (XO XH))))))) :: ((Npos (XO (XO
    (XO (XI (XI (XO XH))))))) :: ((Npos (XO (XO (XO (XI (XI (XO
    XH))))))) :: ((Npos (XO (XO (XO (XI (XI (XO XH))))))) :: ((Npos (XO (XO
    (XO (XI (XI (XO XH))))))) :: ((Npos (XO (XO (XO (XI (XI (XO
    XH))))))) :: ((Npos (XO (XO (XO (XI (XI (XO XH))))))) :: ((Npos (XO (XO
    (XO (XI (XI (XO XH))))))) :: ((Npos (XO (XO (XO (XI (XI (XO
    XH))))))) :: ((Npos (XO (XO (XO (XI (XI (XO XH))))))) :: ((Npos (XO (XO
    (XO (XI (XI (XO XH))))))) :: ((Npos (XO (XO (XO (XI (XI (XO
    XH))))))) :: ((Npos (XO (XO (XO (XI (XI (XO XH))))))) :: ((Npos (XO (XO
    (XO (XI (XI (XO XH))))))) :: ((Npos (XO (XO (XO (XI (XI (XO
    XH))))))) :: ((Npos (XO (XO (XO (XI (XI (XO XH))))))) :: ((Npos (XO (XO
    (XO (XI (XI (XO XH))))))) :: ((Npos (XO (XO (XO (XI (XI (XO
    XH))))))) :: ((Npos (XO (XO (XO (XI (XI (XO XH))))))) :: ((Npos (XO (XO
    (XO (XI (XI (XO XH))))))) :: ((Npos (XO (XO (XO (XI (XI (XO
    XH))))))) :: ((Npos (XO (XO (XO (XI (XI (XO XH))))))) :: ((Npos (XO (XO
    (XO (XI (XI (XO XH))))))) :: ((Npos (XO (XO (XO (XI (XI (XO
    XH))))))) :: ((Npos (XO (XO (XO (XI (XI (XO XH))))))) :: ((Npos (XO (XO
    (XO (XI (XI (XO XH))))))) :: ((Npos (XO (XO (XO (XI (XI (XO
    XH))))))) :: ((Npos (XO (XO (XO (XI (XI (XO XH))))))) :: ((Npos (XO (XO
    (XO (XI (XI (XO XH))))))) :: ((Npos (XO (XO (XO (XI (XI (XO
    XH))))))) :: ((Npos (XO (XO (XO (XI (XI (XO XH))))))) :: ((Npos (XO (XO
    (XO (XI (XI (XO XH))))))) :: ((Npos (XO (XO (XO (XI (XI (XO
    XH))))))) :: ((Npos (XO (XO (XO (XI (XI (XO XH))))))) :: ((Npos (XO (XO
    (XO (XI (XI (XO XH))))))) :: ((Npos (XO (XO (XO (XI (XI (XO
    XH))))))) :: ((Npos (XO (XO (XO (XI (XI (XO XH))))))) :: ((Npos (XO (XO
    (XO (XI (XI (XO XH))))))) :: ((Npos (XO (XO (XO (XI (XI (XO
    XH))))))) :: ((Npos (XO (XO (XO (XI (XI (XO XH))))))) :: ((Npos (XO (XO
    (XO (XI (XI (XO XH))))))) :: ((Npos (XO (XO (XO (XI (XI (XO
    XH))))))) :: ((Npos (XO (XO (XO (XI (XI (XO XH))))))) :: ((Npos (XO (XO
    (XO (XI (XI (XO XH))))))) :: ((Npos (XO (XO (XO (XI (XI (XO
    XH))))))) :: ((Npos (XO (XO (XO (XI (XI (XO XH))))))) :: ((Npos (XO (XO
    (XO (XI (XI (XO XH))))))) :: ((Npos (XO (XO (XO (XI (XI (XO
    XH))))))) :: ((Npos (XO (XO (XO (XI (XI (XO XH))))))) :: ((Npos (XO (XO
    (XO (XI (XI (XO XH))))))) :: ((Npos (XO (XO (XO (XI (XI (XO
    XH))))))) :: ((Npos (XO (XO (XO (XI (XI (XO XH))))))) :: ((Npos (XO (XO
    (XO (XI (XI (XO XH))))))) :: ((Npos (XO (XO (XO (XI (XI (XO
    XH))))))) :: ((Npos (XO (XO (XO (XI (XI (XO XH))))))) :: ((Npos (XO (XO
    (XO (XI (XI (XO XH))))))) :: ((Npos (XO (XO (XO (XI (XI (XO
    XH))))))) :: ((Npos (XO (XO (XO (XI (XI (XO XH))))))) :: ((Npos (XO (XO
    (XO (XI (XI (XO XH))))))) :: ((Npos (XO (XO (XO (XI (XI (XO
    XH))))))) :: ((Npos (XO (XO (XO (XI (XI (XO XH))))))) :: ((Npos (XO (XO
    (XO (XI (XI (XO XH))))))) :: ((Npos (XO (XO (XO (XI (XI (XO
    XH))))))) :: ((Npos (XO (XO (XO (XI (XI (XO XH))))))) :: ((Npos (XO (XO
    (XO (XI (XI (XO XH))))))) :: ((Npos (XO (XO (XO (XI (XI (XO
    XH))))))) :: ((Npos (XO (XO (XO (XI (XI (XO XH))))))) :: ((Npos (XO (XO
    (XO (XI (XI (XO XH))))))) :: ((Npos (XO (XO (XO (XI (XI (XO
    XH))))))) :: ((Npos (XO (XO (XO (XI (XI (XO XH))))))) :: ((Npos (XO (XO
    (XO (XI (XI (XO XH))))))) :: ((Npos (XO (XO (XO (XI (XI (XO
    XH))))))) :: ((Npos (XO (XO (XO (XI (XI (XO XH))))))) :: ((Npos (XO (XO
    (XO (XI (XI (XO XH))))))) :: ((Npos (XO (XO (XO (XI (XI (XO
    XH))))))) :: ((Npos (XO (XO (XO (XI (XI (XO XH))))))) :: ((Npos (XO (XO
    (XO (XI (XI (XO XH))))))) :: ((Npos (XO (XO (XO (XI (XI (XO
    XH))))))) :: ((Npos (XO (XO (XO (XI (XI (XO XH))))))) :: ((Npos (XO (XO
    (XO (XI (XI (XO XH))))))) :: ((Npos (XO (XO (XO (XI (XI (XO
    XH))))))) :: ((Npos (XO (XO (XO (XI (XI (XO XH))))))) :: ((Npos (XO (XO
    (XO (XI (XI (XO XH))))))) :: ((Npos (XO (XO (XO (XI (XI (XO
    XH))))))) :: ((Npos (XO (XO (XO (XI (XI (XO XH))))))) :: ((Npos (XO (XO
    (XO (XI (XI (XO XH))))))) :: ((Npos (XO (XO (XO (XI (XI (XO
    XH))))))) :: ((Npos (XO (XO (XO (XI (XI (XO XH))))))) :: ((Npos (XO (XO
    (XO (XI (XI (XO XH))))))) :: ((Npos (XO (XO (XO (XI (XI (XO
    XH))))))) :: ((Npos (XO (XO (XO (XI (XI (XO XH))))))) :: ((Npos (XO (XO
    (XO (XI (XI (XO XH))))))) :: ((Npos (XO (XO (XO (XI (XI (XO
    XH))))))) :: ((Npos (XO (XO (XO (XI (XI (XO XH))))))) :: ((Npos (XO (XO
    (XO (XI (XI (XO XH))))))) :: ((Npos (XO (XO (XO (XI (XI (XO
    XH))))))) :: ((Npos (XO (XO (XO (XI (XI (XO XH))))))) :: ((Npos (XO (XO
    (XO (XI (XI (XO XH))))))) :: ((Npos (XO (XO (XO (XI (XI (XO
    XH))))))) :: ((Npos (XO (XO (XO (XI (XI (XO XH))))))) :: ((Npos (XO (XO
    (XO (XI (XI (XO XH))))))) :: ((Npos (XO (XO (XO (XI (XI (XO
    XH))))))) :: ((Npos (XO (XO (XO (XI (XI (XO XH))))))) :: ((Npos (XO (XO
    (XO (XI (XI (XO XH))))))) :: ((Npos (XO (XO (XO (XI (XI (XO
    XH))))))) :: ((Npos (XO (XO (XO (XI (XI (XO XH))))))) :: ((Npos (XO (XO
    (XO (XI (XI (XO XH))))))) :: ((Npos (XO (XO (XO (XI (XI (XO
    XH))))))) :: ((Npos (XO (XO (XO (XI (XI (XO XH))))))) :: ((Npos (XO (XO
    (XO (XI (XI (XO XH))))))) :: ((Npos (XO (XO (XO (XI (XI (XO
    XH))))))) :: ((Npos (XO (XO (XO (XI (XI (XO XH))))))) :: ((Npos (XO (XO
    (XO (XI (XI (XO XH))))))) :: ((Npos (XO (XO (XO (XI (XI (XO
    XH))))))) :: ((Npos (XO (XO (XO (XI (XI (XO XH))))))) :: ((Npos (XO (XO
    (XO (XI (XI (XO XH))))))) :: ((Npos (XO (XO (XO (XI (XI (XO
    XH))))))) :: ((Npos (XO (XO (XO (XI (XI (XO XH))))))) :: ((Npos (XO (XO
    (XO (XI (XI (XO XH))))))) :: ((Npos (XO (XO (XO (XI (XI (XO
    XH))))))) :: ((Npos (XO (XO (XO (XI (XI (XO XH))))))) :: ((Npos (XO (XO
    (XO (XI (XI (XO XH))))))) :: ((Npos (XO (XO (XO (XI (XI (XO
    XH))))))) :: ((Npos (XO (XO (XO (XI (XI (XO XH))))))) :: ((Npos (XO (XO
    (XO (XI (XI (XO XH))))))) :: ((Npos (XO (XO (XO (XI (XI (XO
    XH))))))) :: ((Npos (XO (XO (XO (XI (XI (XO XH))))))) :: ((Npos (XO (XO
    (XO (XI (XI (XO XH))))))) :: ((Npos (XO (XO (XO (XI (XI (XO
    XH))))))) :: ((Npos (XO (XO (XO (XI (XI (XO XH))))))) :: ((Npos (XO (XO
    (XO (XI (XI (XO XH))))))) :: ((Npos (XO (XO (XO (XI (XI (XO
    XH))))))) :: ((Npos (XO (XO (XO (XI (XI (XO XH))))))) :: ((Npos (XO (XO
    (XO (XI (XI (XO XH))))))) :: ((Npos (XO (XO (XO (XI (XI (XO
    XH))))))) :: ((Npos (XO (XO (XO (XI (XI (XO XH))))))) :: ((Npos (XO (XO
    (XO (XI (XI (XO XH))))))) :: ((Npos (XO (XO (XO (XI (XI (XO
    XH))))))) :: ((Npos (XO (XO (XO (XI (XI (XO XH))))))) :: ((Npos (XO (XO
    (XO (XI (XI (XO XH))))))) :: ((Npos (XO (XO (XO (XI (XI (XO
    XH))))))) :: ((Npos (XO (XO (XO (XI (XI (XO XH))))))) :: ((Npos (XO (XO
    (XO (XI (XI (XO XH))))))) :: ((Npos (XO (XO (XO (XI (XI (XO
    XH))))))) :: ((Npos (XO (XO (XO (XI (XI (XO XH))))))) :: ((Npos (XO (XO
    (XO (XI (XI (XO XH))))))) :: ((Npos (XO (XO (XO (XI (XI (XO
    XH))))))) :: ((Npos (XO (XO (XO (XI (XI (XO XH))))))) :: ((Npos (XO (XO
    (XO (XI (XI (XO XH))))))) :: ((Npos (XO (XO (XO (XI (XI (XO
    XH))))))) :: ((Npos (XO (XO (XO (XI (XI (XO XH))))))) :: ((Npos (XO (XO
    (XO (XI (XI (XO XH))))))) :: ((Npos (XO (XO (XO (XI (XI (XO
    XH))))))) :: ((Npos (XO (XO (XO (XI (XI (XO XH))))))) :: ((Npos (XO (XO
    (XO (XI (XI (XO XH))))))) :: ((Npos (XO (XO (XO (XI (XI (XO
    XH))))))) :: ((Npos (XO (XO (XO (XI (XI (XO XH))))))) :: ((Npos (XO (XO
    (XO (XI (XI (XO XH))))))) :: ((Npos (XO (XO (XO (XI (XI (XO
    XH))))))) :: ((Npos (XO (XO (XO (XI (XI (XO XH))))))) :: ((Npos (XO (XO
    (XO (XI (XI (XO XH))))))) :: ((Npos (XO (XO (XO (XI (XI (XO
    XH))))))) :: ((Npos (XO (XO (XO (XI (XI (XO XH))))))) :: ((Npos (XO (XO
    (XO (XI (XI (XO XH))))))) :: ((Npos (XO (XO (XO (XI (XI (XO
    XH))))))) :: ((Npos (XO (XO (XO (XI (XI (XO XH))))))) :: ((Npos (XO (XO
    (XO (XI (XI (XO XH))))))) :: ((Npos (XO (XO (XO (XI (XI (XO
    XH))))))) :: ((Npos (XO (XO (XO (XI (XI (XO XH))))))) :: ((Npos (XO (XO
    (XO (XI (XI (XO XH))))))) :: ((Npos (XO (XO (XO (XI (XI (XO
    XH))))))) :: ((Npos (XO (XO (XO (XI (XI (XO XH))))))) :: ((Npos (XO (XO
    (XO (XI (XI (XO XH))))))) :: ((Npos (XO (XO (XO (XI (XI (XO
    XH))))))) :: ((Npos (XO (XO (XO (XI (XI (XO XH))))))) :: ((Npos (XO (XO
    (XO (XI (XI (XO XH))))))) :: ((Npos (XO (XO (XO (XI (XI (XO
    XH))))))) :: ((Npos (XO (XO (XO (XI (XI (XO XH))))))) :: ((Npos (XO (XO
    (XO (XI (XI (XO XH))))))) :: ((Npos (XO (XO (XO (XI (XI (XO
    XH))))))) :: ((Npos (XO (XO (XO (XI (XI (XO XH))))))) :: ((Npos (XO (XO
    (XO (XI (XI (XO XH))))))) :: ((Npos (XO (XO (XO (XI (XI (XO
    XH))))))) :: ((Npos (XO (XO (XO (XI (XI (XO XH))))))) :: ((Npos (XO (XO
    (XO (XI (XI (XO XH))))))) :: ((Npos (XO (XO (XO (XI (XI (XO
    XH))))))) :: ((Npos (XO (XO (XO (XI (XI (XO XH))))))) :: ((Npos (XO (XO
    (XO (XI (XI (XO XH))))))) :: ((Npos (XO (XO (XO (XI (XI (XO
    XH))))))) :: ((Npos (XO (XO (XO (XI (XI (XO XH))))))) :: ((Npos (XO (XO
    (XO (XI (XI (XO XH))))))) :: ((Npos (XO (XO (XO (XI (XI (XO
    XH))))))) :: ((Npos (XO (XO (XO (XI (XI (XO XH))))))) :: ((Npos (XO (XO
    (XO (XI (XI (XO XH))))))) :: ((Npos (XO (XO (XO (XI (XI (XO
    XH))))))) :: ((Npos (XO (XO (XO (XI (XI (XO XH))))))) :: ((Npos (XO (XO
    (XO (XI (XI (XO XH))))))) :: ((Npos (XO (XO (XO (XI (XI (XO
    XH))))))) :: ((Npos (XO (XO (XO (XI (XI (XO XH))))))) :: ((Npos (XO (XO
    (XO (XI (XI (XO XH))))))) :: ((Npos (XO (XO (XO (XI (XI (XO
    XH))))))) :: ((Npos (XO (XO (XO (XI (XI (XO XH))))))) :: ((Npos (XO (XO
    (XO (XI (XI (XO XH))))))) :: ((Npos (XO (XO (XO (XI (XI (XO
    XH))))))) :: ((Npos (XO (XO (XO (XI (XI (XO XH))))))) :: ((Npos (XO (XO
    (XO (XI (XI (XO XH))))))) :: ((Npos (XO (XO (XO (XI (XI (XO
    XH))))))) :: ((Npos (XO (XO (XO (XI (XI (XO XH))))))) :: ((Npos (XO (XO
    (XO (XI (XI (XO XH))))))) :: ((Npos (XO (XO (XO (XI (XI (XO
    XH))))))) :: ((Npos (XO (XO (XO (XI (XI (XO XH))))))) :: ((Npos (XO (XO
    (XO (XI (XI (XO
    XH))))))) :: [])))))))))))))))))))))))))))))))))))))))))))))))))))))))))))))))))))))))))))))))))))))))))))))))))))))))))))))))))))))))))))))))))))))))))))))))))))))))))))))))))))))))))))))))))))))))))))))))))))))))))))))))))))))))))))))))))))))))))))))))))))))))))))))))

type kcfg = { kW : nat; kK : nat; kInt : bool }

(** val mkc : nat -> nat -> kcfg **)

let mkc w k =
  { kW = w; kK = k; kInt = (Nat.eqb (mul (S (S O)) k) w) }

(** val ladder_of : nat -> (((n * nat) * nat) * n) list **)

let ladder_of = function
| O -> ladder_128
| S n0 ->
  (match n0 with
   | O -> ladder_128
   | S n1 ->
     (match n1 with
      | O -> ladder_128
      | S n2 ->
        (match n2 with
         | O -> ladder_128
         | S n3 ->
           (match n3 with
            | O -> ladder_128
            | S n4 ->
              (match n4 with
               | O -> ladder_128
               | S n5 ->
                 (match n5 with
                  | O -> ladder_128
                  | S n6 ->
                    (match n6 with
                     | O -> ladder_128
                     | S n7 ->
                       (match n7 with
                        | O -> ladder_8
                        | S n8 ->
                          (match n8 with
                           | O -> ladder_128
                           | S n9 ->
                             (match n9 with
                              | O -> ladder_128
                              | S n10 ->
                                (match n10 with
                                 | O -> ladder_128
                                 | S n11 ->
                                   (match n11 with
                                    | O -> ladder_128
                                    | S n12 ->
                                      (match n12 with
                                       | O -> ladder_128
                                       | S n13 ->
                                         (match n13 with
                                          | O -> ladder_128
                                          | S n14 ->
                                            (match n14 with
                                             | O -> ladder_128
                                             | S n15 ->
                                               (match n15 with
                                                | O -> ladder_16
                                                | S n16 ->
                                                  (match n16 with
                                                   | O -> ladder_128
                                                   | S n17 ->
                                                     (match n17 with
                                                      | O -> ladder_128
                                                      | S n18 ->
                                                        (match n18 with
                                                         | O -> ladder_128
                                                         | S n19 ->
                                                           (match n19 with
                                                            | O -> ladder_128
                                                            | S n20 ->
                                                              (match n20 with
                                                               | O ->
                                                                 ladder_128
                                                               | S n21 ->
                                                                 (match n21 with
                                                                  | O ->
                                                                    ladder_128
                                                                  | S n22 ->
                                                                    (match n22 with
                                                                    | O ->
                                                                    ladder_128
                                                                    | S n23 ->
                                                                    (match n23 with
                                                                    | O ->
                                                                    ladder_128
                                                                    | S n24 ->
                                                                    (match n24 with
                                                                    | O ->
                                                                    ladder_128
                                                                    | S n25 ->
                                                                    (match n25 with
                                                                    | O ->
                                                                    ladder_128
                                                                    | S n26 ->
                                                                    (match n26 with
                                                                    | O ->
                                                                    ladder_128
                                                                    | S n27 ->
                                                                    (match n27 with
                                                                    | O ->
                                                                    ladder_128
                                                                    | S n28 ->
                                                                    (match n28 with
                                                                    | O ->
                                                                    ladder_128
                                                                    | S n29 ->
                                                                    (match n29 with
                                                                    | O ->
                                                                    ladder_128
                                                                    | S n30 ->
                                                                    (match n30 with
                                                                    | O ->
                                                                    ladder_128
                                                                    | S n31 ->
                                                                    (match n31 with
                                                                    | O ->
                                                                    ladder_32
                                                                    | S n32 ->
                                                                    (match n32 with
                                                                    | O ->
                                                                    ladder_128
                                                                    | S n33 ->
                                                                    (match n33 with
                                                                    | O ->
                                                                    ladder_128
                                                                    | S n34 ->
                                                                    (match n34 with
                                                                    | O ->
                                                                    ladder_128
                                                                    | S n35 ->
                                                                    (match n35 with
                                                                    | O ->
                                                                    ladder_128
                                                                    | S n36 ->
                                                                    (match n36 with
                                                                    | O ->
                                                                    ladder_128
                                                                    | S n37 ->
                                                                    (match n37 with
                                                                    | O ->
                                                                    ladder_128
                                                                    | S n38 ->
                                                                    (match n38 with
                                                                    | O ->
                                                                    ladder_128
                                                                    | S n39 ->
                                                                    (match n39 with
                                                                    | O ->
                                                                    ladder_128
                                                                    | S n40 ->
                                                                    (match n40 with
                                                                    | O ->
                                                                    ladder_128
                                                                    | S n41 ->
                                                                    (match n41 with
                                                                    | O ->
                                                                    ladder_128
                                                                    | S n42 ->
                                                                    (match n42 with
                                                                    | O ->
                                                                    ladder_128
                                                                    | S n43 ->
                                                                    (match n43 with
                                                                    | O ->
                                                                    ladder_128
                                                                    | S n44 ->
                                                                    (match n44 with
                                                                    | O ->
                                                                    ladder_128
                                                                    | S n45 ->
                                                                    (match n45 with
                                                                    | O ->
                                                                    ladder_128
                                                                    | S n46 ->
                                                                    (match n46 with
                                                                    | O ->
                                                                    ladder_128
                                                                    | S n47 ->
                                                                    (match n47 with
                                                                    | O ->
                                                                    ladder_128
                                                                    | S n48 ->
                                                                    (match n48 with
                                                                    | O ->
                                                                    ladder_128
                                                                    | S n49 ->
                                                                    (match n49 with
                                                                    | O ->
                                                                    ladder_128
                                                                    | S n50 ->
                                                                    (match n50 with
                                                                    | O ->
                                                                    ladder_128
                                                                    | S n51 ->
                                                                    (match n51 with
                                                                    | O ->
                                                                    ladder_128
                                                                    | S n52 ->
                                                                    (match n52 with
                                                                    | O ->
                                                                    ladder_128
                                                                    | S n53 ->
                                                                    (match n53 with
                                                                    | O ->
                                                                    ladder_128
                                                                    | S n54 ->
                                                                    (match n54 with
                                                                    | O ->
                                                                    ladder_128
                                                                    | S n55 ->
                                                                    (match n55 with
                                                                    | O ->
                                                                    ladder_128
                                                                    | S n56 ->
                                                                    (match n56 with
                                                                    | O ->
                                                                    ladder_128
                                                                    | S n57 ->
                                                                    (match n57 with
                                                                    | O ->
                                                                    ladder_128
                                                                    | S n58 ->
                                                                    (match n58 with
                                                                    | O ->
                                                                    ladder_128
                                                                    | S n59 ->
                                                                    (match n59 with
                                                                    | O ->
                                                                    ladder_128
                                                                    | S n60 ->
                                                                    (match n60 with
                                                                    | O ->
                                                                    ladder_128
                                                                    | S n61 ->
                                                                    (match n61 with
                                                                    | O ->
                                                                    ladder_128
                                                                    | S n62 ->
                                                                    (match n62 with
                                                                    | O ->
                                                                    ladder_128
                                                                    | S n63 ->
                                                                    (match n63 with
                                                                    | O ->
                                                                    ladder_64
                                                                    | S _ ->
                                                                    ladder_128))))))))))))))))))))))))))))))))))))))))))))))))))))))))))))))))

(** val lower_of_two : nat -> n **)

let lower_of_two = function
| O -> lower_of_two_128
| S n0 ->
  (match n0 with
   | O -> lower_of_two_128
   | S n1 ->
     (match n1 with
      | O -> lower_of_two_128
      | S n2 ->
        (match n2 with
         | O -> lower_of_two_128
         | S n3 ->
           (match n3 with
            | O -> lower_of_two_128
            | S n4 ->
              (match n4 with
               | O -> lower_of_two_128
               | S n5 ->
                 (match n5 with
                  | O -> lower_of_two_128
                  | S n6 ->
                    (match n6 with
                     | O -> lower_of_two_128
                     | S n7 ->
                       (match n7 with
                        | O -> lower_of_two_8
                        | S n8 ->
                          (match n8 with
                           | O -> lower_of_two_128
                           | S n9 ->
                             (match n9 with
                              | O -> lower_of_two_128
                              | S n10 ->
                                (match n10 with
                                 | O -> lower_of_two_128
                                 | S n11 ->
                                   (match n11 with
                                    | O -> lower_of_two_128
                                    | S n12 ->
                                      (match n12 with
                                       | O -> lower_of_two_128
                                       | S n13 ->
                                         (match n13 with
                                          | O -> lower_of_two_128
                                          | S n14 ->
                                            (match n14 with
                                             | O -> lower_of_two_128
                                             | S n15 ->
                                               (match n15 with
                                                | O -> lower_of_two_16
                                                | S n16 ->
                                                  (match n16 with
                                                   | O -> lower_of_two_128
                                                   | S n17 ->
                                                     (match n17 with
                                                      | O -> lower_of_two_128
                                                      | S n18 ->
                                                        (match n18 with
                                                         | O ->
                                                           lower_of_two_128
                                                         | S n19 ->
                                                           (match n19 with
                                                            | O ->
                                                              lower_of_two_128
                                                            | S n20 ->
                                                              (match n20 with
                                                               | O ->
                                                                 lower_of_two_128
                                                               | S n21 ->
                                                                 (match n21 with
                                                                  | O ->
                                                                    lower_of_two_128
                                                                  | S n22 ->
                                                                    (match n22 with
                                                                    | O ->
                                                                    lower_of_two_128
                                                                    | S n23 ->
                                                                    (match n23 with
                                                                    | O ->
                                                                    lower_of_two_128
                                                                    | S n24 ->
                                                                    (match n24 with
                                                                    | O ->
                                                                    lower_of_two_128
                                                                    | S n25 ->
                                                                    (match n25 with
                                                                    | O ->
                                                                    lower_of_two_128
                                                                    | S n26 ->
                                                                    (match n26 with
                                                                    | O ->
                                                                    lower_of_two_128
                                                                    | S n27 ->
                                                                    (match n27 with
                                                                    | O ->
                                                                    lower_of_two_128
                                                                    | S n28 ->
                                                                    (match n28 with
                                                                    | O ->
                                                                    lower_of_two_128
                                                                    | S n29 ->
                                                                    (match n29 with
                                                                    | O ->
                                                                    lower_of_two_128
                                                                    | S n30 ->
                                                                    (match n30 with
                                                                    | O ->
                                                                    lower_of_two_128
                                                                    | S n31 ->
                                                                    (match n31 with
                                                                    | O ->
                                                                    lower_of_two_32
                                                                    | S n32 ->
                                                                    (match n32 with
                                                                    | O ->
                                                                    lower_of_two_128
                                                                    | S n33 ->
                                                                    (match n33 with
                                                                    | O ->
                                                                    lower_of_two_128
                                                                    | S n34 ->
                                                                    (match n34 with
                                                                    | O ->
                                                                    lower_of_two_128
                                                                    | S n35 ->
                                                                    (match n35 with
                                                                    | O ->
                                                                    lower_of_two_128
                                                                    | S n36 ->
                                                                    (match n36 with
                                                                    | O ->
                                                                    lower_of_two_128
                                                                    | S n37 ->
                                                                    (match n37 with
                                                                    | O ->
                                                                    lower_of_two_128
                                                                    | S n38 ->
                                                                    (match n38 with
                                                                    | O ->
                                                                    lower_of_two_128
                                                                    | S n39 ->
                                                                    (match n39 with
                                                                    | O ->
                                                                    lower_of_two_128
                                                                    | S n40 ->
                                                                    (match n40 with
                                                                    | O ->
                                                                    lower_of_two_128
                                                                    | S n41 ->
                                                                    (match n41 with
                                                                    | O ->
                                                                    lower_of_two_128
                                                                    | S n42 ->
                                                                    (match n42 with
                                                                    | O ->
                                                                    lower_of_two_128
                                                                    | S n43 ->
                                                                    (match n43 with
                                                                    | O ->
                                                                    lower_of_two_128
                                                                    | S n44 ->
                                                                    (match n44 with
                                                                    | O ->
                                                                    lower_of_two_128
                                                                    | S n45 ->
                                                                    (match n45 with
                                                                    | O ->
                                                                    lower_of_two_128
                                                                    | S n46 ->
                                                                    (match n46 with
                                                                    | O ->
                                                                    lower_of_two_128
                                                                    | S n47 ->
                                                                    (match n47 with
                                                                    | O ->
                                                                    lower_of_two_128
                                                                    | S n48 ->
                                                                    (match n48 with
                                                                    | O ->
                                                                    lower_of_two_128
                                                                    | S n49 ->
                                                                    (match n49 with
                                                                    | O ->
                                                                    lower_of_two_128
                                                                    | S n50 ->
                                                                    (match n50 with
                                                                    | O ->
                                                                    lower_of_two_128
                                                                    | S n51 ->
                                                                    (match n51 with
                                                                    | O ->
                                                                    lower_of_two_128
                                                                    | S n52 ->
                                                                    (match n52 with
                                                                    | O ->
                                                                    lower_of_two_128
                                                                    | S n53 ->
                                                                    (match n53 with
                                                                    | O ->
                                                                    lower_of_two_128
                                                                    | S n54 ->
                                                                    (match n54 with
                                                                    | O ->
                                                                    lower_of_two_128
                                                                    | S n55 ->
                                                                    (match n55 with
                                                                    | O ->
                                                                    lower_of_two_128
                                                                    | S n56 ->
                                                                    (match n56 with
                                                                    | O ->
                                                                    lower_of_two_128
                                                                    | S n57 ->
                                                                    (match n57 with
                                                                    | O ->
                                                                    lower_of_two_128
                                                                    | S n58 ->
                                                                    (match n58 with
                                                                    | O ->
                                                                    lower_of_two_128
                                                                    | S n59 ->
                                                                    (match n59 with
                                                                    | O ->
                                                                    lower_of_two_128
                                                                    | S n60 ->
                                                                    (match n60 with
                                                                    | O ->
                                                                    lower_of_two_128
                                                                    | S n61 ->
                                                                    (match n61 with
                                                                    | O ->
                                                                    lower_of_two_128
                                                                    | S n62 ->
                                                                    (match n62 with
                                                                    | O ->
                                                                    lower_of_two_128
                                                                    | S n63 ->
                                                                    (match n63 with
                                                                    | O ->
                                                                    lower_of_two_64
                                                                    | S _ ->
                                                                    lower_of_two_128))))))))))))))))))))))))))))))))))))))))))))))))))))))))))))))))

(** val subn : nat -> nat -> nat option **)

let subn a b =
  if Nat.leb b a then Some (sub a b) else None

(** val obind : 'a1 option -> ('a1 -> 'a2 option) -> 'a2 option **)

let obind o f =
  match o with
  | Some x -> f x
  | None -> None

(** val k_msk : kcfg -> wexp **)

let k_msk c =
  let w = c.kW in Or ((Shl (w, (S O), (Const (Npos XH)))), (Const (Npos XH)))

(** val addr : kcfg -> nat -> nat option **)

let addr c =
  let k = c.kK in
  (fun pos ->
  obind (subn k (S O)) (fun top ->
    obind (subn top pos) (fun d -> Some (mul d (S (S O))))))

(** val ones_shl : kcfg -> nat -> n option **)

let ones_shl c =
  let w = c.kW in
  (fun n0 ->
  if Nat.ltb n0 w
  then Some (N.sub (N.pow (Npos (XO XH)) (N.of_nat n0)) (Npos XH))
  else None)

(** val top_mask : kcfg -> nat -> n option **)

let top_mask c =
  let w = c.kW in
  let k = c.kK in
  (fun n_bases ->
  if c.kInt
  then if Nat.ltb O n_bases
       then obind (ones_shl c (mul n_bases (S (S O)))) (fun m ->
              obind (subn w (mul n_bases (S (S O)))) (fun sh ->
                if Nat.ltb sh w
                then Some
                       (N.modulo
                         (N.mul m (N.pow (Npos (XO XH)) (N.of_nat sh)))
                         (N.pow (Npos (XO XH)) (N.of_nat w)))
                else None))
       else Some N0
  else obind (subn w (mul (S (S O)) k)) (fun unused ->
         let mask_bits = add (mul n_bases (S (S O))) unused in
         if Nat.ltb O mask_bits
         then obind (ones_shl c mask_bits) (fun m ->
                obind (subn w mask_bits) (fun sh ->
                  if Nat.ltb sh w
                  then Some
                         (N.modulo
                           (N.mul m (N.pow (Npos (XO XH)) (N.of_nat sh)))
                           (N.pow (Npos (XO XH)) (N.of_nat w)))
                  else None))
         else Some N0))

(** val bottom_mask : kcfg -> nat -> n option **)

let bottom_mask c n_bases =
  if Nat.ltb O n_bases then ones_shl c (mul n_bases (S (S O))) else Some N0

(** val k_get : kcfg -> nat -> wexp -> wexp option **)

let k_get c pos s =
  obind (addr c pos) (fun bit -> Some (And ((Shr (bit, s)), (k_msk c))))

(** val k_set_mut : kcfg -> nat -> wexp -> wexp -> wexp option **)

let k_set_mut c =
  let w = c.kW in
  (fun pos s v ->
  obind (addr c pos) (fun bit -> Some (Or ((And (s, (Not (w, (Shl (w, bit,
    (k_msk c))))))), (Shl (w, bit, v))))))

(** val k_set_slice_mut :
    kcfg -> nat -> nat -> wexp -> wexp -> wexp option **)

let k_set_slice_mut c =
  let w = c.kW in
  let k = c.kK in
  (fun pos n_bases s value ->
  if negb (Nat.leb (add pos n_bases) k)
  then None
  else let v_shift =
         if Nat.ltb w (S (S (S (S (S (S (S (S (S (S (S (S (S (S (S (S (S (S
              (S (S (S (S (S (S (S (S (S (S (S (S (S (S (S (S (S (S (S (S (S
              (S (S (S (S (S (S (S (S (S (S (S (S (S (S (S (S (S (S (S (S (S
              (S (S (S (S
              O))))))))))))))))))))))))))))))))))))))))))))))))))))))))))))))))
         then Shr
                ((sub (S (S (S (S (S (S (S (S (S (S (S (S (S (S (S (S (S (S
                   (S (S (S (S (S (S (S (S (S (S (S (S (S (S (S (S (S (S (S
                   (S (S (S (S (S (S (S (S (S (S (S (S (S (S (S (S (S (S (S
                   (S (S (S (S (S (S (S (S
                   O))))))))))))))))))))))))))))))))))))))))))))))))))))))))))))))))
                   w), value)
         else value
       in
       let v =
         if Nat.ltb (S (S (S (S (S (S (S (S (S (S (S (S (S (S (S (S (S (S (S
              (S (S (S (S (S (S (S (S (S (S (S (S (S (S (S (S (S (S (S (S (S
              (S (S (S (S (S (S (S (S (S (S (S (S (S (S (S (S (S (S (S (S (S
              (S (S (S
              O))))))))))))))))))))))))))))))))))))))))))))))))))))))))))))))))
              w
         then Shl (w,
                (sub w (S (S (S (S (S (S (S (S (S (S (S (S (S (S (S (S (S (S
                  (S (S (S (S (S (S (S (S (S (S (S (S (S (S (S (S (S (S (S (S
                  (S (S (S (S (S (S (S (S (S (S (S (S (S (S (S (S (S (S (S (S
                  (S (S (S (S (S (S
                  O))))))))))))))))))))))))))))))))))))))))))))))))))))))))))))))))),
                v_shift)
         else v_shift
       in
       obind (top_mask c pos) (fun tm ->
         obind (subn k (add pos n_bases)) (fun rest ->
           obind (bottom_mask c rest) (fun bm ->
             let mask0 = Or ((Const tm), (Const bm)) in
             obind
               (if c.kInt
                then Some (mul (S (S O)) pos)
                else obind (subn w (mul (S (S O)) k)) (fun un -> Some
                       (add (mul (S (S O)) pos) un))) (fun shift ->
               if negb (Nat.ltb shift w)
               then None
               else let value_slide = Shr (shift, v) in
                    Some (Or ((And (s, mask0)), (And (value_slide, (Not (w,
                    mask0)))))))))))

(** val k_rev2 : kcfg -> wexp -> wexp **)

let k_rev2 c =
  let w = c.kW in
  (fun s ->
  fold_left (fun r st ->
    let (y, m2) = st in
    let (y0, sr) = y in
    let (m1, sl) = y0 in
    Or ((Shl (w, sl, (And (r, (Const m1))))), (And ((Shr (sr, r)), (Const
    m2))))) (ladder_of w) s)

(** val k_rc : kcfg -> wexp -> wexp option **)

let k_rc c =
  let w = c.kW in
  let k = c.kK in
  (fun s ->
  let new0 = Not (w, (k_rev2 c s)) in
  if c.kInt
  then Some new0
  else if Nat.ltb k (Nat.div w (S (S O)))
       then let up = mul (S (S O)) (sub (Nat.div w (S (S O))) k) in
            if Nat.ltb up w then Some (Shr (up, new0)) else None
       else Some new0)

(** val k_extend_left : kcfg -> wexp -> wexp -> wexp option **)

let k_extend_left c =
  let w = c.kW in
  let k = c.kK in
  (fun s v ->
  if c.kInt
  then obind (subn k (S O)) (fun top -> Some (Or ((Shr ((S (S O)), s)), (Shl
         (w, (mul top (S (S O))), v)))))
  else k_set_mut c O (Shr ((S (S O)), s)) v)

(** val k_extend_right : kcfg -> wexp -> wexp -> wexp option **)

let k_extend_right c =
  let w = c.kW in
  let k = c.kK in
  (fun s v ->
  obind (subn k (S O)) (fun top ->
    if c.kInt
    then k_set_mut c top (Shl (w, (S (S O)), s)) v
    else obind (top_mask c O) (fun tm ->
           k_set_mut c top (And ((Shl (w, (S (S O)), s)), (Not (w, (Const
             tm))))) v)))

(** val k_hamming_word : kcfg -> wexp -> wexp -> wexp **)

let k_hamming_word c =
  let w = c.kW in
  (fun s o ->
  let d = Xor (s, o) in
  And ((Or (d, (Shr ((S O), d)))), (Const (lower_of_two w))))

(** val k_gc_word : kcfg -> wexp -> wexp option **)

let k_gc_word c =
  let w = c.kW in
  (fun s ->
  let mix = Xor ((Shr ((S O), s)), s) in
  if c.kInt
  then Some (And (mix, (Const (lower_of_two w))))
  else obind (top_mask c O) (fun tm -> Some (And ((And (mix, (Not (w, (Const
         tm))))), (Const (lower_of_two w))))))

(** val k_at_word : kcfg -> wexp -> wexp option **)

let k_at_word c =
  let w = c.kW in
  (fun s ->
  let mix = Not (w, (Xor ((Shr ((S O), s)), s))) in
  if c.kInt
  then Some (And (mix, (Const (lower_of_two w))))
  else obind (top_mask c O) (fun tm -> Some (And ((And (mix, (Not (w, (Const
         tm))))), (Const (lower_of_two w))))))

(** val env2 : n -> n -> nat -> n **)

let env2 a b = function
| O -> a
| S _ -> b

(** val run : wexp option -> n -> n -> n option **)

let run oe a b =
  obind oe (fun e -> if shifts_ok e then Some (evalN (env2 a b) e) else None)

(** val pos_popcount : positive -> n **)

let rec pos_popcount = function
| XI q -> N.add (Npos XH) (pos_popcount q)
| XO q -> pos_popcount q
| XH -> Npos XH

(** val popcount : n -> n **)

let popcount = function
| N0 -> N0
| Npos p -> pos_popcount p

(** val sV : kcfg -> wexp **)

let sV c =
  let w = c.kW in Var (O, w)

(** val get : kcfg -> n -> nat -> n option **)

let get c s pos =
  run (k_get c pos (sV c)) s N0

(** val set_mut : kcfg -> n -> nat -> n -> n option **)

let set_mut c s pos v =
  run
    (k_set_mut c pos (sV c) (Var ((S O), (S (S (S (S (S (S (S (S O)))))))))))
    s v

(** val set_slice_mut : kcfg -> n -> nat -> nat -> n -> n option **)

let set_slice_mut c s pos n0 value =
  run
    (k_set_slice_mut c pos n0 (sV c) (Var ((S O), (S (S (S (S (S (S (S (S (S
      (S (S (S (S (S (S (S (S (S (S (S (S (S (S (S (S (S (S (S (S (S (S (S (S
      (S (S (S (S (S (S (S (S (S (S (S (S (S (S (S (S (S (S (S (S (S (S (S (S
      (S (S (S (S (S (S (S
      O))))))))))))))))))))))))))))))))))))))))))))))))))))))))))))))))))) s
    value

(** val krc : kcfg -> n -> n option **)

let krc c s =
  run (k_rc c (sV c)) s N0

(** val kextend_left : kcfg -> n -> n -> n option **)

let kextend_left c s v =
  run
    (k_extend_left c (sV c) (Var ((S O), (S (S (S (S (S (S (S (S O)))))))))))
    s v

(** val kextend_right : kcfg -> n -> n -> n option **)

let kextend_right c s v =
  run
    (k_extend_right c (sV c) (Var ((S O), (S (S (S (S (S (S (S (S O)))))))))))
    s v

(** val hamming_dist : kcfg -> n -> n -> n option **)

let hamming_dist c =
  let w = c.kW in
  (fun s o ->
  obind (run (Some (k_hamming_word c (sV c) (Var ((S O), w)))) s o)
    (fun w0 -> Some (popcount w0)))

(** val kat_count : kcfg -> n -> n option **)

let kat_count c s =
  obind (run (k_at_word c (sV c)) s N0) (fun w -> Some (popcount w))

(** val kgc_count : kcfg -> n -> n option **)

let kgc_count c s =
  obind (run (k_gc_word c (sV c)) s N0) (fun w -> Some (popcount w))

(** val from_u64 : kcfg -> n -> n option **)

let from_u64 c =
  let w = c.kW in
  (fun v ->
  if N.ltb v
       (N.pow (Npos (XO XH))
         (N.of_nat
           (Nat.min w (S (S (S (S (S (S (S (S (S (S (S (S (S (S (S (S (S (S
             (S (S (S (S (S (S (S (S (S (S (S (S (S (S (S (S (S (S (S (S (S
             (S (S (S (S (S (S (S (S (S (S (S (S (S (S (S (S (S (S (S (S (S
             (S (S (S (S
             O)))))))))))))))))))))))))))))))))))))))))))))))))))))))))))))))))))
  then Some v
  else None)

(** val to_u64 : n -> n option **)

let to_u64 s =
  if N.ltb s (N.pow (Npos (XO XH)) (Npos (XO (XO (XO (XO (XO (XO XH))))))))
  then Some s
  else None

(** val kempty : n **)

let kempty =
  N0

(** val set_all : kcfg -> n -> nat -> n list -> n option **)

let rec set_all c s i = function
| [] -> Some s
| b :: rest -> obind (set_mut c s i b) (fun s' -> set_all c s' (S i) rest)

(** val from_bytes : kcfg -> n list -> n option **)

let from_bytes c =
  let k = c.kK in
  (fun bytes ->
  if Nat.ltb (length bytes) k
  then None
  else set_all c kempty O (firstn k bytes))

(** val b2b : n -> n **)

let b2b ch =
  nth (N.to_nat ch) tbl_base_to_bits N0

(** val from_ascii : kcfg -> n list -> n option **)

let from_ascii c =
  let k = c.kK in
  (fun bytes ->
  if Nat.ltb (length bytes) k
  then None
  else set_all c kempty O (map b2b (firstn k bytes)))

(** val bits_to_base : n -> n **)

let bits_to_base b =
  nth (N.to_nat b) tbl_bits_to_base (Npos (XO (XO (XO (XI (XI (XO XH)))))))

(** val get_all : kcfg -> n -> nat list -> n list option **)

let rec get_all c s = function
| [] -> Some []
| p :: ps ->
  obind (get c s p) (fun b -> obind (get_all c s ps) (fun r -> Some (b :: r)))

(** val to_bases : kcfg -> n -> n list option **)

let to_bases c =
  let k = c.kK in (fun s -> get_all c s (seq O k))

(** val to_string : kcfg -> n -> n list option **)

let to_string c s =
  obind (to_bases c s) (fun l -> Some (map bits_to_base l))

(** val ext_all : kcfg -> n -> n list -> n list option **)

let rec ext_all c s = function
| [] -> Some []
| b :: r ->
  obind (kextend_right c s b) (fun s' ->
    obind (ext_all c s' r) (fun t -> Some (s' :: t)))

(** val kmers_from_bytes : kcfg -> n list -> n list option **)

let kmers_from_bytes c =
  let k = c.kK in
  (fun l ->
  if Nat.ltb (length l) k
  then Some []
  else obind (set_all c kempty O (firstn k l)) (fun k0 ->
         obind (ext_all c k0 (skipn k l)) (fun t -> Some (k0 :: t))))

(** val kmers_from_ascii : kcfg -> n list -> n list option **)

let kmers_from_ascii c l =
  kmers_from_bytes c (map b2b l)

(** val min_rc_flip : kcfg -> n -> (n * bool) option **)

let min_rc_flip c s =
  obind (krc c s) (fun r -> Some
    (if N.ltb s r then (s, false) else (r, true)))

(** val min_rc : kcfg -> n -> n option **)

let min_rc c s =
  obind (krc c s) (fun r -> Some (if N.ltb s r then s else r))

(** val kis_palindrome : kcfg -> n -> bool option **)

let kis_palindrome c =
  let k = c.kK in
  (fun s -> obind (krc c s) (fun r -> Some ((&&) (Nat.even k) (N.eqb s r))))

(** val kextend : kcfg -> n -> n -> bool -> n option **)

let kextend c s v = function
| true -> kextend_right c s v
| false -> kextend_left c s v

(** val lane : n -> nat -> n **)

let lane s i =
  N.add (N.b2n (N.testbit s (N.of_nat (mul (S (S O)) i))))
    (N.mul (Npos (XO XH))
      (N.b2n (N.testbit s (N.of_nat (add (mul (S (S O)) i) (S O))))))

(** val decode : nat -> n -> dna **)

let decode k s =
  map (fun p -> lane s (sub (sub k (S O)) p)) (seq O k)

type kinit =
| IEmpty
| IFromU64 of n
| IFromBytes of n list
| IFromAscii of n list

type kop =
| OExtL of n
| OExtR of n
| ORc
| OSet of nat * n
| OSetSlice of nat * nat * n
| OMinRc

(** val kinit_run : kcfg -> kinit -> n option **)

let kinit_run c = function
| IEmpty -> Some kempty
| IFromU64 v -> from_u64 c v
| IFromBytes l -> from_bytes c l
| IFromAscii l -> from_ascii c l

(** val kstep : kcfg -> n -> kop -> n option **)

let kstep c s = function
| OExtL b -> kextend_left c s b
| OExtR b -> kextend_right c s b
| ORc -> krc c s
| OSet (pos, b) -> set_mut c s pos b
| OSetSlice (pos, n0, v) -> set_slice_mut c s pos n0 v
| OMinRc -> min_rc c s

(** val ksteps : kcfg -> n -> kop list -> n option **)

let rec ksteps c s = function
| [] -> Some s
| o :: r -> (match kstep c s o with
             | Some s' -> ksteps c s' r
             | None -> None)

(** val khist : kcfg -> kinit -> kop list -> n option **)

let khist c i ops =
  match kinit_run c i with
  | Some s -> ksteps c s ops
  | None -> None

(** val sinit : nat -> kinit -> dna **)

let sinit k = function
| IEmpty -> repeat N0 k
| IFromU64 v -> digits4 k v
| IFromBytes l -> firstn k l
| IFromAscii l -> map ascii_base (firstn k l)

(** val sstep : dna -> kop -> dna **)

let sstep l = function
| OExtL b -> extend_left l b
| OExtR b -> extend_right l b
| ORc -> rc l
| OSet (pos, b) -> upd pos l b
| OSetSlice (pos, n0, v) ->
  splice pos
    (firstn n0
      (digits4 (S (S (S (S (S (S (S (S (S (S (S (S (S (S (S (S (S (S (S (S (S
        (S (S (S (S (S (S (S (S (S (S (S O)))))))))))))))))))))))))))))))) v))
    l
| OMinRc -> canon l

(** val shist : nat -> kinit -> kop list -> dna **)

let shist k i ops =
  fold_left sstep ops (sinit k i)

(** val le_bytes : nat -> n -> n list **)

let rec le_bytes n0 x =
  match n0 with
  | O -> []
  | S m ->
    (N.modulo x (Npos (XO (XO (XO (XO (XO (XO (XO (XO XH)))))))))) :: 
      (le_bytes m (N.div x (Npos (XO (XO (XO (XO (XO (XO (XO (XO XH)))))))))))

(** val hash_feed : kcfg -> n -> n list **)

let hash_feed c s =
  le_bytes (Nat.div c.kW (S (S (S (S (S (S (S (S O))))))))) s

(** val k_eq : n -> n -> bool **)

let k_eq =
  N.eqb

(** val k_cmp : n -> n -> comparison **)

let k_cmp =
  N.compare

(** val insert_by : ('a1 -> 'a1 -> bool) -> 'a1 -> 'a1 list -> 'a1 list **)

let rec insert_by leb0 x l = match l with
| [] -> x :: []
| y :: r -> if leb0 x y then x :: l else y :: (insert_by leb0 x r)

(** val sort_by : ('a1 -> 'a1 -> bool) -> 'a1 list -> 'a1 list **)

let sort_by leb0 l =
  fold_right (insert_by leb0) [] l

(** val dedup_by : ('a1 -> 'a1 -> bool) -> 'a1 list -> 'a1 list **)

let rec dedup_by eqb2 = function
| [] -> []
| x :: r ->
  (match dedup_by eqb2 r with
   | [] -> x :: []
   | y :: t -> if eqb2 x y then y :: t else x :: (y :: t))

(** val cfg_of : n -> n -> kcfg **)

let cfg_of w k =
  mkc (N.to_nat w) (N.to_nat k)

type handler = val0 list -> val0 option

(** val lookup : string -> (string * handler) list -> handler option **)

let rec lookup op = function
| [] -> None
| p :: r -> let (n0, h) = p in if eqb1 op n0 then Some h else lookup op r

(** val v_kinit : val0 -> kinit option **)

let v_kinit = function
| VL l0 ->
  (match l0 with
   | [] -> None
   | v0 :: l1 ->
     (match v0 with
      | VN n0 ->
        (match n0 with
         | N0 -> (match l1 with
                  | [] -> Some IEmpty
                  | _ :: _ -> None)
         | Npos p ->
           (match p with
            | XI p0 ->
              (match p0 with
               | XH ->
                 (match l1 with
                  | [] -> None
                  | v1 :: l2 ->
                    (match v1 with
                     | VL l ->
                       (match l2 with
                        | [] ->
                          (match vlistN l with
                           | Some d -> Some (IFromAscii d)
                           | None -> None)
                        | _ :: _ -> None)
                     | _ -> None))
               | _ -> None)
            | XO p0 ->
              (match p0 with
               | XH ->
                 (match l1 with
                  | [] -> None
                  | v1 :: l2 ->
                    (match v1 with
                     | VL l ->
                       (match l2 with
                        | [] ->
                          (match vlistN l with
                           | Some d -> Some (IFromBytes d)
                           | None -> None)
                        | _ :: _ -> None)
                     | _ -> None))
               | _ -> None)
            | XH ->
              (match l1 with
               | [] -> None
               | v1 :: l ->
                 (match v1 with
                  | VN x ->
                    (match l with
                     | [] -> Some (IFromU64 x)
                     | _ :: _ -> None)
                  | _ -> None))))
      | _ -> None))
| _ -> None

(** val v_kop : val0 -> kop option **)

let v_kop = function
| VL l ->
  (match l with
   | [] -> None
   | v0 :: l0 ->
     (match v0 with
      | VN n0 ->
        (match n0 with
         | N0 ->
           (match l0 with
            | [] -> None
            | v1 :: l1 ->
              (match v1 with
               | VN b -> (match l1 with
                          | [] -> Some (OExtL b)
                          | _ :: _ -> None)
               | _ -> None))
         | Npos p ->
           (match p with
            | XI p0 ->
              (match p0 with
               | XI _ -> None
               | XO p1 ->
                 (match p1 with
                  | XH -> (match l0 with
                           | [] -> Some OMinRc
                           | _ :: _ -> None)
                  | _ -> None)
               | XH ->
                 (match l0 with
                  | [] -> None
                  | v1 :: l1 ->
                    (match v1 with
                     | VN pos ->
                       (match l1 with
                        | [] -> None
                        | v2 :: l2 ->
                          (match v2 with
                           | VN b ->
                             (match l2 with
                              | [] -> Some (OSet ((N.to_nat pos), b))
                              | _ :: _ -> None)
                           | _ -> None))
                     | _ -> None)))
            | XO p0 ->
              (match p0 with
               | XI _ -> None
               | XO p1 ->
                 (match p1 with
                  | XH ->
                    (match l0 with
                     | [] -> None
                     | v1 :: l1 ->
                       (match v1 with
                        | VN pos ->
                          (match l1 with
                           | [] -> None
                           | v2 :: l2 ->
                             (match v2 with
                              | VN n1 ->
                                (match l2 with
                                 | [] -> None
                                 | v3 :: l3 ->
                                   (match v3 with
                                    | VN x ->
                                      (match l3 with
                                       | [] ->
                                         Some (OSetSlice ((N.to_nat pos),
                                           (N.to_nat n1), x))
                                       | _ :: _ -> None)
                                    | _ -> None))
                              | _ -> None))
                        | _ -> None))
                  | _ -> None)
               | XH -> (match l0 with
                        | [] -> Some ORc
                        | _ :: _ -> None))
            | XH ->
              (match l0 with
               | [] -> None
               | v1 :: l1 ->
                 (match v1 with
                  | VN b ->
                    (match l1 with
                     | [] -> Some (OExtR b)
                     | _ :: _ -> None)
                  | _ -> None))))
      | _ -> None))
| _ -> None

(** val cmp_code : comparison -> n **)

let cmp_code = function
| Eq -> Npos XH
| Lt -> N0
| Gt -> Npos (XO XH)

(** val kmer_ops : kcfg -> (string * handler) list **)

let kmer_ops c =
  ((String ((Ascii (true, true, false, true, false, true, true, false)),
    (String ((Ascii (false, true, true, true, false, true, false, false)),
    (String ((Ascii (true, true, true, false, false, true, true, false)),
    (String ((Ascii (true, false, true, false, false, true, true, false)),
    (String ((Ascii (false, false, true, false, true, true, true, false)),
    EmptyString)))))))))), (fun a ->
    match a with
    | [] -> None
    | y :: l ->
      (match y with
       | VN s ->
         (match l with
          | [] -> None
          | v :: l0 ->
            (match v with
             | VN pos ->
               (match l0 with
                | [] -> Some (ofopt ofN (get c s (N.to_nat pos)))
                | _ :: _ -> None)
             | _ -> None))
       | _ -> None))) :: (((String ((Ascii (true, true, false, true, false,
    true, true, false)), (String ((Ascii (false, true, true, true, false,
    true, false, false)), (String ((Ascii (true, true, false, false, true,
    true, true, false)), (String ((Ascii (true, false, true, false, false,
    true, true, false)), (String ((Ascii (false, false, true, false, true,
    true, true, false)), (String ((Ascii (true, true, true, true, true,
    false, true, false)), (String ((Ascii (true, false, true, true, false,
    true, true, false)), (String ((Ascii (true, false, true, false, true,
    true, true, false)), (String ((Ascii (false, false, true, false, true,
    true, true, false)), EmptyString)))))))))))))))))), (fun a ->
    match a with
    | [] -> None
    | y :: l ->
      (match y with
       | VN s ->
         (match l with
          | [] -> None
          | v :: l0 ->
            (match v with
             | VN pos ->
               (match l0 with
                | [] -> None
                | v0 :: l1 ->
                  (match v0 with
                   | VN b ->
                     (match l1 with
                      | [] -> Some (ofopt ofN (set_mut c s (N.to_nat pos) b))
                      | _ :: _ -> None)
                   | _ -> None))
             | _ -> None))
       | _ -> None))) :: (((String ((Ascii (true, true, false, true, false,
    true, true, false)), (String ((Ascii (false, true, true, true, false,
    true, false, false)), (String ((Ascii (true, true, false, false, true,
    true, true, false)), (String ((Ascii (true, false, true, false, false,
    true, true, false)), (String ((Ascii (false, false, true, false, true,
    true, true, false)), (String ((Ascii (true, true, true, true, true,
    false, true, false)), (String ((Ascii (true, true, false, false, true,
    true, true, false)), (String ((Ascii (false, false, true, true, false,
    true, true, false)), (String ((Ascii (true, false, false, true, false,
    true, true, false)), (String ((Ascii (true, true, false, false, false,
    true, true, false)), (String ((Ascii (true, false, true, false, false,
    true, true, false)), (String ((Ascii (true, true, true, true, true,
    false, true, false)), (String ((Ascii (true, false, true, true, false,
    true, true, false)), (String ((Ascii (true, false, true, false, true,
    true, true, false)), (String ((Ascii (false, false, true, false, true,
    true, true, false)), EmptyString)))))))))))))))))))))))))))))), (fun a ->
    match a with
    | [] -> None
    | y :: l ->
      (match y with
       | VN s ->
         (match l with
          | [] -> None
          | v :: l0 ->
            (match v with
             | VN pos ->
               (match l0 with
                | [] -> None
                | v0 :: l1 ->
                  (match v0 with
                   | VN n0 ->
                     (match l1 with
                      | [] -> None
                      | v1 :: l2 ->
                        (match v1 with
                         | VN value ->
                           (match l2 with
                            | [] ->
                              Some
                                (ofopt ofN
                                  (set_slice_mut c s (N.to_nat pos)
                                    (N.to_nat n0) value))
                            | _ :: _ -> None)
                         | _ -> None))
                   | _ -> None))
             | _ -> None))
       | _ -> None))) :: (((String ((Ascii (true, true, false, true, false,
    true, true, false)), (String ((Ascii (false, true, true, true, false,
    true, false, false)), (String ((Ascii (false, true, false, false, true,
    true, true, false)), (String ((Ascii (true, true, false, false, false,
    true, true, false)), EmptyString)))))))), (fun a ->
    match a with
    | [] -> None
    | y :: l ->
      (match y with
       | VN s ->
         (match l with
          | [] -> Some (ofopt ofN (krc c s))
          | _ :: _ -> None)
       | _ -> None))) :: (((String ((Ascii (true, true, false, true, false,
    true, true, false)), (String ((Ascii (false, true, true, true, false,
    true, false, false)), (String ((Ascii (true, false, true, false, false,
    true, true, false)), (String ((Ascii (false, false, false, true, true,
    true, true, false)), (String ((Ascii (false, false, true, false, true,
    true, true, false)), (String ((Ascii (true, false, true, false, false,
    true, true, false)), (String ((Ascii (false, true, true, true, false,
    true, true, false)), (String ((Ascii (false, false, true, false, false,
    true, true, false)), (String ((Ascii (true, true, true, true, true,
    false, true, false)), (String ((Ascii (false, false, true, true, false,
    true, true, false)), (String ((Ascii (true, false, true, false, false,
    true, true, false)), (String ((Ascii (false, true, true, false, false,
    true, true, false)), (String ((Ascii (false, false, true, false, true,
    true, true, false)), EmptyString)))))))))))))))))))))))))), (fun a ->
    match a with
    | [] -> None
    | y :: l ->
      (match y with
       | VN s ->
         (match l with
          | [] -> None
          | v :: l0 ->
            (match v with
             | VN b ->
               (match l0 with
                | [] -> Some (ofopt ofN (kextend_left c s b))
                | _ :: _ -> None)
             | _ -> None))
       | _ -> None))) :: (((String ((Ascii (true, true, false, true, false,
    true, true, false)), (String ((Ascii (false, true, true, true, false,
    true, false, false)), (String ((Ascii (true, false, true, false, false,
    true, true, false)), (String ((Ascii (false, false, false, true, true,
    true, true, false)), (String ((Ascii (false, false, true, false, true,
    true, true, false)), (String ((Ascii (true, false, true, false, false,
    true, true, false)), (String ((Ascii (false, true, true, true, false,
    true, true, false)), (String ((Ascii (false, false, true, false, false,
    true, true, false)), (String ((Ascii (true, true, true, true, true,
    false, true, false)), (String ((Ascii (false, true, false, false, true,
    true, true, false)), (String ((Ascii (true, false, false, true, false,
    true, true, false)), (String ((Ascii (true, true, true, false, false,
    true, true, false)), (String ((Ascii (false, false, false, true, false,
    true, true, false)), (String ((Ascii (false, false, true, false, true,
    true, true, false)), EmptyString)))))))))))))))))))))))))))), (fun a ->
    match a with
    | [] -> None
    | y :: l ->
      (match y with
       | VN s ->
         (match l with
          | [] -> None
          | v :: l0 ->
            (match v with
             | VN b ->
               (match l0 with
                | [] -> Some (ofopt ofN (kextend_right c s b))
                | _ :: _ -> None)
             | _ -> None))
       | _ -> None))) :: (((String ((Ascii (true, true, false, true, false,
    true, true, false)), (String ((Ascii (false, true, true, true, false,
    true, false, false)), (String ((Ascii (false, false, false, true, false,
    true, true, false)), (String ((Ascii (true, false, false, false, false,
    true, true, false)), (String ((Ascii (true, false, true, true, false,
    true, true, false)), (String ((Ascii (true, false, true, true, false,
    true, true, false)), (String ((Ascii (true, false, false, true, false,
    true, true, false)), (String ((Ascii (false, true, true, true, false,
    true, true, false)), (String ((Ascii (true, true, true, false, false,
    true, true, false)), (String ((Ascii (true, true, true, true, true,
    false, true, false)), (String ((Ascii (false, false, true, false, false,
    true, true, false)), (String ((Ascii (true, false, false, true, false,
    true, true, false)), (String ((Ascii (true, true, false, false, true,
    true, true, false)), (String ((Ascii (false, false, true, false, true,
    true, true, false)), EmptyString)))))))))))))))))))))))))))), (fun a ->
    match a with
    | [] -> None
    | y :: l ->
      (match y with
       | VN s ->
         (match l with
          | [] -> None
          | v :: l0 ->
            (match v with
             | VN o ->
               (match l0 with
                | [] -> Some (ofopt ofN (hamming_dist c s o))
                | _ :: _ -> None)
             | _ -> None))
       | _ -> None))) :: (((String ((Ascii (true, true, false, true, false,
    true, true, false)), (String ((Ascii (false, true, true, true, false,
    true, false, false)), (String ((Ascii (true, false, false, false, false,
    true, true, false)), (String ((Ascii (false, false, true, false, true,
    true, true, false)), (String ((Ascii (true, true, true, true, true,
    false, true, false)), (String ((Ascii (true, true, false, false, false,
    true, true, false)), (String ((Ascii (true, true, true, true, false,
    true, true, false)), (String ((Ascii (true, false, true, false, true,
    true, true, false)), (String ((Ascii (false, true, true, true, false,
    true, true, false)), (String ((Ascii (false, false, true, false, true,
    true, true, false)), EmptyString)))))))))))))))))))), (fun a ->
    match a with
    | [] -> None
    | y :: l ->
      (match y with
       | VN s ->
         (match l with
          | [] -> Some (ofopt ofN (kat_count c s))
          | _ :: _ -> None)
       | _ -> None))) :: (((String ((Ascii (true, true, false, true, false,
    true, true, false)), (String ((Ascii (false, true, true, true, false,
    true, false, false)), (String ((Ascii (true, true, true, false, false,
    true, true, false)), (String ((Ascii (true, true, false, false, false,
    true, true, false)), (String ((Ascii (true, true, true, true, true,
    false, true, false)), (String ((Ascii (true, true, false, false, false,
    true, true, false)), (String ((Ascii (true, true, true, true, false,
    true, true, false)), (String ((Ascii (true, false, true, false, true,
    true, true, false)), (String ((Ascii (false, true, true, true, false,
    true, true, false)), (String ((Ascii (false, false, true, false, true,
    true, true, false)), EmptyString)))))))))))))))))))), (fun a ->
    match a with
    | [] -> None
    | y :: l ->
      (match y with
       | VN s ->
         (match l with
          | [] -> Some (ofopt ofN (kgc_count c s))
          | _ :: _ -> None)
       | _ -> None))) :: (((String ((Ascii (true, true, false, true, false,
    true, true, false)), (String ((Ascii (false, true, true, true, false,
    true, false, false)), (String ((Ascii (false, true, true, false, false,
    true, true, false)), (String ((Ascii (false, true, false, false, true,
    true, true, false)), (String ((Ascii (true, true, true, true, false,
    true, true, false)), (String ((Ascii (true, false, true, true, false,
    true, true, false)), (String ((Ascii (true, true, true, true, true,
    false, true, false)), (String ((Ascii (true, false, true, false, true,
    true, true, false)), (String ((Ascii (false, true, true, false, true,
    true, false, false)), (String ((Ascii (false, false, true, false, true,
    true, false, false)), EmptyString)))))))))))))))))))), (fun a ->
    match a with
    | [] -> None
    | y :: l ->
      (match y with
       | VN x ->
         (match l with
          | [] -> Some (ofopt ofN (from_u64 c x))
          | _ :: _ -> None)
       | _ -> None))) :: (((String ((Ascii (true, true, false, true, false,
    true, true, false)), (String ((Ascii (false, true, true, true, false,
    true, false, false)), (String ((Ascii (false, false, true, false, true,
    true, true, false)), (String ((Ascii (true, true, true, true, false,
    true, true, false)), (String ((Ascii (true, true, true, true, true,
    false, true, false)), (String ((Ascii (true, false, true, false, true,
    true, true, false)), (String ((Ascii (false, true, true, false, true,
    true, false, false)), (String ((Ascii (false, false, true, false, true,
    true, false, false)), EmptyString)))))))))))))))), (fun a ->
    match a with
    | [] -> None
    | y :: l ->
      (match y with
       | VN s ->
         (match l with
          | [] -> Some (ofopt ofN (to_u64 s))
          | _ :: _ -> None)
       | _ -> None))) :: (((String ((Ascii (true, true, false, true, false,
    true, true, false)), (String ((Ascii (false, true, true, true, false,
    true, false, false)), (String ((Ascii (false, true, true, false, false,
    true, true, false)), (String ((Ascii (false, true, false, false, true,
    true, true, false)), (String ((Ascii (true, true, true, true, false,
    true, true, false)), (String ((Ascii (true, false, true, true, false,
    true, true, false)), (String ((Ascii (true, true, true, true, true,
    false, true, false)), (String ((Ascii (false, true, false, false, false,
    true, true, false)), (String ((Ascii (true, false, false, true, true,
    true, true, false)), (String ((Ascii (false, false, true, false, true,
    true, true, false)), (String ((Ascii (true, false, true, false, false,
    true, true, false)), (String ((Ascii (true, true, false, false, true,
    true, true, false)), EmptyString)))))))))))))))))))))))), (fun a ->
    match a with
    | [] -> None
    | y :: l0 ->
      (match y with
       | VL l ->
         (match l0 with
          | [] ->
            (match vlistN l with
             | Some bs -> Some (ofopt ofN (from_bytes c bs))
             | None -> None)
          | _ :: _ -> None)
       | _ -> None))) :: (((String ((Ascii (true, true, false, true, false,
    true, true, false)), (String ((Ascii (false, true, true, true, false,
    true, false, false)), (String ((Ascii (false, true, true, false, false,
    true, true, false)), (String ((Ascii (false, true, false, false, true,
    true, true, false)), (String ((Ascii (true, true, true, true, false,
    true, true, false)), (String ((Ascii (true, false, true, true, false,
    true, true, false)), (String ((Ascii (true, true, true, true, true,
    false, true, false)), (String ((Ascii (true, false, false, false, false,
    true, true, false)), (String ((Ascii (true, true, false, false, true,
    true, true, false)), (String ((Ascii (true, true, false, false, false,
    true, true, false)), (String ((Ascii (true, false, false, true, false,
    true, true, false)), (String ((Ascii (true, false, false, true, false,
    true, true, false)), EmptyString)))))))))))))))))))))))), (fun a ->
    match a with
    | [] -> None
    | y :: l0 ->
      (match y with
       | VL l ->
         (match l0 with
          | [] ->
            (match vlistN l with
             | Some bs -> Some (ofopt ofN (from_ascii c bs))
             | None -> None)
          | _ :: _ -> None)
       | _ -> None))) :: (((String ((Ascii (true, true, false, true, false,
    true, true, false)), (String ((Ascii (false, true, true, true, false,
    true, false, false)), (String ((Ascii (false, false, true, false, true,
    true, true, false)), (String ((Ascii (true, true, true, true, false,
    true, true, false)), (String ((Ascii (true, true, true, true, true,
    false, true, false)), (String ((Ascii (true, true, false, false, true,
    true, true, false)), (String ((Ascii (false, false, true, false, true,
    true, true, false)), (String ((Ascii (false, true, false, false, true,
    true, true, false)), (String ((Ascii (true, false, false, true, false,
    true, true, false)), (String ((Ascii (false, true, true, true, false,
    true, true, false)), (String ((Ascii (true, true, true, false, false,
    true, true, false)), EmptyString)))))))))))))))))))))), (fun a ->
    match a with
    | [] -> None
    | y :: l ->
      (match y with
       | VN s ->
         (match l with
          | [] -> Some (ofopt ofNs (to_string c s))
          | _ :: _ -> None)
       | _ -> None))) :: (((String ((Ascii (true, true, false, true, false,
    true, true, false)), (String ((Ascii (false, true, true, true, false,
    true, false, false)), (String ((Ascii (false, false, true, false, true,
    true, true, false)), (String ((Ascii (true, true, true, true, false,
    true, true, false)), (String ((Ascii (true, true, true, true, true,
    false, true, false)), (String ((Ascii (false, true, false, false, false,
    true, true, false)), (String ((Ascii (true, false, false, false, false,
    true, true, false)), (String ((Ascii (true, true, false, false, true,
    true, true, false)), (String ((Ascii (true, false, true, false, false,
    true, true, false)), (String ((Ascii (true, true, false, false, true,
    true, true, false)), EmptyString)))))))))))))))))))), (fun a ->
    match a with
    | [] -> None
    | y :: l ->
      (match y with
       | VN s ->
         (match l with
          | [] -> Some (ofopt ofNs (to_bases c s))
          | _ :: _ -> None)
       | _ -> None))) :: (((String ((Ascii (true, true, false, true, false,
    true, true, false)), (String ((Ascii (false, true, true, true, false,
    true, false, false)), (String ((Ascii (true, true, false, true, false,
    true, true, false)), (String ((Ascii (true, false, true, true, false,
    true, true, false)), (String ((Ascii (true, false, true, false, false,
    true, true, false)), (String ((Ascii (false, true, false, false, true,
    true, true, false)), (String ((Ascii (true, true, false, false, true,
    true, true, false)), (String ((Ascii (true, true, true, true, true,
    false, true, false)), (String ((Ascii (false, true, true, false, false,
    true, true, false)), (String ((Ascii (false, true, false, false, true,
    true, true, false)), (String ((Ascii (true, true, true, true, false,
    true, true, false)), (String ((Ascii (true, false, true, true, false,
    true, true, false)), (String ((Ascii (true, true, true, true, true,
    false, true, false)), (String ((Ascii (false, true, false, false, false,
    true, true, false)), (String ((Ascii (true, false, false, true, true,
    true, true, false)), (String ((Ascii (false, false, true, false, true,
    true, true, false)), (String ((Ascii (true, false, true, false, false,
    true, true, false)), (String ((Ascii (true, true, false, false, true,
    true, true, false)), EmptyString)))))))))))))))))))))))))))))))))))),
    (fun a ->
    match a with
    | [] -> None
    | y :: l0 ->
      (match y with
       | VL l ->
         (match l0 with
          | [] ->
            (match vlistN l with
             | Some bs -> Some (ofopt ofNs (kmers_from_bytes c bs))
             | None -> None)
          | _ :: _ -> None)
       | _ -> None))) :: (((String ((Ascii (true, true, false, true, false,
    true, true, false)), (String ((Ascii (false, true, true, true, false,
    true, false, false)), (String ((Ascii (true, true, false, true, false,
    true, true, false)), (String ((Ascii (true, false, true, true, false,
    true, true, false)), (String ((Ascii (true, false, true, false, false,
    true, true, false)), (String ((Ascii (false, true, false, false, true,
    true, true, false)), (String ((Ascii (true, true, false, false, true,
    true, true, false)), (String ((Ascii (true, true, true, true, true,
    false, true, false)), (String ((Ascii (false, true, true, false, false,
    true, true, false)), (String ((Ascii (false, true, false, false, true,
    true, true, false)), (String ((Ascii (true, true, true, true, false,
    true, true, false)), (String ((Ascii (true, false, true, true, false,
    true, true, false)), (String ((Ascii (true, true, true, true, true,
    false, true, false)), (String ((Ascii (true, false, false, false, false,
    true, true, false)), (String ((Ascii (true, true, false, false, true,
    true, true, false)), (String ((Ascii (true, true, false, false, false,
    true, true, false)), (String ((Ascii (true, false, false, true, false,
    true, true, false)), (String ((Ascii (true, false, false, true, false,
    true, true, false)), EmptyString)))))))))))))))))))))))))))))))))))),
    (fun a ->
    match a with
    | [] -> None
    | y :: l0 ->
      (match y with
       | VL l ->
         (match l0 with
          | [] ->
            (match vlistN l with
             | Some bs -> Some (ofopt ofNs (kmers_from_ascii c bs))
             | None -> None)
          | _ :: _ -> None)
       | _ -> None))) :: (((String ((Ascii (true, true, false, true, false,
    true, true, false)), (String ((Ascii (false, true, true, true, false,
    true, false, false)), (String ((Ascii (true, false, true, true, false,
    true, true, false)), (String ((Ascii (true, false, false, true, false,
    true, true, false)), (String ((Ascii (false, true, true, true, false,
    true, true, false)), (String ((Ascii (true, true, true, true, true,
    false, true, false)), (String ((Ascii (false, true, false, false, true,
    true, true, false)), (String ((Ascii (true, true, false, false, false,
    true, true, false)), (String ((Ascii (true, true, true, true, true,
    false, true, false)), (String ((Ascii (false, true, true, false, false,
    true, true, false)), (String ((Ascii (false, false, true, true, false,
    true, true, false)), (String ((Ascii (true, false, false, true, false,
    true, true, false)), (String ((Ascii (false, false, false, false, true,
    true, true, false)), EmptyString)))))))))))))))))))))))))), (fun a ->
    match a with
    | [] -> None
    | y :: l ->
      (match y with
       | VN s ->
         (match l with
          | [] ->
            Some
              (ofopt (fun p -> VL ((VN (fst p)) :: ((ofbool (snd p)) :: [])))
                (min_rc_flip c s))
          | _ :: _ -> None)
       | _ -> None))) :: (((String ((Ascii (true, true, false, true, false,
    true, true, false)), (String ((Ascii (false, true, true, true, false,
    true, false, false)), (String ((Ascii (true, false, true, true, false,
    true, true, false)), (String ((Ascii (true, false, false, true, false,
    true, true, false)), (String ((Ascii (false, true, true, true, false,
    true, true, false)), (String ((Ascii (true, true, true, true, true,
    false, true, false)), (String ((Ascii (false, true, false, false, true,
    true, true, false)), (String ((Ascii (true, true, false, false, false,
    true, true, false)), EmptyString)))))))))))))))), (fun a ->
    match a with
    | [] -> None
    | y :: l ->
      (match y with
       | VN s ->
         (match l with
          | [] -> Some (ofopt ofN (min_rc c s))
          | _ :: _ -> None)
       | _ -> None))) :: (((String ((Ascii (true, true, false, true, false,
    true, true, false)), (String ((Ascii (false, true, true, true, false,
    true, false, false)), (String ((Ascii (true, false, false, true, false,
    true, true, false)), (String ((Ascii (true, true, false, false, true,
    true, true, false)), (String ((Ascii (true, true, true, true, true,
    false, true, false)), (String ((Ascii (false, false, false, false, true,
    true, true, false)), (String ((Ascii (true, false, false, false, false,
    true, true, false)), (String ((Ascii (false, false, true, true, false,
    true, true, false)), (String ((Ascii (true, false, false, true, false,
    true, true, false)), (String ((Ascii (false, true, true, true, false,
    true, true, false)), (String ((Ascii (false, false, true, false, false,
    true, true, false)), (String ((Ascii (false, true, false, false, true,
    true, true, false)), (String ((Ascii (true, true, true, true, false,
    true, true, false)), (String ((Ascii (true, false, true, true, false,
    true, true, false)), (String ((Ascii (true, false, true, false, false,
    true, true, false)), EmptyString)))))))))))))))))))))))))))))), (fun a ->
    match a with
    | [] -> None
    | y :: l ->
      (match y with
       | VN s ->
         (match l with
          | [] -> Some (ofopt ofbool (kis_palindrome c s))
          | _ :: _ -> None)
       | _ -> None))) :: (((String ((Ascii (true, true, false, true, false,
    true, true, false)), (String ((Ascii (false, true, true, true, false,
    true, false, false)), (String ((Ascii (true, false, true, false, false,
    true, true, false)), (String ((Ascii (false, false, false, true, true,
    true, true, false)), (String ((Ascii (false, false, true, false, true,
    true, true, false)), (String ((Ascii (true, false, true, false, false,
    true, true, false)), (String ((Ascii (false, true, true, true, false,
    true, true, false)), (String ((Ascii (false, false, true, false, false,
    true, true, false)), EmptyString)))))))))))))))), (fun a ->
    match a with
    | [] -> None
    | y :: l ->
      (match y with
       | VN s ->
         (match l with
          | [] -> None
          | v :: l0 ->
            (match v with
             | VN b ->
               (match l0 with
                | [] -> None
                | v0 :: l1 ->
                  (match v0 with
                   | VN d ->
                     (match l1 with
                      | [] ->
                        Some (ofopt ofN (kextend c s b (negb (N.eqb d N0))))
                      | _ :: _ -> None)
                   | _ -> None))
             | _ -> None))
       | _ -> None))) :: (((String ((Ascii (true, true, false, true, false,
    true, true, false)), (String ((Ascii (false, true, true, true, false,
    true, false, false)), (String ((Ascii (false, false, false, true, false,
    true, true, false)), (String ((Ascii (true, false, false, true, false,
    true, true, false)), (String ((Ascii (true, true, false, false, true,
    true, true, false)), (String ((Ascii (false, false, true, false, true,
    true, true, false)), EmptyString)))))))))))), (fun a ->
    match a with
    | [] -> None
    | i :: l ->
      (match l with
       | [] -> None
       | y :: l0 ->
         (match y with
          | VL ops ->
            (match l0 with
             | [] ->
               (match v_kinit i with
                | Some i' ->
                  (match omap v_kop ops with
                   | Some ops' -> Some (ofopt ofN (khist c i' ops'))
                   | None -> None)
                | None -> None)
             | _ :: _ -> None)
          | _ -> None)))) :: (((String ((Ascii (true, true, false, true,
    false, true, true, false)), (String ((Ascii (false, true, true, true,
    false, true, false, false)), (String ((Ascii (false, false, false, true,
    false, true, true, false)), (String ((Ascii (true, false, false, false,
    false, true, true, false)), (String ((Ascii (true, true, false, false,
    true, true, true, false)), (String ((Ascii (false, false, false, true,
    false, true, true, false)), (String ((Ascii (true, true, true, true,
    true, false, true, false)), (String ((Ascii (false, true, true, false,
    false, true, true, false)), (String ((Ascii (true, false, true, false,
    false, true, true, false)), (String ((Ascii (true, false, true, false,
    false, true, true, false)), (String ((Ascii (false, false, true, false,
    false, true, true, false)), EmptyString)))))))))))))))))))))), (fun a ->
    match a with
    | [] -> None
    | y :: l ->
      (match y with
       | VN s ->
         (match l with
          | [] -> Some (ofNs (hash_feed c s))
          | _ :: _ -> None)
       | _ -> None))) :: (((String ((Ascii (true, true, false, true, false,
    true, true, false)), (String ((Ascii (false, true, true, true, false,
    true, false, false)), (String ((Ascii (true, true, false, false, false,
    true, true, false)), (String ((Ascii (true, false, true, true, false,
    true, true, false)), (String ((Ascii (false, false, false, false, true,
    true, true, false)), EmptyString)))))))))), (fun a ->
    match a with
    | [] -> None
    | y :: l ->
      (match y with
       | VN s1 ->
         (match l with
          | [] -> None
          | v :: l0 ->
            (match v with
             | VN s2 ->
               (match l0 with
                | [] ->
                  Some (VL ((ofbool (k_eq s1 s2)) :: ((VN
                    (cmp_code (k_cmp s1 s2))) :: [])))
                | _ :: _ -> None)
             | _ -> None))
       | _ -> None))) :: (((String ((Ascii (true, true, false, true, false,
    true, true, false)), (String ((Ascii (false, true, true, true, false,
    true, false, false)), (String ((Ascii (false, false, true, false, false,
    true, true, false)), (String ((Ascii (true, false, true, false, false,
    true, true, false)), (String ((Ascii (true, true, false, false, false,
    true, true, false)), (String ((Ascii (true, true, true, true, false,
    true, true, false)), (String ((Ascii (false, false, true, false, false,
    true, true, false)), (String ((Ascii (true, false, true, false, false,
    true, true, false)), EmptyString)))))))))))))))), (fun a ->
    match a with
    | [] -> None
    | y :: l ->
      (match y with
       | VN s ->
         (match l with
          | [] -> Some (ofNs (decode c.kK s))
          | _ :: _ -> None)
       | _ -> None))) :: []))))))))))))))))))))))))

(** val d_kmer : string -> val0 -> val0 option **)

let d_kmer op = function
| VL l ->
  (match l with
   | [] -> None
   | v0 :: l0 ->
     (match v0 with
      | VN w ->
        (match l0 with
         | [] -> None
         | v1 :: rest ->
           (match v1 with
            | VN k ->
              (match lookup op (kmer_ops (cfg_of w k)) with
               | Some h -> h rest
               | None -> None)
            | _ -> None))
      | _ -> None))
| _ -> None

(** val spec_kmer_ops : nat -> (string * handler) list **)

let spec_kmer_ops k =
  ((String ((Ascii (true, true, false, false, true, true, true, false)),
    (String ((Ascii (false, true, true, true, false, true, false, false)),
    (String ((Ascii (true, true, false, true, false, true, true, false)),
    (String ((Ascii (false, true, true, true, false, true, false, false)),
    (String ((Ascii (true, true, true, false, false, true, true, false)),
    (String ((Ascii (true, false, true, false, false, true, true, false)),
    (String ((Ascii (false, false, true, false, true, true, true, false)),
    EmptyString)))))))))))))), (fun a ->
    match a with
    | [] -> None
    | y :: l0 ->
      (match y with
       | VL l ->
         (match l0 with
          | [] -> None
          | v :: l1 ->
            (match v with
             | VN pos ->
               (match l1 with
                | [] ->
                  (match vlistN l with
                   | Some d -> Some (VN (nth (N.to_nat pos) d N0))
                   | None -> None)
                | _ :: _ -> None)
             | _ -> None))
       | _ -> None))) :: (((String ((Ascii (true, true, false, false, true,
    true, true, false)), (String ((Ascii (false, true, true, true, false,
    true, false, false)), (String ((Ascii (true, true, false, true, false,
    true, true, false)), (String ((Ascii (false, true, true, true, false,
    true, false, false)), (String ((Ascii (true, true, false, false, true,
    true, true, false)), (String ((Ascii (true, false, true, false, false,
    true, true, false)), (String ((Ascii (false, false, true, false, true,
    true, true, false)), (String ((Ascii (true, true, true, true, true,
    false, true, false)), (String ((Ascii (true, false, true, true, false,
    true, true, false)), (String ((Ascii (true, false, true, false, true,
    true, true, false)), (String ((Ascii (false, false, true, false, true,
    true, true, false)), EmptyString)))))))))))))))))))))), (fun a ->
    match a with
    | [] -> None
    | y :: l0 ->
      (match y with
       | VL l ->
         (match l0 with
          | [] -> None
          | v :: l1 ->
            (match v with
             | VN pos ->
               (match l1 with
                | [] -> None
                | v0 :: l2 ->
                  (match v0 with
                   | VN b ->
                     (match l2 with
                      | [] ->
                        (match vlistN l with
                         | Some d -> Some (ofNs (upd (N.to_nat pos) d b))
                         | None -> None)
                      | _ :: _ -> None)
                   | _ -> None))
             | _ -> None))
       | _ -> None))) :: (((String ((Ascii (true, true, false, false, true,
    true, true, false)), (String ((Ascii (false, true, true, true, false,
    true, false, false)), (String ((Ascii (true, true, false, true, false,
    true, true, false)), (String ((Ascii (false, true, true, true, false,
    true, false, false)), (String ((Ascii (true, true, false, false, true,
    true, true, false)), (String ((Ascii (true, false, true, false, false,
    true, true, false)), (String ((Ascii (false, false, true, false, true,
    true, true, false)), (String ((Ascii (true, true, true, true, true,
    false, true, false)), (String ((Ascii (true, true, false, false, true,
    true, true, false)), (String ((Ascii (false, false, true, true, false,
    true, true, false)), (String ((Ascii (true, false, false, true, false,
    true, true, false)), (String ((Ascii (true, true, false, false, false,
    true, true, false)), (String ((Ascii (true, false, true, false, false,
    true, true, false)), (String ((Ascii (true, true, true, true, true,
    false, true, false)), (String ((Ascii (true, false, true, true, false,
    true, true, false)), (String ((Ascii (true, false, true, false, true,
    true, true, false)), (String ((Ascii (false, false, true, false, true,
    true, true, false)), EmptyString)))))))))))))))))))))))))))))))))),
    (fun a ->
    match a with
    | [] -> None
    | y :: l0 ->
      (match y with
       | VL l ->
         (match l0 with
          | [] -> None
          | v :: l1 ->
            (match v with
             | VN pos ->
               (match l1 with
                | [] -> None
                | v0 :: l2 ->
                  (match v0 with
                   | VN n0 ->
                     (match l2 with
                      | [] -> None
                      | v1 :: l3 ->
                        (match v1 with
                         | VN value ->
                           (match l3 with
                            | [] ->
                              (match vlistN l with
                               | Some d ->
                                 Some
                                   (ofNs
                                     (splice (N.to_nat pos)
                                       (firstn (N.to_nat n0)
                                         (digits4 (S (S (S (S (S (S (S (S (S
                                           (S (S (S (S (S (S (S (S (S (S (S
                                           (S (S (S (S (S (S (S (S (S (S (S
                                           (S
                                           O))))))))))))))))))))))))))))))))
                                           value)) d))
                               | None -> None)
                            | _ :: _ -> None)
                         | _ -> None))
                   | _ -> None))
             | _ -> None))
       | _ -> None))) :: (((String ((Ascii (true, true, false, false, true,
    true, true, false)), (String ((Ascii (false, true, true, true, false,
    true, false, false)), (String ((Ascii (true, true, false, true, false,
    true, true, false)), (String ((Ascii (false, true, true, true, false,
    true, false, false)), (String ((Ascii (false, true, false, false, true,
    true, true, false)), (String ((Ascii (true, true, false, false, false,
    true, true, false)), EmptyString)))))))))))), (fun a ->
    match a with
    | [] -> None
    | y :: l0 ->
      (match y with
       | VL l ->
         (match l0 with
          | [] ->
            (match vlistN l with
             | Some d -> Some (ofNs (rc d))
             | None -> None)
          | _ :: _ -> None)
       | _ -> None))) :: (((String ((Ascii (true, true, false, false, true,
    true, true, false)), (String ((Ascii (false, true, true, true, false,
    true, false, false)), (String ((Ascii (true, true, false, true, false,
    true, true, false)), (String ((Ascii (false, true, true, true, false,
    true, false, false)), (String ((Ascii (true, false, true, false, false,
    true, true, false)), (String ((Ascii (false, false, false, true, true,
    true, true, false)), (String ((Ascii (false, false, true, false, true,
    true, true, false)), (String ((Ascii (true, false, true, false, false,
    true, true, false)), (String ((Ascii (false, true, true, true, false,
    true, true, false)), (String ((Ascii (false, false, true, false, false,
    true, true, false)), (String ((Ascii (true, true, true, true, true,
    false, true, false)), (String ((Ascii (false, false, true, true, false,
    true, true, false)), (String ((Ascii (true, false, true, false, false,
    true, true, false)), (String ((Ascii (false, true, true, false, false,
    true, true, false)), (String ((Ascii (false, false, true, false, true,
    true, true, false)), EmptyString)))))))))))))))))))))))))))))), (fun a ->
    match a with
    | [] -> None
    | y :: l0 ->
      (match y with
       | VL l ->
         (match l0 with
          | [] -> None
          | v :: l1 ->
            (match v with
             | VN b ->
               (match l1 with
                | [] ->
                  (match vlistN l with
                   | Some d -> Some (ofNs (extend_left d b))
                   | None -> None)
                | _ :: _ -> None)
             | _ -> None))
       | _ -> None))) :: (((String ((Ascii (true, true, false, false, true,
    true, true, false)), (String ((Ascii (false, true, true, true, false,
    true, false, false)), (String ((Ascii (true, true, false, true, false,
    true, true, false)), (String ((Ascii (false, true, true, true, false,
    true, false, false)), (String ((Ascii (true, false, true, false, false,
    true, true, false)), (String ((Ascii (false, false, false, true, true,
    true, true, false)), (String ((Ascii (false, false, true, false, true,
    true, true, false)), (String ((Ascii (true, false, true, false, false,
    true, true, false)), (String ((Ascii (false, true, true, true, false,
    true, true, false)), (String ((Ascii (false, false, true, false, false,
    true, true, false)), (String ((Ascii (true, true, true, true, true,
    false, true, false)), (String ((Ascii (false, true, false, false, true,
    true, true, false)), (String ((Ascii (true, false, false, true, false,
    true, true, false)), (String ((Ascii (true, true, true, false, false,
    true, true, false)), (String ((Ascii (false, false, false, true, false,
    true, true, false)), (String ((Ascii (false, false, true, false, true,
    true, true, false)), EmptyString)))))))))))))))))))))))))))))))),
    (fun a ->
    match a with
    | [] -> None
    | y :: l0 ->
      (match y with
       | VL l ->
         (match l0 with
          | [] -> None
          | v :: l1 ->
            (match v with
             | VN b ->
               (match l1 with
                | [] ->
                  (match vlistN l with
                   | Some d -> Some (ofNs (extend_right d b))
                   | None -> None)
                | _ :: _ -> None)
             | _ -> None))
       | _ -> None))) :: (((String ((Ascii (true, true, false, false, true,
    true, true, false)), (String ((Ascii (false, true, true, true, false,
    true, false, false)), (String ((Ascii (true, true, false, true, false,
    true, true, false)), (String ((Ascii (false, true, true, true, false,
    true, false, false)), (String ((Ascii (false, false, false, true, false,
    true, true, false)), (String ((Ascii (true, false, false, false, false,
    true, true, false)), (String ((Ascii (true, false, true, true, false,
    true, true, false)), (String ((Ascii (true, false, true, true, false,
    true, true, false)), (String ((Ascii (true, false, false, true, false,
    true, true, false)), (String ((Ascii (false, true, true, true, false,
    true, true, false)), (String ((Ascii (true, true, true, false, false,
    true, true, false)), (String ((Ascii (true, true, true, true, true,
    false, true, false)), (String ((Ascii (false, false, true, false, false,
    true, true, false)), (String ((Ascii (true, false, false, true, false,
    true, true, false)), (String ((Ascii (true, true, false, false, true,
    true, true, false)), (String ((Ascii (false, false, true, false, true,
    true, true, false)), EmptyString)))))))))))))))))))))))))))))))),
    (fun a ->
    match a with
    | [] -> None
    | y :: l0 ->
      (match y with
       | VL l ->
         (match l0 with
          | [] -> None
          | v :: l1 ->
            (match v with
             | VL m ->
               (match l1 with
                | [] ->
                  (match vlistN l with
                   | Some d ->
                     (match vlistN m with
                      | Some e -> Some (VN (count_diff d e))
                      | None -> None)
                   | None -> None)
                | _ :: _ -> None)
             | _ -> None))
       | _ -> None))) :: (((String ((Ascii (true, true, false, false, true,
    true, true, false)), (String ((Ascii (false, true, true, true, false,
    true, false, false)), (String ((Ascii (true, true, false, true, false,
    true, true, false)), (String ((Ascii (false, true, true, true, false,
    true, false, false)), (String ((Ascii (true, false, false, false, false,
    true, true, false)), (String ((Ascii (false, false, true, false, true,
    true, true, false)), (String ((Ascii (true, true, true, true, true,
    false, true, false)), (String ((Ascii (true, true, false, false, false,
    true, true, false)), (String ((Ascii (true, true, true, true, false,
    true, true, false)), (String ((Ascii (true, false, true, false, true,
    true, true, false)), (String ((Ascii (false, true, true, true, false,
    true, true, false)), (String ((Ascii (false, false, true, false, true,
    true, true, false)), EmptyString)))))))))))))))))))))))), (fun a ->
    match a with
    | [] -> None
    | y :: l0 ->
      (match y with
       | VL l ->
         (match l0 with
          | [] ->
            (match vlistN l with
             | Some d -> Some (VN (at_count d))
             | None -> None)
          | _ :: _ -> None)
       | _ -> None))) :: (((String ((Ascii (true, true, false, false, true,
    true, true, false)), (String ((Ascii (false, true, true, true, false,
    true, false, false)), (String ((Ascii (true, true, false, true, false,
    true, true, false)), (String ((Ascii (false, true, true, true, false,
    true, false, false)), (String ((Ascii (true, true, true, false, false,
    true, true, false)), (String ((Ascii (true, true, false, false, false,
    true, true, false)), (String ((Ascii (true, true, true, true, true,
    false, true, false)), (String ((Ascii (true, true, false, false, false,
    true, true, false)), (String ((Ascii (true, true, true, true, false,
    true, true, false)), (String ((Ascii (true, false, true, false, true,
    true, true, false)), (String ((Ascii (false, true, true, true, false,
    true, true, false)), (String ((Ascii (false, false, true, false, true,
    true, true, false)), EmptyString)))))))))))))))))))))))), (fun a ->
    match a with
    | [] -> None
    | y :: l0 ->
      (match y with
       | VL l ->
         (match l0 with
          | [] ->
            (match vlistN l with
             | Some d -> Some (VN (gc_count d))
             | None -> None)
          | _ :: _ -> None)
       | _ -> None))) :: (((String ((Ascii (true, true, false, false, true,
    true, true, false)), (String ((Ascii (false, true, true, true, false,
    true, false, false)), (String ((Ascii (true, true, false, true, false,
    true, true, false)), (String ((Ascii (false, true, true, true, false,
    true, false, false)), (String ((Ascii (false, false, true, false, true,
    true, true, false)), (String ((Ascii (true, true, true, true, false,
    true, true, false)), (String ((Ascii (true, true, true, true, true,
    false, true, false)), (String ((Ascii (true, false, true, false, true,
    true, true, false)), (String ((Ascii (false, true, true, false, true,
    true, false, false)), (String ((Ascii (false, false, true, false, true,
    true, false, false)), EmptyString)))))))))))))))))))), (fun a ->
    match a with
    | [] -> None
    | y :: l0 ->
      (match y with
       | VL l ->
         (match l0 with
          | [] ->
            (match vlistN l with
             | Some d -> Some (VN (rank d))
             | None -> None)
          | _ :: _ -> None)
       | _ -> None))) :: (((String ((Ascii (true, true, false, false, true,
    true, true, false)), (String ((Ascii (false, true, true, true, false,
    true, false, false)), (String ((Ascii (true, true, false, true, false,
    true, true, false)), (String ((Ascii (false, true, true, true, false,
    true, false, false)), (String ((Ascii (false, true, true, false, false,
    true, true, false)), (String ((Ascii (false, true, false, false, true,
    true, true, false)), (String ((Ascii (true, true, true, true, false,
    true, true, false)), (String ((Ascii (true, false, true, true, false,
    true, true, false)), (String ((Ascii (true, true, true, true, true,
    false, true, false)), (String ((Ascii (true, false, true, false, true,
    true, true, false)), (String ((Ascii (false, true, true, false, true,
    true, false, false)), (String ((Ascii (false, false, true, false, true,
    true, false, false)), EmptyString)))))))))))))))))))))))), (fun a ->
    match a with
    | [] -> None
    | y :: l ->
      (match y with
       | VN v ->
         (match l with
          | [] -> Some (ofNs (digits4 k v))
          | _ :: _ -> None)
       | _ -> None))) :: (((String ((Ascii (true, true, false, false, true,
    true, true, false)), (String ((Ascii (false, true, true, true, false,
    true, false, false)), (String ((Ascii (true, true, false, true, false,
    true, true, false)), (String ((Ascii (false, true, true, true, false,
    true, false, false)), (String ((Ascii (false, true, true, false, false,
    true, true, false)), (String ((Ascii (false, true, false, false, true,
    true, true, false)), (String ((Ascii (true, true, true, true, false,
    true, true, false)), (String ((Ascii (true, false, true, true, false,
    true, true, false)), (String ((Ascii (true, true, true, true, true,
    false, true, false)), (String ((Ascii (false, true, false, false, false,
    true, true, false)), (String ((Ascii (true, false, false, true, true,
    true, true, false)), (String ((Ascii (false, false, true, false, true,
    true, true, false)), (String ((Ascii (true, false, true, false, false,
    true, true, false)), (String ((Ascii (true, true, false, false, true,
    true, true, false)), EmptyString)))))))))))))))))))))))))))), (fun a ->
    match a with
    | [] -> None
    | y :: l0 ->
      (match y with
       | VL l ->
         (match l0 with
          | [] ->
            (match vlistN l with
             | Some d -> Some (ofNs (firstn k d))
             | None -> None)
          | _ :: _ -> None)
       | _ -> None))) :: (((String ((Ascii (true, true, false, false, true,
    true, true, false)), (String ((Ascii (false, true, true, true, false,
    true, false, false)), (String ((Ascii (true, true, false, true, false,
    true, true, false)), (String ((Ascii (false, true, true, true, false,
    true, false, false)), (String ((Ascii (false, true, true, false, false,
    true, true, false)), (String ((Ascii (false, true, false, false, true,
    true, true, false)), (String ((Ascii (true, true, true, true, false,
    true, true, false)), (String ((Ascii (true, false, true, true, false,
    true, true, false)), (String ((Ascii (true, true, true, true, true,
    false, true, false)), (String ((Ascii (true, false, false, false, false,
    true, true, false)), (String ((Ascii (true, true, false, false, true,
    true, true, false)), (String ((Ascii (true, true, false, false, false,
    true, true, false)), (String ((Ascii (true, false, false, true, false,
    true, true, false)), (String ((Ascii (true, false, false, true, false,
    true, true, false)), EmptyString)))))))))))))))))))))))))))), (fun a ->
    match a with
    | [] -> None
    | y :: l0 ->
      (match y with
       | VL l ->
         (match l0 with
          | [] ->
            (match vlistN l with
             | Some d -> Some (ofNs (map ascii_base (firstn k d)))
             | None -> None)
          | _ :: _ -> None)
       | _ -> None))) :: (((String ((Ascii (true, true, false, false, true,
    true, true, false)), (String ((Ascii (false, true, true, true, false,
    true, false, false)), (String ((Ascii (true, true, false, true, false,
    true, true, false)), (String ((Ascii (false, true, true, true, false,
    true, false, false)), (String ((Ascii (false, false, true, false, true,
    true, true, false)), (String ((Ascii (true, true, true, true, false,
    true, true, false)), (String ((Ascii (true, true, true, true, true,
    false, true, false)), (String ((Ascii (true, true, false, false, true,
    true, true, false)), (String ((Ascii (false, false, true, false, true,
    true, true, false)), (String ((Ascii (false, true, false, false, true,
    true, true, false)), (String ((Ascii (true, false, false, true, false,
    true, true, false)), (String ((Ascii (false, true, true, true, false,
    true, true, false)), (String ((Ascii (true, true, true, false, false,
    true, true, false)), EmptyString)))))))))))))))))))))))))), (fun a ->
    match a with
    | [] -> None
    | y :: l0 ->
      (match y with
       | VL l ->
         (match l0 with
          | [] ->
            (match vlistN l with
             | Some d -> Some (ofNs (text d))
             | None -> None)
          | _ :: _ -> None)
       | _ -> None))) :: (((String ((Ascii (true, true, false, false, true,
    true, true, false)), (String ((Ascii (false, true, true, true, false,
    true, false, false)), (String ((Ascii (true, true, false, true, false,
    true, true, false)), (String ((Ascii (false, true, true, true, false,
    true, false, false)), (String ((Ascii (true, true, false, true, false,
    true, true, false)), (String ((Ascii (true, false, true, true, false,
    true, true, false)), (String ((Ascii (true, false, true, false, false,
    true, true, false)), (String ((Ascii (false, true, false, false, true,
    true, true, false)), (String ((Ascii (true, true, false, false, true,
    true, true, false)), (String ((Ascii (true, true, true, true, true,
    false, true, false)), (String ((Ascii (false, true, true, false, false,
    true, true, false)), (String ((Ascii (false, true, false, false, true,
    true, true, false)), (String ((Ascii (true, true, true, true, false,
    true, true, false)), (String ((Ascii (true, false, true, true, false,
    true, true, false)), (String ((Ascii (true, true, true, true, true,
    false, true, false)), (String ((Ascii (false, true, false, false, false,
    true, true, false)), (String ((Ascii (true, false, false, true, true,
    true, true, false)), (String ((Ascii (false, false, true, false, true,
    true, true, false)), (String ((Ascii (true, false, true, false, false,
    true, true, false)), (String ((Ascii (true, true, false, false, true,
    true, true, false)), EmptyString)))))))))))))))))))))))))))))))))))))))),
    (fun a ->
    match a with
    | [] -> None
    | y :: l0 ->
      (match y with
       | VL l ->
         (match l0 with
          | [] ->
            (match vlistN l with
             | Some d -> Some (VL (map ofNs (kmers k d)))
             | None -> None)
          | _ :: _ -> None)
       | _ -> None))) :: (((String ((Ascii (true, true, false, false, true,
    true, true, false)), (String ((Ascii (false, true, true, true, false,
    true, false, false)), (String ((Ascii (true, true, false, true, false,
    true, true, false)), (String ((Ascii (false, true, true, true, false,
    true, false, false)), (String ((Ascii (true, true, false, true, false,
    true, true, false)), (String ((Ascii (true, false, true, true, false,
    true, true, false)), (String ((Ascii (true, false, true, false, false,
    true, true, false)), (String ((Ascii (false, true, false, false, true,
    true, true, false)), (String ((Ascii (true, true, false, false, true,
    true, true, false)), (String ((Ascii (true, true, true, true, true,
    false, true, false)), (String ((Ascii (false, true, true, false, false,
    true, true, false)), (String ((Ascii (false, true, false, false, true,
    true, true, false)), (String ((Ascii (true, true, true, true, false,
    true, true, false)), (String ((Ascii (true, false, true, true, false,
    true, true, false)), (String ((Ascii (true, true, true, true, true,
    false, true, false)), (String ((Ascii (true, false, false, false, false,
    true, true, false)), (String ((Ascii (true, true, false, false, true,
    true, true, false)), (String ((Ascii (true, true, false, false, false,
    true, true, false)), (String ((Ascii (true, false, false, true, false,
    true, true, false)), (String ((Ascii (true, false, false, true, false,
    true, true, false)), EmptyString)))))))))))))))))))))))))))))))))))))))),
    (fun a ->
    match a with
    | [] -> None
    | y :: l0 ->
      (match y with
       | VL l ->
         (match l0 with
          | [] ->
            (match vlistN l with
             | Some d -> Some (VL (map ofNs (kmers k (map ascii_base d))))
             | None -> None)
          | _ :: _ -> None)
       | _ -> None))) :: (((String ((Ascii (true, true, false, false, true,
    true, true, false)), (String ((Ascii (false, true, true, true, false,
    true, false, false)), (String ((Ascii (true, true, false, true, false,
    true, true, false)), (String ((Ascii (false, true, true, true, false,
    true, false, false)), (String ((Ascii (true, false, true, true, false,
    true, true, false)), (String ((Ascii (true, false, false, true, false,
    true, true, false)), (String ((Ascii (false, true, true, true, false,
    true, true, false)), (String ((Ascii (true, true, true, true, true,
    false, true, false)), (String ((Ascii (false, true, false, false, true,
    true, true, false)), (String ((Ascii (true, true, false, false, false,
    true, true, false)), EmptyString)))))))))))))))))))), (fun a ->
    match a with
    | [] -> None
    | y :: l0 ->
      (match y with
       | VL l ->
         (match l0 with
          | [] ->
            (match vlistN l with
             | Some d -> Some (ofNs (canon d))
             | None -> None)
          | _ :: _ -> None)
       | _ -> None))) :: (((String ((Ascii (true, true, false, false, true,
    true, true, false)), (String ((Ascii (false, true, true, true, false,
    true, false, false)), (String ((Ascii (true, true, false, true, false,
    true, true, false)), (String ((Ascii (false, true, true, true, false,
    true, false, false)), (String ((Ascii (true, false, true, true, false,
    true, true, false)), (String ((Ascii (true, false, false, true, false,
    true, true, false)), (String ((Ascii (false, true, true, true, false,
    true, true, false)), (String ((Ascii (true, true, true, true, true,
    false, true, false)), (String ((Ascii (false, true, false, false, true,
    true, true, false)), (String ((Ascii (true, true, false, false, false,
    true, true, false)), (String ((Ascii (true, true, true, true, true,
    false, true, false)), (String ((Ascii (false, true, true, false, false,
    true, true, false)), (String ((Ascii (false, false, true, true, false,
    true, true, false)), (String ((Ascii (true, false, false, true, false,
    true, true, false)), (String ((Ascii (false, false, false, false, true,
    true, true, false)), EmptyString)))))))))))))))))))))))))))))), (fun a ->
    match a with
    | [] -> None
    | y :: l0 ->
      (match y with
       | VL l ->
         (match l0 with
          | [] ->
            (match vlistN l with
             | Some d ->
               Some
                 (let p = canon_flip d in
                  VL ((ofNs (fst p)) :: ((ofbool (snd p)) :: [])))
             | None -> None)
          | _ :: _ -> None)
       | _ -> None))) :: (((String ((Ascii (true, true, false, false, true,
    true, true, false)), (String ((Ascii (false, true, true, true, false,
    true, false, false)), (String ((Ascii (true, true, false, true, false,
    true, true, false)), (String ((Ascii (false, true, true, true, false,
    true, false, false)), (String ((Ascii (false, false, false, true, false,
    true, true, false)), (String ((Ascii (true, false, false, true, false,
    true, true, false)), (String ((Ascii (true, true, false, false, true,
    true, true, false)), (String ((Ascii (false, false, true, false, true,
    true, true, false)), EmptyString)))))))))))))))), (fun a ->
    match a with
    | [] -> None
    | i :: l ->
      (match l with
       | [] -> None
       | y :: l0 ->
         (match y with
          | VL ops ->
            (match l0 with
             | [] ->
               (match v_kinit i with
                | Some i' ->
                  (match omap v_kop ops with
                   | Some ops' -> Some (ofNs (shist k i' ops'))
                   | None -> None)
                | None -> None)
             | _ :: _ -> None)
          | _ -> None)))) :: (((String ((Ascii (true, true, false, false,
    true, true, true, false)), (String ((Ascii (false, true, true, true,
    false, true, false, false)), (String ((Ascii (true, true, false, true,
    false, true, true, false)), (String ((Ascii (false, true, true, true,
    false, true, false, false)), (String ((Ascii (true, true, false, false,
    false, true, true, false)), (String ((Ascii (true, false, true, true,
    false, true, true, false)), (String ((Ascii (false, false, false, false,
    true, true, true, false)), EmptyString)))))))))))))), (fun a ->
    match a with
    | [] -> None
    | y :: l0 ->
      (match y with
       | VL l ->
         (match l0 with
          | [] -> None
          | v :: l1 ->
            (match v with
             | VL m ->
               (match l1 with
                | [] ->
                  (match vlistN l with
                   | Some d ->
                     (match vlistN m with
                      | Some e ->
                        Some (VL ((ofbool (dna_eqb d e)) :: ((VN
                          (cmp_code (dna_compare d e))) :: ((ofbool
                                                              (dna_eqb d e)) :: []))))
                      | None -> None)
                   | None -> None)
                | _ :: _ -> None)
             | _ -> None))
       | _ -> None))) :: (((String ((Ascii (true, true, false, false, true,
    true, true, false)), (String ((Ascii (false, true, true, true, false,
    true, false, false)), (String ((Ascii (true, true, false, true, false,
    true, true, false)), (String ((Ascii (false, true, true, true, false,
    true, false, false)), (String ((Ascii (true, true, false, false, true,
    true, true, false)), (String ((Ascii (true, true, true, true, false,
    true, true, false)), (String ((Ascii (false, true, false, false, true,
    true, true, false)), (String ((Ascii (false, false, true, false, true,
    true, true, false)), (String ((Ascii (true, true, true, true, true,
    false, true, false)), (String ((Ascii (false, false, true, false, false,
    true, true, false)), (String ((Ascii (true, false, true, false, false,
    true, true, false)), (String ((Ascii (false, false, true, false, false,
    true, true, false)), (String ((Ascii (true, false, true, false, true,
    true, true, false)), (String ((Ascii (false, false, false, false, true,
    true, true, false)), EmptyString)))))))))))))))))))))))))))), (fun a ->
    match a with
    | [] -> None
    | y :: l ->
      (match y with
       | VL ls ->
         (match l with
          | [] ->
            (match omap vNs ls with
             | Some ds ->
               Some (VL (map ofNs (dedup_by dna_eqb (sort_by dna_leb ds))))
             | None -> None)
          | _ :: _ -> None)
       | _ -> None))) :: (((String ((Ascii (true, true, false, false, true,
    true, true, false)), (String ((Ascii (false, true, true, true, false,
    true, false, false)), (String ((Ascii (true, true, false, true, false,
    true, true, false)), (String ((Ascii (false, true, true, true, false,
    true, false, false)), (String ((Ascii (true, false, true, true, false,
    true, true, false)), (String ((Ascii (true, false, true, false, false,
    true, true, false)), (String ((Ascii (true, false, true, true, false,
    true, true, false)), (String ((Ascii (false, true, false, false, false,
    true, true, false)), (String ((Ascii (true, false, true, false, false,
    true, true, false)), (String ((Ascii (false, true, false, false, true,
    true, true, false)), EmptyString)))))))))))))))))))), (fun a ->
    match a with
    | [] -> None
    | y :: l ->
      (match y with
       | VL ls ->
         (match l with
          | [] -> None
          | v :: l0 ->
            (match v with
             | VL x ->
               (match l0 with
                | [] ->
                  (match omap vNs ls with
                   | Some ds ->
                     (match vlistN x with
                      | Some d -> Some (ofbool (existsb (dna_eqb d) ds))
                      | None -> None)
                   | None -> None)
                | _ :: _ -> None)
             | _ -> None))
       | _ -> None))) :: (((String ((Ascii (true, true, false, false, true,
    true, true, false)), (String ((Ascii (false, true, true, true, false,
    true, false, false)), (String ((Ascii (true, true, false, true, false,
    true, true, false)), (String ((Ascii (false, true, true, true, false,
    true, false, false)), (String ((Ascii (true, false, false, true, false,
    true, true, false)), (String ((Ascii (true, true, false, false, true,
    true, true, false)), (String ((Ascii (true, true, true, true, true,
    false, true, false)), (String ((Ascii (false, false, false, false, true,
    true, true, false)), (String ((Ascii (true, false, false, false, false,
    true, true, false)), (String ((Ascii (false, false, true, true, false,
    true, true, false)), (String ((Ascii (true, false, false, true, false,
    true, true, false)), (String ((Ascii (false, true, true, true, false,
    true, true, false)), (String ((Ascii (false, false, true, false, false,
    true, true, false)), (String ((Ascii (false, true, false, false, true,
    true, true, false)), (String ((Ascii (true, true, true, true, false,
    true, true, false)), (String ((Ascii (true, false, true, true, false,
    true, true, false)), (String ((Ascii (true, false, true, false, false,
    true, true, false)), EmptyString)))))))))))))))))))))))))))))))))),
    (fun a ->
    match a with
    | [] -> None
    | y :: l0 ->
      (match y with
       | VL l ->
         (match l0 with
          | [] ->
            (match vlistN l with
             | Some d -> Some (ofbool (is_palindrome d))
             | None -> None)
          | _ :: _ -> None)
       | _ -> None))) :: []))))))))))))))))))))))

(** val d_spec_kmer : string -> val0 -> val0 option **)

let d_spec_kmer op = function
| VL l ->
  (match l with
   | [] -> None
   | v0 :: rest ->
     (match v0 with
      | VN k ->
        (match lookup op (spec_kmer_ops (N.to_nat k)) with
         | Some h -> h rest
         | None -> None)
      | _ -> None))
| _ -> None

(** val prefix2 : string -> string **)

let prefix2 op =
  substring O (S (S O)) op

(** val dispatch : string -> val0 -> val0 option **)

let dispatch op v =
  if eqb1 (prefix2 op) (String ((Ascii (true, true, false, true, false, true,
       true, false)), (String ((Ascii (false, true, true, true, false, true,
       false, false)), EmptyString))))
  then d_kmer op v
  else if eqb1 (substring O (S (S (S (S O)))) op) (String ((Ascii (true,
            true, false, false, true, true, true, false)), (String ((Ascii
            (false, true, true, true, false, true, false, false)), (String
            ((Ascii (true, true, false, true, false, true, true, false)),
            (String ((Ascii (false, true, true, true, false, true, false,
            false)), EmptyString))))))))
       then d_spec_kmer op v
       else None
