(* Layer S for C20: what the GFA link lines have to say, on plain edge tables.
   A node END is (node id, side).  The graph reports, for every end (u,a), the ends (v,b) it is joined to
   (DebruijnGraph::find_edges(u, a) = [(v, b, flip)], flip dropped: it is a function of a and b).
   An ADJACENCY is an unordered pair of ends; a hairpin is the pair of an end with itself.
   A GFA link line  L u o1 v o2 nM  reads "u, taken forward (+) or reverse-complemented (-), is followed by v,
   taken forward (+) or reverse-complemented (-), with an overlap of n bases": it leaves u through its right
   end iff o1 = + and enters v through its left end iff o2 = +.
   The two ends of a palindromic single-k-mer node (length K, equal to its own reverse complement, unstranded
   graph) are indistinguishable: the end index holds one entry for both, so a neighbour reports one of them
   while the node reports the neighbour from both.  [end_eq] identifies them. *)
From Coq Require Import List Bool Arith.
From DBG Require Import Spec.GraphIndex.
Import ListNotations.
Local Open Scope nat_scope.

Definition nend := (nat * dir)%type.
(* per node: the targets of l_edges and of r_edges *)
Definition etab := list (list nend * list nend).
Definition tab_edges (E : etab) (u : nat) (a : dir) : list nend :=
  match nth_error E u with
  | Some (l, r) => match a with DLeft => l | DRight => r end
  | None => []
  end.

(* L line: (u, o1, v, o2, overlap); true = '+' *)
Definition lline := (nat * bool * nat * bool * nat)%type.
Definition out_side (o1 : bool) : dir := if o1 then DRight else DLeft.
Definition in_side (o2 : bool) : dir := if o2 then DLeft else DRight.
Definition denote (l : lline) : nend * nend :=
  let '(u, o1, v, o2, _) := l in ((u, out_side o1), (v, in_side o2)).
Definition overlap (l : lline) : nat := snd l.

Definition end_eq (pal : nat -> bool) (x y : nend) : Prop :=
  fst x = fst y /\ (snd x = snd y \/ pal (fst x) = true).
Definition adj_eq (pal : nat -> bool) (p q : nend * nend) : Prop :=
  (end_eq pal (fst p) (fst q) /\ end_eq pal (snd p) (snd q)) \/
  (end_eq pal (fst p) (snd q) /\ end_eq pal (snd p) (fst q)).
Definition end_eqb (pal : nat -> bool) (x y : nend) : bool :=
  Nat.eqb (fst x) (fst y) && (dir_eqb (snd x) (snd y) || pal (fst x)).
Definition adj_eqb (pal : nat -> bool) (p q : nend * nend) : bool :=
  (end_eqb pal (fst p) (fst q) && end_eqb pal (snd p) (snd q)) ||
  (end_eqb pal (fst p) (snd q) && end_eqb pal (snd p) (fst q)).

(* soundness of one line: K-1 overlap, and the graph reports the link *)
Definition link_sound (K : nat) (E : etab) (l : lline) : Prop :=
  let '(u, o1, v, o2, ov) := l in ov = K - 1 /\ In (v, in_side o2) (tab_edges E u (out_side o1)).

(* number of lines that denote the adjacency {x, y} *)
Definition count_denoting (pal : nat -> bool) (lines : list lline) (x y : nend) : nat :=
  length (filter (fun l => adj_eqb pal (denote l) (x, y)) lines).
Definition once_or_twice (pal : nat -> bool) (lines : list lline) (x y : nend) : Prop :=
  let c := count_denoting pal lines x y in
  if pal (fst x) || pal (fst y) then 1 <= c /\ c <= 2 else c = 1.
(* every reported adjacency is written exactly once (once or twice at a palindromic single-k-mer node) *)
Definition complete_once (pal : nat -> bool) (E : etab) (lines : list lline) : Prop :=
  forall u a v b, In (v, b) (tab_edges E u a) -> once_or_twice pal lines (u, a) (v, b).

(* the hypotheses, as predicates on the edge lists.
   symmetry: a link seen from one end is seen from the other (up to the identification above) *)
Definition tab_symmetric (pal : nat -> bool) (E : etab) : Prop :=
  forall u a v b, In (v, b) (tab_edges E u a) ->
    exists a' b', (a' = a \/ pal u = true) /\ (b' = b \/ pal v = true) /\ In (u, a') (tab_edges E v b').
(* an end reports a neighbouring end once *)
Definition end_key (pal : nat -> bool) (x : nend) : nend := (fst x, if pal (fst x) then DLeft else snd x).
Definition tab_distinct (pal : nat -> bool) (E : etab) : Prop :=
  forall u a, NoDup (map (end_key pal) (tab_edges E u a)).
(* a palindromic single-k-mer node is not its own neighbour *)
Definition tab_pal_no_self (pal : nat -> bool) (E : etab) : Prop :=
  forall u a b, pal u = true -> ~ In (u, b) (tab_edges E u a).
Definition tab_ok (pal : nat -> bool) (E : etab) : Prop :=
  tab_symmetric pal E /\ tab_distinct pal E /\ tab_pal_no_self pal E.
