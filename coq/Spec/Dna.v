(* Layer S: DNA as plain lists of bases.  A base is a number 0..3 (A C G T); [wf_dna] says so. *)
From Coq Require Export NArith List Bool Arith Lia.
Export ListNotations.
Open Scope N_scope.

Definition dna := list N.
Definition wf_dna (l : dna) : Prop := Forall (fun b => b < 4) l.
Definition wf_dnab (l : dna) : bool := forallb (fun b => b <? 4) l.

Definition comp (b : N) : N := 3 - b.
Definition rc (l : dna) : dna := map comp (rev l).

(* substring: [len] bases starting at [start] *)
Definition sub {A} (start len : nat) (l : list A) : list A := firstn len (skipn start l).
Definition kmer_at (K : nat) (l : dna) (i : nat) : dna := sub i K l.
(* all k-mers in order: max(0, n-K+1) of them *)
Definition kmers (K : nat) (l : dna) : list dna :=
  map (kmer_at K l) (seq 0 (length l + 1 - K)).

(* replace position pos / splice a run in *)
Definition upd {A} (pos : nat) (l : list A) (v : A) : list A := firstn pos l ++ v :: skipn (S pos) l.
Definition splice {A} (pos : nat) (run l : list A) : list A :=
  firstn pos l ++ run ++ skipn (pos + length run) l.

(* lexicographic comparison, a proper prefix sorting first *)
Fixpoint dna_compare (a b : dna) : comparison :=
  match a, b with
  | [], [] => Eq
  | [], _ => Lt
  | _, [] => Gt
  | x :: a', y :: b' => match x ?= y with Eq => dna_compare a' b' | c => c end
  end.
Definition dna_ltb (a b : dna) : bool := match dna_compare a b with Lt => true | _ => false end.
Definition dna_eqb (a b : dna) : bool := match dna_compare a b with Eq => true | _ => false end.
Definition dna_leb (a b : dna) : bool := match dna_compare a b with Gt => false | _ => true end.

Definition canon (x : dna) : dna := if dna_ltb x (rc x) then x else rc x.
(* the flag of min_rc_flip: true also for palindromes *)
Definition canon_flip (x : dna) : dna * bool := if dna_ltb x (rc x) then (x, false) else (rc x, true).
Definition is_palindrome (x : dna) : bool := dna_eqb x (rc x).

(* big-endian base-4 value *)
Definition rank (l : dna) : N := fold_left (fun acc b => 4 * acc + b) l 0.

Definition extend_left (x : dna) (b : N) : dna := b :: removelast x.
Definition extend_right (x : dna) (b : N) : dna := tl x ++ [b].

Fixpoint count_diff (a b : dna) : N :=
  match a, b with
  | x :: a', y :: b' => (if x =? y then 0 else 1) + count_diff a' b'
  | _, _ => 0
  end.
Definition is_at (b : N) : bool := (b =? 0) || (b =? 3).
Definition is_gc (b : N) : bool := (b =? 1) || (b =? 2).
Definition count_if (f : N -> bool) (a : dna) : N := fold_right (fun b acc => N.b2n (f b) + acc) 0 a.
Definition at_count (a : dna) : N := count_if is_at a.
Definition gc_count (a : dna) : N := count_if is_gc a.

(* text: bits_to_base *)
Definition base_char (b : N) : N :=
  match b with 0 => 65 | 1 => 67 | 2 => 71 | 3 => 84 | _ => 88 end.
Definition text (l : dna) : list N := map base_char l.

(* ASCII -> base: A/C/G/T in either case, everything else A (the lenient convention) *)
Definition ascii_base (ch : N) : N :=
  match ch with
  | 65 | 97 => 0 | 67 | 99 => 1 | 71 | 103 => 2 | 84 | 116 => 3 | _ => 0
  end.
Definition ascii_valid (ch : N) : bool :=
  match ch with
  | 65 | 97 | 67 | 99 | 71 | 103 | 84 | 116 => true | _ => false
  end.
(* 2-bit lanes of a number, top lane (of K) first - the spec-side reading of a rank / packed payload *)
Definition digits4 (K : nat) (v : N) : dna := map (fun p => (v / 4 ^ N.of_nat (K - 1 - p)) mod 4) (seq 0 K).
