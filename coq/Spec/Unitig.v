(* Layer S for C01/C02/C09: what a compressed graph has to be, on plain lists.
   A k-mer table is a list of (key, exts, data); keys are canonical when unstranded. *)
From Coq Require Import NArith List Bool Arith.
From DBG Require Import Spec.Dna Spec.GraphIndex Packed.ExtsModel Algo.Compress Algo.KmerHist.
Import ListNotations.
Open Scope N_scope.

Section Unitig.
Variable D : Type.
Variable join : D -> D -> bool.
Variable K : nat.
Variable stranded : bool.
Local Notation table := (table D).

Definition canon_k (x : dna) : dna := if stranded then x else canon x.
Definition keys (T : table) : list dna := map (@e_key D) T.

(* the extension set of a k-mer occurrence [w] (either orientation of its key), in the frame of [w] *)
Definition oexts (T : table) (w : dna) : option N :=
  match get_entry D T (canon_k w) with
  | Some ent => Some (if dna_eqb w (e_key D ent) then e_exts D ent else e_rc (e_exts D ent))
  | None => None
  end.

(* x (a key, index i) merges through side d with key index j entered through side d' *)
Definition mlink (T : table) (i : nat) (d : dir) : option (nat * dir) :=
  match nth_error T i with
  | None => None
  | Some ent =>
    let x := e_key D ent in
    match e_get_unique_extension (e_exts D ent) (dirb d) with
    | None => None
    | Some b =>
      if negb stranded && is_palindrome x then None else
      let raw := extend x b d in
      let '(y, fl) := if stranded then (raw, false) else canon_flip raw in
      match get_id D T y, get_entry D T y with
      | Some j, Some yent =>
        let d' := cond_flip (dflip d) fl in
        if Nat.eqb i j then None
        else if negb stranded && is_palindrome y then None
        else if negb (e_num_ext_dir (e_exts D yent) (dirb d') =? 1) then None
        else if negb (join (e_data D ent) (e_data D yent)) then None
        else Some (j, d')
      | _, _ => None
      end
    end
  end.

(* connected components of the symmetric closure of mlink, as a labelling by smallest reachable index *)
Definition neighbours (T : table) (i : nat) : list nat :=
  let n := length T in
  let out := flat_map (fun d => match mlink T i d with Some (j, _) => [j] | None => [] end) [DLeft; DRight] in
  let inc := filter (fun j => existsb (fun d => match mlink T j d with Some (i', _) => Nat.eqb i' i | None => false end)
                                      [DLeft; DRight]) (seq 0 n) in
  out ++ inc.
Definition relabel (nbrs : list (list nat)) (lab : list nat) : list nat :=
  map (fun p => fold_left (fun m j => Nat.min m (nth j lab m)) (snd p) (fst p)) (combine lab nbrs).
Fixpoint iterate {A} (n : nat) (f : A -> A) (x : A) : A := match n with O => x | S m => iterate m f (f x) end.
Definition class_labels (T : table) : list nat :=
  let n := length T in
  let nbrs := map (neighbours T) (seq 0 n) in
  iterate n (relabel nbrs) (seq 0 n).
End Unitig.
