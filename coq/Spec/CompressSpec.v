(* Layer S for C01/C02: the statements about a compressed k-mer table, as Props on plain lists.
   [knext] is the static step relation of CompressFromHash::try_extend_kmer (everything except availability);
   [exts_sym] is the symmetry of the recorded extensions (the two sides of a palindromic target are identified:
   a palindromic target is exempt, exactly as in the code's `unreachable` test). *)
From Coq Require Import NArith List Bool Arith Lia Permutation Relations.
From DBG Require Import Spec.Dna Spec.GraphIndex Spec.Unitig Packed.ExtsModel Algo.Compress.
Import ListNotations.
Open Scope N_scope.

(* the base of w at its [d] end *)
Definition outer (w : dna) (d : dir) : N := match d with DLeft => hd 0 w | DRight => last w 0 end.
(* a k-mer walked in direction [d] read in the frame of a walk in direction [D0] *)
Definition orient (D0 d : dir) (x : dna) : dna := if dir_eqb d D0 then x else rc x.

Section CompressSpec.
Variable D : Type.
Variable join : D -> D -> bool.
Variable K : nat.
Variable stranded : bool.
Local Notation table := (table D).
Local Notation keys := (keys D).
Local Notation ck := (canon_k stranded).

Definition kcanon_flip (raw : dna) : dna * bool := if stranded then (raw, false) else canon_flip raw.
Definition kpal (x : dna) : bool := negb stranded && is_palindrome x.

Record tbl_ok (T : table) : Prop := {
  ok_nodup : NoDup (keys T);
  ok_len : forall e, In e T -> length (e_key D e) = K;
  ok_wf : forall e, In e T -> wf_dna (e_key D e);
  ok_canon : stranded = false -> forall e, In e T -> canon (e_key D e) = e_key D e;
  ok_exts : forall e, In e T -> e_exts D e < 256 }.

(* extension b on side d of key x is answered, at the k-mer it leads to, by the base x loses *)
Definition exts_sym (T : table) : Prop :=
  forall ent d b yent, In ent T -> b < 4 -> e_has_ext (e_exts D ent) (dirb d) b = true ->
    let yf := kcanon_flip (extend (e_key D ent) b d) in
    get_entry D T (fst yf) = Some yent ->
    kpal (fst yf) = true \/
    e_has_ext (e_exts D yent) (dirb (cond_flip (dflip d) (snd yf)))
              ((if snd yf then comp else (fun c => c)) (outer (e_key D ent) (dflip d))) = true.

(* every recorded extension leads to a present k-mer (C02's "extensions reference only present k-mers") *)
Definition exts_closed (T : table) : Prop :=
  forall ent d b, In ent T -> b < 4 -> e_has_ext (e_exts D ent) (dirb d) b = true ->
    get_id D T (fst (kcanon_flip (extend (e_key D ent) b d))) <> None.

(* static step: leaving key i through side d one enters key j through side d' *)
Definition knext (T : table) (i : nat) (d : dir) : option (nat * dir) :=
  match nth_error T i with
  | None => None
  | Some ent =>
    let exts := e_exts D ent in
    if negb (e_num_ext_dir exts (dirb d) =? 1) || kpal (e_key D ent) then None
    else match e_get_unique_extension exts (dirb d) with
         | None => None
         | Some b =>
           let yf := kcanon_flip (extend (e_key D ent) b d) in
           match get_id D T (fst yf) with
           | None => None
           | Some j =>
             match nth_error T j with
             | None => None
             | Some yent =>
               let d' := cond_flip (dflip d) (snd yf) in
               if join (e_data D ent) (e_data D yent) && (e_num_ext_dir (e_exts D yent) (dirb d') =? 1)
                  && negb (kpal (fst yf))
               then Some (j, d') else None
             end
           end
         end
  end.

(* ---- C01: what the output has to satisfy ---- *)
Local Notation node := (Compress.node D).
Definition n_seq (n : node) : dna := fst (fst n).
Definition n_exts (n : node) : N := snd (fst n).
Definition n_data (n : node) : D := snd n.
Definition node_windows (n : node) : list dna := kmers K (n_seq n).
Definition node_keys (n : node) : list dna := map ck (node_windows n).

(* (1) each key in exactly one node at exactly one offset, nothing foreign *)
Definition partition_ok (T : table) (nodes : list node) : Prop :=
  Permutation (concat (map node_keys nodes)) (keys T).
(* (2) every step between consecutive k-mers of a node follows an extension recorded for both *)
Definition step_ok (T : table) (x y : dna) : Prop :=
  exists ex ey, oexts D stranded T x = Some ex /\ oexts D stranded T y = Some ey /\
    e_has_ext ex true (last y 0) = true /\ e_has_ext ey false (hd 0 x) = true.
Definition steps_ok (T : table) (nodes : list node) : Prop :=
  forall n, In n nodes -> forall i, (S i < length (node_windows n))%nat ->
    step_ok T (nth i (node_windows n) []) (nth (S i) (node_windows n) []).
(* (3) the payload is the caller's reduction folded over exactly the payloads of the node's k-mers *)
Definition payload_ok (reduce : D -> D -> D) (T : table) (nodes : list node) : Prop :=
  forall n, In n nodes -> exists e0 es,
    Permutation (map (e_key D) (e0 :: es)) (node_keys n) /\ (forall e, In e (e0 :: es) -> In e T) /\
    n_data n = fold_left reduce (map (e_data D) es) (e_data D e0).
(* the node's extensions are those of its two end k-mers, in the node's frame *)
Definition terminal_ok (T : table) (nodes : list node) : Prop :=
  forall n, In n nodes -> exists el er,
    oexts D stranded T (first_kmer K (n_seq n)) = Some el /\ oexts D stranded T (last_kmer K (n_seq n)) = Some er /\
    n_exts n = e_from_single_dirs (e_single_dir el false) (e_single_dir er true).

(* ---- C02 ---- *)
Definition mstep (T : table) (i j : nat) : Prop := exists d d', mlink D join stranded T i d = Some (j, d').
Definition mconn (T : table) : nat -> nat -> Prop := clos_refl_sym_trans nat (mstep T).
Definition same_node (nodes : list node) (kx ky : dna) : Prop :=
  exists n, In n nodes /\ In kx (node_keys n) /\ In ky (node_keys n).
End CompressSpec.
