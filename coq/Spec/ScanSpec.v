(* Layer S statement of C07 (minimizer partition) and C08 (shard assignment).  Plain lists and numbers. *)
From Coq Require Import NArith List Bool Arith.
From DBG Require Import Spec.Dna.
Import ListNotations.
Open Scope nat_scope.

(* a reported interval, as plain numbers: (minimizer, minimizer position, start, length) *)
Record sivl := mkS { s_min : dna; s_mpos : nat; s_start : nat; s_len : nat }.

Section ScanSpec.
  Variable score : dna -> N.
  Variable seq : dna.
  Variable k p : nat.

  (* k-mer start [i] lies in the interval *)
  Definition kmer_in (x : sivl) (i : nat) : Prop := s_start x <= i /\ i + k <= s_start x + s_len x.
  (* p-mer position [j] lies in the interval *)
  Definition pmer_in (x : sivl) (j : nat) : Prop := s_start x <= j /\ j + p <= s_start x + s_len x.

  (* (c) *)
  Definition len_ok (x : sivl) : Prop := k <= s_len x /\ s_len x <= 2 * k - p.
  (* (d) the reported minimizer is the p-mer at the reported position and lies inside every k-mer *)
  Definition minimizer_ok (x : sivl) : Prop :=
    s_min x = sub (s_mpos x) p seq /\
    forall i, kmer_in x i -> i <= s_mpos x /\ s_mpos x + p <= i + k.
  (* (e) *)
  Definition minimal_ok (x : sivl) : Prop :=
    forall j, pmer_in x j -> (score (s_min x) <= score (sub j p seq))%N.
  (* (f) [e] = the next k-mer start after the interval *)
  Definition end_ok (x : sivl) : Prop :=
    let e := s_start x + s_len x - k + 1 in
    s_mpos x < e \/ (score (sub (e + k - p) p seq) < score (s_min x))%N.

  (* (a) + (b) + (f) along the list; the last interval ends at the end of the sequence *)
  Fixpoint chain_ok (l : list sivl) : Prop :=
    match l with
    | [] => False
    | x :: r =>
        match r with
        | [] => s_start x + s_len x = length seq
        | y :: _ => s_start x < s_start y /\ s_start y = s_start x + s_len x - (k - 1) /\ end_ok x /\ chain_ok r
        end
    end.

  Definition scan_ok (l : list sivl) : Prop :=
    (exists x r, l = x :: r /\ s_start x = 0) /\
    Forall (fun x => len_ok x /\ minimizer_ok x /\ minimal_ok x) l /\
    chain_ok l.

  (* consequence of (a)-(c): every k-mer start lies in exactly one interval *)
  Definition covered_once (l : list sivl) : Prop :=
    forall i, i + k <= length seq ->
      exists j, (j < length l /\ kmer_in (nth j l (mkS [] 0 0 0)) i) /\
                forall j', j' < length l -> kmer_in (nth j' l (mkS [] 0 0 0)) i -> j' = j.
End ScanSpec.

(* ---- C08 ---- *)
(* first score-minimal element of a non-empty list *)
Fixpoint argmin_first (score : dna -> N) (best : dna) (l : list dna) : dna :=
  match l with
  | [] => best
  | x :: r => argmin_first score (if (score x <? score best)%N then x else best) r
  end.
(* B: the shard of a k-mer [x] = canonical rank of the first score-minimal p-mer of x *)
Definition shard_of (score : dna -> N) (p : nat) (x : dna) : N :=
  match kmers p x with
  | [] => 0%N
  | y :: r => rank (canon (argmin_first score y r))
  end.
(* the extensions of a piece: one-hot flanking bases, none at a read end *)
Definition flank_exts (seq : dna) (start len : nat) : N :=
  let l := if 0 <? start then (2 ^ nth (start - 1) seq 0)%N else 0%N in
  let r := if start + len <? length seq then (2 ^ nth (start + len) seq 0)%N else 0%N in
  (l + 16 * r)%N.

(* ---- C08 on the OUTPUT of msp_sequence over a read set: what the checker of Check/ScanCheck.v decides ---- *)
Section MspSpec.
  Variable k : nat.
  Variable rcmode : bool.
  Definition piece := (N * N * dna)%type.      (* (bucket, extensions, piece) *)
  (* the identity of a k-mer: itself, or its canonical form in reverse-complement mode *)
  Definition kkey (x : dna) : dna := if rcmode then canon x else x.

  (* the pieces tile the read from [start] on: exact substrings with the flanking bases as extensions,
     consecutive pieces overlapping by k-1, the last one ending at the read end *)
  Fixpoint pieces_ok (read : dna) (start : nat) (out : list piece) : Prop :=
    match out with
    | [] => False
    | (bucket, exts, pc) :: r =>
        let len := length pc in
        k <= len /\ pc = sub start len read /\ exts = flank_exts read start len /\
        match r with
        | [] => start + len = length read
        | _ :: _ => pieces_ok read (start + len - (k - 1)) r
        end
    end.
  Definition read_ok (ro : dna * list piece) : Prop :=
    if length (fst ro) <? k then snd ro = [] else pieces_ok (fst ro) 0 (snd ro).

  (* the k-mer starting at [i] lies in a piece carrying bucket [b] *)
  Fixpoint occ_in (start : nat) (out : list piece) (i : nat) (b : N) : Prop :=
    match out with
    | [] => False
    | (bucket, _, pc) :: r =>
        (start <= i /\ i + k <= start + length pc /\ b = bucket) \/
        occ_in (start + length pc - (k - 1)) r i b
    end.
  Definition occ (l : list (dna * list piece)) (x : dna) (b : N) : Prop :=
    exists read out i, In (read, out) l /\ k <= length read /\ occ_in 0 out i b /\ x = kkey (kmer_at k read i).

  (* piece exactness for every read, and one bucket per k-mer identity across ALL occurrences in the set *)
  Definition msp_out_ok (l : list (dna * list piece)) : Prop :=
    Forall read_ok l /\ forall x b c, occ l x b -> occ l x c -> b = c.
End MspSpec.
