(* Layer S: the Hamming-distance-1 neighbours of a K-letter string, in the order KmerOneHammingIter (src/neighbors.rs)
   yields them: position ascending, replacement base ascending, the original base skipped. *)
From Coq Require Import NArith List Bool Arith.
From DBG Require Import Spec.Dna.
Import ListNotations.
Open Scope N_scope.

Definition other_bases (b : N) : list N := filter (fun ch => negb (ch =? b)) [0; 1; 2; 3].
Definition neighbors_at (s : dna) (i : nat) : list dna := map (fun ch => upd i s ch) (other_bases (nth i s 0)).
Definition neighbors (s : dna) : list dna := flat_map (neighbors_at s) (seq 0 (length s)).
