(* Layer S for C03: what the extensions, edges and walks of a finished graph have to denote, on plain lists.
   A graph is the list of its nodes (sequence, extension byte, payload); node id = position.  The queries are
   those of Algo/GraphModel.v, whose find_link IS the list-level [Spec.GraphIndex.find_link_spec]. *)
From Coq Require Import NArith ZArith List Bool Arith.
From DBG Require Import Spec.Dna Spec.GraphIndex Packed.ExtsModel Algo.Compress Algo.GraphModel.
Import ListNotations.
Local Open Scope nat_scope.

Definition bases : list N := [0; 1; 2; 3]%N.

(* a list in which consecutive elements are R-related *)
Fixpoint chain {A} (R : A -> A -> Prop) (l : list A) : Prop :=
  match l with
  | [] => True
  | a :: r => match r with b :: _ => R a b | [] => True end /\ chain R r
  end.

(* consecutive k-mers: the last K-1 bases of x are the first K-1 bases of y *)
Definition overlaps (x y : dna) : Prop := tl x = removelast y.

Section EdgeSpec.
Variable D : Type.
Variable K : nat.
Variable stranded : bool.
Local Notation graph := (graph D).

Definition node_seq (g : graph) (v : nat) : dna := match nth_error g v with Some n => n_seq D n | None => [] end.
Definition node_exts (g : graph) (v : nat) : N := match nth_error g v with Some n => n_exts D n | None => 0%N end.
Definition edges_of (g : graph) (u : nat) (s : dir) : list link :=
  match find_edges D K stranded g u s with Some l => l | None => [] end.

(* node sequences are DNA of at least K bases *)
Definition wf_graph (g : graph) : Prop :=
  1 <= K /\ forall n, In n g -> K <= length (n_seq D n) /\ wf_dna (n_seq D n).

(* node v's terminal k-mer on [side] is x *)
Definition end_is (g : graph) (v : nat) (side : dir) (x : dna) : Prop :=
  v < length g /\ term_kmer K (node_seq g v) side = x.

(* a single-k-mer node whose k-mer is its own reverse complement (special only when unstranded):
   its two sides are one and the same *)
Definition pal_single (g : graph) (v : nat) : Prop :=
  stranded = false /\ v < length g /\ length (node_seq g v) = K /\ node_seq g v = rc (node_seq g v).

(* the node sequence read in the direction of travel when the node is entered through side d *)
Definition oseq (g : graph) (x : nat * dir) : dna :=
  match snd x with DLeft => node_seq g (fst x) | DRight => rc (node_seq g (fst x)) end.
(* the k-mer at which one leaves u through side s / enters v through side t, in the direction of travel *)
Definition out_kmer (g : graph) (u : nat) (s : dir) : dna := last_kmer K (oseq g (u, dflip s)).
Definition in_kmer (g : graph) (v : nat) (t : dir) : dna := first_kmer K (oseq g (v, t)).

(* an edge (v, t, f) reported from side s of node u is right: it leads to an existing node whose entered k-mer
   is the left k-mer extended by a recorded base (hence the K-1 overlap), flip = "the strand changes" *)
Definition edge_ok (g : graph) (u : nat) (s : dir) (l : link) : Prop :=
  let '(v, t, f) := l in
  v < length g /\
  (exists c, (c < 4)%N /\ e_has_ext (node_exts g u) (dirb s) (match s with DRight => c | DLeft => comp c end) = true /\
             in_kmer g v t = extend_right (out_kmer g u s) c) /\
  overlaps (out_kmer g u s) (in_kmer g v t) /\
  f = dir_eqb s t /\ (stranded = true -> f = false).

(* ---- validity of a graph (what compress_kmers produces; checked on every implementation graph by chk_graph_ok) *)
Definition ends_ok (g : graph) : Prop :=
  NoDup (ends_of K (g_seqs D g) DLeft) /\ NoDup (ends_of K (g_seqs D g) DRight) /\
  (stranded = false -> forall u w s, u < length g -> w < length g ->
     term_kmer K (node_seq g w) (dflip s) = rc (term_kmer K (node_seq g u) s) ->
     w = u /\ length (node_seq g u) = K).

(* the base that leads back: the one dropped from x when extending on side s (complemented across a flip) *)
Definition back_base (x : dna) (s : dir) (f : bool) : N :=
  let c := match s with DRight => hd 0%N x | DLeft => last x 0%N end in if f then comp c else c.

(* every resolvable extension is answered by the return extension of the target, on the arrival side - or,
   when the target is a palindromic single-k-mer node, possibly on its other side (complemented) *)
Definition exts_sym (g : graph) : Prop :=
  forall u s b v t f, u < length g -> In b bases -> e_has_ext (node_exts g u) (dirb s) b = true ->
    find_link D K stranded g (extend (term_kmer K (node_seq g u) s) b s) s = Some (v, t, f) ->
    let b' := back_base (term_kmer K (node_seq g u) s) s f in
    e_has_ext (node_exts g v) (dirb t) b' = true \/
    (pal_single g v /\ e_has_ext (node_exts g v) (dirb (dflip t)) (comp b') = true).
Definition exts_resolvable (g : graph) : Prop :=
  forall u s b, u < length g -> In b bases -> e_has_ext (node_exts g u) (dirb s) b = true ->
    find_link D K stranded g (extend (term_kmer K (node_seq g u) s) b s) s <> None.

Definition graph_ok (g : graph) : Prop := wf_graph g /\ ends_ok g /\ exts_sym g.
Definition valid_graph (g : graph) : Prop := graph_ok g /\ exts_resolvable g.

(* the C01 partition condition, which implies ends_ok: every (canonical) k-mer occurs once in the graph *)
Definition kmers_once (g : graph) : Prop :=
  NoDup (concat (map (fun s => map (canon_s stranded) (kmers K s)) (g_seqs D g))).

(* ---- symmetry of a family of edge lists E u s (the model's, or the lists reported by the implementation) *)
Definition edges_sym_on (g : graph) (E : nat -> dir -> list link) : Prop :=
  forall u s v t f, u < length g -> In (v, t, f) (E u s) ->
    exists s' t' f', In (u, s', f') (E v t') /\
      (t' = t \/ pal_single g v) /\ (s' = s \/ pal_single g u) /\ f' = dir_eqb t' s'.

(* ---- walks: (node id, side through which the node is entered); Left = read forward *)
Definition step_ok (g : graph) (a b : nat * dir) : Prop :=
  exists s t f, In (fst b, t, f) (edges_of g (fst a) s) /\
    (s = dflip (snd a) \/ pal_single g (fst a)) /\ (t = snd b \/ pal_single g (fst b)).
Definition valid_walk (g : graph) (p : list (nat * dir)) : Prop :=
  (forall x, In x p -> fst x < length g) /\ chain (step_ok g) p.
Definition walk_kmers (g : graph) (p : list (nat * dir)) : list dna :=
  flat_map (fun x => kmers K (oseq g x)) p.
End EdgeSpec.

(* ---- the adjacencies observed in a read set (no graph involved) *)
Section Observed.
Variable K : nat.
Variable stranded : bool.
Definition windows (k : nat) (reads : list dna) : list dna := flat_map (kmers k) reads.
(* number of occurrences of the k-mer x (of its strand class when unstranded) in the reads *)
Definition occ (reads : list dna) (x : dna) : nat :=
  length (filter (fun w => dna_eqb (canon_s stranded w) (canon_s stranded x)) (windows K reads)).
Definition retained (thr : nat) (reads : list dna) (x : dna) : Prop := thr <= occ reads x.
Definition retainedb (thr : nat) (reads : list dna) (x : dna) : bool := thr <=? occ reads x.
(* (K+1)-mers of the reads whose two k-mers are both retained, canonical when unstranded *)
Definition observed_adjs (thr : nat) (reads : list dna) : list dna :=
  map (canon_s stranded)
      (filter (fun w => retainedb thr reads (firstn K w) && retainedb thr reads (skipn 1 w)) (windows (S K) reads)).

(* the adjacencies a finished graph denotes: those inside its node sequences and one per reported edge
   (E = the edge lists by (node, side)), spelled as (K+1)-mers *)
Definition adj_mer (x y : dna) : dna := x ++ [last y 0%N].
Definition oseq_l (seqs : list dna) (v : nat) (d : dir) : dna :=
  match d with DLeft => nth v seqs [] | DRight => rc (nth v seqs []) end.
(* the (K+1)-mer of an edge, read on the strand of the source node: leaving through the left side one travels
   on the reverse strand, so the mer spelled in the direction of travel is reverse-complemented back (this only
   matters in stranded mode; unstranded, canonicalisation identifies the two) *)
Definition edge_mer (seqs : list dna) (u : nat) (s : dir) (l : link) : dna :=
  let m := adj_mer (last_kmer K (oseq_l seqs u (dflip s))) (first_kmer K (oseq_l seqs (fst (fst l)) (snd (fst l)))) in
  match s with DRight => m | DLeft => rc m end.
Definition graph_adjs (seqs : list dna) (E : list (nat * dir * list link)) : list dna :=
  map (canon_s stranded)
      (flat_map (kmers (S K)) seqs ++ flat_map (fun e => map (edge_mer seqs (fst (fst e)) (snd (fst e))) (snd e)) E).
Definition edges_are_observed (thr : nat) (reads seqs : list dna) (E : list (nat * dir * list link)) : Prop :=
  forall w, In w (graph_adjs seqs E) <-> In w (observed_adjs thr reads).
End Observed.
