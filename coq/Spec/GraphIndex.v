(* Layer S for C19: what the node-end index of a graph has to answer, on plain lists.
   A graph is the list of its node sequences (node id = position).  "A k-mer is found as a node end exactly
   when some node starts or ends with it": [find_link_spec] is the list-level reading of
   DebruijnGraph::find_link (graph.rs:252-291), [edges_spec] of find_edges (graph.rs:223-241). *)
From Coq Require Import NArith List Bool Arith.
From DBG Require Import Spec.Dna.
Import ListNotations.
Local Open Scope nat_scope.

Inductive dir := DLeft | DRight.
Definition dir_eqb (a b : dir) : bool := match a, b with DLeft, DLeft | DRight, DRight => true | _, _ => false end.

Definition first_kmer (K : nat) (s : dna) : dna := kmer_at K s 0.
Definition last_kmer (K : nat) (s : dna) : dna := kmer_at K s (length s - K).
Definition term_kmer (K : nat) (s : dna) (d : dir) : dna :=
  match d with DLeft => first_kmer K s | DRight => last_kmer K s end.

(* first position whose element satisfies p *)
Fixpoint index_where {A} (p : A -> bool) (l : list A) : option nat :=
  match l with
  | [] => None
  | x :: r => if p x then Some 0%nat else option_map S (index_where p r)
  end.

(* the node whose end (taken from the list of all first resp. last k-mers) is exactly [kmer] *)
Definition end_index (ends : list dna) (kmer : dna) : option nat := index_where (dna_eqb kmer) ends.

Definition link := (nat * dir * bool)%type.

(* [lefts] / [rights]: first / last k-mer of every node, by node id *)
Definition find_link_ends (stranded : bool) (lefts rights : list dna) (kmer : dna) (d : dir) : option link :=
  match d with
  | DLeft =>
      match end_index rights kmer with
      | Some i => Some (i, DRight, false)
      | None => if stranded then None
                else match end_index lefts (rc kmer) with Some i => Some (i, DLeft, true) | None => None end
      end
  | DRight =>
      match end_index lefts kmer with
      | Some i => Some (i, DLeft, false)
      | None => if stranded then None
                else match end_index rights (rc kmer) with Some i => Some (i, DRight, true) | None => None end
      end
  end.

Definition ends_of (K : nat) (seqs : list dna) (side : dir) : list dna := map (fun s => term_kmer K s side) seqs.

Definition find_link_spec (K : nat) (stranded : bool) (seqs : list dna) (kmer : dna) (d : dir) : option link :=
  find_link_ends stranded (ends_of K seqs DLeft) (ends_of K seqs DRight) kmer d.

Definition extend (x : dna) (b : N) (d : dir) : dna :=
  match d with DLeft => extend_left x b | DRight => extend_right x b end.

(* [exts] = the bases i with exts.has_ext(dir, i), ascending *)
Definition edges_ends (stranded : bool) (lefts rights : list dna) (id : nat) (d : dir) (exts : list N) : list link :=
  let t := nth id (match d with DLeft => lefts | DRight => rights end) [] in
  flat_map (fun b => match find_link_ends stranded lefts rights (extend t b d) d with
                     | Some x => [x] | None => [] end) exts.
Definition edges_spec (K : nat) (stranded : bool) (seqs : list dna) (id : nat) (d : dir) (exts : list N) : list link :=
  edges_ends stranded (ends_of K seqs DLeft) (ends_of K seqs DRight) id d exts.
