(* Layer S for C16: what ASCII ingestion is supposed to compute, on plain lists.  Text is a list of byte
   values (or of Unicode code points for the str constructors).  [ascii_base]/[ascii_valid] are in Spec/Dna.v. *)
From DBG Require Export Spec.Dna.
Open Scope N_scope.

(* rendering back: the upper-cased input with every non-ACGT byte replaced by 'A' *)
Definition upper (c : N) : N := if (97 <=? c) && (c <=? 122) then c - 32 else c.
Definition render_char (c : N) : N := if ascii_valid c then upper c else 65.
Definition render (bytes : list N) : list N := map render_char bytes.

(* maximal runs of elements satisfying p, in order (never empty runs) *)
Fixpoint runs {A} (p : A -> bool) (l : list A) : list (list A) :=
  match l with
  | [] => []
  | x :: r =>
      if p x then
        match r with
        | y :: _ => if p y then match runs p r with h :: t => (x :: h) :: t | [] => [[x]] end
                    else [x] :: runs p r
        | [] => [[x]]
        end
      else runs p r
  end.
(* the strict constructor: the maximal ACGT runs of the text, as bases *)
Definition acgt_runs (text : list N) : list dna := map (map ascii_base) (runs ascii_valid text).

(* declarative reading of "maximal runs": l = junk ++ r1 ++ junk+ ++ r2 ++ ... ++ junk *)
Inductive runs_of {A} (p : A -> bool) : list A -> list (list A) -> Prop :=
| runs_nil : forall junk, forallb (fun x => negb (p x)) junk = true -> runs_of p junk []
| runs_cons : forall junk r rest rs, forallb (fun x => negb (p x)) junk = true -> r <> [] -> forallb p r = true ->
    match rest with [] => True | x :: _ => p x = false end ->
    runs_of p rest rs -> runs_of p (junk ++ r ++ rest) (r :: rs).

(* hashed-N constructor contract on one result: same length, ACGT positions untouched, every base < 4 *)
Fixpoint hashn_ok (bytes : list N) (res : dna) : bool :=
  match bytes, res with
  | [], [] => true
  | c :: bs, b :: rs => (b <? 4) && (if ascii_valid c then b =? ascii_base c else true) && hashn_ok bs rs
  | _, _ => false
  end.
(* locality / determinism for one read name: wherever both inputs have a non-ACGT byte at the same position,
   the substituted bases are the same *)
Fixpoint hashn_local (bytes1 : list N) (res1 : dna) (bytes2 : list N) (res2 : dna) : bool :=
  match bytes1, res1, bytes2, res2 with
  | c1 :: b1, r1 :: s1, c2 :: b2, r2 :: s2 =>
      (if negb (ascii_valid c1) && negb (ascii_valid c2) then r1 =? r2 else true) && hashn_local b1 s1 b2 s2
  | _, _, _, _ => true
  end.
