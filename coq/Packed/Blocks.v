(* Layer P: 64-bit blocks of 32 two-bit lanes (lane 0 = the two top bits), the storage unit shared by
   DnaString (dna_string.rs) and Lmer (vmer.rs).  Kernels are [wexp] expressions over u64. *)
From Coq Require Import NArith List Bool Arith Lia.
From DBG Require Import Bits.SymBV Gen.SourceConsts Spec.Dna Packed.KmerModel.
Import ListNotations.
Open Scope N_scope.

Definition c64 : kcfg := mkc 64 32.
Definition two64 : N := 2 ^ 64.

(* vmer.rs block_get: ((kmer >> offset) & 3) as u8, offset = (31 - pos) * 2 *)
Definition k_block_get (pos : nat) (w : wexp) : option wexp :=
  do d <- subn 31 pos; Some (And (Shr (d * 2) w) (Const 3)).
(* vmer.rs block_set: (kmer & !(3 << offset)) | ((val as u64) << offset) *)
Definition k_block_set (pos : nat) (w v : wexp) : option wexp :=
  do d <- subn 31 pos; Some (Or (And w (Not 64 (Shl 64 (d * 2) (Const 3)))) (Shl 64 (d * 2) v)).
(* dna_string.rs get_by_addr: ((storage[block] >> (62 - bit)) & MASK) as u8 *)
Definition k_ds_get (bit : nat) (w : wexp) : option wexp :=
  do sh <- subn 62 bit; Some (And (Shr sh w) (Const 3)).
(* dna_string.rs set_by_addr: mask = MASK << (62-bit); w |= mask; w ^= mask; w |= (value & MASK) << (62-bit) *)
Definition k_ds_set (bit : nat) (w v : wexp) : option wexp :=
  do sh <- subn 62 bit;
  let mask := Shl 64 sh (Const 3) in
  Some (Or (Xor (Or w mask) mask) (Shl 64 sh (And v (Const 3)))).
(* get_kmer: slc[block] << (2 * block_pos) *)
Definition k_window (block_pos : nat) (w : wexp) : wexp := Shl 64 (2 * block_pos) w.

Definition block_get (w : N) (pos : nat) : option N := run (k_block_get pos (Var 0 64)) w 0.
Definition block_set (w : N) (pos : nat) (v : N) : option N := run (k_block_set pos (Var 0 64) (Var 1 8)) w v.
Definition ds_get (w : N) (bit : nat) : option N := run (k_ds_get bit (Var 0 64)) w 0.
Definition ds_set (w : N) (bit : nat) (v : N) : option N := run (k_ds_set bit (Var 0 64) (Var 1 8)) w v.
Definition window (w : N) (block_pos : nat) : option N := run (Some (k_window block_pos (Var 0 64))) w 0.

(* count_diff_2_bit_packed (dna_string.rs) - same expression as Kmer32::hamming_dist *)
Definition count_diff_packed (a b : N) : option N := hamming_dist c64 a b.

(* all lanes of a list of blocks *)
Definition lanes_of (ws : list N) : dna := concat (map (decode 32) ws).

(* option-list helpers *)
Definition nth_opt {A} (l : list A) (i : nat) : option A := nth_error l i.
Fixpoint set_nth {A} (l : list A) (i : nat) (x : A) : option (list A) :=
  match l, i with
  | [], _ => None
  | _ :: r, O => Some (x :: r)
  | y :: r, S j => do r' <- set_nth r j x; Some (y :: r')
  end.
Fixpoint omapN {A} (f : nat -> option A) (l : list nat) : option (list A) :=
  match l with [] => Some [] | i :: r => do x <- f i; do t <- omapN f r; Some (x :: t) end.
Fixpoint nlist_cmp (a b : list N) : comparison :=
  match a, b with
  | [], [] => Eq | [], _ => Lt | _, [] => Gt
  | x :: a', y :: b' => match x ?= y with Eq => nlist_cmp a' b' | c => c end
  end.
