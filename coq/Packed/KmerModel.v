(* Layer P: executable model of IntKmer<T> and VarIntKmer<T,KS> (src/kmer.rs) and of the trait-default
   k-mer code of src/lib.rs.  Bit kernels are deeply embedded [wexp] expressions (Bits/SymBV.v) built from
   the *control* arguments (configuration, position, run length); their concrete meaning is [evalN].
   [None] = the Rust code panics in a debug build (shift overflow, usize underflow, failed unwrap,
   debug_assert) - see DESIGN 3.1.  Constants come from Gen/SourceConsts.v (regenerated from the source). *)
From Coq Require Import NArith List Bool Arith Lia.
From DBG Require Import Bits.SymBV Gen.SourceConsts Spec.Dna.
Import ListNotations.
Open Scope N_scope.

(* ------------------------------------------------------------------ configurations *)
Record kcfg := { kW : nat; kK : nat; kInt : bool }.   (* kInt: IntKmer<T> (K = W/2) else VarIntKmer<T,KS> *)
Definition mkc (w k : nat) : kcfg := {| kW := w; kK := k; kInt := Nat.eqb (2 * k) w |}.
(* the 19 shipped types: the 18 aliases of kmer.rs plus VarIntKmer<u64,K31> used throughout the tests *)
Definition shipped : list kcfg :=
  [mkc 8 2; mkc 8 3; mkc 8 4; mkc 16 5; mkc 16 6; mkc 16 8; mkc 32 10; mkc 32 12; mkc 32 14; mkc 32 15;
   mkc 32 16; mkc 64 20; mkc 64 24; mkc 64 30; mkc 64 31; mkc 64 32; mkc 128 40; mkc 128 48; mkc 128 64]%nat.

Definition ladder_of (w : nat) : list (N * nat * nat * N) :=
  match w with
  | 8 => ladder_8 | 16 => ladder_16 | 32 => ladder_32 | 64 => ladder_64 | _ => ladder_128
  end%nat.
Definition lower_of_two (w : nat) : N :=
  match w with
  | 8 => lower_of_two_8 | 16 => lower_of_two_16 | 32 => lower_of_two_32 | 64 => lower_of_two_64
  | _ => lower_of_two_128
  end%nat.

(* usize subtraction: underflow panics *)
Definition subn (a b : nat) : option nat := if Nat.leb b a then Some (a - b)%nat else None.
Definition obind {A B} (o : option A) (f : A -> option B) : option B := match o with Some x => f x | None => None end.
Notation "'do' x <- o ; k" := (obind o (fun x => k)) (at level 200, x name, o at level 100, k at level 200).

Section Kernels.
Variable c : kcfg.
Let W := kW c.
Let K := kK c.

(* T::one() << 1 | T::one() *)
Definition k_msk : wexp := Or (Shl W 1 (Const 1)) (Const 1).

(* addr: (k()-1 - pos) * 2 *)
Definition addr (pos : nat) : option nat :=
  do top <- subn K 1; do d <- subn top pos; Some (d * 2)%nat.

(* (one << n) - one, with the shift checked *)
Definition ones_shl (n : nat) : option N := if Nat.ltb n W then Some (2 ^ N.of_nat n - 1) else None.

(* IntKmer::top_mask / VarIntKmer::top_mask as constants *)
Definition top_mask (n_bases : nat) : option N :=
  if kInt c then
    if Nat.ltb 0 n_bases then
      do m <- ones_shl (n_bases * 2);
      do sh <- subn W (n_bases * 2);
      if Nat.ltb sh W then Some ((m * 2 ^ N.of_nat sh) mod 2 ^ N.of_nat W) else None
    else Some 0
  else
    do unused <- subn W (2 * K);
    let mask_bits := (n_bases * 2 + unused)%nat in
    if Nat.ltb 0 mask_bits then
      do m <- ones_shl mask_bits;
      do sh <- subn W mask_bits;
      if Nat.ltb sh W then Some ((m * 2 ^ N.of_nat sh) mod 2 ^ N.of_nat W) else None
    else Some 0.

Definition bottom_mask (n_bases : nat) : option N :=
  if Nat.ltb 0 n_bases then ones_shl (n_bases * 2) else Some 0.

(* get: to_byte(storage >> bit & msk) *)
Definition k_get (pos : nat) (s : wexp) : option wexp :=
  do bit <- addr pos; Some (And (Shr bit s) k_msk).

(* set_mut: (storage & !(msk << bit)) | (t_from_byte(v) << bit) *)
Definition k_set_mut (pos : nat) (s v : wexp) : option wexp :=
  do bit <- addr pos;
  Some (Or (And s (Not W (Shl W bit k_msk))) (Shl W bit v)).

(* set_slice_mut *)
Definition k_set_slice_mut (pos n_bases : nat) (s value : wexp) : option wexp :=
  if negb (Nat.leb (pos + n_bases) K) then None else   (* debug_assert *)
  let v_shift := if Nat.ltb W 64 then Shr (64 - W) value else value in
  (* t_from_u64(v_shift).unwrap(): v_shift < 2^min(W,64) always fits *)
  let v := if Nat.ltb 64 W then Shl W (W - 64) v_shift else v_shift in
  do tm <- top_mask pos;
  do rest <- subn K (pos + n_bases);
  do bm <- bottom_mask rest;
  let mask := Or (Const tm) (Const bm) in
  do shift <- (if kInt c then Some (2 * pos)%nat else do un <- subn W (2 * K); Some (2 * pos + un)%nat);
  if negb (Nat.ltb shift W) then None else
  let value_slide := Shr shift v in
  Some (Or (And s mask) (And value_slide (Not W mask))).

Definition k_rev2 (s : wexp) : wexp :=
  fold_left (fun r st => match st with (m1, sl, sr, m2) =>
     Or (Shl W sl (And r (Const m1))) (And (Shr sr r) (Const m2)) end) (ladder_of W) s.

(* rc *)
Definition k_rc (s : wexp) : option wexp :=
  let new := Not W (k_rev2 s) in
  if kInt c then Some new
  else if Nat.ltb K (W / 2) then
    let up := (2 * (W / 2 - K))%nat in
    if Nat.ltb up W then Some (Shr up new) else None
  else Some new.

(* extend_left *)
Definition k_extend_left (s v : wexp) : option wexp :=
  if kInt c then
    do top <- subn K 1;
    Some (Or (Shr 2 s) (Shl W (top * 2) v))
  else k_set_mut 0 (Shr 2 s) v.

(* extend_right *)
Definition k_extend_right (s v : wexp) : option wexp :=
  do top <- subn K 1;
  if kInt c then k_set_mut top (Shl W 2 s) v
  else do tm <- top_mask 0; k_set_mut top (And (Shl W 2 s) (Not W (Const tm))) v.

(* the word whose set bits are counted by hamming_dist / at_count / gc_count *)
Definition k_hamming_word (s o : wexp) : wexp :=
  let d := Xor s o in And (Or d (Shr 1 d)) (Const (lower_of_two W)).
Definition k_gc_word (s : wexp) : option wexp :=
  let mix := Xor (Shr 1 s) s in
  if kInt c then Some (And mix (Const (lower_of_two W)))
  else do tm <- top_mask 0; Some (And (And mix (Not W (Const tm))) (Const (lower_of_two W))).
Definition k_at_word (s : wexp) : option wexp :=
  let mix := Not W (Xor (Shr 1 s) s) in
  if kInt c then Some (And mix (Const (lower_of_two W)))
  else do tm <- top_mask 0; Some (And (And mix (Not W (Const tm))) (Const (lower_of_two W))).
End Kernels.

(* ------------------------------------------------------------------ running kernels *)
Definition env2 (a b : N) : nat -> N := fun v => match v with O => a | _ => b end.
Definition run (oe : option wexp) (a b : N) : option N :=
  do e <- oe; if shifts_ok e then Some (evalN (env2 a b) e) else None.

Fixpoint pos_popcount (p : positive) : N :=
  match p with xH => 1 | xO q => pos_popcount q | xI q => 1 + pos_popcount q end.
Definition popcount (n : N) : N := match n with 0 => 0 | Npos p => pos_popcount p end.

Section Ops.
Variable c : kcfg.
Let W := kW c.
Let K := kK c.
Definition sV := Var 0 W.
Definition get (s : N) (pos : nat) : option N := run (k_get c pos sV) s 0.
Definition set_mut (s : N) (pos : nat) (v : N) : option N := run (k_set_mut c pos sV (Var 1 8)) s v.
Definition set_slice_mut (s : N) (pos n : nat) (value : N) : option N :=
  run (k_set_slice_mut c pos n sV (Var 1 64)) s value.
Definition krc (s : N) : option N := run (k_rc c sV) s 0.
Definition kextend_left (s v : N) : option N := run (k_extend_left c sV (Var 1 8)) s v.
Definition kextend_right (s v : N) : option N := run (k_extend_right c sV (Var 1 8)) s v.
Definition hamming_dist (s o : N) : option N :=
  do w <- run (Some (k_hamming_word c sV (Var 1 W))) s o; Some (popcount w).
Definition kat_count (s : N) : option N := do w <- run (k_at_word c sV) s 0; Some (popcount w).
Definition kgc_count (s : N) : option N := do w <- run (k_gc_word c sV) s 0; Some (popcount w).
(* T::from_u64(v).unwrap() / T::to_u64(&storage).unwrap() *)
Definition from_u64 (v : N) : option N := if v <? 2 ^ N.of_nat (Nat.min W 64) then Some v else None.
Definition to_u64 (s : N) : option N := if s <? 2 ^ 64 then Some s else None.
Definition kempty : N := 0.

(* trait defaults (lib.rs) *)
Fixpoint set_all (s : N) (i : nat) (bytes : list N) : option N :=
  match bytes with
  | [] => Some s
  | b :: rest => do s' <- set_mut s i b; set_all s' (S i) rest
  end.
Definition from_bytes (bytes : list N) : option N :=
  if Nat.ltb (length bytes) K then None else set_all kempty 0 (firstn K bytes).
Definition b2b (ch : N) : N := nth (N.to_nat ch) tbl_base_to_bits 0.
Definition from_ascii (bytes : list N) : option N :=
  if Nat.ltb (length bytes) K then None else set_all kempty 0 (map b2b (firstn K bytes)).
Definition bits_to_base (b : N) : N := nth (N.to_nat b) tbl_bits_to_base 88.
Fixpoint get_all (s : N) (poss : list nat) : option (list N) :=
  match poss with
  | [] => Some []
  | p :: ps => do b <- get s p; do r <- get_all s ps; Some (b :: r)
  end.
Definition to_bases (s : N) : option (list N) := get_all s (seq 0 K).
Definition to_string (s : N) : option (list N) := do l <- to_bases s; Some (map bits_to_base l).
Fixpoint ext_all (s : N) (rest : list N) : option (list N) :=
  match rest with
  | [] => Some []
  | b :: r => do s' <- kextend_right s b; do t <- ext_all s' r; Some (s' :: t)
  end.
Definition kmers_from_bytes (l : list N) : option (list N) :=
  if Nat.ltb (length l) K then Some [] else
  do k0 <- set_all kempty 0 (firstn K l); do t <- ext_all k0 (skipn K l); Some (k0 :: t).
Definition kmers_from_ascii (l : list N) : option (list N) := kmers_from_bytes (map b2b l).
Definition min_rc_flip (s : N) : option (N * bool) :=
  do r <- krc s; Some (if s <? r then (s, false) else (r, true)).
Definition min_rc (s : N) : option N := do r <- krc s; Some (if s <? r then s else r).
Definition kis_palindrome (s : N) : option bool :=
  do r <- krc s; Some (Nat.even K && (s =? r)).
(* Dir: false = Left, true = Right *)
Definition kextend (s v : N) (dir : bool) : option N := if dir then kextend_right s v else kextend_left s v.
End Ops.

(* ------------------------------------------------------------------ decoding *)
Definition lane (s : N) (i : nat) : N :=
  N.b2n (N.testbit s (N.of_nat (2 * i))) + 2 * N.b2n (N.testbit s (N.of_nat (2 * i + 1))).
Definition decode (K : nat) (s : N) : dna := map (fun p => lane s (K - 1 - p)) (seq 0 K).
Definition wf (K : nat) (s : N) : Prop := s < 2 ^ N.of_nat (2 * K).
Definition wfb (K : nat) (s : N) : bool := s <? 2 ^ N.of_nat (2 * K).
Definition encode (l : dna) : N := rank l.
