(* Layer P: model of `Exts` (src/lib.rs): one byte, low nibble = left extensions, high nibble = right;
   bit i of a nibble = extension by base i.  Masks and shifts come from the source pins.
   Dir: false = Left, true = Right. *)
From Coq Require Import NArith List Bool Arith Lia.
From DBG Require Import Gen.SourceConsts Spec.Dna.
Import ListNotations.
Open Scope N_scope.

Definition u8 (x : N) : N := x mod 256.
Definition pin (l : list N) (i : nat) : N := nth i l 0.

Definition e_from_single_dirs (left right : N) : N :=
  N.lor (u8 (N.shiftl right (pin exts_from_single_dirs 0))) (N.land left (pin exts_from_single_dirs 1)).
Definition e_merge (left right : N) : N :=
  N.lor (N.land left (pin exts_merge 0)) (N.land right (pin exts_merge 1)).
Definition e_add (a b : N) : N := N.lor a b.
(* set: shift = pos + (4 | 0); new = val | (1u8 << shift); shift >= 8 panics in debug *)
Definition e_set (e : N) (dir : bool) (pos : N) : option N :=
  let shift := pos + (if dir then pin exts_set 0 else pin exts_set 1) in
  if shift <? 8 then Some (N.lor e (N.shiftl 1 shift)) else None.
Definition e_dir_bits (e : N) (dir : bool) : N :=
  if dir then N.shiftr e (pin exts_dir_bits 0) else N.land e (pin exts_dir_bits 1).
Definition e_get (e : N) (dir : bool) : list N :=
  filter (fun i => 0 <? N.land (e_dir_bits e dir) (N.shiftl 1 i)) [0; 1; 2; 3].
Definition e_has_ext (e : N) (dir : bool) (base : N) : bool :=
  0 <? N.land (e_dir_bits e dir) (u8 (N.shiftl 1 base)).
Definition e_num_ext_dir (e : N) (dir : bool) : N :=
  let b := e_dir_bits e dir in
  N.land b 1 + N.shiftr (N.land b 2) 1 + N.shiftr (N.land b 4) 2 + N.shiftr (N.land b 8) 3.
Definition e_mk_left (base : N) : option N := e_set 0 false base.
Definition e_mk_right (base : N) : option N := e_set 0 true base.
Definition e_mk (l r : N) : option N :=
  match e_mk_left l, e_mk_right r with Some a, Some b => Some (e_merge a b) | _, _ => None end.
Definition e_get_unique_extension (e : N) (dir : bool) : option N :=
  if negb (e_num_ext_dir e dir =? 1) then None
  else find (fun i => 0 <? N.land (e_dir_bits e dir) (N.shiftl 1 i)) [0; 1; 2; 3].
Definition e_single_dir (e : N) (dir : bool) : N :=
  if dir then N.shiftr e (pin exts_single_dir 0) else N.land e (pin exts_single_dir 1).
Definition e_complement (v : N) : N :=
  let c := exts_complement in
  let r := N.lor (u8 (N.shiftl (N.land v (pin c 0)) (pin c 1))) (N.land (N.shiftr v (pin c 2)) (pin c 3)) in
  N.lor (u8 (N.shiftl (N.land r (pin c 4)) (pin c 5))) (N.land (N.shiftr r (pin c 6)) (pin c 7)).
Definition e_reverse (v : N) : N :=
  N.lor (u8 (N.shiftl (N.land v (pin exts_reverse 0)) (pin exts_reverse 1))) (N.shiftr v (pin exts_reverse 2)).
Definition e_rc (v : N) : N := e_complement (e_reverse v).
(* from_slice_bounds: flanking bases of src[start..start+length] *)
Definition e_from_slice_bounds (src : list N) (start length : nat) : N :=
  let l := if Nat.ltb 0 start then u8 (N.shiftl 1 (nth (start - 1) src 0)) else 0 in
  let r := if Nat.ltb (start + length) (List.length src) then u8 (N.shiftl 1 (nth (start + length) src 0)) else 0 in
  N.lor (u8 (N.shiftl r 4)) l.

(* Layer S reading of an extension set: the two sets of bases *)
Definition exts_left (e : N) : list N := filter (fun b => N.testbit e b) [0; 1; 2; 3].
Definition exts_right (e : N) : list N := filter (fun b => N.testbit e (b + 4)) [0; 1; 2; 3].
