(* Layer P: model of DnaString (src/dna_string.rs).  State = (storage : Vec<u64>, len).
   [None] = panic (index out of bounds, assert, debug overflow). *)
From Coq Require Import NArith List Bool Arith Lia.
From DBG Require Import Bits.SymBV Gen.SourceConsts Spec.Dna Packed.KmerModel Packed.Blocks.
Import ListNotations.
Open Scope N_scope.

Record dstr := { d_sto : list N; d_len : nat }.
Definition d_new : dstr := {| d_sto := []; d_len := 0 |}.

(* addr: k = i * WIDTH; (k / BLOCK_BITS, k % BLOCK_BITS) *)
Definition d_addr (i : nat) : nat * nat := ((i * 2) / 64, (i * 2) mod 64)%nat.

Definition d_get (s : dstr) (i : nat) : option N :=
  let '(block, bit) := d_addr i in
  do w <- nth_opt (d_sto s) block; ds_get w bit.

Definition d_set_by_addr (sto : list N) (block bit : nat) (v : N) : option (list N) :=
  do w <- nth_opt sto block; do w' <- ds_set w bit v; set_nth sto block w'.
Definition d_set_mut (s : dstr) (i : nat) (v : N) : option dstr :=
  let '(block, bit) := d_addr i in
  do sto <- d_set_by_addr (d_sto s) block bit v; Some {| d_sto := sto; d_len := d_len s |}.

Definition d_push (s : dstr) (v : N) : option dstr :=
  let '(block, bit) := d_addr (d_len s) in
  let sto := if Nat.eqb bit 0 && Nat.leb (length (d_sto s)) block then d_sto s ++ [0] else d_sto s in
  do sto' <- d_set_by_addr sto block bit v; Some {| d_sto := sto'; d_len := S (d_len s) |}.

(* blocks needed for n bases: ((n*WIDTH) >> 6) + (if (n*WIDTH) & 0x3F > 0 {1} else {0}) *)
Definition d_blocks (n : nat) : nat := ((n * 2) / 64 + (if Nat.ltb 0 ((n * 2) mod 64) then 1 else 0))%nat.
Definition d_blank (n : nat) : dstr := {| d_sto := repeat 0 (d_blocks n); d_len := n |}.
Definition d_clear (s : dstr) : dstr := d_new.

(* extend: (1) push while len % 32 != 0; (2) pack groups of <= 32 with assert!(b < 4) *)
Fixpoint d_pack (l : list N) (offset : nat) (val : N) : option N :=
  match l with
  | [] => Some val
  | b :: r => if b <? 4 then d_pack r (offset - 2) (N.lor val (N.shiftl b (N.of_nat offset))) else None
  end.
Fixpoint d_extend_blocks (fuel : nat) (s : dstr) (l : list N) : option dstr :=
  match l with
  | [] => Some s
  | _ => match fuel with
         | O => None
         | S f =>
           let grp := firstn 32 l in
           do val <- d_pack grp 62 0;
           d_extend_blocks f {| d_sto := d_sto s ++ [val]; d_len := (d_len s + length grp)%nat |} (skipn 32 l)
         end
  end.
Fixpoint d_extend_fill (s : dstr) (l : list N) : option (dstr * list N) :=
  if Nat.eqb (d_len s mod 32) 0 then Some (s, l) else
  match l with
  | [] => Some (s, [])
  | b :: r => do s' <- d_push s b; d_extend_fill s' r
  end.
Definition d_extend (s : dstr) (l : list N) : option dstr :=
  do p <- d_extend_fill s l; d_extend_blocks (S (length l)) (fst p) (snd p).
Definition d_from_bytes (l : list N) : option dstr := d_extend d_new l.

(* push_bytes: low bits first within each byte *)
Fixpoint d_push_all (s : dstr) (l : list N) : option dstr :=
  match l with [] => Some s | b :: r => do s' <- d_push s b; d_push_all s' r end.
Definition d_push_bytes (s : dstr) (bytes : list N) (seq_length : nat) : option dstr :=
  if negb (Nat.leb seq_length (length bytes * 8 / 2)) then None else
  d_push_all s (map (fun i => N.land (N.shiftr (nth ((i * 2) / 8) bytes 0) (N.of_nat ((i * 2) mod 8))) 3) (seq 0 seq_length)).

Definition d_to_bytes (s : dstr) : option (list N) := omapN (d_get s) (seq 0 (d_len s)).
Definition bits_to_ascii (b : N) : N := nth (N.to_nat b) tbl_bits_to_ascii 88.
Definition d_to_ascii (s : dstr) : option (list N) := do l <- d_to_bytes s; Some (map bits_to_ascii l).
Definition d_to_text (s : dstr) : option (list N) := do l <- d_to_bytes s; Some (map bits_to_base l).
Definition d_reverse (s : dstr) : option dstr := do l <- d_to_bytes s; d_push_all d_new (rev l).
Definition d_rc (s : dstr) : option dstr := do l <- d_to_bytes s; d_extend d_new (map (fun b => 3 - b) (rev l)).

(* ndiffs: assert_eq lengths; sum over the blocks of b1 *)
Fixpoint d_ndiffs_blocks (a b : list N) : option N :=
  match a with
  | [] => Some 0
  | x :: a' => match b with
               | [] => None
               | y :: b' => do c <- count_diff_packed x y; do r <- d_ndiffs_blocks a' b'; Some (c + r)
               end
  end.
Definition d_ndiffs (a b : dstr) : option N :=
  if Nat.eqb (d_len a) (d_len b) then d_ndiffs_blocks (d_sto a) (d_sto b) else None.

(* derived PartialEq / Ord: storage vector (lexicographic, shorter first) then len; Hash: vec length,
   blocks, len - all as 8-byte little-endian words *)
Definition d_cmp (a b : dstr) : comparison :=
  match nlist_cmp (d_sto a) (d_sto b) with Eq => Nat.compare (d_len a) (d_len b) | c => c end.
Definition d_eq (a b : dstr) : bool := match d_cmp a b with Eq => true | _ => false end.
Definition d_hash_feed (s : dstr) : list N := N.of_nat (length (d_sto s)) :: d_sto s ++ [N.of_nat (d_len s)].

(* abstraction *)
Definition d_abs (s : dstr) : dna := firstn (d_len s) (lanes_of (d_sto s)).
Definition d_inv (s : dstr) : Prop :=
  length (d_sto s) = d_blocks (d_len s) /\ Forall (fun w => w < two64) (d_sto s) /\
  skipn (d_len s) (lanes_of (d_sto s)) = repeat 0 (32 * length (d_sto s) - d_len s).
Definition d_invb (s : dstr) : bool :=
  Nat.eqb (length (d_sto s)) (d_blocks (d_len s)) && forallb (fun w => w <? two64) (d_sto s) &&
  forallb (fun b => b =? 0) (skipn (d_len s) (lanes_of (d_sto s))).

(* PackedDnaStringSet: sequence, start, length *)
Record pset := { p_seq : dstr; p_start : list nat; p_length : list nat }.
Definition p_new : pset := {| p_seq := d_new; p_start := []; p_length := [] |}.
Definition p_add (p : pset) (l : list N) : option pset :=
  do s <- d_push_all (p_seq p) l;
  Some {| p_seq := s; p_start := p_start p ++ [d_len (p_seq p)]; p_length := p_length p ++ [length l] |}.
