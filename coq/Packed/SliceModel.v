(* Layer P: model of DnaStringSlice (src/dna_string.rs): a view (start, length, is_rc) into a DnaString. *)
From Coq Require Import NArith List Bool Arith Lia.
From DBG Require Import Spec.Dna Gen.SourceConsts Packed.KmerModel Packed.Blocks Packed.DnaStringModel.
Import ListNotations.
Open Scope N_scope.

Record slc := { s_start : nat; s_length : nat; s_rc : bool }.

Definition complement (b : N) : N := N.land (N.lxor (b mod 256) 255) complement_mask.  (* (!base) & 0x3 on u8 *)

Definition sl_get (d : dstr) (s : slc) (i : nat) : option N :=
  if s_rc s then
    do a <- subn (s_start s + s_length s) 1; do j <- subn a i; do b <- d_get d j; Some (complement b)
  else d_get d (i + s_start s).
Definition sl_bytes (d : dstr) (s : slc) : option (list N) := omapN (sl_get d s) (seq 0 (s_length s)).
Definition sl_ascii (d : dstr) (s : slc) : option (list N) := do l <- sl_bytes d s; Some (map bits_to_ascii l).
Definition sl_text (d : dstr) (s : slc) : option (list N) := do l <- sl_bytes d s; Some (map bits_to_base l).
Definition sl_to_owned (d : dstr) (s : slc) : option dstr := do l <- sl_bytes d s; d_push_all d_new l.
Definition sl_rc (s : slc) : slc := {| s_start := s_start s; s_length := s_length s; s_rc := negb (s_rc s) |}.
(* DnaString::{prefix,suffix,slice} with their asserts *)
Definition d_prefix (d : dstr) (k : nat) : option slc :=
  if Nat.leb k (d_len d) then Some {| s_start := 0; s_length := k; s_rc := false |} else None.
Definition d_suffix (d : dstr) (k : nat) : option slc :=
  if Nat.leb k (d_len d) then Some {| s_start := d_len d - k; s_length := k; s_rc := false |} else None.
Definition d_slice (d : dstr) (a b : nat) : option slc :=
  if Nat.leb a (d_len d) && Nat.leb b (d_len d) then
    do n <- subn b a; Some {| s_start := a; s_length := n; s_rc := false |}
  else None.
(* DnaStringSlice::slice *)
Definition sl_slice (s : slc) (a b : nat) : option slc :=
  if Nat.leb a (s_length s) && Nat.leb b (s_length s) && Nat.leb a b then
    if s_rc s then
      do t <- subn (s_start s + s_length s) b;
      Some {| s_start := t; s_length := b - a; s_rc := true |}
    else Some {| s_start := s_start s + a; s_length := b - a; s_rc := false |}
  else None.
(* PartialEq *)
Definition sl_eq (d1 : dstr) (s1 : slc) (d2 : dstr) (s2 : slc) : option bool :=
  if negb (Nat.eqb (s_length s2) (s_length s1)) then Some false else
  do a <- sl_bytes d1 s1; do b <- sl_bytes d2 s2; Some (dna_eqb a b).
(* Debug (after the fix: reads through get(), < 256 bases; the summary form for longer slices is specified
   as such) and Display *)
Definition sl_debug (d : dstr) (s : slc) : option (list N) :=
  if Nat.ltb (s_length s) 256 then sl_text d s else None.

(* the view a slice denotes *)
Definition sl_view (l : dna) (s : slc) : dna :=
  let x := sub (s_start s) (s_length s) l in if s_rc s then rc x else x.
