(* The few operations of `Exts` (lib.rs:578-748) that filter.rs and KmerExtsIter use.  An extension set is a
   number 0..255: low nibble = left extensions, high nibble = right extensions, bit i of a nibble = base i.
   Masks and shift amounts come from the source pins (Gen/SourceConsts.v).  Deliberately small: the full
   `Exts` model (property C12) lives elsewhere; names are prefixed [ex_] to avoid clashes. *)
From Coq Require Import NArith List Bool.
From DBG Require Gen.SourceConsts.
Import ListNotations.
Open Scope N_scope.

Definition pin (l : list N) (i : nat) : N := nth i l 0.
Definition u8 (x : N) : N := x mod 256.

(* Exts::merge(left, right) = left.val & 0x0f | right.val & 0xf0 *)
Definition ex_merge (l r : N) : N :=
  N.lor (N.land l (pin SourceConsts.exts_merge 0)) (N.land r (pin SourceConsts.exts_merge 1)).
(* Exts::add *)
Definition ex_add (a b : N) : N := N.lor a b.
(* Exts::set(dir, pos): val | (1u8 << (pos + (4 if Right else 0))); bases are < 4 so the shift is < 8 *)
Definition ex_set (e : N) (right : bool) (pos : N) : N :=
  N.lor e (u8 (N.shiftl 1 (pos + (if right then pin SourceConsts.exts_set 0 else pin SourceConsts.exts_set 1)))).
Definition ex_mk_left (b : N) : N := ex_set 0 false b.
Definition ex_mk_right (b : N) : N := ex_set 0 true b.
(* dir_bits / has_ext *)
Definition ex_dir_bits (e : N) (right : bool) : N :=
  if right then N.shiftr e (pin SourceConsts.exts_dir_bits 0) else N.land e (pin SourceConsts.exts_dir_bits 1).
Definition ex_has (e : N) (right : bool) (b : N) : bool := 0 <? N.land (ex_dir_bits e right) (u8 (N.shiftl 1 b)).
(* complement: swap bits, swap pairs (reverses each nibble) *)
Definition ex_complement (v : N) : N :=
  let c := SourceConsts.exts_complement in
  let r := N.lor (u8 (N.shiftl (N.land v (pin c 0)) (pin c 1))) (N.land (N.shiftr v (pin c 2)) (pin c 3)) in
  N.lor (u8 (N.shiftl (N.land r (pin c 4)) (pin c 5))) (N.land (N.shiftr r (pin c 6)) (pin c 7)).
(* reverse: swap the nibbles *)
Definition ex_reverse (v : N) : N :=
  let c := SourceConsts.exts_reverse in
  N.lor (u8 (N.shiftl (N.land v (pin c 0)) (pin c 1))) (N.shiftr v (pin c 2)).
Definition ex_rc (v : N) : N := ex_complement (ex_reverse v).

(* list-level reading used by the specification: the bases present on one side *)
Definition ex_bases (e : N) (right : bool) : list N := filter (ex_has e right) [0; 1; 2; 3].
