(* Layer P: model of Lmer<[u64; n]> (src/vmer.rs): packed bases, the length in the low byte of the last word. *)
From Coq Require Import NArith List Bool Arith Lia.
From DBG Require Import Bits.SymBV Gen.SourceConsts Spec.Dna Packed.KmerModel Packed.Blocks.
Import ListNotations.
Open Scope N_scope.

(* an Lmer is its word list; the capacity is the list length (1..6) *)
Definition lmer := list N.
Definition l_size (x : lmer) : nat := length x.
Definition l_max_len (nwords : nat) : nat := ((nwords * 64 - 8) / 2)%nat.
Definition l_len (x : lmer) : option nat :=
  do last <- subn (l_size x) 1; do w <- nth_opt x last; Some (N.to_nat (N.land w 255)).
(* new: zeroed array, slc[size-1] = (len as u64) & 0xff *)
Definition l_new (nwords len : nat) : option lmer :=
  do last <- subn nwords 1; set_nth (repeat 0 nwords) last (N.land (N.of_nat len) 255).
Definition l_get (x : lmer) (pos : nat) : option N :=
  do w <- nth_opt x (pos / 32); block_get w (pos mod 32).
Definition l_set_mut (x : lmer) (pos : nat) (v : N) : option lmer :=
  do w <- nth_opt x (pos / 32); do w' <- block_set w (pos mod 32) v; set_nth x (pos / 32) w'.

(* set_slice_mut: kernels on the first and (when the run crosses) the second word *)
Definition k_l_word0 (block_pos n_bases : nat) (is_last : bool) (w value : wexp) : option wexp :=
  do tm <- top_mask c64 block_pos;
  do bm <- bottom_mask c64 (32 - (block_pos + n_bases));      (* max(0, 32.saturating_sub(..)) *)
  let bm' := if is_last then N.lor bm 255 else bm in
  let mask := Or (Const tm) (Const bm') in
  Some (Or (And w mask) (And (Shr (block_pos * 2) value) (Not 64 mask))).
Definition k_l_word1 (nb0 nb1 : nat) (w value : wexp) : option wexp :=
  do rest <- subn 32 nb1;
  do bm <- bottom_mask c64 rest;
  Some (Or (And w (Const bm)) (And (Shl 64 (nb0 * 2) value) (Not 64 (Const bm)))).
Definition l_set_slice_mut (x : lmer) (pos n_bases : nat) (value : N) : option lmer :=
  let b0 := (pos / 32)%nat in
  let block_pos := (pos mod 32)%nat in
  do last <- subn (l_size x) 1;
  do w0 <- nth_opt x b0;
  do v0 <- run (k_l_word0 block_pos n_bases (Nat.eqb b0 last) (Var 0 64) (Var 1 64)) w0 value;
  do x1 <- set_nth x b0 v0;
  let nb0 := (32 - block_pos)%nat in
  if Nat.ltb nb0 n_bases then
    let b1 := S b0 in
    do w1 <- nth_opt x1 b1;
    do v1 <- run (k_l_word1 nb0 (n_bases - nb0) (Var 0 64) (Var 1 64)) w1 value;
    set_nth x1 b1 v1
  else Some x1.

(* rc: per block, !(v.reverse_by_twos()) << (64 - n_bases*2), written with set_slice_mut *)
Definition k_l_rcword (n_bases : nat) (is_last : bool) (w : wexp) : option wexp :=
  let v := if is_last then And w (Not 64 (Const 255)) else w in
  do sh <- subn 64 (n_bases * 2);
  Some (Shl 64 sh (Not 64 (k_rev2 c64 v))).
Fixpoint l_rc_loop (fuel : nat) (x new : lmer) (len block pos : nat) : option lmer :=
  if negb (Nat.ltb pos len) then Some new else
  match fuel with
  | O => None
  | S f =>
    let n_bases := Nat.min 32 (len - pos) in
    do last <- subn (l_size x) 1;
    do w <- nth_opt x block;
    do vrc <- run (k_l_rcword n_bases (Nat.eqb block last) (Var 0 64)) w 0;
    do dst <- subn (len - pos) n_bases;
    do new' <- l_set_slice_mut new dst n_bases vrc;
    l_rc_loop f x new' len (S block) (pos + n_bases)
  end.
Definition l_rc (x : lmer) : option lmer :=
  do len <- l_len x; do new <- l_new (l_size x) len; l_rc_loop (S (l_size x)) x new len 0 0.

Fixpoint l_set_all (x : lmer) (i : nat) (l : list N) : option lmer :=
  match l with [] => Some x | b :: r => do x' <- l_set_mut x i b; l_set_all x' (S i) r end.
(* Vmer::from_slice *)
Definition l_from_slice (nwords : nat) (l : list N) : option lmer :=
  do x <- l_new nwords (length l); l_set_all x 0 l.
Definition l_to_bytes (x : lmer) : option (list N) := do len <- l_len x; omapN (l_get x) (seq 0 len).
(* derived PartialEq / Hash: the word array *)
Definition l_eq (x y : lmer) : bool := match nlist_cmp x y with Eq => true | _ => false end.
Definition l_hash_feed (x : lmer) : list N := x.

(* abstraction and invariant *)
Definition l_abs (x : lmer) : dna := match l_len x with Some len => firstn len (lanes_of x) | None => [] end.
Definition l_invb (x : lmer) : bool :=
  match l_len x with
  | Some len => Nat.leb len (l_max_len (l_size x)) && forallb (fun w => w <? two64) x &&
                forallb (fun b => b =? 0) (firstn (32 * l_size x - 4 - len) (skipn len (lanes_of x)))
  | None => false
  end.
