(* Layer P: PackedDnaStringSet::{get, slice, len} (src/dna_string.rs ~762-855) on top of the model's p_add.
   `length` is a Vec<u32>: add() stores `length as u32` (wraps for >= 2^32 bases; modelled by p_add_u32), get() reads
   it back `as usize`.  [None] = index panic / failed assert. *)
From Coq Require Import NArith List Bool Arith Lia.
From DBG Require Import Spec.Dna Packed.KmerModel Packed.Blocks Packed.DnaStringModel Packed.SliceModel.
Import ListNotations.
Open Scope N_scope.

Definition u32_of_nat (n : nat) : nat := N.to_nat (N.of_nat n mod 2 ^ 32).
Definition p_add_u32 (p : pset) (l : list N) : option pset :=
  do s <- d_push_all (p_seq p) l;
  Some {| p_seq := s; p_start := p_start p ++ [d_len (p_seq p)]; p_length := p_length p ++ [u32_of_nat (length l)] |}.
Fixpoint p_add_all (p : pset) (seqs : list (list N)) : option pset :=
  match seqs with [] => Some p | l :: r => do p' <- p_add_u32 p l; p_add_all p' r end.
Definition p_len (p : pset) : nat := length (p_start p).
Definition p_get (p : pset) (i : nat) : option slc :=
  do st <- nth_error (p_start p) i; do ln <- nth_error (p_length p) i;
  Some {| s_start := st; s_length := ln; s_rc := false |}.
Definition p_slice (p : pset) (i a b : nat) : option slc :=
  do st <- nth_error (p_start p) i; do ln <- nth_error (p_length p) i;
  if negb (Nat.leb a ln) || negb (Nat.leb b ln) then None else
  do n <- subn b a; Some {| s_start := (st + a)%nat; s_length := n; s_rc := false |}.
