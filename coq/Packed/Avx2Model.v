(* Layer P: the AVX2 intrinsics used by src/bitops_avx2.rs, transcribed from the pseudo-code of the Intel
   Intrinsics Guide, and the two kernels [convert_bases] and [pack_32_bases] line by line.

   A 256-bit vector is the list of its 32 bytes, element 0 = least significant byte (= lowest address for
   loadu).  Bytes are numbers < 256.  Pure data movement (shuffle with its table, permute, unpack) is
   polymorphic in the element type: it only moves elements around; this is what lets the proof of
   [pack_32_bases] run the very same definitions on symbolic bytes (Proofs/AsciiPack.v).
   All vector constants come from Gen/SourceConsts.v (regenerated from the source on every run).
   TRUSTED: that this transcription is what the CPU does (validated only by the correspondence runs). *)
From Coq Require Import NArith List Bool Arith Lia.
From DBG Require Import Gen.SourceConsts.
Import ListNotations.
Open Scope N_scope.

Definition vec := list N.

(* ------------------------------------------------------------------ constructors *)
(* _mm256_set_epi8(e31, ..., e0) / _mm256_set_epi64x(e3, e2, e1, e0): arguments are written from the most
   significant element down; an i8 argument is stored as its two's complement byte (pins do that). *)
Definition set_epi8 (args_as_written : list N) : vec := rev args_as_written.
Definition le_bytes (n : nat) (x : N) : list N :=
  map (fun i => N.land (N.shiftr x (8 * N.of_nat i)) 255) (seq 0 n).
Definition set_epi64x (args_as_written : list N) : vec := flat_map (le_bytes 8) (rev args_as_written).
Definition set1_epi8 (b : N) : vec := repeat b 32.
Definition setzero_si256 : vec := repeat 0 32.
(* _mm256_loadu_si256 of a 32-byte slice *)
Definition loadu_si256 (bytes : list N) : vec := bytes.

(* ------------------------------------------------------------------ data movement (polymorphic) *)
Section Move.
Context {B : Type}.
Variable zero : B.

(* VPSHUFB _mm256_shuffle_epi8(a, b): within each 128-bit lane, dst[i] := if b[i] bit 7 then 0 else
   a[lane + (b[i] & 0xF)] *)
Definition shuffle_epi8_gen (a : list B) (b : vec) : list B :=
  map (fun i => let c := nth i b 0 in
                if N.testbit c 7 then zero
                else nth (16 * (i / 16) + N.to_nat (N.land c 15)) a zero) (seq 0 32).

(* VPERMQ _mm256_permute4x64_epi64(a, imm8): dst qword j := a qword imm8[2j+1:2j] *)
Definition permute4x64_epi64_gen (a : list B) (imm : N) : list B :=
  map (fun i => let sel := N.to_nat (N.land (N.shiftr imm (2 * N.of_nat (i / 8))) 3) in
                nth (8 * sel + i mod 8) a zero) (seq 0 32).

(* VPUNPCKLBW / VPUNPCKHBW: within each 128-bit lane interleave the low (off = 0) / high (off = 8) eight
   bytes of a and b: dst[lane + 2j] := a[lane + off + j], dst[lane + 2j + 1] := b[lane + off + j] *)
Definition unpack_epi8_gen (off : nat) (a b : list B) : list B :=
  map (fun i => let src := (16 * (i / 16) + off + (i mod 16) / 2)%nat in
                if Nat.even i then nth src a zero else nth src b zero) (seq 0 32).
End Move.

Definition shuffle_epi8 : vec -> vec -> vec := shuffle_epi8_gen 0.
Definition permute4x64_epi64 : vec -> N -> vec := permute4x64_epi64_gen 0.
Definition unpacklo_epi8 : vec -> vec -> vec := unpack_epi8_gen 0 0.
Definition unpackhi_epi8 : vec -> vec -> vec := unpack_epi8_gen 0 8.

(* ------------------------------------------------------------------ arithmetic on bytes / 16-bit lanes *)
(* the 16-bit lane j of a: byte 2j is its low half *)
Definition word16 (a : vec) (j : nat) : N := N.lor (nth (2 * j) a 0) (N.shiftl (nth (2 * j + 1) a 0) 8 mod 2 ^ 16).
Definition lo8 (w : N) : N := w mod 2 ^ 8.
Definition hi8 (w : N) : N := N.shiftr w 8.
Definition of_words16 (f : nat -> N) : vec :=
  map (fun i => if Nat.even i then lo8 (f (i / 2)%nat) else hi8 (f (i / 2)%nat)) (seq 0 32).

(* VPSLLW _mm256_slli_epi16(a, imm8): each 16-bit lane shifted left, zeros shifted in, 0 when imm8 > 15 *)
Definition slli_epi16 (a : vec) (k : nat) : vec :=
  of_words16 (fun j => if Nat.ltb 15 k then 0 else N.shiftl (word16 a j) (N.of_nat k) mod 2 ^ 16).
(* VPSRLW _mm256_srli_epi16(a, imm8): each 16-bit lane shifted right: bits of the high byte enter the low byte *)
Definition srli_epi16 (a : vec) (k : nat) : vec :=
  of_words16 (fun j => if Nat.ltb 15 k then 0 else N.shiftr (word16 a j) (N.of_nat k)).

Definition map2 {A} (f : A -> A -> A) (a b : list A) : list A := map (fun p => f (fst p) (snd p)) (combine a b).
Definition and_si256 : vec -> vec -> vec := map2 N.land.
Definition or_si256 : vec -> vec -> vec := map2 N.lor.
(* _mm256_andnot_si256(a, b) = (NOT a) AND b *)
Definition andnot_si256 : vec -> vec -> vec := map2 (fun x y => N.land (N.lxor x 255) y).
(* _mm256_cmpeq_epi8 *)
Definition cmpeq_epi8 : vec -> vec -> vec := map2 (fun x y => if x =? y then 255 else 0).
(* _mm256_testc_si256(a, b): CF = ((NOT a) AND b) == 0 *)
Definition testc_si256 (a b : vec) : N :=
  if forallb (fun p => N.land (N.lxor (fst p) 255) (snd p) =? 0) (combine a b) then 1 else 0.
(* VPMOVMSKB _mm256_movemask_epi8: bit i of the (32-bit) result := bit 7 of byte i *)
Definition movemask_epi8 (a : vec) : N :=
  fold_right (fun p acc => N.lor (N.shiftl (N.shiftr (snd p) 7) (N.of_nat (fst p)) mod 2 ^ 32) acc) 0
             (combine (seq 0 32) a).
(* _mm256_extract_epi8 (used by the crate's tests only) *)
Definition extract_epi8 (a : vec) (i : nat) : N := nth i a 0.

(* ------------------------------------------------------------------ bitops_avx2.rs *)
(* pack_32_bases(bases: __m256i) -> u64 *)
Definition reverse_mask : vec := set_epi8 avx_reverse_mask.
Definition pack_32_bases (bases : vec) : N :=
  let reversed := shuffle_epi8 bases reverse_mask in
  let permuted := permute4x64_epi64 reversed avx_permute_imm in
  let first_bits := slli_epi16 permuted avx_slli_first in
  let second_bits := slli_epi16 permuted avx_slli_second in
  let lo_half := unpacklo_epi8 first_bits second_bits in
  let hi_half := unpackhi_epi8 first_bits second_bits in
  let packed_lo := movemask_epi8 lo_half in       (* as u32 as u64: zero extension *)
  let packed_hi := movemask_epi8 hi_half in
  N.lor (N.shiftl packed_hi (N.of_nat avx_hi_shift) mod 2 ^ 64) packed_lo.

(* convert_bases(bytes: &[u8]) -> (__m256i, bool); None = the assert on the length fails *)
Definition lut_hi_word : N :=
  fold_left (fun acc ch => N.lor acc (N.shiftl 1 (ch - avx_hi_lut_offset))) avx_hi_lut_letters 0.
Definition hi_lut : vec := set_epi64x (map (fun w => if w =? 0 then 0 else lut_hi_word) avx_hi_lut_words).
Definition lo_lut : vec := set_epi8 avx_lo_lut.
Definition lo_mask : vec := set1_epi8 avx_lo_mask.
Definition lut : vec := set_epi8 avx_lut.

Definition convert_bases_vec (input : vec) : vec * bool :=
  let hi := and_si256 (srli_epi16 input avx_srli_hi) lo_mask in
  let hi_lookup := shuffle_epi8 hi_lut hi in
  let lo_lookup := shuffle_epi8 lo_lut input in
  let mask := cmpeq_epi8 (and_si256 lo_lookup hi_lookup) setzero_si256 in
  let valid := negb (testc_si256 setzero_si256 mask =? 0) in
  let shuffled := shuffle_epi8 lut input in
  let res := andnot_si256 mask shuffled in
  (res, valid).

Definition convert_bases (bytes : list N) : option (vec * bool) :=
  if Nat.eqb (length bytes) 32 then Some (convert_bases_vec (loadu_si256 bytes)) else None.
