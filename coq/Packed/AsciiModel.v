(* Layer P: the ASCII ingestion code of src/dna_string.rs (C16), line by line:
   push / set_by_addr / extend, from_acgt_bytes (AVX2 path and scalar path), from_dna_string,
   from_dna_only_string (repaired code, finding F6; the unrepaired code is kept as [.._old]),
   from_acgt_bytes_hashn, iteration / to_ascii_vec / Display.
   A DnaString is (storage : list of u64 blocks, len); base i sits in block i/32 at bit offset 62 - 2*(i mod 32).
   [None] = the Rust code panics (slice index, assert!).  Tables and constants come from Gen/SourceConsts.v.
   This is deliberately a minimal, private notion of the packed string (the full DnaString model is C14's). *)
From Coq Require Import NArith List Bool Arith Lia.
From DBG Require Import Gen.SourceConsts Spec.Dna Packed.Avx2Model.
Import ListNotations.
Open Scope N_scope.

Record dstr := mkds { ds_storage : list N; ds_len : nat }.
Definition ds_new : dstr := mkds [] 0.

Definition obind {A B} (o : option A) (f : A -> option B) : option B := match o with Some x => f x | None => None end.
Notation "'do' x <- o ; k" := (obind o (fun x => k)) (at level 200, x name, o at level 100, k at level 200).
Fixpoint omapM {A B} (f : A -> option B) (l : list A) : option (list B) :=
  match l with
  | [] => Some []
  | x :: r => do y <- f x; do t <- omapM f r; Some (y :: t)
  end.

(* ------------------------------------------------------------------ tables of lib.rs *)
Definition base_to_bits (c : N) : N := nth (N.to_nat c) tbl_base_to_bits 0.
Definition dna_only_base_to_bits (c : N) : option N :=
  let v := nth (N.to_nat c) tbl_dna_only_base_to_bits 4 in if v <? 4 then Some v else None.
Definition bits_to_ascii (b : N) : N := nth (N.to_nat b) tbl_bits_to_ascii 88.
Definition bits_to_base_ch (b : N) : N := nth (N.to_nat b) tbl_bits_to_base 88.

(* ------------------------------------------------------------------ slice::chunks(n) *)
Fixpoint chunks_fuel {A} (fuel n : nat) (l : list A) : list (list A) :=
  match fuel, l with
  | _, [] => []
  | O, _ => []
  | S f, _ => firstn n l :: chunks_fuel f n (skipn n l)
  end.
Definition chunks {A} (n : nat) (l : list A) : list (list A) := chunks_fuel (length l) n l.

(* ------------------------------------------------------------------ addressing, get, push *)
(* addr: k = i * WIDTH; (k / BLOCK_BITS, k % BLOCK_BITS) *)
Definition ds_addr (i : nat) : nat * nat := ((i * 2) / 64, (i * 2) mod 64)%nat.

(* get_by_addr: (storage[block] >> (62 - bit)) & MASK *)
Definition ds_get (d : dstr) (i : nat) : option N :=
  let '(block, bit) := ds_addr i in
  if Nat.ltb block (length (ds_storage d)) then
    Some (N.land (N.shiftr (nth block (ds_storage d) 0) (N.of_nat (62 - bit))) 3)
  else None.

(* set_by_addr: mask = MASK << (62 - bit); s |= mask; s ^= mask; s |= (value & MASK) << (62 - bit) *)
Definition set_by_addr (st : list N) (block bit : nat) (value : N) : option (list N) :=
  if Nat.ltb block (length st) then
    let sh := N.of_nat (62 - bit) in
    let mask := N.shiftl 3 sh mod 2 ^ 64 in
    let s := nth block st 0 in
    let s := N.lor s mask in
    let s := N.lxor s mask in
    let s := N.lor s (N.shiftl (N.land value 3) sh mod 2 ^ 64) in
    Some (upd block st s)
  else None.

Definition ds_push (d : dstr) (value : N) : option dstr :=
  let '(block, bit) := ds_addr (ds_len d) in
  let st := ds_storage d in
  let st := if Nat.eqb bit 0 && Nat.leb (length st) block then st ++ [0] else st in
  do st' <- set_by_addr st block bit value;
  Some (mkds st' (S (ds_len d))).

(* ------------------------------------------------------------------ extend *)
(* first loop: while self.len % 32 != 0 { match bytes.next() { Some(b) => push, None => return } } *)
Fixpoint extend_fill (d : dstr) (bytes : list N) : option (dstr * list N) :=
  match bytes with
  | [] => Some (d, [])
  | b :: r => if Nat.eqb (ds_len d mod ascii_fill_mod) 0 then Some (d, bytes)
              else do d' <- ds_push d b; extend_fill d' r
  end.
(* one group of at most 32: val |= (b as u64) << offset; offset -= 2 (assert!(b < 4)) *)
Definition pack_group (g : list N) : option N :=
  fold_left (fun acc p => do val <- acc;
                          if snd p <? N.of_nat ascii_assert_lt
                          then Some (N.lor val (N.shiftl (snd p) (N.of_nat (ascii_offset0 - ascii_offset_step * fst p))))
                          else None)
            (combine (seq 0 (length g)) g) (Some 0).
Definition extend_groups (d : dstr) (bytes : list N) : option dstr :=
  fold_left (fun acc g => do d <- acc; do val <- pack_group g;
                          Some (mkds (ds_storage d ++ [val]) (ds_len d + length g)))
            (chunks ascii_group bytes) (Some d).
Definition ds_extend (d : dstr) (bytes : list N) : option dstr :=
  do p <- extend_fill d bytes; extend_groups (fst p) (snd p).

(* ------------------------------------------------------------------ from_acgt_bytes *)
(* the AVX2 branch: for chunk in bytes.chunks(32) { full: storage.push(pack(convert(chunk))) else extend } ;
   dna_string.len = bytes.len() *)
Definition from_acgt_bytes_avx2 (bytes : list N) : option dstr :=
  do d <- fold_left (fun acc chunk => do d <- acc;
              if Nat.eqb (length chunk) ascii_chunk_full then
                do cv <- convert_bases chunk;
                Some (mkds (ds_storage d ++ [pack_32_bases (fst cv)]) (ds_len d))
              else ds_extend d (map base_to_bits chunk))
            (chunks ascii_chunk bytes) (Some ds_new);
  Some (mkds (ds_storage d) (length bytes)).
(* the fall-through: extend(bytes.iter().map(base_to_bits)) *)
Definition from_acgt_bytes_scalar (bytes : list N) : option dstr :=
  ds_extend ds_new (map base_to_bits bytes).
Definition from_acgt_bytes (avx2_detected : bool) (bytes : list N) : option dstr :=
  if avx2_detected then from_acgt_bytes_avx2 bytes else from_acgt_bytes_scalar bytes.

(* ------------------------------------------------------------------ str constructors (input: code points) *)
(* `c as u8` keeps the low 8 bits of the code point *)
Definition char_as_u8 (c : N) : N := c mod 256.
Definition from_dna_string (text : list N) : option dstr :=
  ds_extend ds_new (map (fun c => base_to_bits (char_as_u8 c)) text).

(* from_dna_only_string, generic in the classification of a char *)
Definition only_gen (classify : N -> option N) (text : list N) : option (list dstr) :=
  do st <- fold_left (fun acc c => do st <- acc;
              let '(vector, cur) := st in
              match classify c with
              | Some bit => do cur' <- ds_push cur bit; Some (vector, cur')
              | None => if Nat.eqb (ds_len cur) 0 then Some (vector, cur) else Some (vector ++ [cur], ds_new)
              end) text (Some ([], ds_new));
  let '(vector, cur) := st in
  Some (if Nat.eqb (ds_len cur) 0 then vector else vector ++ [cur]).
(* repaired code (fixes/F6): a non-ASCII char is a non-ACGT character *)
Definition classify_char (c : N) : option N := if c <? 128 then dna_only_base_to_bits (char_as_u8 c) else None.
Definition from_dna_only_string (text : list N) : option (list dstr) := only_gen classify_char text.
(* the code before the repair: dna_only_base_to_bits(c as u8) *)
Definition classify_char_old (c : N) : option N := dna_only_base_to_bits (char_as_u8 c).
Definition from_dna_only_string_old (text : list N) : option (list dstr) := only_gen classify_char_old text.

(* ------------------------------------------------------------------ from_acgt_bytes_hashn *)
Section Hashn.
(* H name pos = DefaultHasher fed with <[u8] as Hash>::hash(read_name) then <usize as Hash>::hash(pos), finish() *)
Variable H : list N -> nat -> N.
Definition hashn_base (name : list N) (pos : nat) (c : N) : N :=
  let v := nth (N.to_nat c) tbl_hashn_arms 4 in
  if v <? 4 then v else (H name pos mod hashn_modulus) mod 256.
Definition from_acgt_bytes_hashn (bytes name : list N) : option dstr :=
  fold_left (fun acc p => do d <- acc; ds_push d (hashn_base name (fst p) (snd p)))
            (combine (seq 0 (length bytes)) bytes) (Some ds_new).
End Hashn.

(* ------------------------------------------------------------------ reading back *)
(* iter(): get(i) for i < len *)
Definition ds_to_bytes (d : dstr) : option (list N) := omapM (ds_get d) (seq 0 (ds_len d)).
Definition to_ascii_vec (d : dstr) : option (list N) := do l <- ds_to_bytes d; Some (map bits_to_ascii l).
Definition ds_to_string (d : dstr) : option (list N) := do l <- ds_to_bytes d; Some (map bits_to_base_ch l).

(* ------------------------------------------------------------------ the packed representation, directly *)
(* big-endian packing of at most 32 bases into a block: base j at bit offset 62 - 2j, unused lanes zero *)
Definition pack_be (g : list N) : N := rank g * 4 ^ N.of_nat (32 - length g).
Definition ds_of_dna (l : list N) : dstr := mkds (map pack_be (chunks 32 l)) (length l).
Definition dna_of_storage (st : list N) (len : nat) : list N :=
  map (fun i => (nth (i / 32) st 0 / 4 ^ N.of_nat (31 - i mod 32)) mod 4) (seq 0 len).
(* representation invariant: exactly ceil(len/32) blocks, each < 2^64, lanes beyond len are zero *)
Definition ds_inv (d : dstr) : bool :=
  Nat.eqb (length (ds_storage d)) ((ds_len d + 31) / 32) &&
  forallb (fun x => x <? 2 ^ 64) (ds_storage d) &&
  (if Nat.eqb (ds_len d mod 32) 0 then true
   else N.land (last (ds_storage d) 0) (2 ^ N.of_nat (64 - 2 * (ds_len d mod 32)) - 1) =? 0).
