(* Layer A: model of CompressFromGraph (src/compression.rs): try_extend_node, extend_node, build_node,
   compress_graph with optional censoring. *)
From Coq Require Import NArith ZArith List Bool Arith.
From DBG Require Import Spec.Dna Spec.GraphIndex Packed.ExtsModel Algo.Compress Algo.GraphModel.
Import ListNotations.
Open Scope N_scope.

Section Recompress.
Variable D : Type.
Variable reduce : D -> D -> D.
Variable join_test : D -> D -> bool.
Variable K : nat.
Variable stranded : bool.
Local Notation graph := (graph D).
Local Notation find_link := (find_link D K stranded).

Inductive ext_mode_node := NUnique (id : nat) (d : dir) (e : N) | NTerminal (e : N) | NPanic.

Definition try_extend_node (g : graph) (avail : list nat) (id : nat) (d : dir) : ext_mode_node :=
  match nth_error g id with
  | None => NPanic
  | Some n =>
    let bases := n_seq D n in
    let exts := n_exts D n in
    if negb (e_num_ext_dir exts (dirb d) =? 1)
       || (negb stranded && Nat.eqb (length bases) K && is_palindrome (first_kmer K bases))
    then NTerminal (e_single_dir exts (dirb d))
    else
      match e_get_unique_extension exts (dirb d) with
      | None => NPanic
      | Some ext_base =>
        let end_kmer := term_kmer K bases d in
        let next_kmer := extend end_kmer ext_base d in
        match find_link g next_kmer d with
        | None => NPanic                                       (* panic!("No kmer") *)
        | Some (next_id, next_side_incoming, rcf) =>
          match nth_error g next_id with
          | None => NPanic
          | Some nn =>
            let next_exts := n_exts D nn in
            let consistent := Nat.eqb (length (n_seq D nn)) K ||
              match d, next_side_incoming, rcf with
              | DLeft, DRight, false | DLeft, DLeft, true | DRight, DLeft, false | DRight, DRight, true => true
              | _, _, _ => false
              end in
            if negb consistent then NPanic                      (* assert!(consistent) *)
            else if negb (mem_nat next_id avail) || (negb stranded && is_palindrome next_kmer)
                    || negb (join_test (n_data D n) (n_data D nn))
            then NTerminal (e_single_dir exts (dirb d))
            else
              let next_side_outgoing := dflip next_side_incoming in
              let incoming_count := e_num_ext_dir next_exts (dirb next_side_incoming) in
              let outgoing_exts := e_single_dir next_exts (dirb next_side_outgoing) in
              if incoming_count =? 0 then NPanic                (* "unreachable" *)
              else if incoming_count =? 1 then NUnique next_id next_side_outgoing outgoing_exts
              else NTerminal (e_single_dir exts (dirb d))
          end
        end
      end
  end.

(* extend_node: path of (node, incoming dir) *)
Fixpoint extend_node_loop (fuel : nat) (g : graph) (avail : list nat) (cur : nat) (d : dir)
  : option (list (nat * dir) * N * list nat) :=
  match fuel with
  | O => None
  | S f =>
    match try_extend_node g avail cur d with
    | NPanic => None
    | NTerminal e => Some ([], e, avail)
    | NUnique nid nout _ =>
      match extend_node_loop f g (remove_nat nid avail) nid nout with
      | Some (p, e, a) => Some ((nid, dflip nout) :: p, e, a)
      | None => None
      end
    end
  end.
Definition extend_node (g : graph) (avail : list nat) (start : nat) (d : dir) :=
  let a := remove_nat start avail in extend_node_loop (S (length a)) g a start d.

Definition rb_last_dir (p : list (nat * dir)) : option dir := match rev p with [] => None | (_, d) :: _ => Some d end.

Definition rb_build_node (g : graph) (avail : list nat) (seed : nat) : option (dna * N * D * list (nat * dir) * list nat) :=
  match extend_node g avail seed DLeft with
  | None => None
  | Some (l_path, l_ext, a1) =>
    match extend_node g a1 seed DRight with
    | None => None
    | Some (r_path, r_ext, a2) =>
      match nth_error g seed with
      | None => None
      | Some sn =>
        let data_of i := match nth_error g i with Some n => Some (n_data D n) | None => None end in
        let red (acc : option D) (x : nat * dir) :=
          match acc, data_of (fst x) with Some a, Some b => Some (reduce a b) | _, _ => None end in
        match fold_left red r_path (fold_left red l_path (Some (n_data D sn))) with
        | None => None
        | Some data =>
          (* push_front (next, incoming.flip()) for the left path, push_back (next, incoming) for the right *)
          let node_path := rev (map (fun x => (fst x, dflip (snd x))) l_path) ++ (seed, DLeft) :: r_path in
          let left_extend := match rb_last_dir l_path with
                             | None | Some DRight => l_ext
                             | Some DLeft => e_complement l_ext end in
          let right_extend := match rb_last_dir r_path with
                              | None | Some DLeft => r_ext
                              | Some DRight => e_complement r_ext end in
          match sequence_of_path D K g node_path with
          | None => None
          | Some sq => Some (sq, e_from_single_dirs left_extend right_extend, data, node_path, a2)
          end
        end
      end
    end
  end.

(* the outer loop; besides the new node it records the node path (node id, side entered) it was built from -
   build_node returns it as well, compress_graph drops it *)
Fixpoint rb_loop (g : graph) (ids : list nat) (avail : list nat) : option (list (gnode D * list (nat * dir))) :=
  match ids with
  | [] => Some []
  | i :: rest =>
    if mem_nat i avail then
      match rb_build_node g avail i with
      | None => None
      | Some (sq, e, dt, p, a') =>
        match rb_loop g rest a' with Some r => Some (((sq, e, dt), p) :: r) | None => None end
      end
    else rb_loop g rest avail
  end.

Definition initial_avail (n : nat) (censor : option (list nat)) : list nat :=
  match censor with
  | Some c => filter (fun i => negb (mem_nat i c)) (seq 0 n)
  | None => seq 0 n end.

(* the result graph together with the node paths (not observable in the Rust API; used by the theorems) *)
Definition compress_graph_paths (old : graph) (censor : option (list nat))
  : option (graph * list (list (nat * dir))) :=
  let n := length old in
  let avail := initial_avail n censor in
  match fix_exts D K stranded old (Some avail) with
  | None => None
  | Some g1 =>
    match rb_loop g1 (seq 0 n) avail with
    | None => None
    | Some r =>
      match fix_exts D K stranded (map fst r) None with
      | Some out => Some (out, map snd r)
      | None => None
      end
    end
  end.

Definition compress_graph (old : graph) (censor : option (list nat)) : option graph :=
  option_map fst (compress_graph_paths old censor).
End Recompress.
