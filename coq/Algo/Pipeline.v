(* Layer A: the assembly pipelines of C04 / C06 as compositions of the stage models (no proofs here).
     sharded : msp_sequence per read -> pieces grouped by bucket (ascending bucket id = the harness' BTreeMap) ->
               per shard filter_kmers (CountFilterSet over the read labels) -> optional pruning ->
               compress_kmers (table in the order the implementation's hash iterates it: an input) ->
               BaseGraph::combine (concatenation) -> compress_graph (no censoring)
     direct  : filter_kmers on the whole reads -> remove_censored_exts when threshold > 1 -> compress_kmers
     routes 1 / 2 of [direct]: one node per k-mer -> compress_graph; compress_kmers -> compress_graph.
   Payload (Check/GraphCheck.v [pay]): colour = bit mask of the labels of the reads that contain the k-mer,
   ids = [rank of the k-mer]; reduce keeps the colour and concatenates the ids. *)
From Coq Require Import NArith List Bool Arith.
From DBG Require Import Spec.Dna Spec.GraphIndex Packed.ExtsModel Algo.KmerHist Algo.Scan Algo.Msp Algo.Filter
  Algo.Compress Algo.GraphModel Algo.Recompress Check.GraphCheck.
Import ListNotations.
Open Scope N_scope.

Definition lread := (dna * N)%type.                       (* (read, label) *)

Definition colour_of (labels : list N) : N := fold_left (fun m x => N.lor m (N.shiftl 1 (N.land x 7))) labels 0.
Definition to_entry (x : dna * N * list N) : entry pay :=
  (fst (fst x), snd (fst x), (colour_of (snd x), [rank (fst (fst x))])).

(* filter_kmers(seqs, CountFilterSet(thr), stranded, report_all = true, memory_size = 1) *)
Definition filter_set (K : nat) (stranded : bool) (thr : N) (seqs : list (dna * N * N))
  : option (table pay * list dna) :=
  match filter_kmers (count_filter_set thr) true K stranded 16 1 0 seqs with
  | Some (o, _) => Some (map to_entry (fst o), snd o)
  | None => None
  end.

Definition sort_entries (T : table pay) : table pay :=
  sort_by (fun a b => dna_leb (e_key pay a) (e_key pay b)) T.

(* the table in the order the implementation's BoomHashMap2 iterates it ([order] lists its keys) *)
Definition reorder (T : table pay) (order : list dna) : option (table pay) :=
  if Nat.eqb (length order) (length T) then omap_ (get_entry pay T) order else None.

(* variant: 0 no pruning, 1 remove_censored_exts, 2 remove_censored_exts_sharded with this call's all_kmers *)
Definition table_of (K : nat) (stranded : bool) (thr variant : N) (seqs : list (dna * N * N)) (order : list dna)
  : option (table pay) :=
  match filter_set K stranded thr seqs with
  | None => None
  | Some (T, allk) =>
    let T1 := sort_entries T in
    let T2 := if variant =? 1 then remove_censored_exts pay stranded T1
              else if variant =? 2 then remove_censored_exts_sharded pay stranded T1 allk
              else T1 in
    reorder T2 order
  end.

Definition shard_graph (K : nat) (stranded : bool) (thr mode variant : N) (seqs : list (dna * N * N)) (order : list dna)
  : option (list node_t) :=
  match table_of K stranded thr variant seqs order with
  | None => None
  | Some T => compress_kmers pay pay_reduce (pay_join mode) stranded T
  end.

(* all pieces of all reads, in read order: (bucket, (piece, extensions, label of the read)) *)
Fixpoint pieces_of (maxlen : N) (K P : nat) (perm : option (list N)) (rcmode : bool) (reads : list lread)
  : option (list (N * (dna * N * N))) :=
  match reads with
  | [] => Some []
  | r :: rest =>
    match msp_sequence maxlen (fst r) K P perm rcmode, pieces_of maxlen K P perm rcmode rest with
    | Some ps, Some t => Some (map (fun x => (fst (fst x), (snd x, snd (fst x), snd r))) ps ++ t)
    | _, _ => None
    end
  end.
Definition buckets_of (ps : list (N * (dna * N * N))) : list N := dedup_by N.eqb (sort_by N.leb (map fst ps)).
Definition shard_seqs (ps : list (N * (dna * N * N))) (b : N) : list (dna * N * N) :=
  map snd (filter (fun x => fst x =? b) ps).

Fixpoint omap2 {A B C} (f : A -> B -> option C) (a : list A) (b : list B) : option (list C) :=
  match a, b with
  | [], [] => Some []
  | x :: a', y :: b' => match f x y, omap2 f a' b' with Some z, Some t => Some (z :: t) | _, _ => None end
  | _, _ => None
  end.

Definition sharded (maxlen : N) (K P : nat) (perm : option (list N)) (stranded : bool) (thr mode variant : N)
    (reads : list lread) (orders : list (list dna)) : option (list N * list (list node_t) * list node_t) :=
  match pieces_of maxlen K P perm (negb stranded) reads with
  | None => None
  | Some ps =>
    let bs := buckets_of ps in
    match omap2 (fun b order => shard_graph K stranded thr mode variant (shard_seqs ps b) order) bs orders with
    | None => None
    | Some gs =>
      match compress_graph pay pay_reduce (pay_join mode) K stranded (combine_graphs gs) None with
      | Some g => Some (bs, gs, g)
      | None => None
      end
    end
  end.

Definition whole_reads (reads : list lread) : list (dna * N * N) := map (fun r => (fst r, 0, snd r)) reads.

Definition direct (K : nat) (stranded : bool) (thr mode route : N) (reads : list lread) (order : list dna)
  : option (list node_t) :=
  match table_of K stranded thr (if 1 <? thr then 1 else 0) (whole_reads reads) order with
  | None => None
  | Some T =>
    if route =? 0 then compress_kmers pay pay_reduce (pay_join mode) stranded T
    else if route =? 1 then compress_graph pay pay_reduce (pay_join mode) K stranded T None
    else match compress_kmers pay pay_reduce (pay_join mode) stranded T with
         | Some g => compress_graph pay pay_reduce (pay_join mode) K stranded g None
         | None => None
         end
  end.

(* C06: reverse-complementing a subset of the reads (whole reads: no boundary extensions to flip) *)
Fixpoint flip_lreads (fs : list bool) (reads : list lread) : list lread :=
  match reads with
  | [] => []
  | r :: t => ((if hd false fs then rc (fst r) else fst r), snd r) :: flip_lreads (tl fs) t
  end.
