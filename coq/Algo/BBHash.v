(* Model of the index construction used by BaseGraph::finish / finish_serial (graph.rs:116-170), i.e. of the
   vendored dependency boomphf 0.6.0 (src/lib.rs, src/bitvector.rs, src/hashmap.rs), for property C19.

   What is modelled, and how:
   * keys are abstract ([key := N]); the hash of a key at a level is an oracle
       h iter size k  =  hashmod(iter, &k, size)                       (lib.rs:78, wyhash + fastmod)
     and the level size an oracle   sz n = max(255, (gamma * n as f64) as u64)   (lib.rs:241/256/369/384);
   * a BitVector is a [list bool] (one element per bit); the word packing, the rank sampling every 512 bits
     and count_ones are NOT modelled: rank = number of set bits before the slot (lib.rs:277-318);
   * Mphf::new (lib.rs:235) is the function [mphf_new];
   * Mphf::new_parallel (lib.rs:363) is the relation [mphf_par]: per level, phase 1 is ANY interleaving of the
     atomic steps of the threads running Context::find_collisions (lib.rs:429) - one thread per key, the
     plain Relaxed read of [collide] may return a stale [false] - and phase 2 ANY interleaving of the steps
     of Context::filter (lib.rs:444); the redo list is collected in input order (rayon's contract for
     [filter_map(..).collect::<Vec<_>>()] on an indexed parallel iterator - trusted, not modelled);
   * BoomHashMap::create_map / get (hashmap.rs:27-72) and the two indexes of graph.rs on top.
   No proofs in this file (see Proofs/BBHashProofs.v). *)
From Coq Require Import NArith List Bool Arith Relations.
From DBG Require Import Spec.Dna Spec.GraphIndex.
Import ListNotations.
Local Open Scope nat_scope.

Definition key := N.

(* ---------------------------------------------------------------- bit vectors (bitvector.rs) *)
Definition bv := list bool.
Fixpoint lset {A} (l : list A) (i : nat) (x : A) : list A :=     (* out of range: unchanged *)
  match l, i with
  | [], _ => []
  | _ :: r, O => x :: r
  | y :: r, S j => y :: lset r j x
  end.
Definition bnew (size : nat) : bv := repeat false size.            (* BitVector::new *)
Definition bget (v : bv) (s : nat) : bool := nth s v false.        (* contains: Relaxed load of the word, test bit *)
Definition bset (v : bv) (s : nat) (x : bool) : bv := lset v s x.  (* insert = fetch_or mask; remove = fetch_and !mask *)
Fixpoint popcount (v : bv) : nat :=
  match v with [] => 0 | b :: r => (if b then 1 else 0) + popcount r end.

Definition MAX_ITERS : nat := 100.                                 (* lib.rs:98 *)

(* ---------------------------------------------------------------- serial level (Context::find_collisions_sync, filter) *)
(* lib.rs:436  if !collide.contains(idx) && !a.insert_sync(idx) { collide.insert_sync(idx) } *)
Definition fc_sync (st : bv * bv) (s : nat) : bv * bv :=
  let (a, c) := st in
  if bget c s then (a, c)
  else if bget a s then (a, bset c s true)
       else (bset a s true, c).

(* lib.rs:246  objects.iter().filter_map(|v| cx.filter(v)).collect()   with
   lib.rs:444  if collide.contains(idx) { a.remove(idx); Some(v) } else { None } *)
Fixpoint filter_sync (c a : bv) (ks : list (key * nat)) : bv * list key :=
  match ks with
  | [] => (a, [])
  | (k, s) :: r =>
      if bget c s then let (a', redo) := filter_sync c (bset a s false) r in (a', k :: redo)
      else filter_sync c a r
  end.

(* ---------------------------------------------------------------- parallel level, phase 1 (Context::find_collisions) *)
(* program counter of the thread handling one key:
   P0 about to read collide[idx]; P1 about to fetch_or a[idx]; P2 about to fetch_or collide[idx];
   Ds finished after seeing collide set; Df finished as the first on its slot; Dc finished after marking the collision *)
Inductive pc := P0 | P1 | P2 | Ds | Df | Dc.
Definition pc_done (p : pc) : bool := match p with Ds | Df | Dc => true | _ => false end.
Record st1 := mk1 { pcs : list pc; sa : bv; sc : bv }.
Definition init1 (n size : nat) : st1 := mk1 (repeat P0 n) (bnew size) (bnew size).

Section Level.
  Variable slots : list nat.               (* slots[i] = hashmod(seed, key_i, size) *)
  Definition slot (i : nat) : nat := nth i slots 0.

  Inductive step1 : st1 -> st1 -> Prop :=
  | s_read_set : forall st i, i < length slots -> nth i (pcs st) Ds = P0 -> bget (sc st) (slot i) = true ->
      step1 st (mk1 (lset (pcs st) i Ds) (sa st) (sc st))
  | s_read_clear : forall st i, i < length slots -> nth i (pcs st) Ds = P0 ->
      (* collide[idx] read as false: either it is false, or the Relaxed load returned a stale value *)
      step1 st (mk1 (lset (pcs st) i P1) (sa st) (sc st))
  | s_fetch_or : forall st i, i < length slots -> nth i (pcs st) Ds = P1 ->
      step1 st (mk1 (lset (pcs st) i (if bget (sa st) (slot i) then P2 else Df)) (bset (sa st) (slot i) true) (sc st))
  | s_collide : forall st i, i < length slots -> nth i (pcs st) Ds = P2 ->
      step1 st (mk1 (lset (pcs st) i Dc) (sa st) (bset (sc st) (slot i) true)).

  Definition done1 (st : st1) : Prop := forall i, i < length slots -> pc_done (nth i (pcs st) Ds) = true.

  (* executable scheduler: [(i, stale)] lets thread i take its next step; [stale] only matters at P0 *)
  Definition exec1 (st : st1) (ev : nat * bool) : st1 :=
    let (i, stale) := ev in
    if negb (i <? length slots) then st else
    match nth i (pcs st) Ds with
    | P0 => if bget (sc st) (slot i) && negb stale then mk1 (lset (pcs st) i Ds) (sa st) (sc st)
            else mk1 (lset (pcs st) i P1) (sa st) (sc st)
    | P1 => mk1 (lset (pcs st) i (if bget (sa st) (slot i) then P2 else Df)) (bset (sa st) (slot i) true) (sc st)
    | P2 => mk1 (lset (pcs st) i Dc) (sa st) (bset (sc st) (slot i) true)
    | _ => st
    end.
  Definition run1 (sched : list (nat * bool)) (st : st1) : st1 := fold_left exec1 sched st.
  Definition done1b (st : st1) : bool := forallb (fun i => pc_done (nth i (pcs st) Ds)) (seq 0 (length slots)).

  (* ---------------------------------------------------------------- phase 2 (Context::filter), after the join of phase 1:
     [collide] is final and visible (rayon's for_each returned), only [a] is written *)
  Inductive pc2 := Q0 | Q1 | Qnone | Qsome.
  Definition pc2_done (p : pc2) : bool := match p with Qnone | Qsome => true | _ => false end.
  Record st2 := mk2 { pcs2 : list pc2; sa2 : bv }.
  Definition init2 (n : nat) (a : bv) : st2 := mk2 (repeat Q0 n) a.
  Variable c : bv.

  Inductive step2 : st2 -> st2 -> Prop :=
  | f_read : forall st i, i < length slots -> nth i (pcs2 st) Qnone = Q0 ->
      step2 st (mk2 (lset (pcs2 st) i (if bget c (slot i) then Q1 else Qnone)) (sa2 st))
  | f_remove : forall st i, i < length slots -> nth i (pcs2 st) Qnone = Q1 ->
      step2 st (mk2 (lset (pcs2 st) i Qsome) (bset (sa2 st) (slot i) false)).
  Definition done2 (st : st2) : Prop := forall i, i < length slots -> pc2_done (nth i (pcs2 st) Qnone) = true.

  Definition exec2 (st : st2) (i : nat) : st2 :=
    if negb (i <? length slots) then st else
    match nth i (pcs2 st) Qnone with
    | Q0 => mk2 (lset (pcs2 st) i (if bget c (slot i) then Q1 else Qnone)) (sa2 st)
    | Q1 => mk2 (lset (pcs2 st) i Qsome) (bset (sa2 st) (slot i) false)
    | _ => st
    end.
  Definition run2 (sched : list nat) (st : st2) : st2 := fold_left exec2 sched st.
End Level.

(* collect(): the keys whose filter returned Some, in input order *)
Fixpoint collect (keys : list key) (ps : list pc2) : list key :=
  match keys, ps with
  | k :: kr, p :: pr => match p with Qsome => k :: collect kr pr | _ => collect kr pr end
  | _, _ => []
  end.

(* ---------------------------------------------------------------- the MPHF *)
Section Mphf.
  Variable h : nat -> nat -> key -> nat.
  Variable sz : nat -> nat.

  Definition level_slots (iter : nat) (keys : list key) : list nat := map (h iter (sz (length keys))) keys.

  (* one level of Mphf::new: returns the level's final bit vector and the redo keys *)
  Definition level_serial (iter : nat) (keys : list key) : bv * list key :=
    let size := sz (length keys) in
    let slots := level_slots iter keys in
    let (a, c) := fold_left fc_sync slots (bnew size, bnew size) in
    filter_sync c a (combine keys slots).

  (* lib.rs:254-269: while !redo_keys.is_empty() { level; iter += 1; if iter > MAX_ITERS { panic } } *)
  Fixpoint mphf_loop (fuel iter : nat) (redo : list key) : option (list bv) :=
    match redo with
    | [] => Some []
    | _ :: _ =>
        match fuel with
        | O => None
        | S f => let (a, redo') := level_serial iter redo in
                 option_map (cons a) (mphf_loop f (S iter) redo')
        end
    end.
  Definition mphf_new (keys : list key) : option (list bv) :=
    let (a, redo) := level_serial 0 keys in option_map (cons a) (mphf_loop (MAX_ITERS - 1) 1 redo).

  (* one level of Mphf::new_parallel under some schedule of both phases *)
  Inductive level_par (iter : nat) (keys : list key) : bv -> list key -> Prop :=
  | level_par_intro : forall s1 s2,
      clos_refl_trans _ (step1 (level_slots iter keys)) (init1 (length keys) (sz (length keys))) s1 ->
      done1 (level_slots iter keys) s1 ->
      clos_refl_trans _ (step2 (level_slots iter keys) (sc s1)) (init2 (length keys) (sa s1)) s2 ->
      done2 (level_slots iter keys) s2 ->
      level_par iter keys (sa2 s2) (collect keys (pcs2 s2)).

  Inductive loop_par : nat -> nat -> list key -> option (list bv) -> Prop :=
  | lp_done : forall fuel iter, loop_par fuel iter [] (Some [])
  | lp_out : forall iter k r, loop_par 0 iter (k :: r) None
  | lp_step : forall fuel iter k r a redo res,
      level_par iter (k :: r) a redo -> loop_par fuel (S iter) redo res ->
      loop_par (S fuel) iter (k :: r) (option_map (cons a) res).
  Inductive mphf_par (keys : list key) : option (list bv) -> Prop :=
  | mp_intro : forall a redo res,
      level_par 0 keys a redo -> loop_par (MAX_ITERS - 1) 1 redo res ->
      mphf_par keys (option_map (cons a) res).

  (* lib.rs:340 try_hash (and lib.rs:324 hash, which differs only by panicking instead of None):
     first level whose bit at the key's slot is set; value = bits set in earlier levels + bits set before the slot *)
  Fixpoint try_hash_from (iter pop : nat) (m : list bv) (k : key) : option nat :=
    match m with
    | [] => None
    | b :: r => let s := h iter (length b) k in
                if bget b s then Some (pop + popcount (firstn s b))
                else try_hash_from (S iter) (pop + popcount b) r k
    end.
  Definition try_hash (m : list bv) (k : key) : option nat := try_hash_from 0 0 m k.

  (* ---------------------------------------------------------------- BoomHashMap (hashmap.rs) *)
  Section Map.
    Context {V : Type}.
    Record bhm := mkbhm { b_mphf : list bv; b_table : list (option (key * V)) }.

    (* create_map (hashmap.rs:27): the in-place cycle sort is modelled by its result, the table with
       table[hash k] = (k, v); position i holds the first entry hashing to i *)
    Definition create_map (entries : list (key * V)) (m : list bv) : list (option (key * V)) :=
      let ranked := map (fun kv => (try_hash m (fst kv), kv)) entries in
      map (fun i => option_map snd
                      (find (fun r => match fst r with Some j => j =? i | None => false end) ranked))
          (seq 0 (length entries)).

    Definition bhm_of (keys : list key) (vals : list V) (m : list bv) : bhm :=
      mkbhm m (create_map (combine keys vals) m).
    Definition bhm_new (keys : list key) (vals : list V) : option bhm :=          (* BoomHashMap::new *)
      option_map (bhm_of keys vals) (mphf_new keys).
    Inductive bhm_new_par (keys : list key) (vals : list V) : option bhm -> Prop :=   (* ::new_parallel *)
    | bp_intro : forall r, mphf_par keys r -> bhm_new_par keys vals (option_map (bhm_of keys vals) r).

    (* get (hashmap.rs:49): outer None = panic (keys[pos] out of bounds) *)
    Definition bhm_get (m : bhm) (k : key) : option (option V) :=
      match try_hash (b_mphf m) k with
      | None => Some None
      | Some pos =>
          match nth_error (b_table m) pos with
          | Some (Some (k', v)) => Some (if N.eqb k k' then Some v else None)
          | _ => None
          end
      end.
  End Map.

  (* ---------------------------------------------------------------- graph.rs on top *)
  Record base_graph := mkbase { g_seqs : list dna; g_exts : list N; g_data : list N; g_stranded : bool }.
  Record dbg := mkdbg { d_base : base_graph; d_left : @bhm nat; d_right : @bhm nat }.

  (* a k-mer as a key: its base-4 value (injective on length-K strings; the hash itself is the oracle h) *)
  Definition enc (x : dna) : key := rank x.
  Definition end_keys (K : nat) (g : base_graph) (d : dir) : list key := map (fun s => enc (term_kmer K s d)) (g_seqs g).
  Definition node_ids (g : base_graph) : list nat := seq 0 (length (g_seqs g)).

  (* graph.rs:145 finish_serial; None = panic inside boomphf (more than MAX_ITERS levels) *)
  Definition finish_serial (K : nat) (g : base_graph) : option dbg :=
    match bhm_new (end_keys K g DLeft) (node_ids g) with
    | None => None
    | Some l => match bhm_new (end_keys K g DRight) (node_ids g) with
                | None => None
                | Some r => Some (mkdbg g l r)
                end
    end.
  (* graph.rs:117 finish: same, with new_parallel under some schedule *)
  Inductive finish_par (K : nat) (g : base_graph) : option dbg -> Prop :=
  | fp_left_panic : bhm_new_par (end_keys K g DLeft) (node_ids g) None -> finish_par K g None
  | fp_right_panic : forall l, bhm_new_par (end_keys K g DLeft) (node_ids g) (Some l) ->
      bhm_new_par (end_keys K g DRight) (node_ids g) None -> finish_par K g None
  | fp_ok : forall l r, bhm_new_par (end_keys K g DLeft) (node_ids g) (Some l) ->
      bhm_new_par (end_keys K g DRight) (node_ids g) (Some r) -> finish_par K g (Some (mkdbg g l r)).

  (* graph.rs:244 *)
  Definition search_kmer (g : dbg) (kmer : dna) (side : dir) : option (option nat) :=
    match side with
    | DLeft => bhm_get (d_left g) (enc kmer)
    | DRight => bhm_get (d_right g) (enc kmer)
    end.

  (* graph.rs:252 *)
  Definition find_link (g : dbg) (kmer : dna) (d : dir) : option (option link) :=
    let stranded := g_stranded (d_base g) in
    match d with
    | DLeft =>
        match search_kmer g kmer DRight with
        | None => None
        | Some (Some i) => Some (Some (i, DRight, false))
        | Some None =>
            if stranded then Some None else
            match search_kmer g (rc kmer) DLeft with
            | None => None
            | Some (Some i) => Some (Some (i, DLeft, true))
            | Some None => Some None
            end
        end
    | DRight =>
        match search_kmer g kmer DLeft with
        | None => None
        | Some (Some i) => Some (Some (i, DLeft, false))
        | Some None =>
            if stranded then Some None else
            match search_kmer g (rc kmer) DRight with
            | None => None
            | Some (Some i) => Some (Some (i, DRight, true))
            | Some None => Some None
            end
        end
    end.
End Mphf.
