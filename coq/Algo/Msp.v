(* C08: executable model of msp.rs `msp_sequence`, on top of the scanner model.
   The piece container `V` is represented by the string it holds (`V::from_slice` = identity on Layer S,
   by the refinements of its type) and by its `max_len()`.  *)
From Coq Require Import NArith List Bool Arith.
From DBG Require Import Gen.SourceConsts Spec.Dna Spec.ScanSpec Algo.Scan.
Import ListNotations.
Open Scope nat_scope.

(* Exts::from_slice_bounds(src, start, length): one-hot left base in the low nibble, right base in the high
   nibble, nothing at a read end *)
Definition from_slice_bounds (src : dna) (start len : nat) : N :=
  let l_extend := if 0 <? start then (2 ^ nth (start - 1) src 0)%N else 0%N in
  let r_extend := if start + len <? length src then (2 ^ nth (start + len) src 0)%N else 0%N in
  ((r_extend * 2 ^ msp_exts_shift) mod 256 + l_extend)%N.

(* permutation: None = the default (0..4^p) *)
Definition msp_score (p : nat) (perm : option (list N)) (rcmode : bool) (x : dna) : N :=
  match perm with
  | Some t => perm_score t rcmode x
  | None => if rcmode then N.min (rank x) (rank (rc x)) else rank x
  end.

(* one output triple (bucket as u32, Exts, V::from_slice(seq[start..start+len])) from a reported interval;
   note that the code goes through the narrowed `start: u32` / `len: u16` fields *)
Definition msp_piece (seq : dna) (x : interval) : N * N * dna :=
  let start := N.to_nat (iv_start x) in
  let len := N.to_nat (iv_len x) in
  ((bucket_of (iv_minimizer x) mod 2 ^ msp_bucket_bits)%N, from_slice_bounds seq start len, sub start len seq).

Definition msp_sequence (max_len : N) (seq : dna) (k p : nat) (perm : option (list N)) (rcmode : bool)
  : option (list (N * N * dna)) :=
  (* assert!(V::max_len() >= 2 * k - p), with the subtraction checked *)
  if (p <=? 2 * k) && (N.of_nat (2 * k - p) <=? max_len)%N then
    if length seq <? k then Some []
    else
      match scan_checked (msp_score p perm rcmode) seq k p with
      | Some ivs => Some (map (msp_piece seq) ivs)
      | None => None
      end
  else None.
