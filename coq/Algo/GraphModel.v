(* Layer A: model of DebruijnGraph queries (src/graph.rs): find_link, find_edges, get_valid_exts / fix_exts,
   sequence_of_path, max_path; BaseGraph::combine; and the extension pruning of src/filter.rs
   (remove_censored_exts, remove_censored_exts_sharded).
   The two node-end indexes are abstracted by their proven contract (C19 lookup_exact / find_link_exact): a
   key-verified lookup of the first / last k-mers, i.e. [Spec.GraphIndex.find_link_spec]. *)
From Coq Require Import NArith ZArith List Bool Arith.
From DBG Require Import Spec.Dna Spec.GraphIndex Packed.ExtsModel Algo.Compress.
Import ListNotations.
Open Scope N_scope.

Section Graph.
Variable D : Type.
Variable K : nat.
Variable stranded : bool.

Definition gnode := (dna * N * D)%type.
Definition n_seq (n : gnode) : dna := fst (fst n).
Definition n_exts (n : gnode) : N := snd (fst n).
Definition n_data (n : gnode) : D := snd n.
Definition graph := list gnode.
Definition g_seqs (g : graph) : list dna := map n_seq g.

Definition find_link (g : graph) (kmer : dna) (d : dir) : option link :=
  find_link_spec K stranded (g_seqs g) kmer d.

(* find_edges: for i in 0..4 with has_ext(dir,i): find_link(term_kmer(dir).extend(i,dir), dir) *)
Definition find_edges (g : graph) (id : nat) (d : dir) : option (list link) :=
  match nth_error g id with
  | None => None
  | Some n =>
    let t := term_kmer K (n_seq n) d in
    Some (flat_map (fun b => if e_has_ext (n_exts n) (dirb d) b
                             then match find_link g (extend t b d) d with Some x => [x] | None => [] end
                             else []) [0; 1; 2; 3])
  end.

(* get_valid_exts: keep an extension iff it resolves to a node (of the valid set, when given) *)
Definition get_valid_exts (g : graph) (valid : option (list nat)) (id : nat) : option N :=
  match nth_error g id with
  | None => None
  | Some n =>
    let check t := match valid with Some v => mem_nat t v | None => true end in
    let l_kmer := first_kmer K (n_seq n) in
    let r_kmer := last_kmer K (n_seq n) in
    let step (e : N) (b : N) :=
      let e1 := if e_has_ext (n_exts n) false b
                then match find_link g (extend_left l_kmer b) DLeft with
                     | Some (t, _, _) => if check t then N.lor e (N.shiftl 1 b) else e
                     | None => e end
                else e in
      if e_has_ext (n_exts n) true b
      then match find_link g (extend_right r_kmer b) DRight with
           | Some (t, _, _) => if check t then N.lor e1 (N.shiftl 1 (b + 4)) else e1
           | None => e1 end
      else e1 in
    Some (fold_left step [0; 1; 2; 3] 0)
  end.
Fixpoint omap_ {A B} (f : A -> option B) (l : list A) : option (list B) :=
  match l with [] => Some [] | x :: r => match f x, omap_ f r with Some y, Some t => Some (y :: t) | _, _ => None end end.
Definition fix_exts (g : graph) (valid : option (list nat)) : option graph :=
  match omap_ (get_valid_exts g valid) (seq 0 (length g)) with
  | Some es => Some (map (fun p => (n_seq (fst p), snd p, n_data (fst p))) (combine g es))
  | None => None
  end.

(* sequence_of_path: first node whole, then everything after the first K-1 bases *)
Definition oriented (n : gnode) (d : dir) : dna := match d with DLeft => n_seq n | DRight => rc (n_seq n) end.
Fixpoint sequence_of_path_from (g : graph) (first : bool) (p : list (nat * dir)) : option dna :=
  match p with
  | [] => Some []
  | (id, d) :: r =>
    match nth_error g id, sequence_of_path_from g false r with
    | Some n, Some t => Some (skipn (if first then 0 else K - 1)%nat (oriented n d) ++ t)
    | _, _ => None
    end
  end.
Definition sequence_of_path (g : graph) (p : list (nat * dir)) : option dna := sequence_of_path_from g true p.

(* max_path with integer scores (f32 values that are exact integers in the harness) *)
Variable score : D -> Z.
Variable solid : D -> bool.
Definition best_node (g : graph) : nat :=
  (* first node with the strictly largest score; f32::MIN start means node 0 wins ties downwards *)
  fst (fold_left (fun (acc : nat * option Z) (p : nat * gnode) =>
                    let s := score (n_data (snd p)) in
                    match snd acc with
                    | None => (fst p, Some s)
                    | Some b => if (b <? s)%Z then (fst p, Some s) else acc
                    end) (combine (seq 0 (length g)) g) (0%nat, None)).
Definition oscore (g : graph) (c : option (nat * dir)) : Z :=
  match c with None => 0%Z | Some (id, _) => match nth_error g id with Some n => score (n_data n) | None => 0%Z end end.
Definition osolid (g : graph) (c : option (nat * dir)) : bool :=
  match c with None => false | Some (id, _) => match nth_error g id with Some n => solid (n_data n) | None => false end end.
(* one direction of the greedy expansion; returns the visited (id, incoming dir) in visiting order *)
Fixpoint mp_walk (fuel : nat) (g : graph) (used : list nat) (cur : nat * dir) : option (list (nat * dir) * list nat) :=
  match fuel with
  | O => Some ([], used)
  | S f =>
    match find_edges g (fst cur) (dflip (snd cur)) with
    | None => None
    | Some edges =>
      let '(next, nsolid) :=
        fold_left (fun (acc : option (nat * dir) * nat) (e : link) =>
                     let cand := Some (fst (fst e), snd (fst e)) in
                     let ns := if osolid g cand then S (snd acc) else snd acc in
                     ((if (oscore g (fst acc) <? oscore g cand)%Z then cand else fst acc), ns))
                  edges (None, 0%nat) in
      if Nat.ltb 1 nsolid then Some ([], used)
      else match next with
           | Some (nid, ninc) =>
             if mem_nat nid used then Some ([], used)
             else match mp_walk f g (nid :: used) (nid, ninc) with
                  | Some (p, u) => Some ((nid, ninc) :: p, u)
                  | None => None
                  end
           | None => Some ([], used)
           end
    end
  end.
Definition max_path (g : graph) : option (list (nat * dir)) :=
  match g with
  | [] => Some []
  | _ =>
    let b := best_node g in
    match mp_walk (S (length g)) g [b] (b, DLeft) with
    | None => None
    | Some (p1, u1) =>
      (* first pass (do_flip = false) pushes to the back *)
      match mp_walk (S (length g)) g u1 (b, DRight) with
      | None => None
      | Some (p2, _) =>
        (* second pass (do_flip = true) pushes (id, incoming.flip()) to the front *)
        Some (rev (map (fun x => (fst x, dflip (snd x))) p2) ++ (b, DLeft) :: p1)
      end
    end
  end.
End Graph.

(* BaseGraph::combine: concatenation (strandedness must agree) *)
Definition combine_graphs {D} (gs : list (list (dna * N * D))) : list (dna * N * D) := concat gs.

(* ---- filter.rs: pruning of extensions to censored k-mers (valid_kmers sorted by key; binary search = membership) *)
Section Prune.
Variable D : Type.
Variable stranded : bool.
Definition canon_s (x : dna) : dna := if stranded then x else canon x.
Definition key_in (keys : list dna) (x : dna) : bool := existsb (dna_eqb x) keys.
Definition prune_exts (keep : dna -> bool) (kmer : dna) (exts : N) : N :=
  fold_left (fun e (db : dir * N) =>
               let '(d, b) := db in
               if e_has_ext exts (dirb d) b && keep (canon_s (extend kmer b d))
               then N.lor e (N.shiftl 1 (b + (if dirb d then 4 else 0))) else e)
            [(DLeft, 0); (DLeft, 1); (DLeft, 2); (DLeft, 3); (DRight, 0); (DRight, 1); (DRight, 2); (DRight, 3)] 0.
Definition remove_censored_exts (valid : list (dna * N * D)) : list (dna * N * D) :=
  let keys := map (fun e => fst (fst e)) valid in
  map (fun e => (fst (fst e), prune_exts (key_in keys) (fst (fst e)) (snd (fst e)), snd e)) valid.
Definition remove_censored_exts_sharded (valid : list (dna * N * D)) (all_kmers : list dna) : list (dna * N * D) :=
  let keys := map (fun e => fst (fst e)) valid in
  (* censored = not valid but present in this shard's all_kmers *)
  map (fun e => (fst (fst e),
                 prune_exts (fun x => key_in keys x || negb (key_in all_kmers x)) (fst (fst e)) (snd (fst e)), snd e)) valid.
End Prune.
