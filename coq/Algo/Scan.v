(* C07: executable model of msp.rs `Scanner::scan` (and the deprecated wrapper `simple_scan`), following the
   Rust code line by line.  p-mers are Layer-S strings (lists of bases); the packed p-mer type `P` is
   connected to them by the C10/C11 refinements (`get_kmer` = `sub`, `extend_right` = `extend_right`).
   `score` is the caller's closure `Fn(&P) -> usize`: ANY function.

   Two versions of the same code: first with total index operations (`nth`/`sub` with defaults) behind the
   guards of [scan_guard] - the two `assert!`s of `scan`, and `k - p` underflowing (debug: arithmetic panic;
   release: the wrapped bound makes `find_min` run off the end of the sequence, an index panic) give `None`;
   then (section ScannerChecked) with EVERY index operation and subtraction checked.  The second is what the
   correspondence driver runs and what simple_scan / msp_sequence call; Proofs/ScanProofs.v proves that the
   two coincide on all inputs (scan_checked_eq), so the proofs can work on the first.

   The casts `as u32` / `as u16` of the interval synthesis are explicit; the width of the `len` cast is a
   parameter ([wl], 16 in the code); the widths and the bounds of the asserts come from
   Gen/SourceConsts.v (regenerated from msp.rs on every run) so that the wrap-around can also be exhibited on a small instance. *)
From Coq Require Import NArith List Bool Arith.
From DBG Require Import Gen.SourceConsts Spec.Dna Spec.ScanSpec.
Import ListNotations.
Open Scope nat_scope.

(* struct MinPos<P> { val: usize, pos: usize, kmer: P } *)
Record minpos := mkMinPos { mval : N; mpos : nat; mkmer : dna }.

(* impl Ord for MinPos: by val; ties: the SMALLER position is the GREATER element *)
Definition mp_cmp (a b : minpos) : comparison :=
  match (mval a ?= mval b)%N with
  | Eq => CompOpp (mpos a ?= mpos b)
  | c => c
  end.
(* std::cmp::min(a, b): b if a > b, else a *)
Definition mp_min (a b : minpos) : minpos := match mp_cmp a b with Gt => b | _ => a end.

(* struct MspIntervalP<P> { minimizer: P, start: u32, len: u16, minimizer_pos: u32 } *)
Record interval := mkInterval { iv_minimizer : dna; iv_mpos : N; iv_start : N; iv_len : N }.
(* the same before the narrowing casts (usize values): [sivl] of Spec/ScanSpec.v *)

Definition cast (w : N) (n : nat) : N := (N.of_nat n mod 2 ^ w)%N.
Definition cast_iv (wl : N) (x : sivl) : interval :=
  mkInterval (s_min x) (cast msp_mpos_bits (s_mpos x)) (cast msp_start_bits (s_start x)) (cast wl (s_len x)).
(* reading a reported interval back as plain numbers *)
Definition iv_nat (x : interval) : sivl :=
  mkS (iv_minimizer x) (N.to_nat (iv_mpos x)) (N.to_nat (iv_start x)) (N.to_nat (iv_len x)).

Section Scanner.
  Variable score : dna -> N.
  Variable seq : dna.
  Variable k p : nat.

  (* fn mp(&self, pos) : get_kmer(pos), score *)
  Definition mp (pos : nat) : minpos :=
    let kmer := sub pos p seq in
    mkMinPos (score kmer) pos kmer.

  (* fn incr(&self, mp) : pos+1, kmer.extend_right(seq.get(pos + P::k() - 1)) *)
  Definition incr (m : minpos) : minpos :=
    let pos := mpos m + 1 in
    let kmer := extend_right (mkmer m) (nth (pos + p - 1) seq 0%N) in
    mkMinPos (score kmer) pos kmer.

  (* the closure find_min(start, stop): `while current.pos < stop` runs stop - start times *)
  Fixpoint find_min_loop (n : nat) (min_pos current : minpos) : minpos :=
    match n with
    | O => min_pos
    | S n' => let current := incr current in find_min_loop n' (mp_min min_pos current) current
    end.
  Definition find_min (start stop : nat) : minpos :=
    let min_pos := mp start in find_min_loop (stop - start) min_pos min_pos.

  (* loop state: (min_pos, end_pos, min_positions); min_positions is kept newest-first here and reversed
     once at the end (the code pushes at the back) *)
  Definition scan_state := (minpos * minpos * list (nat * minpos))%type.
  Definition scan_step (st : scan_state) (i : nat) : scan_state :=
    let '(min_pos, end_pos, acc) := st in
    let end_pos := incr end_pos in
    if mpos min_pos <? i then
      let min_pos := find_min i (i + k - p) in (min_pos, end_pos, (i, min_pos) :: acc)
    else if (mval end_pos <? mval min_pos)%N then
      (end_pos, end_pos, (i, end_pos) :: acc)
    else (min_pos, end_pos, acc).

  Definition scan_init : scan_state :=
    let min_pos := find_min 0 (k - p) in (min_pos, mp (k - p), [(0, min_pos)]).

  (* for i in 1..(m - k + 1) *)
  Definition min_positions : list (nat * minpos) :=
    let '(_, _, acc) := fold_left scan_step (List.seq 1 (length seq - k)) scan_init in rev acc.

  (* "Generate the slices of the final string" (values before the casts) *)
  Fixpoint synth (l : list (nat * minpos)) : list sivl :=
    match l with
    | [] => []
    | (start_pos, min_pos) :: rest =>
        match rest with
        | [] => [mkS (mkmer min_pos) (mpos min_pos) start_pos (length seq - start_pos)]
        | (next_pos, _) :: _ =>
            mkS (mkmer min_pos) (mpos min_pos) start_pos (next_pos + k - 1 - start_pos) :: synth rest
        end
    end.

  Definition scan_raw : list sivl := synth min_positions.

  Definition scan_guard : bool :=
    (k <=? length seq) && (N.of_nat (length seq) <? 2 ^ msp_assert_shift)%N && (p <=? k) && (1 <=? p).

  Definition scan_w (wl : N) : option (list interval) :=
    if scan_guard then Some (map (cast_iv wl) scan_raw) else None.
  (* the code: len is u16 (width pinned from the source) *)
  Definition scan : option (list interval) := scan_w msp_len_bits.
End Scanner.

(* ---------------------------------------------------------------------------------------------------
   The same code with EVERY index operation and usize subtraction checked (None = the Rust code panics:
   slice index out of range in get_kmer / get, arithmetic underflow in debug).  This is the version the
   correspondence driver runs; Proofs/ScanProofs.v shows that it coincides with the total version above
   on all inputs (scan_checked_eq), i.e. under the guards of [scan_guard] no inner panic is possible. *)
Section ScannerChecked.
  Variable score : dna -> N.
  Variable seq : dna.
  Variable k p : nat.

  Definition sub_usize (a b : nat) : option nat := if b <=? a then Some (a - b) else None.

  (* seq.get_kmer::<P>(pos): &self.0[pos..pos + K::k()] *)
  Definition mp_c (pos : nat) : option minpos :=
    if pos + p <=? length seq then
      let kmer := sub pos p seq in Some (mkMinPos (score kmer) pos kmer)
    else None.

  (* seq.get(pos + P::k() - 1) *)
  Definition incr_c (m : minpos) : option minpos :=
    let pos := mpos m + 1 in
    match nth_error seq (pos + p - 1) with
    | Some b => let kmer := extend_right (mkmer m) b in Some (mkMinPos (score kmer) pos kmer)
    | None => None
    end.

  Fixpoint find_min_loop_c (n : nat) (min_pos current : minpos) : option minpos :=
    match n with
    | O => Some min_pos
    | S n' => match incr_c current with
              | Some current => find_min_loop_c n' (mp_min min_pos current) current
              | None => None
              end
    end.
  Definition find_min_c (start stop : nat) : option minpos :=
    match mp_c start with
    | Some min_pos => find_min_loop_c (stop - start) min_pos min_pos
    | None => None
    end.

  Definition scan_step_c (st : scan_state) (i : nat) : option scan_state :=
    let '(min_pos, end_pos, acc) := st in
    match incr_c end_pos with
    | None => None
    | Some end_pos =>
        if mpos min_pos <? i then
          match find_min_c i (i + k - p) with
          | Some min_pos => Some (min_pos, end_pos, (i, min_pos) :: acc)
          | None => None
          end
        else if (mval end_pos <? mval min_pos)%N then Some (end_pos, end_pos, (i, end_pos) :: acc)
        else Some (min_pos, end_pos, acc)
    end.

  Fixpoint fold_c (l : list nat) (st : scan_state) : option scan_state :=
    match l with
    | [] => Some st
    | i :: r => match scan_step_c st i with Some st' => fold_c r st' | None => None end
    end.

  Fixpoint synth_c (l : list (nat * minpos)) : option (list sivl) :=
    match l with
    | [] => None                                   (* min_positions.len() - 1 *)
    | (start_pos, min_pos) :: rest =>
        match rest with
        | [] => match sub_usize (length seq) start_pos with
                | Some ln => Some [mkS (mkmer min_pos) (mpos min_pos) start_pos ln]
                | None => None
                end
        | (next_pos, _) :: _ =>
            match sub_usize (next_pos + k - 1) start_pos, synth_c rest with
            | Some ln, Some t => Some (mkS (mkmer min_pos) (mpos min_pos) start_pos ln :: t)
            | _, _ => None
            end
        end
    end.

  Definition scan_checked_w (wl : N) : option (list interval) :=
    (* assert!(self.seq.len() >= self.k); assert!(self.seq.len() < 1 << 32); P::k() >= 1 by type *)
    if (k <=? length seq) && (N.of_nat (length seq) <? 2 ^ msp_assert_shift)%N && (1 <=? p) then
      match sub_usize k p with                     (* k - p *)
      | None => None
      | Some kp =>
          match find_min_c 0 kp, mp_c kp with
          | Some min_pos, Some end_pos =>
              match fold_c (List.seq 1 (length seq - k)) (min_pos, end_pos, [(0, min_pos)]) with
              | Some (_, _, acc) => option_map (map (cast_iv wl)) (synth_c (rev acc))
              | None => None
              end
          | _, _ => None
          end
      end
    else None.
  Definition scan_checked : option (list interval) := scan_checked_w msp_len_bits.
End ScannerChecked.

(* MspIntervalP::bucket(): min_rc of the minimizer, to_u64 *)
Definition bucket_of (minimizer : dna) : N := rank (canon minimizer).

(* simple_scan: score from a permutation table, optionally min with the reverse complement; the result
   keeps bucket (as u16), start, len.  `permutation[..]` out of range would panic: the table must have 4^p
   entries (what the caller has to supply; the dispatch leaves other tables unconstrained). *)
Definition perm_score (perm : list N) (rcmode : bool) (x : dna) : N :=
  let s := nth (N.to_nat (rank x)) perm 0%N in
  if rcmode then N.min s (nth (N.to_nat (rank (rc x))) perm 0%N) else s.

Definition simple_scan (seq : dna) (k p : nat) (perm : list N) (rcmode : bool) : option (list (N * N * N)) :=
  if (N.of_nat p <=? msp_simple_max_p)%N then
    match scan_checked (perm_score perm rcmode) seq k p with
    | Some ivs => Some (map (fun x => ((bucket_of (iv_minimizer x) mod 2 ^ msp_simple_bucket_bits)%N, iv_start x, iv_len x)) ivs)
    | None => None
    end
  else None.
