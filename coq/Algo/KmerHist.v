(* C11: operation histories on a k-mer (model side and list side). *)
From Coq Require Import NArith List Bool Arith.
From DBG Require Import Spec.Dna Packed.KmerModel.
Import ListNotations.
Open Scope N_scope.

Inductive kinit := IEmpty | IFromU64 (v : N) | IFromBytes (l : list N) | IFromAscii (l : list N).
Inductive kop := OExtL (b : N) | OExtR (b : N) | ORc | OSet (pos : nat) (b : N)
               | OSetSlice (pos n : nat) (v : N) | OMinRc.

Definition kinit_run (c : kcfg) (i : kinit) : option N :=
  match i with
  | IEmpty => Some kempty
  | IFromU64 v => from_u64 c v
  | IFromBytes l => from_bytes c l
  | IFromAscii l => from_ascii c l
  end.
Definition kstep (c : kcfg) (s : N) (o : kop) : option N :=
  match o with
  | OExtL b => kextend_left c s b
  | OExtR b => kextend_right c s b
  | ORc => krc c s
  | OSet pos b => set_mut c s pos b
  | OSetSlice pos n v => set_slice_mut c s pos n v
  | OMinRc => min_rc c s
  end.
Fixpoint ksteps (c : kcfg) (s : N) (ops : list kop) : option N :=
  match ops with [] => Some s | o :: r => match kstep c s o with Some s' => ksteps c s' r | None => None end end.
Definition khist (c : kcfg) (i : kinit) (ops : list kop) : option N :=
  match kinit_run c i with Some s => ksteps c s ops | None => None end.

(* list side *)
Definition sinit (K : nat) (i : kinit) : dna :=
  match i with
  | IEmpty => repeat 0 K
  | IFromU64 v => digits4 K v
  | IFromBytes l => firstn K l
  | IFromAscii l => map ascii_base (firstn K l)
  end.
Definition sstep (l : dna) (o : kop) : dna :=
  match o with
  | OExtL b => extend_left l b
  | OExtR b => extend_right l b
  | ORc => rc l
  | OSet pos b => upd pos l b
  | OSetSlice pos n v => splice pos (firstn n (digits4 32 v)) l
  | OMinRc => canon l
  end.
Definition shist (K : nat) (i : kinit) (ops : list kop) : dna := fold_left sstep ops (sinit K i).

(* guards: arguments in range *)
Definition kinit_ok (K : nat) (i : kinit) : bool :=
  match i with
  | IEmpty => true
  | IFromU64 v => (v <? 2 ^ 64) && (v <? 4 ^ N.of_nat K)
  | IFromBytes l => Nat.leb K (length l) && wf_dnab (firstn K l)
  | IFromAscii l => Nat.leb K (length l) && forallb (fun b => b <? 256) l
  end.
Definition kop_ok (K : nat) (o : kop) : bool :=
  match o with
  | OExtL b | OExtR b => b <? 4
  | ORc | OMinRc => true
  | OSet pos b => Nat.ltb pos K && (b <? 4)
  | OSetSlice pos n v => Nat.leb 1 n && Nat.leb n 32 && Nat.leb (pos + n) K && (v <? 2 ^ 64)
  end.

(* derived Hash: feeds exactly the storage word as W/8 little-endian bytes (PhantomData feeds nothing) *)
Fixpoint le_bytes (n : nat) (x : N) : list N :=
  match n with O => [] | S m => x mod 256 :: le_bytes m (x / 256) end.
Definition hash_feed (c : kcfg) (s : N) : list N := le_bytes (kW c / 8) s.
(* derived PartialEq / Ord: on the storage word *)
Definition k_eq (s1 s2 : N) : bool := s1 =? s2.
Definition k_cmp (s1 s2 : N) : comparison := s1 ?= s2.

(* sorting / dedup on lists, the spec of sort()+dedup() (any correct sort gives the same result on a
   total order; insertion sort is the reference) *)
Fixpoint insert_by {A} (leb : A -> A -> bool) (x : A) (l : list A) : list A :=
  match l with [] => [x] | y :: r => if leb x y then x :: l else y :: insert_by leb x r end.
Definition sort_by {A} (leb : A -> A -> bool) (l : list A) : list A := fold_right (insert_by leb) [] l.
Fixpoint dedup_by {A} (eqb : A -> A -> bool) (l : list A) : list A :=
  match l with
  | [] => []
  | x :: r => match dedup_by eqb r with
              | [] => [x]
              | y :: t => if eqb x y then y :: t else x :: y :: t
              end
  end.
