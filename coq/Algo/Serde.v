(* Layer A (shallow): the layout the serde derives give the persisted types of the crate, as JSON trees
   (Algo/Json.v), and the matching decoders.  One encoder per #[derive(Serialize, Deserialize)] site:
     IntKmer<T>                 {"storage": n}                          kmer.rs:231
     VarIntKmer<T, KS>          {"storage": n, "phantom": null}         kmer.rs:438
     DnaString                  {"storage": [u64 ...], "len": n}        dna_string.rs:99
     PackedDnaStringSet         {"sequence": .., "start": [..], "length": [..]}   dna_string.rs:795
     Exts                       {"val": n}                              lib.rs:577
     Dir                        "Left" | "Right"                        lib.rs:536
     BaseGraph<K, D>            {"sequences": .., "exts": [..], "data": [..], "stranded": b, "phantom": null}   graph.rs:43
   DebruijnGraph = {"base": .., "left_order": .., "right_order": ..}: the two boomphf tables serialise through
   boomphf's own impls, which are NOT modelled (their content is a function of the construction, C19).
   TRUSTED, not modelled: the derive macros (that the generated code emits / accepts exactly these shapes:
   compared by the harness with the real serde_json tree of every generated value), serde_json's text layer.
   A derived Deserialize accepts the fields in any order and ignores unknown ones; the decoders below look the
   fields up by name. *)
From Coq Require Import NArith List Bool Arith String.
From DBG Require Import Spec.Dna Spec.GraphIndex Packed.DnaStringModel Algo.GraphModel Algo.Json.
Import ListNotations.
Local Open Scope string_scope.

Definition fld (k : string) (t : jtree) : list N * jtree := (bs k, t).
Definition get (k : string) (t : jtree) : option jtree :=
  match t with JObj ms => jfield (bs k) ms | _ => None end.
Definition get_num (k : string) (t : jtree) : option N :=
  match get k t with Some (JNum n) => Some n | _ => None end.

Fixpoint dec_nums (l : list jtree) : option (list N) :=
  match l with
  | [] => Some []
  | JNum n :: r => match dec_nums r with Some t => Some (n :: t) | None => None end
  | _ => None
  end.
Definition get_nums (k : string) (t : jtree) : option (list N) :=
  match get k t with Some (JArr l) => dec_nums l | _ => None end.
Fixpoint dec_list {A} (f : jtree -> option A) (l : list jtree) : option (list A) :=
  match l with
  | [] => Some []
  | x :: r => match f x, dec_list f r with Some y, Some t => Some (y :: t) | _, _ => None end
  end.

(* k-mers: the storage word *)
Definition enc_int_kmer (s : N) : jtree := JObj [fld "storage" (JNum s)].
Definition dec_int_kmer (t : jtree) : option N := get_num "storage" t.
Definition enc_varint_kmer (s : N) : jtree := JObj [fld "storage" (JNum s); fld "phantom" JNull].
Definition dec_varint_kmer (t : jtree) : option N :=
  match get "phantom" t with Some JNull => get_num "storage" t | _ => None end.

Definition enc_exts (v : N) : jtree := JObj [fld "val" (JNum v)].
Definition dec_exts (t : jtree) : option N := get_num "val" t.

Definition enc_dir (d : dir) : jtree := JStr (match d with DLeft => bs "Left" | DRight => bs "Right" end).
Definition dec_dir (t : jtree) : option dir :=
  match t with
  | JStr s => if list_N_eqb s (bs "Left") then Some DLeft else if list_N_eqb s (bs "Right") then Some DRight else None
  | _ => None
  end.

Definition enc_dstr (s : dstr) : jtree :=
  JObj [fld "storage" (JArr (map JNum (d_sto s))); fld "len" (JNum (N.of_nat (d_len s)))].
Definition dec_dstr (t : jtree) : option dstr :=
  match get_nums "storage" t, get_num "len" t with
  | Some sto, Some n => Some {| d_sto := sto; d_len := N.to_nat n |}
  | _, _ => None
  end.

Definition enc_nats (l : list nat) : jtree := JArr (map (fun n => JNum (N.of_nat n)) l).
Definition enc_pset (p : pset) : jtree :=
  JObj [fld "sequence" (enc_dstr (p_seq p)); fld "start" (enc_nats (p_start p)); fld "length" (enc_nats (p_length p))].
Definition dec_pset (t : jtree) : option pset :=
  match get "sequence" t with
  | Some s =>
      match dec_dstr s, get_nums "start" t, get_nums "length" t with
      | Some d, Some st, Some ln => Some {| p_seq := d; p_start := map N.to_nat st; p_length := map N.to_nat ln |}
      | _, _, _ => None
      end
  | None => None
  end.

Section BaseGraph.
Variable D : Type.
Variable enc_d : D -> jtree.
Variable dec_d : jtree -> option D.

Record bgraph := { bg_seqs : pset; bg_exts : list N; bg_data : list D; bg_stranded : bool }.
Definition enc_bgraph (g : bgraph) : jtree :=
  JObj [fld "sequences" (enc_pset (bg_seqs g)); fld "exts" (JArr (map enc_exts (bg_exts g)));
        fld "data" (JArr (map enc_d (bg_data g))); fld "stranded" (JBool (bg_stranded g)); fld "phantom" JNull].
Definition dec_bgraph (t : jtree) : option bgraph :=
  match get "sequences" t, get "exts" t, get "data" t, get "stranded" t, get "phantom" t with
  | Some s, Some (JArr es), Some (JArr ds), Some (JBool b), Some JNull =>
      match dec_pset s, dec_list dec_exts es, dec_list dec_d ds with
      | Some p, Some e, Some d => Some {| bg_seqs := p; bg_exts := e; bg_data := d; bg_stranded := b |}
      | _, _, _ => None
      end
  | _, _, _, _, _ => None
  end.

(* what the queries see: node i = bases [start_i, start_i + length_i) of the packed sequence, exts_i, data_i *)
Definition bg_nodes (g : bgraph) : graph D :=
  let all := d_abs (p_seq (bg_seqs g)) in
  map (fun x => (sub (fst (fst (fst x))) (snd (fst (fst x))) all, snd (fst x), snd x))
      (combine (combine (combine (p_start (bg_seqs g)) (p_length (bg_seqs g))) (bg_exts g)) (bg_data g)).

(* BaseGraph::add, node by node (PackedDnaStringSet::add pushes the bases one by one) *)
Definition bg_new (stranded : bool) : bgraph := {| bg_seqs := p_new; bg_exts := []; bg_data := []; bg_stranded := stranded |}.
Definition bg_add (g : bgraph) (n : gnode D) : option bgraph :=
  match p_add (bg_seqs g) (n_seq D n) with
  | Some p => Some {| bg_seqs := p; bg_exts := bg_exts g ++ [n_exts D n]; bg_data := bg_data g ++ [n_data D n];
                      bg_stranded := bg_stranded g |}
  | None => None
  end.
Fixpoint bg_add_all (g : bgraph) (ns : list (gnode D)) : option bgraph :=
  match ns with [] => Some g | n :: r => match bg_add g n with Some g' => bg_add_all g' r | None => None end end.
Definition bg_of_nodes (stranded : bool) (ns : graph D) : option bgraph := bg_add_all (bg_new stranded) ns.
End BaseGraph.
