(* Layer A: model of DebruijnGraph::is_compressed (src/graph.rs:296-334), the crate's own "could two nodes still be
   merged?" test.  It is NOT used as an oracle anywhere in this development (C02 states mergeability on k-mer payloads);
   it is modelled because compress_graph ends with `debug_assert!(dbg.is_compressed(compression) == None)`: in DEBUG
   builds a Some answer on the freshly built graph is a panic.  Differences to the walk's own stop conditions
   (try_extend_node), all visible below: edges are counted through find_edges (resolvable ones), the palindrome
   exemptions are not conditioned on strandedness and only concern single-k-mer nodes, and - the one that matters -
   join_test is applied to the FOLDED payloads of the result nodes, whereas the walk applied it to the payloads of the two
   nodes at the junction.  For a join predicate that is not a congruence for the reduction the two disagree
   (known finding F11, Properties/C09.v C09_debug_assert_refuted).  No proofs here. *)
From Coq Require Import NArith List Bool Arith.
From DBG Require Import Spec.Dna Spec.GraphIndex Packed.ExtsModel Algo.Compress Algo.GraphModel.
Import ListNotations.
Open Scope N_scope.

Section IsCompressed.
Variable D : Type.
Variable join : D -> D -> bool.
Variable K : nat.
Variable stranded : bool.
Local Notation graph := (graph D).

Definition pal_single_node (n : gnode D) : bool :=
  Nat.eqb (length (n_seq D n)) K && is_palindrome (first_kmer K (n_seq D n)).

(* the test for node i, side dir: Some next = "should have been merged with next" *)
Definition is_compressed_at (g : graph) (i : nat) (d : dir) : option nat :=
  match nth_error g i, find_edges D K stranded g i d with
  | Some n, Some [(next_id, return_dir, _)] =>
      match nth_error g next_id, find_edges D K stranded g next_id return_dir with
      | Some next, Some [_] =>
          if pal_single_node n then None
          else if pal_single_node next then None
          else if Nat.eqb i next_id then None
          else if join (n_data D n) (n_data D next) then Some next_id else None
      | _, _ => None
      end
  | _, _ => None
  end.

Definition is_compressed (g : graph) : option (nat * nat) :=
  fold_left (fun (acc : option (nat * nat)) (i : nat) =>
     match acc with
     | Some _ => acc
     | None =>
       match is_compressed_at g i DLeft with
       | Some nx => Some (i, nx)
       | None => match is_compressed_at g i DRight with Some nx => Some (i, nx) | None => None end
       end
     end) (seq 0 (length g)) None.
End IsCompressed.
