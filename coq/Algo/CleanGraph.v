(* Layer A: model of clean_graph.rs (CleanGraph::test_tip / find_bad_nodes), the producer of censor lists for
   compress_graph (C09).  A node is reported iff it has no extension bit on at least one side, at most one on the other
   side, and the caller's predicate accepts it; ids come out in ascending order.  The predicate sees the node (its
   sequence, extension byte and payload).  No proofs here. *)
From Coq Require Import NArith List Bool Arith.
From DBG Require Import Spec.Dna Packed.ExtsModel Algo.Compress Algo.GraphModel.
Import ListNotations.
Open Scope N_scope.

Section Clean.
Variable D : Type.
Variable tip_pred : gnode D -> bool.

Definition test_tip (n : gnode D) : bool :=
  let nl := e_num_ext_dir (n_exts D n) false in
  let nr := e_num_ext_dir (n_exts D n) true in
  if (0 <? nr) && (0 <? nl) then false
  else (((nl =? 0) && (nr <=? 1)) || ((nr =? 0) && (nl <=? 1))) && tip_pred n.

Definition find_bad_nodes (g : graph D) : list nat :=
  map fst (filter (fun p => test_tip (snd p)) (combine (seq 0 (length g)) g)).
End Clean.
