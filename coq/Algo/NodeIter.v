(* Layer A: NodeKmerIter (src/graph.rs, repaired code): iterator over the k-mers of a node whose sequence is a
   slice of the graph's shared packed string. *)
From Coq Require Import NArith List Bool Arith Lia.
From DBG Require Import Spec.Dna Packed.KmerModel Packed.Blocks Packed.DnaStringModel Packed.SliceModel Algo.Iter.
Import ListNotations.
Open Scope N_scope.

Record nkiter := { ni_kmer_id : nat; ni_kmer : N; ni_num : nat }.
Inductive ncall := CNext | CNth (n : nat).

Section NodeIter.
Variable c : kcfg.
Variable d : dstr.       (* the shared string *)
Variable s : slc.        (* this node's slice *)

(* into_iter: num_kmers = len - K + 1 (usize underflow panics); first k-mer if any *)
Definition ni_into_iter : option nkiter :=
  do a <- subn (s_length s) (kK c);
  let num := S a in
  do k <- sl_get_kmer c d s 0;
  Some {| ni_kmer_id := 0; ni_kmer := k; ni_num := num |}.

Definition ni_next (it : nkiter) : option (nkiter * option N) :=
  if Nat.eqb (ni_num it) (ni_kmer_id it) then Some (it, None) else
  let cur := ni_kmer it in
  let id' := S (ni_kmer_id it) in
  if Nat.ltb id' (ni_num it) then
    do b <- sl_get d s (id' + kK c - 1);
    do k' <- kextend_right c cur b;
    Some ({| ni_kmer_id := id'; ni_kmer := k'; ni_num := ni_num it |}, Some cur)
  else Some ({| ni_kmer_id := id'; ni_kmer := cur; ni_num := ni_num it |}, Some cur).

Fixpoint ni_skip (n : nat) (it : nkiter) : option nkiter :=
  match n with O => Some it | S m => do p <- ni_next it; ni_skip m (fst p) end.

Definition ni_nth (it : nkiter) (n : nat) : option (nkiter * option N) :=
  if Nat.leb n 4 then do it' <- ni_skip n it; ni_next it'
  else
    let id' := (ni_kmer_id it + n)%nat in      (* saturating_add: nat is unbounded *)
    if Nat.leb (ni_num it) id' then Some ({| ni_kmer_id := ni_num it; ni_kmer := ni_kmer it; ni_num := ni_num it |}, None)
    else do k <- sl_get_kmer c d s id';
         ni_next {| ni_kmer_id := id'; ni_kmer := k; ni_num := ni_num it |}.

Definition ni_call (it : nkiter) (cl : ncall) : option (nkiter * option N) :=
  match cl with CNext => ni_next it | CNth n => ni_nth it n end.
Fixpoint ni_run (it : nkiter) (calls : list ncall) : option (list (option N)) :=
  match calls with
  | [] => Some []
  | cl :: r => do p <- ni_call it cl; do t <- ni_run (fst p) r; Some (snd p :: t)
  end.
Definition ni_size_hint (it : nkiter) : nat := ni_num it.
End NodeIter.

(* list-level specification: Next pops, Nth n drops n then pops, None forever once exhausted *)
Fixpoint spec_run {A} (l : list A) (calls : list ncall) : list (option A) :=
  match calls with
  | [] => []
  | CNext :: r => match l with [] => None :: spec_run [] r | x :: t => Some x :: spec_run t r end
  | CNth n :: r => match skipn n l with [] => None :: spec_run [] r | x :: t => Some x :: spec_run t r end
  end.
