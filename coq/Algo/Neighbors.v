(* Layer A: model of KmerOneHammingIter (src/neighbors.rs): the iterator over all Hamming-distance-1 neighbours of a
   k-mer.  State = (source, position, char); [next] is the Rust method, whose self-recursion (skip the source's own base,
   move to the next position) is bounded by explicit fuel - 5 * (K + 1) is proved sufficient from every state with
   char <= 4 (Proofs/NeighborsProofs.v); [None] = panic (none occurs) or fuel exhausted (excluded by the theorems).
   `self.source.set(pos, c)` is the trait default `Mer::set` = copy + set_mut.  No proofs here. *)
From Coq Require Import NArith List Bool Arith.
From DBG Require Import Spec.Dna Packed.KmerModel.
Import ListNotations.
Open Scope N_scope.

Section Nb.
Variable c : kcfg.
Let K := kK c.

Record nb_state := { nb_src : N; nb_pos : nat; nb_char : N }.
Definition nb_new (s : N) : nb_state := {| nb_src := s; nb_pos := 0; nb_char := 0 |}.

(* Some (None, st) = the iterator returned None; Some (Some k, st) = it returned Some(k) *)
Fixpoint nb_next (fuel : nat) (st : nb_state) : option (option N * nb_state) :=
  match fuel with
  | O => None
  | S f =>
    if Nat.leb K (nb_pos st) then Some (None, st)
    else
      do base <- get c (nb_src st) (nb_pos st);
      if 4 <=? nb_char st then nb_next f {| nb_src := nb_src st; nb_pos := S (nb_pos st); nb_char := 0 |}
      else if base =? nb_char st then nb_next f {| nb_src := nb_src st; nb_pos := nb_pos st; nb_char := nb_char st + 1 |}
      else do r <- set_mut c (nb_src st) (nb_pos st) (nb_char st);
           Some (Some r, {| nb_src := nb_src st; nb_pos := nb_pos st; nb_char := nb_char st + 1 |})
  end.
Definition nb_fuel : nat := 5 * (K + 1).

(* collect(): call next until it returns None; [n] bounds the number of items (3 * K + 1 suffices) *)
Fixpoint nb_collect (n : nat) (st : nb_state) : option (list N * nb_state) :=
  match n with
  | O => None
  | S m =>
    do r <- nb_next nb_fuel st;
    match fst r with
    | None => Some ([], snd r)
    | Some k => do t <- nb_collect m (snd r); Some (k :: fst t, snd t)
    end
  end.
Definition nb_all (s : N) : option (list N) := do r <- nb_collect (3 * K + 1) (nb_new s); Some (fst r).
(* the harness' observation: collect, then three more next() calls, which must all return None (fused) *)
Definition nb_all_fused (s : N) : option (list N) :=
  do r <- nb_collect (3 * K + 1) (nb_new s);
  do a <- nb_next nb_fuel (snd r); do b <- nb_next nb_fuel (snd a); do d <- nb_next nb_fuel (snd b);
  match fst a, fst b, fst d with None, None, None => Some (fst r) | _, _, _ => None end.
End Nb.
