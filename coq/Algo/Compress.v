(* Layer A: model of CompressFromHash (src/compression.rs) - try_extend_kmer, extend_kmer, build_node,
   compress_kmers - and of the three entry points.  K-mers are Layer-S lists ([dna]); the packed k-mers are
   connected to them by the C10-C13 refinements.  The k-mer table is the ordered list of (key, exts, data)
   in the order BoomHashMap2 iterates them (an oracle: any permutation); lookup is a key-verified search.
   [Panic] models the panics the code can reach ("couldn't find kmer", "unreachable", expect()). *)
From Coq Require Import NArith List Bool Arith.
From DBG Require Import Spec.Dna Spec.GraphIndex Packed.ExtsModel.
Import ListNotations.
Open Scope N_scope.

Definition dirb (d : dir) : bool := match d with DLeft => false | DRight => true end.
Definition dflip (d : dir) : dir := match d with DLeft => DRight | DRight => DLeft end.
Definition cond_flip (d : dir) (f : bool) : dir := if f then dflip d else d.

Section Compress.
Variable D : Type.
Variable reduce : D -> D -> D.
Variable join_test : D -> D -> bool.
Variable stranded : bool.

Definition entry := (dna * N * D)%type.
Definition e_key (e : entry) : dna := fst (fst e).
Definition e_exts (e : entry) : N := snd (fst e).
Definition e_data (e : entry) : D := snd e.
Definition table := list entry.

Definition get_id (T : table) (k : dna) : option nat := end_index (map e_key T) k.
Definition get_entry (T : table) (k : dna) : option entry :=
  match get_id T k with Some i => nth_error T i | None => None end.

Inductive ext_mode := Unique (k : dna) (d : dir) (e : N) | Terminal (e : N) | Panic.

Definition mem_nat (i : nat) (l : list nat) : bool := existsb (Nat.eqb i) l.
Definition remove_nat (i : nat) (l : list nat) : list nat := filter (fun j => negb (Nat.eqb i j)) l.

(* try_extend_kmer, in code order *)
Definition try_extend_kmer (T : table) (avail : list nat) (kmer : dna) (d : dir) : ext_mode :=
  match get_entry T kmer with
  | None => Panic                                        (* get_kmer_data: "couldn't find kmer" *)
  | Some ent =>
    let exts := e_exts ent in
    if negb (e_num_ext_dir exts (dirb d) =? 1) || (negb stranded && is_palindrome kmer)
    then Terminal (e_single_dir exts (dirb d))
    else
      match e_get_unique_extension exts (dirb d) with
      | None => Panic                                    (* expect("should be unique") *)
      | Some ext_base =>
        let raw := extend kmer ext_base d in
        let '(next_kmer, do_flip) := if stranded then (raw, false) else canon_flip raw in
        let next_dir := cond_flip d do_flip in
        let is_pal := negb stranded && is_palindrome next_kmer in
        match get_id T next_kmer with
        | Some id =>
          if mem_nat id avail then
            let new_incoming := cond_flip (dflip d) do_flip in
            match get_entry T next_kmer with
            | None => Panic
            | Some nent =>
              let next_exts := e_exts nent in
              let incoming_count := e_num_ext_dir next_exts (dirb new_incoming) in
              let outgoing_exts := e_single_dir next_exts (dirb (dflip new_incoming)) in
              let can_join := join_test (e_data ent) (e_data nent) in
              if (incoming_count =? 0) && negb is_pal then Panic          (* "unreachable" *)
              else if can_join && (incoming_count =? 1) && negb is_pal
                   then Unique next_kmer next_dir outgoing_exts
                   else Terminal (e_single_dir exts (dirb d))
            end
          else Terminal (e_single_dir exts (dirb d))
        | None => Terminal (e_single_dir exts (dirb d))
        end
      end
  end.

(* extend_kmer: the start k-mer has been removed from [avail] by the caller of the loop *)
Fixpoint extend_loop (fuel : nat) (T : table) (avail : list nat) (kmer : dna) (d : dir)
  : option (list (dna * dir) * N * list nat) :=
  match fuel with
  | O => None
  | S f =>
    match try_extend_kmer T avail kmer d with
    | Panic => None
    | Terminal e => Some ([], e, avail)
    | Unique nk nd _ =>
      match get_id T nk with
      | None => None                                      (* expect("should have this kmer") *)
      | Some nid =>
        match extend_loop f T (remove_nat nid avail) nk nd with
        | Some (p, e, a) => Some ((nk, nd) :: p, e, a)
        | None => None
        end
      end
    end
  end.
Definition extend_kmer (T : table) (avail : list nat) (kmer : dna) (d : dir)
  : option (list (dna * dir) * N * list nat) :=
  match get_id T kmer with
  | None => None
  | Some id => let a := remove_nat id avail in extend_loop (S (length a)) T a kmer d
  end.

Definition last_dir (p : list (dna * dir)) : option dir :=
  match rev p with [] => None | (_, d) :: _ => Some d end.

(* build_node: sequence, exts, data, remaining availability *)
Definition build_node (T : table) (avail : list nat) (seed_id : nat) : option (dna * N * D * list nat) :=
  match nth_error T seed_id with
  | None => None
  | Some sent =>
    let seed := e_key sent in
    match extend_kmer T avail seed DLeft with
    | None => None
    | Some (lpath, l_ext, a1) =>
      (* left path: push_front(kmer.get(0)) of next_kmer (Left) or its rc (Right); reduce in path order *)
      let lstep (acc : option (dna * D)) (x : dna * dir) :=
        match acc with
        | None => None
        | Some (seq, data) =>
          let k := match snd x with DLeft => fst x | DRight => rc (fst x) end in
          match get_entry T (fst x) with
          | None => None
          | Some ent => Some (nth 0 k 0 :: seq, reduce data (e_data ent))
          end
        end in
      match fold_left lstep lpath (Some (seed, e_data sent)) with
      | None => None
      | Some (seq1, data1) =>
        let left_extend := match last_dir lpath with
                           | None | Some DLeft => l_ext
                           | Some DRight => e_complement l_ext end in
        match extend_kmer T a1 seed DRight with
        | None => None
        | Some (rpath, r_ext, a2) =>
          let rstep (acc : option (dna * D)) (x : dna * dir) :=
            match acc with
            | None => None
            | Some (seq, data) =>
              let k := match snd x with DLeft => rc (fst x) | DRight => fst x end in
              match get_entry T (fst x) with
              | None => None
              | Some ent => Some (seq ++ [nth (length k - 1) k 0], reduce data (e_data ent))
              end
            end in
          match fold_left rstep rpath (Some (seq1, data1)) with
          | None => None
          | Some (seq2, data2) =>
            let right_extend := match last_dir rpath with
                                | None | Some DRight => r_ext
                                | Some DLeft => e_complement r_ext end in
            Some (seq2, e_from_single_dirs left_extend right_extend, data2, a2)
          end
        end
      end
    end
  end.

Definition node := (dna * N * D)%type.

Fixpoint compress_loop (T : table) (ids : list nat) (avail : list nat) : option (list node) :=
  match ids with
  | [] => Some []
  | i :: rest =>
    if mem_nat i avail then
      match build_node T avail i with
      | None => None
      | Some (seq, exts, data, a') =>
        match compress_loop T rest a' with Some g => Some ((seq, exts, data) :: g) | None => None end
      end
    else compress_loop T rest avail
  end.
Definition compress_kmers (T : table) : option (list node) :=
  let ids := seq 0 (length T) in compress_loop T ids ids.
End Compress.

(* compress_kmers_no_exts (repaired code): extensions derived from set membership *)
Definition derive_exts (stranded : bool) (keys : list dna) (k : dna) : N :=
  let can (x : dna) := if stranded then x else canon x in
  let present (x : dna) := existsb (dna_eqb (can x)) keys in
  let side (d : dir) (e0 : N) :=
    fold_left (fun e b => if present (extend k b d) then N.lor e (N.shiftl 1 (b + (if dirb d then 4 else 0))) else e)
              [0; 1; 2; 3] e0 in
  side DRight (side DLeft 0).
