(* Layer A: model of the exports of DebruijnGraph (src/graph.rs, as REPAIRED by the fix commits of findings
   F4 and F5): node_to_gfa / write_gfa / to_gfa / to_gfa_with_tags (graph.rs:538-635) and
   to_json_rest / to_json / Node::to_json / Node::edges_to_json (graph.rs:637-700, 1070-1105),
   on top of the model's find_edges (Algo/GraphModel.v).  Models of the writers BEFORE the repairs
   ([r_lines_old], [links_loop_old]) are kept for the two _refuted lemmas.
   GFA text = list of records (the text layer - tabs, decimal ids, ASCII bases - is read back by the
   harness's own parser); JSON text = token list (Algo/Json.v).  No proofs here. *)
From Coq Require Import NArith List Bool Arith String.
From DBG Require Import Gen.SourceConsts Spec.Dna Spec.GraphIndex Spec.ExportSpec Algo.GraphModel Algo.Json.
Import ListNotations.
Local Open Scope nat_scope.

Inductive gfa_rec :=
| GH                                                     (* H\tVN:Z:debruijn-rs *)
| GS (id : nat) (sq : dna) (tags : option (list N))      (* S\tid\tseq[\ttags] *)
| GL (l : lline).                                        (* L\tu\to1\tv\to2\t{K-1}M *)

Definition indexed {A} (l : list A) : list (nat * A) := combine (seq 0 (List.length l)) l.

Section Export.
Variable D : Type.
Variable K : nat.
Variable stranded : bool.
Notation graph := (graph D).
Notation gnode := (gnode D).

(* node.l_edges() / node.r_edges() of an existing node *)
Definition edges (g : graph) (id : nat) (d : dir) : list link :=
  match find_edges D K stranded g id d with Some l => l | None => [] end.

(* let to_dir = match dir { Dir::Left => "+", Dir::Right => "-" } *)
Definition to_dir (d : dir) : bool := match d with DLeft => true | DRight => false end.
Definition is_right (d : dir) : bool := match d with DLeft => false | DRight => true end.

(* for (target, dir, _) in node.l_edges() { if target >= node_id { L id - target to_dir (K-1)M } } *)
Definition l_lines_of (id : nat) (es : list nend) : list lline :=
  flat_map (fun e : nend => if id <=? fst e then [(id, false, fst e, to_dir (snd e), K - 1)] else []) es.
(* for (target, dir, _) in node.r_edges() { if target > node_id || (target == node_id && dir == Right) {..+..} } *)
Definition r_lines_of (id : nat) (es : list nend) : list lline :=
  flat_map (fun e : nend => if (id <? fst e) || ((fst e =? id) && is_right (snd e))
                            then [(id, true, fst e, to_dir (snd e), K - 1)] else []) es.
(* before the repair of F5: if target > node_id *)
Definition r_lines_old (id : nat) (es : list nend) : list lline :=
  flat_map (fun e : nend => if id <? fst e then [(id, true, fst e, to_dir (snd e), K - 1)] else []) es.

Definition target (l : link) : nend := fst l.
Definition node_links (g : graph) (id : nat) : list lline :=
  l_lines_of id (map target (edges g id DLeft)) ++ r_lines_of id (map target (edges g id DRight)).
Definition node_links_old (g : graph) (id : nat) : list lline :=
  l_lines_of id (map target (edges g id DLeft)) ++ r_lines_old id (map target (edges g id DRight)).

(* tag_func sees the Node: here a function of the id and the node's fields *)
Definition node_to_gfa (g : graph) (tagf : option (nat -> gnode -> list N)) (p : nat * gnode) : list gfa_rec :=
  GS (fst p) (n_seq D (snd p)) (match tagf with Some f => Some (f (fst p) (snd p)) | None => None end)
  :: map GL (node_links g (fst p)).

(* write_gfa (= to_gfa through a BufWriter): header, then for i in 0..len: node_to_gfa(None) *)
Definition write_gfa (g : graph) : list gfa_rec := GH :: flat_map (node_to_gfa g None) (indexed g).
Definition to_gfa_with_tags (g : graph) (tagf : nat -> gnode -> list N) : list gfa_rec :=
  GH :: flat_map (node_to_gfa g (Some tagf)) (indexed g).

Definition gfa_segments (rs : list gfa_rec) : list (nat * dna * option (list N)) :=
  flat_map (fun r => match r with GS i s t => [(i, s, t)] | _ => [] end) rs.
Definition gfa_links (rs : list gfa_rec) : list lline :=
  flat_map (fun r => match r with GL l => [l] | _ => [] end) rs.

Definition write_gfa_links_old (g : graph) : list lline := flat_map (node_links_old g) (seq 0 (List.length g)).

(* the edge table the graph reports *)
Definition etab_of (g : graph) : etab :=
  map (fun i => (map target (edges g i DLeft), map target (edges g i DRight))) (seq 0 (List.length g)).
Definition links_of_tab (E : etab) : list lline :=
  flat_map (fun i => l_lines_of i (tab_edges E i DLeft) ++ r_lines_of i (tab_edges E i DRight)) (seq 0 (List.length E)).
(* palindromic single-k-mer node of an unstranded graph *)
Definition pal_node (g : graph) (id : nat) : bool :=
  match nth_error g id with
  | Some n => negb stranded && (List.length (n_seq D n) =? K) && is_palindrome (n_seq D n)
  | None => false
  end.

(* ------------------------------------------------------------------ JSON *)
Variable fmt : D -> jtree.     (* fmt_func: the caller's rendering of the node data, a serde_json::Value *)
(* how serde_json writes a Value (Display / to_writer): opaque - [fun t => [VAL t]] - or token by token - [print];
   the theorem asks only that the rendering of t is a well-formed text of t *)
Variable render : jtree -> list token.

(* Debug of DnaStringSlice: the bases below slice_debug_limit (= 256) bases, a summary otherwise.
   start = offset of the node in the PackedDnaStringSet = total length of the nodes before it
   (PackedDnaStringSet::add); sequence() is never reverse-complemented. *)
Definition se_bytes (start : nat) (sq : dna) : list N :=
  if (N.of_nat (List.length sq) <? slice_debug_limit)%N then text sq
  else (bs "start: " ++ dec start ++ bs ", len: " ++ dec (List.length sq) ++ bs ", is_rc: false")%list.

(* write!("{{\"id\":\"{}\",\"L\":{},\"D\":{},\"Se\":\"{:?}\"}}", node_id, sequence().len(), func(data), sequence()) *)
Definition node_json (id start : nat) (n : gnode) : list token :=
  [LB; STR (bs "id"); COLON; STR (dec id); COMMA;
       STR (bs "L"); COLON; NUM (N.of_nat (List.length (n_seq D n))); COMMA;
       STR (bs "D"); COLON] ++ render (fmt (n_data D n)) ++
  [COMMA; STR (bs "Se"); COLON; STR (se_bytes start (n_seq D n)); RB].

(* for i in 0..len { node.to_json; if i == len - 1 { newline } else { "," } } *)
Fixpoint nodes_loop (len : nat) (start : nat) (l : list (nat * gnode)) : list token :=
  match l with
  | [] => []
  | (i, n) :: r =>
      node_json i start n ++ (if i =? len - 1 then [] else [COMMA]) ++ nodes_loop len (start + List.length (n_seq D n)) r
  end.

Definition link_json (id : nat) (e : link) : list token :=
  [LB; STR (bs "source"); COLON; STR (dec id); COMMA;
       STR (bs "target"); COLON; STR (dec (fst (fst e))); COMMA;
       STR (bs "D"); COLON; STR (match snd (fst e) with DLeft => bs "L" | DRight => bs "R" end); RB].
(* for (idx, e) in edges.iter().enumerate() { write obj; if idx < edges.len() - 1 { "," } } *)
Fixpoint edges_loop (id : nat) (n : nat) (idx : nat) (es : list link) : list token :=
  match es with
  | [] => []
  | e :: r => link_json id e ++ (if idx <? n - 1 then [COMMA] else []) ++ edges_loop id n (S idx) r
  end.
Definition edges_to_json (g : graph) (id : nat) : list token :=
  let es := edges g id DRight in edges_loop id (List.length es) 0 es.
Definition is_empty {A} (l : list A) : bool := match l with [] => true | _ => false end.

(* repaired loop: skip link-free nodes; "," before every group but the first written *)
Fixpoint links_loop (g : graph) (wrote_any : bool) (ids : list nat) : list token :=
  match ids with
  | [] => []
  | i :: r =>
      if is_empty (edges g i DRight) then links_loop g wrote_any r
      else (if wrote_any then [COMMA] else []) ++ edges_to_json g i ++ links_loop g true r
  end.
(* before the repair of F4: "," after every group unless i == len - 1 *)
Fixpoint links_loop_old (g : graph) (len : nat) (ids : list nat) : list token :=
  match ids with
  | [] => []
  | i :: r =>
      if is_empty (edges g i DRight) then links_loop_old g len r
      else edges_to_json g i ++ (if i =? len - 1 then [] else [COMMA]) ++ links_loop_old g len r
  end.

(* rest: Some(Value::Object(map)) contributes its entries in the map's iteration order, anything else nothing;
   here the entry list (empty for None / a non-object).  Keys are written between quotes as they are. *)
Definition rest_json (rest : list (list N * jtree)) : list token :=
  flat_map (fun kv => [COMMA; STR (fst kv); COLON] ++ render (snd kv)) rest.

Definition to_json_with (links : list token) (g : graph) (rest : list (list N * jtree)) : list token :=
  [LB; STR (bs "nodes"); COLON; LK] ++ nodes_loop (List.length g) 0 (indexed g) ++ [RK; COMMA] ++
  [STR (bs "links"); COLON; LK] ++ links ++ [RK] ++ rest_json rest ++ [RB].
Definition to_json_rest (g : graph) (rest : list (list N * jtree)) : list token :=
  to_json_with (links_loop g false (seq 0 (List.length g))) g rest.
Definition to_json (g : graph) : list token := to_json_rest g [].
Definition to_json_rest_old (g : graph) (rest : list (list N * jtree)) : list token :=
  to_json_with (links_loop_old g (List.length g) (seq 0 (List.length g))) g rest.

(* what the JSON has to say: every node, every right-going link *)
Fixpoint node_trees (start : nat) (l : list (nat * gnode)) : list jtree :=
  match l with
  | [] => []
  | (i, n) :: r =>
      JObj [(bs "id", JStr (dec i)); (bs "L", JNum (N.of_nat (List.length (n_seq D n))));
            (bs "D", fmt (n_data D n)); (bs "Se", JStr (se_bytes start (n_seq D n)))]
      :: node_trees (start + List.length (n_seq D n)) r
  end.
Definition link_tree (id : nat) (e : link) : jtree :=
  JObj [(bs "source", JStr (dec id)); (bs "target", JStr (dec (fst (fst e))));
        (bs "D", JStr (match snd (fst e) with DLeft => bs "L" | DRight => bs "R" end))].
Definition right_links (g : graph) : list jtree :=
  flat_map (fun i => map (link_tree i) (edges g i DRight)) (seq 0 (List.length g)).
Definition json_tree (g : graph) (rest : list (list N * jtree)) : jtree :=
  JObj ((bs "nodes", JArr (node_trees 0 (indexed g))) :: (bs "links", JArr (right_links g)) :: rest).
End Export.
