(* JSON at token level (DESIGN A.7).  Shared by the JSON export model (Algo/Export.v) and the serde layout
   model (Algo/Serde.v).
   A text is abstracted to its token list: { } [ ] : , "string" number, and VAL t for a complete value
   rendered by serde_json itself (the caller's `Value`; opaque, assumed well-formed, carried as its tree).
   Strings are byte lists (no escapes are modelled: the writers under study never emit a byte that needs
   one - decimal digits, A C G T, fixed ASCII words).  Numbers are naturals (u8 .. u128 fit).
   [parse_json] is a fuelled recursive-descent recogniser that returns the tree: the grammar is
     value   ::= STR | NUM | VAL | LK RK | LK value (COMMA value)* RK | LB RB | LB member (COMMA member)* RB
     member  ::= STR COLON value
   and the whole token list has to be consumed.  A trailing comma, a missing comma, an unclosed bracket are
   rejected. *)
From Coq Require Import NArith List Bool Arith String Ascii.
Import ListNotations.

Inductive jtree :=
| JNull
| JBool (b : bool)
| JNum (n : N)
| JStr (s : list N)
| JArr (l : list jtree)
| JObj (l : list (list N * jtree)).

Inductive token :=
| LB | RB | LK | RK | COLON | COMMA
| STR (s : list N)
| NUM (n : N)
| VAL (t : jtree).

Fixpoint parse_value (fuel : nat) (ts : list token) {struct fuel} : option (jtree * list token) :=
  match fuel with
  | O => None
  | S f =>
    match ts with
    | STR s :: r => Some (JStr s, r)
    | NUM n :: r => Some (JNum n, r)
    | VAL t :: r => Some (t, r)
    | LK :: r =>
        match r with
        | RK :: r' => Some (JArr [], r')
        | _ => match parse_elems f r with Some (l, r') => Some (JArr l, r') | None => None end
        end
    | LB :: r =>
        match r with
        | RB :: r' => Some (JObj [], r')
        | _ => match parse_members f r with Some (l, r') => Some (JObj l, r') | None => None end
        end
    | _ => None
    end
  end
with parse_elems (fuel : nat) (ts : list token) {struct fuel} : option (list jtree * list token) :=
  match fuel with
  | O => None
  | S f =>
    match parse_value f ts with
    | Some (t, COMMA :: r) => match parse_elems f r with Some (l, r') => Some (t :: l, r') | None => None end
    | Some (t, RK :: r) => Some ([t], r)
    | _ => None
    end
  end
with parse_members (fuel : nat) (ts : list token) {struct fuel} : option (list (list N * jtree) * list token) :=
  match fuel with
  | O => None
  | S f =>
    match ts with
    | STR k :: COLON :: r =>
        match parse_value f r with
        | Some (t, COMMA :: r') =>
            match parse_members f r' with Some (l, r'') => Some ((k, t) :: l, r'') | None => None end
        | Some (t, RB :: r') => Some ([(k, t)], r')
        | _ => None
        end
    | _ => None
    end
  end.

Definition parse_json (ts : list token) : option jtree :=
  match parse_value (S (List.length ts)) ts with
  | Some (t, []) => Some t
  | _ => None
  end.

(* the canonical token rendering of a tree (what serde_json prints, minus the text layer) *)
Definition sepjoin (cs : list (list token)) : list token :=
  match cs with
  | [] => []
  | c :: r => c ++ flat_map (fun x => COMMA :: x) r
  end.
Definition member_tokens (m : list N * list token) : list token := STR (fst m) :: COLON :: snd m.
Definition arr_tokens (cs : list (list token)) : list token := LK :: sepjoin cs ++ [RK].
Definition obj_tokens (ms : list (list N * list token)) : list token := LB :: sepjoin (map member_tokens ms) ++ [RB].

Fixpoint print (t : jtree) : list token :=
  match t with
  | JNull => [VAL JNull]
  | JBool b => [VAL (JBool b)]
  | JNum n => [NUM n]
  | JStr s => [STR s]
  | JArr l => arr_tokens (map print l)
  | JObj l => obj_tokens (map (fun m => (fst m, print (snd m))) l)
  end.

(* bytes of a literal *)
Definition bs (s : string) : list N := map N_of_ascii (list_ascii_of_string s).

(* decimal rendering of a number (Display of usize / u32) *)
Fixpoint uint_bytes (d : Decimal.uint) : list N :=
  match d with
  | Decimal.Nil => []
  | Decimal.D0 r => 48%N :: uint_bytes r
  | Decimal.D1 r => 49%N :: uint_bytes r
  | Decimal.D2 r => 50%N :: uint_bytes r
  | Decimal.D3 r => 51%N :: uint_bytes r
  | Decimal.D4 r => 52%N :: uint_bytes r
  | Decimal.D5 r => 53%N :: uint_bytes r
  | Decimal.D6 r => 54%N :: uint_bytes r
  | Decimal.D7 r => 55%N :: uint_bytes r
  | Decimal.D8 r => 56%N :: uint_bytes r
  | Decimal.D9 r => 57%N :: uint_bytes r
  end.
Definition dec (n : nat) : list N := uint_bytes (N.to_uint (N.of_nat n)).

(* lookup in an object *)
Fixpoint list_N_eqb (a b : list N) : bool :=
  match a, b with
  | [], [] => true
  | x :: a', y :: b' => N.eqb x y && list_N_eqb a' b'
  | _, _ => false
  end.
Fixpoint jfield (k : list N) (ms : list (list N * jtree)) : option jtree :=
  match ms with
  | [] => None
  | (k', t) :: r => if list_N_eqb k k' then Some t else jfield k r
  end.
