(* Layer A: k-mer extraction from the containers (get_kmer block walks, first/last/term k-mer, KmerIter,
   KmerExtsIter of lib.rs) and DnaStringSlice::hamming_dist. *)
From Coq Require Import NArith List Bool Arith Lia.
From DBG Require Import Spec.Dna Packed.KmerModel Packed.ExtsModel Packed.Blocks Packed.DnaStringModel Packed.SliceModel Packed.LmerModel.
Import ListNotations.
Open Scope N_scope.

(* the common block walk of DnaString::get_kmer and Lmer::get_kmer *)
Fixpoint walk_blocks (c : kcfg) (fuel : nat) (sto : list N) (kmer : N) (block kmer_pos block_pos : nat) : option N :=
  if negb (Nat.ltb kmer_pos (kK c)) then Some kmer else
  match fuel with
  | O => None
  | S f =>
    let nb := Nat.min (kK c - kmer_pos) (32 - block_pos) in
    do w <- nth_opt sto block;
    do val <- window w block_pos;
    do kmer' <- set_slice_mut c kmer kmer_pos nb val;
    walk_blocks c f sto kmer' (S block) (kmer_pos + nb) 0
  end.
Definition blocks_get_kmer (c : kcfg) (sto : list N) (len pos : nat) : option N :=
  do avail <- subn len pos;                                   (* assert!(self.len() - pos >= K::k()) *)
  if negb (Nat.leb (kK c) avail) then None else
  walk_blocks c (kK c / 32 + 2) sto kempty (pos / 32) 0 (pos mod 32).

Definition d_get_kmer (c : kcfg) (s : dstr) (pos : nat) : option N := blocks_get_kmer c (d_sto s) (d_len s) pos.
Definition l_get_kmer (c : kcfg) (x : lmer) (pos : nat) : option N :=
  do len <- l_len x; blocks_get_kmer c x len pos.
Definition sl_get_kmer (c : kcfg) (d : dstr) (s : slc) (pos : nat) : option N :=
  if negb (Nat.leb (pos + kK c) (s_length s)) then None else    (* debug_assert *)
  if s_rc s then
    do a <- subn (s_start s + s_length s) (kK c); do b <- subn a pos;
    do k <- d_get_kmer c d b; krc c k
  else d_get_kmer c d (s_start s + pos).
(* DnaBytes / DnaSlice: K::from_bytes(&self.0[pos..pos + K::k()]) *)
Definition bytes_get_kmer (c : kcfg) (l : list N) (pos : nat) : option N :=
  if negb (Nat.leb (pos + kK c) (length l)) then None else from_bytes c (firstn (kK c) (skipn pos l)).

(* generic over a container given by (len, get, get_kmer) *)
Section Container.
Variable c : kcfg.
Variable len : nat.
Variable cget : nat -> option N.
Variable cget_kmer : nat -> option N.

Definition first_kmer : option N := cget_kmer 0%nat.
Definition last_kmer : option N := do p <- subn len (kK c); cget_kmer p.

(* KmerIter: state (kmer, pos); yields while pos <= len *)
Fixpoint kmer_iter_loop (fuel : nat) (kmer : N) (pos : nat) : option (list N) :=
  match fuel with
  | O => Some []
  | S f =>
    if Nat.leb pos len then
      do kmer' <- (if Nat.ltb pos len then do b <- cget pos; kextend_right c kmer b else Some kmer);
      do rest <- kmer_iter_loop f kmer' (S pos);
      Some (kmer :: rest)
    else Some []
  end.
Definition iter_kmers : option (list N) :=
  do k0 <- (if Nat.leb (kK c) len then first_kmer else Some kempty);
  kmer_iter_loop (S len) k0 (kK c).

(* KmerExtsIter *)
Fixpoint kmer_exts_loop (fuel : nat) (exts : N) (kmer : N) (pos : nat) : option (list (N * N)) :=
  match fuel with
  | O => Some []
  | S f =>
    if Nat.leb pos len then
      do next_base <- (if Nat.ltb pos len then cget pos else Some 0);
      do cur_left <- (if Nat.eqb pos (kK c) then Some exts
                      else do i <- subn pos (kK c + 1); do b <- cget i; e_mk_left b);
      do cur_right <- (if Nat.ltb pos len then e_mk_right next_base else Some exts);
      let cur := e_merge cur_left cur_right in
      do kmer' <- kextend_right c kmer next_base;
      do rest <- kmer_exts_loop f exts kmer' (S pos);
      Some ((kmer, cur) :: rest)
    else Some []
  end.
Definition iter_kmer_exts (exts : N) : option (list (N * N)) :=
  do k0 <- (if Nat.leb (kK c) len then first_kmer else Some kempty);
  kmer_exts_loop (S len) exts k0 (kK c).
End Container.

(* DnaStringSlice::hamming_dist (repaired code): 32-base blocks via Kmer32, then the tail *)
Fixpoint hd_blocks (d1 : dstr) (s1 : slc) (d2 : dstr) (s2 : slc) (blocks : list nat) : option N :=
  match blocks with
  | [] => Some 0
  | b :: r =>
    do k1 <- sl_get_kmer c64 d1 s1 (b * 32); do k2 <- sl_get_kmer c64 d2 s2 (b * 32);
    do u1 <- to_u64 k1; do u2 <- to_u64 k2;
    do cnt <- count_diff_packed u1 u2; do t <- hd_blocks d1 s1 d2 s2 r; Some (cnt + t)
  end.
Fixpoint hd_tail (d1 : dstr) (s1 : slc) (d2 : dstr) (s2 : slc) (poss : list nat) : option N :=
  match poss with
  | [] => Some 0
  | p :: r => do a <- sl_get d1 s1 p; do b <- sl_get d2 s2 p; do t <- hd_tail d1 s1 d2 s2 r;
              Some ((if a =? b then 0 else 1) + t)
  end.
Definition sl_hamming_dist (d1 : dstr) (s1 : slc) (d2 : dstr) (s2 : slc) : option N :=
  if negb (Nat.eqb (s_length s1) (s_length s2)) then None else
  let whole := (s_length s1 / 32)%nat in
  do a <- hd_blocks d1 s1 d2 s2 (seq 0 whole);
  do b <- hd_tail d1 s1 d2 s2 (seq (whole * 32) (s_length s1 - whole * 32));
  Some (a + b).
