(* Operation histories on the sequence containers (model side and list side), used by C14, C15, C17. *)
From Coq Require Import NArith List Bool Arith.
From DBG Require Import Spec.Dna Packed.KmerModel Packed.Blocks Packed.DnaStringModel Packed.SliceModel Packed.LmerModel.
Import ListNotations.
Open Scope N_scope.

(* ---- DnaString histories *)
Inductive dop := DPush (b : N) | DExtend (l : list N) | DPushBytes (l : list N) (n : nat) | DSet (i : nat) (b : N)
               | DClear | DBlank (n : nat) | DFromBytes (l : list N) | DReverse | DRc.
Definition dstep (s : dstr) (o : dop) : option dstr :=
  match o with
  | DPush b => d_push s b
  | DExtend l => d_extend s l
  | DPushBytes l n => d_push_bytes s l n
  | DSet i b => if Nat.ltb i (d_len s) then d_set_mut s i b else None   (* beyond len: not claimed *)
  | DClear => Some (d_clear s)
  | DBlank n => Some (d_blank n)
  | DFromBytes l => d_from_bytes l
  | DReverse => d_reverse s
  | DRc => d_rc s
  end.
Fixpoint dsteps (s : dstr) (ops : list dop) : option dstr :=
  match ops with [] => Some s | o :: r => match dstep s o with Some s' => dsteps s' r | None => None end end.
(* list-level *)
Definition unpack_bytes (l : list N) (n : nat) : dna :=
  map (fun i => N.land (N.shiftr (nth ((i * 2) / 8) l 0) (N.of_nat ((i * 2) mod 8))) 3) (seq 0 n).
Definition sdstep (l : dna) (o : dop) : dna :=
  match o with
  | DPush b => l ++ [b mod 4]
  | DExtend x => l ++ x
  | DPushBytes x n => l ++ unpack_bytes x n
  | DSet i b => upd i l (b mod 4)
  | DClear => []
  | DBlank n => repeat 0 n
  | DFromBytes x => x
  | DReverse => rev l
  | DRc => rc l
  end.

(* ---- slice histories: first op creates the slice from the whole string *)
Inductive sop := SSlice (a b : nat) | SRc | SPrefix (k : nat) | SSuffix (k : nat).
Definition sl_first (d : dstr) (o : sop) : option slc :=
  match o with
  | SSlice a b => d_slice d a b
  | SPrefix k => d_prefix d k
  | SSuffix k => d_suffix d k
  | SRc => None
  end.
Definition sl_step (s : slc) (o : sop) : option slc :=
  match o with
  | SSlice a b => sl_slice s a b
  | SRc => Some (sl_rc s)
  | SPrefix k => sl_slice s 0 k          (* not in the API; encoded as slice(0,k) by the harness *)
  | SSuffix k => sl_slice s (s_length s - k) (s_length s)
  end.
Fixpoint sl_steps (s : slc) (ops : list sop) : option slc :=
  match ops with [] => Some s | o :: r => match sl_step s o with Some s' => sl_steps s' r | None => None end end.
Definition sl_hist (d : dstr) (ops : list sop) : option slc :=
  match ops with [] => None | o :: r => match sl_first d o with Some s => sl_steps s r | None => None end end.
(* list level: the view after the same ops *)
Definition sview_step (l : dna) (o : sop) : dna :=
  match o with
  | SSlice a b => sub a (b - a) l
  | SRc => rc l
  | SPrefix k => firstn k l
  | SSuffix k => skipn (length l - k) l
  end.
Definition sview (l : dna) (ops : list sop) : dna := fold_left sview_step ops l.

(* ---- Lmer histories *)
Inductive lop := LSet (pos : nat) (b : N) | LSetSlice (pos n : nat) (v : N) | LRc.
Definition lstep (x : lmer) (o : lop) : option lmer :=
  match o with
  | LSet p b => l_set_mut x p b
  | LSetSlice p n v => l_set_slice_mut x p n v
  | LRc => l_rc x
  end.
Fixpoint lsteps (x : lmer) (ops : list lop) : option lmer :=
  match ops with [] => Some x | o :: r => match lstep x o with Some x' => lsteps x' r | None => None end end.
Definition slstep (l : dna) (o : lop) : dna :=
  match o with
  | LSet p b => upd p l b
  | LSetSlice p n v => splice p (firstn n (digits4 32 v)) l
  | LRc => rc l
  end.

