(* Layer A: model of DebruijnGraph::max_path_beam and expand_state (src/graph.rs), the second best-path query
   (the first, max_path, is in Algo/GraphModel.v).  No proofs here.

   A beam state is (path, score, status); the path lists (node id, side through which the node is entered), oldest
   first, exactly the value the function returns for the best state.
     - initial states: every node without extension bits on at least one side (a "terminal" node) starts a state, walking
       away from the side that has none: dir = Right if it has left extensions, else Left; status End if it has no
       extension bit at all, else Active.  If there is no such node, a single Active state (0, Left).
     - one round: every Active state is replaced by its expansions (one per edge reported from the far side of its last
       node), the others are kept; the new list is sorted by DESCENDING score with a stable sort (Rust's sort_by) and
       truncated to [beam] states; the loop ends after the first round that started without any Active state.
     - expand_state: the edge target is appended with the summed score; status End when the target reports no edge on its
       far side, Active otherwise.  When the target is ALREADY ON THE PATH ("cycle"):
         [dup = false] (the repaired code, fix F10): one state with the UNCHANGED path and score and status Cycle is
                       produced (at most one per expansion);
         [dup = true]  (the code before the fix): the target is appended all the same, with status Cycle - so the
                       returned path may visit a node twice (refuted as C03_beam_repeats_refuted).
     - result: the path of states[0]; an empty state list is an index panic (None); so is an Active state whose last
       node is out of range (cannot happen).  Scores are integers (the harness uses f32 values that are small exact
       integers, so that sums and comparisons are exact); [fuel] bounds the number of rounds (S (S (length g)) is
       proved sufficient). *)
From Coq Require Import NArith ZArith List Bool Arith.
From DBG Require Import Spec.Dna Spec.GraphIndex Packed.ExtsModel Algo.KmerHist Algo.Compress Algo.GraphModel.
Import ListNotations.
Open Scope N_scope.

Section Beam.
Variable D : Type.
Variable K : nat.
Variable stranded : bool.
Variable score : D -> Z.
Variable dup : bool.
Local Notation graph := (graph D).

Definition st_active : N := 0.
Definition st_end : N := 1.
Definition st_cycle : N := 2.
Definition bstate := (list (nat * dir) * Z * N)%type.
Definition b_path (s : bstate) : list (nat * dir) := fst (fst s).
Definition b_score (s : bstate) : Z := snd (fst s).
Definition b_status (s : bstate) : N := snd s.

Definition node_score (g : graph) (i : nat) : Z :=
  match nth_error g i with Some n => score (n_data D n) | None => 0%Z end.

(* the initial states, in node order *)
Definition beam_init1 (i : nat) (n : gnode D) : list bstate :=
  let nl := e_num_ext_dir (n_exts D n) false in
  let nr := e_num_ext_dir (n_exts D n) true in
  if (nl =? 0) || (nr =? 0)
  then [([(i, if 0 <? nl then DRight else DLeft)], score (n_data D n),
         if (nl =? 0) && (nr =? 0) then st_end else st_active)]
  else [].
Definition beam_init (g : graph) : list bstate :=
  match flat_map (fun p => beam_init1 (fst p) (snd p)) (combine (seq 0 (length g)) g) with
  | [] => [([(0%nat, DLeft)], node_score g 0, st_active)]
  | l => l
  end.

Definition on_path (p : list (nat * dir)) (i : nat) : bool := existsb (fun x => Nat.eqb (fst x) i) p.
Definition has_cycle_state (l : list bstate) : bool := existsb (fun s => b_status s =? st_cycle) l.

(* expand_state *)
Definition expand_state (g : graph) (s : bstate) : option (list bstate) :=
  match rev (b_path s) with
  | [] => None
  | (id, d) :: _ =>
    match find_edges D K stranded g id (dflip d) with
    | None => None
    | Some edges =>
      fold_left (fun (acc : option (list bstate)) (e : link) =>
        match acc with
        | None => None
        | Some out =>
          let '(nid, inc, _) := e in
          let new_score := (b_score s + node_score g nid)%Z in
          if on_path (b_path s) nid then
            if dup then Some (out ++ [(b_path s ++ [(nid, inc)], new_score, st_cycle)])
            else if has_cycle_state out then Some out
                 else Some (out ++ [(b_path s, b_score s, st_cycle)])
          else
            match find_edges D K stranded g nid (dflip inc) with
            | None => None
            | Some far => Some (out ++ [(b_path s ++ [(nid, inc)], new_score,
                                         match far with [] => st_end | _ => st_active end)])
            end
        end) edges (Some [])
    end
  end.

(* stable sort by descending score *)
Definition sort_states (l : list bstate) : list bstate := sort_by (fun a b => (b_score b <=? b_score a)%Z) l.

Fixpoint expand_all (g : graph) (l : list bstate) : option (list bstate) :=
  match l with
  | [] => Some []
  | s :: r =>
    match (if b_status s =? st_active then expand_state g s else Some [s]), expand_all g r with
    | Some a, Some b => Some (a ++ b)
    | _, _ => None
    end
  end.

(* the while loop: a round expands, sorts and truncates; the loop is left after the first round that started without an
   Active state (that round still sorts and truncates, as in the code) *)
Fixpoint beam_loop (fuel : nat) (g : graph) (beam : nat) (states : list bstate) : option (list bstate) :=
  match fuel with
  | O => None
  | S f =>
    match expand_all g states with
    | None => None
    | Some new =>
      let states' := firstn beam (sort_states new) in
      if existsb (fun s => b_status s =? st_active) states then beam_loop f g beam states' else Some states'
    end
  end.

Definition max_path_beam (g : graph) (beam : nat) : option (list (nat * dir)) :=
  match g with
  | [] => Some []
  | _ =>
    match beam_loop (S (S (length g))) g beam (beam_init g) with
    | Some (s :: _) => Some (b_path s)
    | _ => None
    end
  end.
End Beam.
