(* Model of filter_kmers (src/filter.rs:139-235) at Layer S: k-mers are [dna] lists, extension sets numbers
   0..255 (Packed/ExtsMini.v).  No proofs here (Proofs/FilterProofs.v, Proofs/FilterRc.v).
   Not modelled: usize overflow of `input_kmers * size_of` and `memory_size * unit` (numbers are unbounded N;
   the harness stays far below 2^64), logging.  `BoomHashMap2::new` is not modelled: the result of the model
   is the content of the three vectors handed to it (as one list of triples - they are always pushed
   together) plus `all_kmers`. *)
From Coq Require Import NArith List Bool Arith.
From DBG Require Import Spec.Dna Packed.ExtsMini Algo.KmerHist.
Import ListNotations.
Open Scope N_scope.

(* ---- KmerExtsIter (lib.rs:809-842), positional form: the i-th item is the k-mer at i; its left nibble comes
   from the caller's exts at the first k-mer and from the base before it otherwise; its right nibble from the
   base after it, or from the caller's exts at the last k-mer.  Nothing when the read is shorter than K. *)
Definition kmer_exts (K : nat) (s : dna) (e : N) : list (dna * N) :=
  map (fun i => (kmer_at K s i,
                 ex_merge (if Nat.eqb i 0 then e else ex_mk_left (nth (i - 1) s 0))
                          (if Nat.ltb (i + K) (length s) then ex_mk_right (nth (i + K) s 0) else e)))
      (seq 0 (length s + 1 - K)).

(* filter.rs:194-200: min_rc_flip (flag true also for a palindrome) + Exts::rc, or nothing when stranded *)
Definition canon_obs (stranded : bool) (o : dna * N) : dna * N :=
  if stranded then o
  else let p := canon_flip (fst o) in (fst p, if snd p then ex_rc (snd o) else snd o).

(* filter.rs:18-23 *)
Definition bucket (k : dna) : N :=
  N.lor (N.lor (N.lor (N.shiftl (nth 0 k 0) 6) (N.shiftl (nth 1 k 0) 4)) (N.shiftl (nth 2 k 0) 2)) (nth 3 k 0).

(* ---- pass planning, filter.rs:151-170 *)
Definition n_buckets : N := 256.
Definition default_unit : N := 10 ^ 9.
(* hook H1: unit 0 = built-in 10^9 *)
Definition eff_unit (u : N) : N := if u =? 0 then default_unit else u.
Definition plan_sz (input_kmers size_of memory_size unit : N) : option N :=
  let kmer_mem := input_kmers * size_of in
  let max_mem := memory_size * eff_unit unit in
  if max_mem =? 0 then None (* division by zero *)
  else let slices := kmer_mem / max_mem + 1 in Some (n_buckets / slices + 1).
(* while start < 256 { push(start..start+sz); start += sz }   (sz >= 1, so 256 iterations are enough) *)
Fixpoint ranges_from (fuel : nat) (sz start : N) : list (N * N) :=
  match fuel with
  | O => []
  | S f => if start <? n_buckets then (start, start + sz) :: ranges_from f sz (start + sz) else []
  end.
Definition ranges (sz : N) : list (N * N) := ranges_from 256 sz 0.
(* assert!(bucket_ranges[len-1].end >= 256) *)
Definition bucket_ranges (sz : N) : option (list (N * N)) :=
  let r := ranges sz in
  match r with
  | [] => None
  | _ => if n_buckets <=? snd (last r (0, 0)) then Some r else None
  end.
Definition in_range (r : N * N) (b : N) : bool := (fst r <=? b) && (b <? snd r).
Definition buckets256 : list N := map N.of_nat (seq 0 256).

Section Model.
Context {D DS : Type}.
Definition obs := (dna * N * D)%type.            (* (canonical k-mer, exts, label of the read) *)
Definition key (o : obs) : dna := fst (fst o).
Definition oexts (o : obs) : N := snd (fst o).
Definition olabel (o : obs) : D := snd o.

(* all observations in input order (the double loop of filter.rs:192-207 without the range test) *)
Definition observations (K : nat) (stranded : bool) (reads : list (dna * N * D)) : list obs :=
  flat_map (fun r => map (fun o => (canon_obs stranded o, snd r)) (kmer_exts K (fst (fst r)) (snd (fst r)))) reads.

(* vmer.len().saturating_sub(K - 1), summed *)
Definition input_kmers (K : nat) (reads : list (dna * N * D)) : N :=
  fold_left (fun acc r => acc + N.of_nat (length (fst (fst r)) - (K - 1))) reads 0.

Definition out := (list (dna * N * DS) * list dna)%type.   (* (valid_kmers/exts/data zipped, all_kmers) *)
Definition out_app (a b : out) : out := (fst a ++ fst b, snd a ++ snd b).
Definition out_concat (l : list out) : out := fold_right out_app ([], []) l.

(* group_by over a vector: maximal runs of adjacent equal keys *)
Fixpoint group_adj (l : list obs) : list (dna * list obs) :=
  match l with
  | [] => []
  | x :: r => match group_adj r with
              | (k, g) :: t => if dna_eqb (key x) k then (k, x :: g) :: t else (key x, [x]) :: (k, g) :: t
              | [] => [(key x, [x])]
              end
  end.
(* sort_by_key: stable; modelled by insertion sort (equal keys keep their input order) *)
Definition sort_by_key (l : list obs) : list obs := sort_by (fun a b => dna_leb (key a) (key b)) l.

Section Summ.
Variable summarize : list obs -> bool * N * DS.       (* KmerSummarizer::summarize *)
Variable report_all : bool.

(* filter.rs:212-222 for one group *)
Definition do_group (kg : dna * list obs) : out :=
  let r := summarize (snd kg) in
  (if fst (fst r) then [(fst kg, snd (fst r), snd r)] else [], if report_all then [fst kg] else []).
(* filter.rs:209-223 for one bucket vector *)
Definition do_bucket (vec : list obs) : out := out_concat (map do_group (group_adj (sort_by_key vec))).
(* filter.rs:190-207: what the pass pushes (in input order), then bucket b's vector *)
Definition pass_fill (os : list obs) (r : N * N) : list obs := filter (fun o => in_range r (bucket (key o))) os.
Definition bucket_vec (pobs : list obs) (b : N) : list obs := filter (fun o => bucket (key o) =? b) pobs.
Definition do_pass (os : list obs) (r : N * N) : out :=
  let p := pass_fill os r in out_concat (map (fun b => do_bucket (bucket_vec p b)) buckets256).

(* the whole function; None = panic; the nat is the number of passes (hook last_pass_count) *)
Definition filter_kmers (K : nat) (stranded : bool) (size_of memory_size unit : N) (reads : list (dna * N * D))
  : option (out * nat) :=
  match plan_sz (input_kmers K reads) size_of memory_size unit with
  | None => None
  | Some sz =>
      match bucket_ranges sz with
      | None => None
      | Some rs => let os := observations K stranded reads in
                   Some (out_concat (map (do_pass os) rs), length rs)
      end
  end.

(* ---- the reference grouping (specification): no passes, no buckets *)
Definition ref_keys (os : list obs) : list dna := dedup_by dna_eqb (sort_by dna_leb (map key os)).
Definition obs_of (os : list obs) (k : dna) : list obs := filter (fun o => dna_eqb (key o) k) os.
Definition reference_obs (os : list obs) : out := out_concat (map (fun k => do_group (k, obs_of os k)) (ref_keys os)).
Definition reference (K : nat) (stranded : bool) (reads : list (dna * N * D)) : out :=
  reference_obs (observations K stranded reads).
End Summ.
End Model.

(* ---- the two shipped summarizers (filter.rs:40-101) *)
Definition sat_inc16 (c : N) : N := if c <? 65535 then c + 1 else 65535.     (* u16::saturating_add(1) *)
Definition union_exts {D} (items : list (@obs D)) : N := fold_left (fun acc it => ex_add acc (oexts it)) items 0.
Definition count_filter {D} (min_obs : N) (items : list (@obs D)) : bool * N * N :=
  let cnt := fold_left (fun c _ => sat_inc16 c) items 0 in
  (min_obs <=? cnt, union_exts items, cnt).
(* Vec<D> with D: Ord; labels are numbers here.  nobs is an i32 in the code: fewer than 2^31 observations *)
Definition count_filter_set (min_obs : N) (items : list (@obs N)) : bool * N * list N :=
  (min_obs <=? N.of_nat (length items), union_exts items, dedup_by N.eqb (sort_by N.leb (map olabel items))).

(* ---- C06: reverse-complementing a subset of the reads (boundary extensions flip with the read) *)
Definition flip_read {D} (f : bool) (r : dna * N * D) : dna * N * D :=
  if f then (rc (fst (fst r)), ex_rc (snd (fst r)), snd r) else r.
Fixpoint flip_reads {D} (fs : list bool) (reads : list (dna * N * D)) : list (dna * N * D) :=
  match reads with
  | [] => []
  | r :: t => flip_read (hd false fs) r :: flip_reads (tl fs) t
  end.
(* For a palindromic key every observation is stored flipped (min_rc_flip reports true on equality), so each
   observation contributes e or rc(e) depending on the strand of its read: only the symmetrised set is invariant. *)
Definition palindrome_exts_rel (e e' : N) : bool := ex_add e (ex_rc e) =? ex_add e' (ex_rc e').
Definition entry_rel {DS} (deqb : DS -> DS -> bool) (a b : dna * N * DS) : bool :=
  dna_eqb (fst (fst a)) (fst (fst b)) && deqb (snd a) (snd b) &&
  (if is_palindrome (fst (fst a)) then palindrome_exts_rel (snd (fst a)) (snd (fst b)) else snd (fst a) =? snd (fst b)).
Fixpoint forall2b {A B} (f : A -> B -> bool) (a : list A) (b : list B) : bool :=
  match a, b with
  | [], [] => true
  | x :: a', y :: b' => f x y && forall2b f a' b'
  | _, _ => false
  end.
Definition table_rel {DS} (deqb : DS -> DS -> bool) (a b : @out DS) : bool :=
  forall2b (entry_rel deqb) (fst a) (fst b) && forall2b dna_eqb (snd a) (snd b).
