
val negb : bool -> bool

type nat =
| O
| S of nat

val fst : ('a1 * 'a2) -> 'a1

val snd : ('a1 * 'a2) -> 'a2

val length : 'a1 list -> nat

val app : 'a1 list -> 'a1 list -> 'a1 list

type comparison =
| Eq
| Lt
| Gt

val add : nat -> nat -> nat

val mul : nat -> nat -> nat

val sub : nat -> nat -> nat

type positive =
| XI of positive
| XO of positive
| XH

type n =
| N0
| Npos of positive

val eqb : bool -> bool -> bool

module Nat :
 sig
  val eqb : nat -> nat -> bool

  val leb : nat -> nat -> bool

  val ltb : nat -> nat -> bool

  val min : nat -> nat -> nat

  val even : nat -> bool

  val divmod : nat -> nat -> nat -> nat -> nat * nat

  val div : nat -> nat -> nat
 end

module Pos :
 sig
  type mask =
  | IsNul
  | IsPos of positive
  | IsNeg
 end

module Coq_Pos :
 sig
  val succ : positive -> positive

  val add : positive -> positive -> positive

  val add_carry : positive -> positive -> positive

  val pred_double : positive -> positive

  val pred_N : positive -> n

  type mask = Pos.mask =
  | IsNul
  | IsPos of positive
  | IsNeg

  val succ_double_mask : mask -> mask

  val double_mask : mask -> mask

  val double_pred_mask : positive -> mask

  val sub_mask : positive -> positive -> mask

  val sub_mask_carry : positive -> positive -> mask

  val mul : positive -> positive -> positive

  val iter : ('a1 -> 'a1) -> 'a1 -> positive -> 'a1

  val pow : positive -> positive -> positive

  val compare_cont : comparison -> positive -> positive -> comparison

  val compare : positive -> positive -> comparison

  val eqb : positive -> positive -> bool

  val coq_Nsucc_double : n -> n

  val coq_Ndouble : n -> n

  val coq_lor : positive -> positive -> positive

  val coq_land : positive -> positive -> n

  val coq_lxor : positive -> positive -> n

  val shiftl : positive -> n -> positive

  val testbit : positive -> n -> bool

  val iter_op : ('a1 -> 'a1 -> 'a1) -> positive -> 'a1 -> 'a1

  val to_nat : positive -> nat

  val of_succ_nat : nat -> positive
 end

module N :
 sig
  val succ_double : n -> n

  val double : n -> n

  val pred : n -> n

  val add : n -> n -> n

  val sub : n -> n -> n

  val mul : n -> n -> n

  val compare : n -> n -> comparison

  val eqb : n -> n -> bool

  val leb : n -> n -> bool

  val ltb : n -> n -> bool

  val div2 : n -> n

  val pow : n -> n -> n

  val pos_div_eucl : positive -> n -> n * n

  val div_eucl : n -> n -> n * n

  val div : n -> n -> n

  val modulo : n -> n -> n

  val coq_lor : n -> n -> n

  val coq_land : n -> n -> n

  val coq_lxor : n -> n -> n

  val shiftl : n -> n -> n

  val shiftr : n -> n -> n

  val testbit : n -> n -> bool

  val to_nat : n -> nat

  val of_nat : nat -> n

  val b2n : bool -> n

  val ones : n -> n
 end

val tl : 'a1 list -> 'a1 list

val nth : nat -> 'a1 list -> 'a1 -> 'a1

val removelast : 'a1 list -> 'a1 list

val rev : 'a1 list -> 'a1 list

val map : ('a1 -> 'a2) -> 'a1 list -> 'a2 list

val fold_left : ('a1 -> 'a2 -> 'a1) -> 'a2 list -> 'a1 -> 'a1

val fold_right : ('a2 -> 'a1 -> 'a1) -> 'a1 -> 'a2 list -> 'a1

val existsb : ('a1 -> bool) -> 'a1 list -> bool

val firstn : nat -> 'a1 list -> 'a1 list

val skipn : nat -> 'a1 list -> 'a1 list

val seq : nat -> nat -> nat list

val repeat : 'a1 -> nat -> 'a1 list

type ascii =
| Ascii of bool * bool * bool * bool * bool * bool * bool * bool

val eqb0 : ascii -> ascii -> bool

type string =
| EmptyString
| String of ascii * string

val eqb1 : string -> string -> bool

val substring : nat -> nat -> string -> string

type val0 =
| VN of n
| VL of val0 list
| VBot
| VAny

val val_eqb : val0 -> val0 -> bool

val val_accepts : val0 -> val0 -> bool

val vlistN : val0 list -> n list option

val vNs : val0 -> n list option

val omap : ('a1 -> 'a2 option) -> 'a1 list -> 'a2 list option

val ofN : n -> val0

val ofbool : bool -> val0

val ofNs : n list -> val0

val ofopt : ('a1 -> val0) -> 'a1 option -> val0

type dna = n list

val comp : n -> n

val rc : dna -> dna

val sub0 : nat -> nat -> 'a1 list -> 'a1 list

val kmer_at : nat -> dna -> nat -> dna

val kmers : nat -> dna -> dna list

val upd : nat -> 'a1 list -> 'a1 -> 'a1 list

val splice : nat -> 'a1 list -> 'a1 list -> 'a1 list

val dna_compare : dna -> dna -> comparison

val dna_ltb : dna -> dna -> bool

val dna_eqb : dna -> dna -> bool

val dna_leb : dna -> dna -> bool

val canon : dna -> dna

val canon_flip : dna -> dna * bool

val is_palindrome : dna -> bool

val rank : dna -> n

val extend_left : dna -> n -> dna

val extend_right : dna -> n -> dna

val count_diff : dna -> dna -> n

val is_at : n -> bool

val is_gc : n -> bool

val count_if : (n -> bool) -> dna -> n

val at_count : dna -> n

val gc_count : dna -> n

val base_char : n -> n

val text : dna -> n list

val ascii_base : n -> n

val digits4 : nat -> n -> dna

type wexp =
| Var of nat * nat
| Const of n
| And of wexp * wexp
| Or of wexp * wexp
| Xor of wexp * wexp
| Not of nat * wexp
| Shl of nat * nat * wexp
| Shr of nat * wexp
| Trunc of nat * wexp

val evalN : (nat -> n) -> wexp -> n

val shifts_ok : wexp -> bool

val ladder_8 : (((n * nat) * nat) * n) list

val lower_of_two_8 : n

val ladder_16 : (((n * nat) * nat) * n) list

val lower_of_two_16 : n

val ladder_32 : (((n * nat) * nat) * n) list

val lower_of_two_32 : n

val ladder_64 : (((n * nat) * nat) * n) list

val lower_of_two_64 : n

val ladder_128 : (((n * nat) * nat) * n) list

val lower_of_two_128 : n

val tbl_base_to_bits : n list

val tbl_bits_to_base : n list

type kcfg = { kW : nat; kK : nat; kInt : bool }

val mkc : nat -> nat -> kcfg

val ladder_of : nat -> (((n * nat) * nat) * n) list

val lower_of_two : nat -> n

val subn : nat -> nat -> nat option

val obind : 'a1 option -> ('a1 -> 'a2 option) -> 'a2 option

val k_msk : kcfg -> wexp

val addr : kcfg -> nat -> nat option

val ones_shl : kcfg -> nat -> n option

val top_mask : kcfg -> nat -> n option

val bottom_mask : kcfg -> nat -> n option

val k_get : kcfg -> nat -> wexp -> wexp option

val k_set_mut : kcfg -> nat -> wexp -> wexp -> wexp option

val k_set_slice_mut : kcfg -> nat -> nat -> wexp -> wexp -> wexp option

val k_rev2 : kcfg -> wexp -> wexp

val k_rc : kcfg -> wexp -> wexp option

val k_extend_left : kcfg -> wexp -> wexp -> wexp option

val k_extend_right : kcfg -> wexp -> wexp -> wexp option

val k_hamming_word : kcfg -> wexp -> wexp -> wexp

val k_gc_word : kcfg -> wexp -> wexp option

val k_at_word : kcfg -> wexp -> wexp option

val env2 : n -> n -> nat -> n

val run : wexp option -> n -> n -> n option

val pos_popcount : positive -> n

val popcount : n -> n

val sV : kcfg -> wexp

val get : kcfg -> n -> nat -> n option

val set_mut : kcfg -> n -> nat -> n -> n option

val set_slice_mut : kcfg -> n -> nat -> nat -> n -> n option

val krc : kcfg -> n -> n option

val kextend_left : kcfg -> n -> n -> n option

val kextend_right : kcfg -> n -> n -> n option

val hamming_dist : kcfg -> n -> n -> n option

val kat_count : kcfg -> n -> n option

val kgc_count : kcfg -> n -> n option

val from_u64 : kcfg -> n -> n option

val to_u64 : n -> n option

val kempty : n

val set_all : kcfg -> n -> nat -> n list -> n option

val from_bytes : kcfg -> n list -> n option

val b2b : n -> n

val from_ascii : kcfg -> n list -> n option

val bits_to_base : n -> n

val get_all : kcfg -> n -> nat list -> n list option

val to_bases : kcfg -> n -> n list option

val to_string : kcfg -> n -> n list option

val ext_all : kcfg -> n -> n list -> n list option

val kmers_from_bytes : kcfg -> n list -> n list option

val kmers_from_ascii : kcfg -> n list -> n list option

val min_rc_flip : kcfg -> n -> (n * bool) option

val min_rc : kcfg -> n -> n option

val kis_palindrome : kcfg -> n -> bool option

val kextend : kcfg -> n -> n -> bool -> n option

val lane : n -> nat -> n

val decode : nat -> n -> dna

type kinit =
| IEmpty
| IFromU64 of n
| IFromBytes of n list
| IFromAscii of n list

type kop =
| OExtL of n
| OExtR of n
| ORc
| OSet of nat * n
| OSetSlice of nat * nat * n
| OMinRc

val kinit_run : kcfg -> kinit -> n option

val kstep : kcfg -> n -> kop -> n option

val ksteps : kcfg -> n -> kop list -> n option

val khist : kcfg -> kinit -> kop list -> n option

val sinit : nat -> kinit -> dna

val sstep : dna -> kop -> dna

val shist : nat -> kinit -> kop list -> dna

val le_bytes : nat -> n -> n list

val hash_feed : kcfg -> n -> n list

val k_eq : n -> n -> bool

val k_cmp : n -> n -> comparison

val insert_by : ('a1 -> 'a1 -> bool) -> 'a1 -> 'a1 list -> 'a1 list

val sort_by : ('a1 -> 'a1 -> bool) -> 'a1 list -> 'a1 list

val dedup_by : ('a1 -> 'a1 -> bool) -> 'a1 list -> 'a1 list

val cfg_of : n -> n -> kcfg

type handler = val0 list -> val0 option

val lookup : string -> (string * handler) list -> handler option

val v_kinit : val0 -> kinit option

val v_kop : val0 -> kop option

val cmp_code : comparison -> n

val kmer_ops : kcfg -> (string * handler) list

val d_kmer : string -> val0 -> val0 option

val spec_kmer_ops : nat -> (string * handler) list

val d_spec_kmer : string -> val0 -> val0 option

val prefix2 : string -> string

val dispatch : string -> val0 -> val0 option
