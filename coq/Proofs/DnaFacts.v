(* Layer S facts: order, canonical form, palindromes, reverse complement. *)
From Coq Require Import NArith List Bool Arith Lia.
From DBG Require Import Spec.Dna Proofs.ListFacts.
Import ListNotations.
Open Scope N_scope.

Lemma dna_compare_refl a : dna_compare a a = Eq.
Proof. induction a as [|x a IH]; cbn; [reflexivity|]. now rewrite N.compare_refl. Qed.
Lemma dna_compare_eq_iff a : forall b, dna_compare a b = Eq <-> a = b.
Proof.
  induction a as [|x a IH]; destruct b as [|y b]; cbn; split; intro H; try discriminate; auto.
  - destruct (N.compare_spec x y); try discriminate. subst. f_equal. now apply IH.
  - injection H as -> ->. rewrite N.compare_refl. now apply IH.
Qed.
Lemma dna_compare_antisym a : forall b, dna_compare b a = CompOpp (dna_compare a b).
Proof.
  induction a as [|x a IH]; destruct b as [|y b]; cbn; auto.
  rewrite (N.compare_antisym x y). destruct (x ?= y); cbn; auto.
Qed.
Lemma dna_eqb_eq a b : dna_eqb a b = true <-> a = b.
Proof. unfold dna_eqb. rewrite <- dna_compare_eq_iff. destruct (dna_compare a b); split; intro; try discriminate; auto. Qed.
Lemma dna_compare_trans_lt a : forall b c, dna_compare a b = Lt -> dna_compare b c = Lt -> dna_compare a c = Lt.
Proof.
  induction a as [|x a IH]; destruct b as [|y b]; destruct c as [|z c]; cbn; intros H1 H2; try discriminate; auto.
  destruct (N.compare_spec x y) as [->|Hxy|Hxy]; try discriminate.
  - destruct (N.compare_spec y z) as [->|Hyz|Hyz]; try discriminate; [eapply IH; eauto | reflexivity].
  - destruct (N.compare_spec y z) as [->|Hyz|Hyz]; try discriminate.
    + destruct (N.compare_spec x z); try lia. reflexivity.
    + destruct (N.compare_spec x z); try lia. reflexivity.
Qed.

Theorem canon_rc x : wf_dna x -> canon (rc x) = canon x.
Proof.
  intro Hx. unfold canon, dna_ltb. rewrite (rc_involutive x Hx).
  rewrite (dna_compare_antisym x (rc x)). destruct (dna_compare x (rc x)) eqn:E; cbn; try reflexivity.
  apply dna_compare_eq_iff in E. now rewrite <- E.
Qed.
Theorem canon_min x : dna_leb (canon x) x = true /\ dna_leb (canon x) (rc x) = true.
Proof.
  unfold canon, dna_ltb, dna_leb. destruct (dna_compare x (rc x)) eqn:E.
  - rewrite dna_compare_refl. rewrite (dna_compare_antisym x (rc x)), E. auto.
  - rewrite dna_compare_refl, E. auto.
  - rewrite dna_compare_refl. rewrite (dna_compare_antisym x (rc x)), E. auto.
Qed.
Theorem canon_choice x : canon x = x \/ canon x = rc x.
Proof. unfold canon. destruct (dna_ltb x (rc x)); auto. Qed.
Theorem palindrome_iff x : is_palindrome x = true <-> x = rc x.
Proof. apply dna_eqb_eq. Qed.
Theorem canon_flip_spec x : fst (canon_flip x) = canon x /\ (snd (canon_flip x) = false <-> dna_ltb x (rc x) = true).
Proof. unfold canon_flip, canon. destruct (dna_ltb x (rc x)); cbn; split; auto; split; intro; auto; discriminate. Qed.
