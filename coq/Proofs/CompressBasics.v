(* Basic facts about the CompressFromHash model (Algo/Compress.v): availability lists, table lookup. *)
From Coq Require Import NArith List Bool Arith Lia Permutation.
From DBG Require Import Spec.Dna Spec.GraphIndex Spec.Unitig Packed.ExtsModel Algo.Compress Proofs.DnaFacts.
Import ListNotations.
Local Open Scope nat_scope.

Lemma mem_nat_In i l : mem_nat i l = true <-> In i l.
Proof.
  unfold mem_nat. rewrite existsb_exists. split.
  - intros [x [Hx He]]. apply Nat.eqb_eq in He. subst. exact Hx.
  - intro H. exists i. split; [exact H | apply Nat.eqb_refl].
Qed.

Lemma remove_nat_remove i l : remove_nat i l = remove Nat.eq_dec i l.
Proof.
  induction l as [|a l IH]; [reflexivity|]. cbn [remove_nat filter remove].
  destruct (Nat.eq_dec i a) as [->|Hne].
  - rewrite Nat.eqb_refl. cbn [negb]. exact IH.
  - apply Nat.eqb_neq in Hne. rewrite Hne. cbn [negb]. f_equal. exact IH.
Qed.

Lemma index_where_Some {A} (p : A -> bool) l i :
  index_where p l = Some i -> exists x, nth_error l i = Some x /\ p x = true /\
    forall j y, j < i -> nth_error l j = Some y -> p y = false.
Proof.
  revert i. induction l as [|a l IH]; intros i H; [discriminate|]. cbn [index_where] in H.
  destruct (p a) eqn:Hp.
  - injection H as <-. exists a. repeat split; auto. intros j y Hj; lia.
  - destruct (index_where p l) as [i0|] eqn:Hi; [|discriminate]. injection H as <-.
    destruct (IH _ eq_refl) as [x [Hx [Hpx Hmin]]]. exists x. repeat split; auto.
    intros [|j] y Hj Hy; cbn in Hy; [congruence|]. apply (Hmin j); auto; lia.
Qed.

Lemma index_where_None {A} (p : A -> bool) l : index_where p l = None -> forall x, In x l -> p x = false.
Proof.
  induction l as [|a l IH]; intros H x Hin; [destruct Hin|]. cbn [index_where] in H.
  destruct (p a) eqn:Hp; [discriminate|]. destruct (index_where p l); [discriminate|].
  destruct Hin as [<-|Hin]; auto.
Qed.

Section Tbl.
Variable D : Type.
Local Notation table := (table D).

(* a mergeable link never joins a k-mer with itself *)
Lemma mlink_irrefl join stranded (T : table) i d j d' : mlink D join stranded T i d = Some (j, d') -> i <> j.
Proof.
  unfold mlink. intros H Heq.
  destruct (nth_error T i); [|discriminate].
  destruct (e_get_unique_extension _ _); [|discriminate].
  destruct (negb stranded && is_palindrome _); [discriminate|].
  destruct (if stranded then _ else _) as [y fl].
  destruct (get_id D T y) as [j0|]; [|discriminate]. destruct (get_entry D T y); [|discriminate].
  destruct (Nat.eqb i j0) eqn:He; [discriminate|]. apply Nat.eqb_neq in He.
  destruct (negb stranded && is_palindrome y); [discriminate|].
  destruct (negb _); [discriminate|]. destruct (negb _); [discriminate|].
  injection H as <- _. contradiction.
Qed.
End Tbl.
