(* The token-level JSON recogniser accepts comma-joined chunk lists: the lemmas the JSON export proof and
   the serde layout proofs are built from. *)
From Coq Require Import NArith List Bool Arith Lia.
From DBG Require Import Algo.Json.
Import ListNotations.

(* [parses c t]: the chunk c is one complete value denoting t, whatever follows *)
Definition parses (c : list token) (t : jtree) : Prop :=
  forall fuel rest, length c < fuel -> parse_value fuel (c ++ rest) = Some (t, rest).

Lemma parses_str s : parses [STR s] (JStr s).
Proof. intros [|f] rest H; [cbn in H; lia | reflexivity]. Qed.
Lemma parses_num n : parses [NUM n] (JNum n).
Proof. intros [|f] rest H; [cbn in H; lia | reflexivity]. Qed.
Lemma parses_val t : parses [VAL t] t.
Proof. intros [|f] rest H; [cbn in H; lia | reflexivity]. Qed.

(* a value never starts with a closing bracket and is never empty *)
Definition closes (c : list token) : bool :=
  match c with [] => true | RK :: _ => true | RB :: _ => true | _ => false end.
Lemma parses_head c t : parses c t -> closes c = false.
Proof.
  intros H. specialize (H (S (length c)) [] (Nat.lt_succ_diag_r _)).
  destruct c as [|[] c]; cbn in *; try reflexivity; discriminate.
Qed.

Definition csize (cs : list (list token)) : nat := fold_right (fun c a => S (length c) + a) 0 cs.

Lemma csize_cons c cs : csize (c :: cs) = S (length c) + csize cs.
Proof. reflexivity. Qed.

Lemma parse_elems_spec cs : forall ts c t fuel rest,
  parses c t -> Forall2 parses cs ts -> length c + S (csize cs) < fuel ->
  parse_elems fuel (c ++ flat_map (fun x => COMMA :: x) cs ++ RK :: rest) = Some (t :: ts, rest).
Proof.
  induction cs as [|c' cs IH]; intros ts c t fuel rest Hc Hcs Hf.
  - inversion Hcs; subst. destruct fuel as [|f]; [lia|]. cbn [flat_map app parse_elems].
    rewrite Hc by (cbn in Hf; lia). reflexivity.
  - inversion Hcs as [|? t' ? ts' Hc' Hcs']; subst. destruct fuel as [|f]; [lia|].
    cbn [parse_elems]. rewrite Hc by (rewrite csize_cons in Hf; lia).
    cbn [flat_map app]. rewrite <- app_assoc.
    rewrite csize_cons in Hf.
    rewrite (IH ts' c' t' f rest Hc' Hcs') by lia. reflexivity.
Qed.

Lemma sepjoin_length cs : cs <> [] -> S (length (sepjoin cs)) = csize cs.
Proof.
  destruct cs as [|c r]; [congruence|]. intros _. cbn [sepjoin csize fold_right]. rewrite app_length. fold (csize r).
  induction r as [|x r IH]; cbn [flat_map csize fold_right length]; [lia|]. rewrite app_length. fold (csize r). cbn [length]. lia.
Qed.

Lemma parses_arr cs ts : Forall2 parses cs ts -> parses (arr_tokens cs) (JArr ts).
Proof.
  intros H fuel rest Hf. destruct fuel as [|f]; [lia|].
  destruct H as [|c t cs ts Hc Hcs].
  - reflexivity.
  - unfold arr_tokens in *. cbn [sepjoin]. cbn [app parse_value].
    pose proof (parses_head _ _ Hc) as Hh.
    assert (Hl : length c + S (csize cs) < f).
    { pose proof (sepjoin_length (c :: cs) ltac:(congruence)) as E. cbn [csize fold_right] in E. fold (csize cs) in E.
      cbn [length] in Hf. rewrite app_length in Hf. cbn [length] in Hf. lia. }
    rewrite <- !app_assoc. cbn [app].
    pose proof (parse_elems_spec cs ts c t f rest Hc Hcs Hl) as E.
    destruct c as [|x c]; [discriminate|].
    cbn [app] in *. destruct x; try discriminate; rewrite E; reflexivity.
Qed.

(* objects *)
Definition msize (ms : list (list N * list token)) : nat := fold_right (fun m a => 3 + length (snd m) + a) 0 ms.

Lemma msize_cons m ms : msize (m :: ms) = 3 + length (snd m) + msize ms.
Proof. reflexivity. Qed.

Lemma parse_members_spec ms : forall ts k c t fuel rest,
  parses c t -> Forall2 (fun m kt => fst m = fst kt /\ parses (snd m) (snd kt)) ms ts ->
  3 + length c + msize ms < fuel ->
  parse_members fuel (STR k :: COLON :: c ++ flat_map (fun x => COMMA :: member_tokens x) ms ++ RB :: rest)
  = Some ((k, t) :: ts, rest).
Proof.
  induction ms as [|[k' c'] ms IH]; intros ts k c t fuel rest Hc Hms Hf.
  - inversion Hms; subst. destruct fuel as [|f]; [lia|]. cbn [flat_map app parse_members].
    rewrite Hc by (cbn in Hf; lia). reflexivity.
  - inversion Hms as [|? [k2 t'] ? ts' [Hk Hc'] Hms']; subst. cbn [fst snd] in *. subst k2.
    rewrite msize_cons in Hf. cbn [snd] in Hf.
    destruct fuel as [|f]; [lia|]. cbn [parse_members]. rewrite Hc by lia.
    cbn [flat_map app member_tokens fst snd]. rewrite <- app_assoc. cbn [app].
    rewrite (IH ts' k' c' t' f rest Hc' Hms') by lia. reflexivity.
Qed.

Lemma flat_map_member ms :
  flat_map (fun x => COMMA :: x) (map member_tokens ms) = flat_map (fun x => COMMA :: member_tokens x) ms.
Proof. induction ms as [|m ms IH]; [reflexivity|]. cbn [map flat_map]. now rewrite IH. Qed.

Lemma members_length ms : length (flat_map (fun x => COMMA :: member_tokens x) ms) = msize ms.
Proof.
  induction ms as [|m ms IH]; [reflexivity|]. cbn [flat_map msize fold_right]. fold (msize ms).
  cbn [member_tokens length app]. rewrite app_length, IH. lia.
Qed.

Lemma parses_obj ms ts :
  Forall2 (fun m kt => fst m = fst kt /\ parses (snd m) (snd kt)) ms ts -> parses (obj_tokens ms) (JObj ts).
Proof.
  intros H fuel rest Hf. destruct fuel as [|f]; [lia|].
  destruct H as [|[k c] [k2 t] ms ts [Hk Hc] Hms].
  - reflexivity.
  - cbn [fst snd] in *. subst k2. unfold obj_tokens in *. cbn [map sepjoin member_tokens fst snd].
    rewrite flat_map_member. cbn [app parse_value].
    assert (Hl : 3 + length c + msize ms < f).
    { cbn [map sepjoin member_tokens fst snd length app] in Hf. rewrite flat_map_member in Hf.
      rewrite !app_length, members_length in Hf. cbn [length] in Hf. lia. }
    rewrite <- !app_assoc. cbn [app member_tokens fst snd].
    now rewrite (parse_members_spec ms ts k c t f rest Hc Hms Hl).
Qed.

Lemma parses_json c t : parses c t -> parse_json c = Some t.
Proof.
  intros H. unfold parse_json. specialize (H (S (length c)) [] (Nat.lt_succ_diag_r _)).
  rewrite app_nil_r in H. now rewrite H.
Qed.

(* the recogniser accepts the canonical rendering of every tree and returns the tree *)
Fixpoint jtree_ind' (P : jtree -> Prop)
  (Hnull : P JNull) (Hbool : forall b, P (JBool b)) (Hnum : forall n, P (JNum n)) (Hstr : forall s, P (JStr s))
  (Harr : forall l, Forall P l -> P (JArr l))
  (Hobj : forall l, Forall (fun m => P (snd m)) l -> P (JObj l)) (t : jtree) : P t :=
  match t with
  | JNull => Hnull
  | JBool b => Hbool b
  | JNum n => Hnum n
  | JStr s => Hstr s
  | JArr l => Harr l ((fix go (l : list jtree) : Forall P l :=
                         match l with [] => Forall_nil _ | x :: r => Forall_cons _ (jtree_ind' P Hnull Hbool Hnum Hstr Harr Hobj x) (go r) end) l)
  | JObj l => Hobj l ((fix go (l : list (list N * jtree)) : Forall (fun m => P (snd m)) l :=
                         match l with [] => Forall_nil _ | x :: r => Forall_cons _ (jtree_ind' P Hnull Hbool Hnum Hstr Harr Hobj (snd x)) (go r) end) l)
  end.

Lemma parses_print t : parses (print t) t.
Proof.
  induction t as [| b | n | s | l IH | l IH] using jtree_ind'; cbn [print].
  - apply parses_val.
  - apply parses_val.
  - apply parses_num.
  - apply parses_str.
  - apply parses_arr. induction IH; cbn [map]; constructor; auto.
  - apply parses_obj. induction IH as [|[k t] l]; cbn [map]; constructor; auto.
Qed.

Theorem parse_print t : parse_json (print t) = Some t.
Proof. apply parses_json, parses_print. Qed.
