(* Generic facts connecting numbers, symbolic bit vectors and lists of 2-bit lanes. *)
From Coq Require Import NArith List Bool Arith Lia.
From DBG Require Import Bits.SymBV Spec.Dna Packed.KmerModel.
Import ListNotations.
Open Scope N_scope.

(* ---------------------------------------------------------------- symbolic lanes *)
Definition lanesS (K : nat) (s : sbv) : list (bx * bx) :=
  map (fun p => (bit s (2 * (K - 1 - p)), bit s (2 * (K - 1 - p) + 1))) (seq 0 K).
Definition pv (rho : nat -> nat -> bool) (p : bx * bx) : N :=
  N.b2n (beval rho (fst p)) + 2 * N.b2n (beval rho (snd p)).

Lemma decode_R rho s n K : R rho s n -> decode K n = map (pv rho) (lanesS K s).
Proof.
  intro H. unfold decode, lanesS. rewrite map_map. apply map_ext. intro p.
  unfold lane, pv. cbn [fst snd]. now rewrite !H.
Qed.

Definition pair_eqb (a b : bx * bx) : bool := bx_eqb (fst a) (fst b) && bx_eqb (snd a) (snd b).
Fixpoint lanes_eqb (a b : list (bx * bx)) : bool :=
  match a, b with
  | [], [] => true
  | x :: a', y :: b' => pair_eqb x y && lanes_eqb a' b'
  | _, _ => false
  end.
Lemma lanes_eqb_eq a : forall b, lanes_eqb a b = true -> a = b.
Proof.
  induction a as [|[x1 x2] a IH]; destruct b as [|[y1 y2] b]; simpl; intro H; try discriminate; auto.
  apply andb_prop in H as [H1 H2]. unfold pair_eqb in H1. apply andb_prop in H1 as [Ha Hb]. cbn in Ha, Hb.
  apply bx_eqb_eq in Ha, Hb. subst. f_equal. auto.
Qed.

Definition wfS (K : nat) (s : sbv) : bool := forallb is_BF (skipn (2 * K) s).
Lemma wf_R rho s n K : R rho s n -> wfS K s = true -> wf K n.
Proof.
  intros HR Hw. unfold wf. destruct (N.lt_ge_cases n (2 ^ N.of_nat (2 * K))) as [Hlt|Hge]; auto. exfalso.
  assert (Hnz : n <> 0) by (pose proof (N.pow_nonzero 2 (N.of_nat (2 * K))); lia).
  pose proof (N.bit_log2 n Hnz) as Hb.
  assert (Hl : N.of_nat (2 * K) <= N.log2 n) by (apply N.log2_le_pow2; lia).
  rewrite <- (N2Nat.id (N.log2 n)) in Hb. rewrite HR in Hb.
  set (i := N.to_nat (N.log2 n)) in *. assert (Hi : (2 * K <= i)%nat) by lia.
  replace i with (2 * K + (i - 2 * K))%nat in Hb by lia. unfold bit in Hb. rewrite <- nth_skipn_ in Hb.
  fold (bit (skipn (2 * K) s) (i - 2 * K)) in Hb. rewrite forallb_BF_bit in Hb by exact Hw. discriminate.
Qed.

Lemma decode_var env v w K :
  map (pv (rho_of env)) (lanesS K (s_var v w)) = decode K (env v mod 2 ^ N.of_nat w).
Proof. symmetry. apply decode_R. apply R_var. Qed.

Lemma wf_mod K s : wf K s -> s mod 2 ^ N.of_nat (2 * K) = s.
Proof. intro H. apply N.mod_small. exact H. Qed.

Lemma lt4_bits v : v < 4 -> N.b2n (N.testbit v 0) + 2 * N.b2n (N.testbit v 1) = v.
Proof.
  intro H. destruct v as [|[[p|p|]|[p|p|]|]]; try reflexivity; exfalso; lia.
Qed.
Lemma pv_var2 env v : env v < 4 -> pv (rho_of env) (BV v 0, BV v 1) = env v.
Proof. intro H. unfold pv, rho_of. cbn [fst snd beval]. now apply lt4_bits. Qed.

Lemma pv_lt4 rho p : pv rho p < 4.
Proof. unfold pv. destruct (beval rho (fst p)), (beval rho (snd p)); cbn; lia. Qed.
Lemma decode_lt4 K s : wf_dna (decode K s).
Proof.
  unfold wf_dna, decode. apply Forall_forall. intros b Hb. apply in_map_iff in Hb as [p [<- _]].
  unfold lane. destruct (N.testbit s _), (N.testbit s _); cbn; lia.
Qed.
Lemma decode_length K s : length (decode K s) = K.
Proof. unfold decode. now rewrite map_length, seq_length. Qed.
Lemma lanesS_length K s : length (lanesS K s) = K.
Proof. unfold lanesS. now rewrite map_length, seq_length. Qed.

(* ---------------------------------------------------------------- list-function/map commutation *)
Lemma upd_map {A B} (f : A -> B) pos l x : map f (upd pos l x) = upd pos (map f l) (f x).
Proof. unfold upd. now rewrite map_app, firstn_map, map_cons, skipn_map. Qed.
Lemma splice_map {A B} (f : A -> B) pos run l : map f (splice pos run l) = splice pos (map f run) (map f l).
Proof. unfold splice. now rewrite !map_app, firstn_map, skipn_map, map_length. Qed.
Lemma removelast_map {A B} (f : A -> B) l : map f (removelast l) = removelast (map f l).
Proof. induction l as [|x [|y l] IH]; simpl in *; auto. now rewrite IH. Qed.
Lemma tl_map {A B} (f : A -> B) l : map f (tl l) = tl (map f l).
Proof. now destruct l. Qed.

(* ---------------------------------------------------------------- popcount *)
Lemma popcount_div2 n : popcount n = N.b2n (N.odd n) + popcount (N.div2 n).
Proof. destruct n as [|[p|p|]]; cbn; try reflexivity; destruct (pos_popcount p); reflexivity. Qed.
Lemma popcount_R rho s : forall n, R rho s n -> popcount n = sbv_pop rho s.
Proof.
  induction s as [|x s IH]; intros n H.
  - apply R_nil in H. now subst.
  - cbn [sbv_pop fold_right]. fold (sbv_pop rho s). rewrite <- (IH _ (R_tail _ _ _ _ H)).
    specialize (H 0%nat). cbn in H. rewrite <- H, N.bit0_odd. apply popcount_div2.
Qed.

(* ---------------------------------------------------------------- rank / decode arithmetic *)
Lemma mod4_bits x : x mod 4 = N.b2n (N.testbit x 0) + 2 * N.b2n (N.testbit x 1).
Proof.
  change 4 with (2 ^ 2). apply N.bits_inj. intro i.
  destruct (N.ltb_spec i 2) as [Hi|Hi].
  - rewrite N.mod_pow2_bits_low by exact Hi.
    assert (Hc : i = 0 \/ i = 1) by lia. destruct Hc as [-> | ->];
      destruct (N.testbit x 0), (N.testbit x 1); reflexivity.
  - rewrite N.mod_pow2_bits_high by exact Hi. symmetry.
    rewrite <- (N2Nat.id i). apply (testbit_above _ 2); [|lia].
    destruct (N.testbit x 0), (N.testbit x 1); cbn; lia.
Qed.

Lemma lane_div s i : lane s i = (s / 4 ^ N.of_nat i) mod 4.
Proof.
  rewrite mod4_bits. unfold lane.
  replace (4 ^ N.of_nat i) with (2 ^ N.of_nat (2 * i)) by (rewrite Nat2N.inj_mul, N.pow_mul_r; reflexivity).
  rewrite <- N.shiftr_div_pow2. rewrite !N.shiftr_spec'.
  replace (0 + N.of_nat (2 * i)) with (N.of_nat (2 * i)) by lia.
  replace (1 + N.of_nat (2 * i)) with (N.of_nat (2 * i + 1)) by lia. reflexivity.
Qed.

Lemma decode_S K s : decode (S K) s = lane s K :: decode K s.
Proof.
  unfold decode. cbn [seq map]. f_equal; [f_equal; lia|].
  rewrite <- seq_shift, map_map. apply map_ext_in. intros p Hp. apply in_seq in Hp. f_equal. lia.
Qed.

Lemma rank_app a b : rank (a ++ b) = rank a * 4 ^ N.of_nat (length b) + rank b.
Proof.
  unfold rank. rewrite fold_left_app. generalize (fold_left (fun acc b0 => 4 * acc + b0) a 0). 
  induction b as [|x b IH]; intro acc.
  - cbn. lia.
  - cbn [fold_left length]. rewrite IH. rewrite (IH (4 * 0 + x)). rewrite Nat2N.inj_succ, N.pow_succ_r'. lia.
Qed.
Lemma rank_cons x l : rank (x :: l) = x * 4 ^ N.of_nat (length l) + rank l.
Proof. change (x :: l) with ([x] ++ l). rewrite rank_app. f_equal. Qed.

Lemma rank_decode K : forall s, rank (decode K s) = s mod 4 ^ N.of_nat K.
Proof.
  induction K as [|K IH]; intro s.
  - cbn. now rewrite N.mod_1_r.
  - rewrite decode_S, rank_cons, decode_length, IH, lane_div.
    rewrite Nat2N.inj_succ, N.pow_succ_r'.
    pose proof (N.pow_nonzero 4 (N.of_nat K)) as Hnz.
    rewrite (N.mul_comm 4). rewrite N.mod_mul_r by lia. lia.
Qed.

Lemma pow4 K : 4 ^ N.of_nat K = 2 ^ N.of_nat (2 * K).
Proof. rewrite Nat2N.inj_mul, N.pow_mul_r. reflexivity. Qed.

Lemma rank_decode_wf K s : wf K s -> rank (decode K s) = s.
Proof. intro H. rewrite rank_decode, pow4. now apply N.mod_small. Qed.

Lemma rank_lt l : wf_dna l -> rank l < 4 ^ N.of_nat (length l).
Proof.
  induction l as [|x l IH]; intro H.
  - cbn. lia.
  - inversion H; subst. rewrite rank_cons. cbn [length]. rewrite Nat2N.inj_succ, N.pow_succ_r'.
    specialize (IH H3). nia.
Qed.

Lemma decode_inj K s1 s2 : wf K s1 -> wf K s2 -> decode K s1 = decode K s2 -> s1 = s2.
Proof. intros H1 H2 H. rewrite <- (rank_decode_wf K s1 H1), <- (rank_decode_wf K s2 H2). now rewrite H. Qed.

Lemma rank_compare a : forall b, length a = length b -> wf_dna a -> wf_dna b ->
  (rank a ?= rank b) = dna_compare a b.
Proof.
  induction a as [|x a IH]; destruct b as [|y b]; intros Hl Ha Hb; try discriminate; [reflexivity|].
  inversion Ha; inversion Hb; subst. cbn [dna_compare]. rewrite !rank_cons.
  injection Hl as Hl. rewrite <- Hl.
  pose proof (rank_lt a H2) as La. pose proof (rank_lt b H6) as Lb. rewrite <- Hl in Lb.
  destruct (N.compare_spec x y) as [->|Hlt|Hgt].
  - rewrite <- IH by assumption. destruct (N.compare_spec (rank a) (rank b)) as [->|Hlt|Hgt].
    + apply N.compare_refl.
    + apply N.compare_lt_iff. lia.
    + apply N.compare_gt_iff. lia.
  - apply N.compare_lt_iff. nia.
  - apply N.compare_gt_iff. nia.
Qed.

Theorem compare_lex K s1 s2 : wf K s1 -> wf K s2 ->
  (s1 ?= s2) = dna_compare (decode K s1) (decode K s2).
Proof.
  intros H1 H2. rewrite <- (rank_decode_wf K s1 H1) at 1. rewrite <- (rank_decode_wf K s2 H2) at 1.
  apply rank_compare; [now rewrite !decode_length | apply decode_lt4 | apply decode_lt4].
Qed.

Lemma dna_compare_eq a : forall b, dna_compare a b = Eq -> a = b.
Proof.
  induction a as [|x a IH]; destruct b as [|y b]; cbn; intro H; try discriminate; auto.
  destruct (N.compare_spec x y); try discriminate. subst. f_equal. auto.
Qed.

Lemma decode_rank K l : length l = K -> wf_dna l -> decode K (rank l) = l.
Proof.
  intros Hl Hw. apply dna_compare_eq. rewrite <- rank_compare.
  - rewrite rank_decode. rewrite N.mod_small; [apply N.compare_refl|]. rewrite <- Hl. now apply rank_lt.
  - now rewrite decode_length.
  - apply decode_lt4.
  - exact Hw.
Qed.
