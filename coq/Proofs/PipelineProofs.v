(* C04 / C06 (graph half): composition-level theorems. *)
From Coq Require Import NArith List Bool Arith Lia Permutation.
From DBG Require Import Spec.Dna Spec.GraphIndex Packed.ExtsModel Algo.KmerHist Check.GraphCheck Check.PipelineCheck
  Algo.Pipeline Proofs.ListFacts Proofs.DnaFacts Proofs.PipelineCheckProofs Proofs.UnitigUnique Proofs.GraphRcProofs.
Import ListNotations.
Open Scope N_scope.

Theorem chk_assembly_sound K st thr mode lreads g :
  chk_assembly K st thr mode lreads g = true -> assembly_of K st thr mode lreads g.
Proof.
  unfold chk_assembly, assembly_of. intros H. apply andb_true_iff in H as [H1 H2].
  split; [now apply chk_graph_exact_sound|]. now apply chk_unitig_sound.
Qed.

(* two graphs that both are the assembly of the same reads are the same assembly *)
Theorem assembly_unique K st thr mode lreads g1 g2 :
  assembly_of K st thr mode lreads g1 -> assembly_of K st thr mode lreads g2 -> same_assembly K st mode g1 g2.
Proof.
  intros [E1 [U1 P1]] [E2 [U2 P2]].
  apply (unitig_unique K st mode rank (kmer_colour K st lreads)); auto.
  - eapply graph_exact_nodup; eauto.
  - eapply graph_exact_nodup; eauto.
  - destruct E1 as [E1 _], E2 as [E2 _]. intros x. split; intros Hx.
    + eapply Permutation_in; [symmetry; exact E2|]. eapply Permutation_in; [exact E1|exact Hx].
    + eapply Permutation_in; [symmetry; exact E1|]. eapply Permutation_in; [exact E2|exact Hx].
  - destruct E1 as [_ E1], E2 as [_ E2]. intros w. rewrite E1, E2. reflexivity.
Qed.

(* C04, end to end, PARTIAL: the two model pipelines yield the same assembly PROVIDED each of their outputs is the
   assembly of the reads.  The two provisos are exactly what is not proved in this work package:
     direct : C05 (filter = reference grouping, proved) + C01 (partition, spelling, payload_fold) + C02 (same_node_iff)
              + C03 (terminal extensions = observed links) for compress_kmers on the pruned table;
     sharded: the link lemmas of Properties/C04.v (proved: shard_observations, shard_tables_restrict/_union,
              sharded_prune_sound, combine_spec) + C01/C02 per shard + C09 (recompress_kmers, recompress_maximal,
              no_dangling_exts, payload_fold) for compress_graph on the combined graph.
   Both provisos are DECIDED on every implementation output of every run by the verified checker chk_assembly. *)
Theorem sharded_eq_direct_partial maxlen K P perm st thr mode variant lreads orders order bs gs g_s g_d :
  sharded maxlen K P perm st thr mode variant lreads orders = Some (bs, gs, g_s) ->
  direct K st thr mode 0 lreads order = Some g_d ->
  assembly_of K st thr mode lreads g_s -> assembly_of K st thr mode lreads g_d ->
  same_assembly K st mode g_s g_d.
Proof. intros _ _. apply assembly_unique. Qed.

(* the form used on the implementation's outputs: if the verified checker accepts both graphs, they are the same assembly *)
Corollary chk_assembly_same K st thr mode lreads g1 g2 :
  chk_assembly K st thr mode lreads g1 = true -> chk_assembly K st thr mode lreads g2 = true ->
  same_assembly K st mode g1 g2.
Proof. intros H1 H2. eapply assembly_unique; apply chk_assembly_sound; eauto. Qed.

(* C06, graph half, PARTIAL in the same sense: whatever pipeline variant produced them, a graph that is the assembly of
   the reads and a graph that is the assembly of the reads with any subset reverse-complemented are the same assembly
   (same partition of the canonical k-mers into nodes, same payloads, same links; the two sides of a palindromic
   k-mer are identified by the canonical links).  Closed parts: the Layer-S invariance (assembly_of_flip) and the
   uniqueness of the assembly; proviso: each pipeline output is the assembly of its input (decided per run). *)
Theorem graph_rc_invariant_partial K thr mode fs (lreads : list lread) g g' :
  Forall (fun r => wf_dna (fst r)) lreads ->
  assembly_of K false thr mode lreads g -> assembly_of K false thr mode (flip_lreads fs lreads) g' ->
  same_assembly K false mode g g'.
Proof.
  intros Hw Hg Hg'. apply (assembly_unique K false thr mode lreads); [exact Hg|].
  now apply (assembly_of_flip K thr mode fs lreads g' Hw).
Qed.
Corollary chk_assembly_rc K thr mode fs (lreads : list lread) g g' :
  Forall (fun r => wf_dna (fst r)) lreads ->
  chk_assembly K false thr mode lreads g = true -> chk_assembly K false thr mode (flip_lreads fs lreads) g' = true ->
  same_assembly K false mode g g'.
Proof. intros Hw H1 H2. eapply graph_rc_invariant_partial; eauto using chk_assembly_sound. Qed.
