(* C06, graph half, Layer S: the retained k-mers, the links and the k-mer colours of a read set do not change when any
   subset of the reads is reverse-complemented (unstranded); hence "g is the assembly of the reads" does not either. *)
From Coq Require Import NArith List Bool Arith Lia Permutation Sorting.Sorted.
From DBG Require Import Spec.Dna Spec.GraphIndex Packed.ExtsModel Algo.KmerHist Check.GraphCheck Check.PipelineCheck
  Algo.Pipeline Proofs.ListFacts Proofs.DnaFacts Proofs.FilterProofs Proofs.PipelineCheckProofs Proofs.UnitigUnique.
Import ListNotations.
Open Scope N_scope.

Lemma rev_map_seq' {A} (f : nat -> A) n : rev (map f (seq 0 n)) = map (fun i => f (n - 1 - i)%nat) (seq 0 n).
Proof.
  induction n as [|n IH]; [reflexivity|]. rewrite seq_S at 1. rewrite map_app, rev_app_distr. cbn [map rev app Nat.add].
  rewrite IH. cbn [seq map]. f_equal; [f_equal; lia|]. rewrite <- seq_shift, map_map. apply map_ext_in. intros i Hi.
  apply in_seq in Hi. f_equal. lia.
Qed.
Lemma kmers_rc K r : kmers K (rc r) = rev (map rc (kmers K r)).
Proof.
  unfold kmers. rewrite rc_length, map_map, rev_map_seq'. apply map_ext_in. intros i Hi. apply in_seq in Hi.
  rewrite kmer_at_rc by lia. do 2 f_equal. lia.
Qed.
Lemma filter_perm {A} (p : A -> bool) l l' : Permutation l l' -> Permutation (filter p l) (filter p l').
Proof.
  induction 1 as [|x l l' H IH|x y l|l l' l'' H1 IH1 H2 IH2]; cbn [filter]; auto.
  - destruct (p x); auto.
  - destruct (p x), (p y); auto. apply perm_swap.
  - etransitivity; eauto.
Qed.
Lemma map_canon_rc l : Forall wf_dna l -> map canon (map rc l) = map canon l.
Proof. intros H. rewrite map_map. apply map_ext_in. intros x Hx. rewrite Forall_forall in H. apply canon_rc. now apply H. Qed.
Lemma kmers_all_wf K r : wf_dna r -> Forall wf_dna (kmers K r).
Proof. intros H. apply Forall_forall. intros x. now apply kmers_wf. Qed.

Section Flip.
Variable K : nat.
Variable thr : N.
Local Notation rk := (read_kmers K false).

Lemma read_kmers_one_rc r : wf_dna r -> Permutation (map (cn false) (kmers K (rc r))) (map (cn false) (kmers K r)).
Proof.
  intros Hw. unfold cn. rewrite kmers_rc, map_rev, map_canon_rc by (now apply kmers_all_wf).
  symmetry. apply Permutation_rev.
Qed.
Lemma read_kmers_flip fs (reads : list lread) : Forall (fun r => wf_dna (fst r)) reads ->
  Permutation (rk (map fst (flip_lreads fs reads))) (rk (map fst reads)).
Proof.
  revert fs. induction reads as [|r t IH]; intros fs Hw; [reflexivity|].
  inversion Hw as [|? ? Hr Ht]; subst. cbn [flip_lreads map]. unfold read_kmers. cbn [flat_map fst].
  apply Permutation_app; [|apply IH; exact Ht].
  destruct (hd false fs); [now apply read_kmers_one_rc|reflexivity].
Qed.

Lemma occurrences_perm l l' x : Permutation l l' ->
  length (filter (dna_eqb x) l) = length (filter (dna_eqb x) l').
Proof. intros H. apply Permutation_length. now apply filter_perm. Qed.

Lemma is_retained_flip fs (reads : list lread) x : Forall (fun r => wf_dna (fst r)) reads ->
  is_retained K false thr (map fst (flip_lreads fs reads)) x = is_retained K false thr (map fst reads) x.
Proof.
  intros Hw. unfold is_retained, occurrences. f_equal. f_equal. apply occurrences_perm. now apply read_kmers_flip.
Qed.

Theorem retained_flip fs (reads : list lread) : Forall (fun r => wf_dna (fst r)) reads ->
  retained K false thr (map fst (flip_lreads fs reads)) = retained K false thr (map fst reads).
Proof.
  intros Hw. unfold retained, sort_dna.
  fold (sort_dedup (rk (map fst (flip_lreads fs reads)))). fold (sort_dedup (rk (map fst reads))).
  assert (E : sort_dedup (rk (map fst (flip_lreads fs reads))) = sort_dedup (rk (map fst reads))).
  { apply ssorted_unique; try apply sort_dedup_ssorted. intros k. rewrite !sort_dedup_in.
    split; apply Permutation_in; [|symmetry]; now apply read_kmers_flip. }
  rewrite E. apply filter_ext. intros x. now apply is_retained_flip.
Qed.

(* (K+1)-mers *)
Lemma firstn_rc_S v : length v = S K -> firstn K (rc v) = rc (skipn 1 v).
Proof.
  intros Hl. unfold rc. rewrite firstn_map, firstn_rev, Hl. f_equal. f_equal. f_equal. lia.
Qed.
Lemma skipn_rc_S v : length v = S K -> skipn 1 (rc v) = rc (firstn K v).
Proof.
  intros Hl. unfold rc. rewrite skipn_map, skipn_rev, Hl. f_equal. f_equal. f_equal. lia.
Qed.
Lemma wf_firstn n (v : dna) : wf_dna v -> wf_dna (firstn n v).
Proof. unfold wf_dna. rewrite !Forall_forall. intros H x Hx. apply H. eapply in_firstn; eauto. Qed.
Lemma wf_skipn n (v : dna) : wf_dna v -> wf_dna (skipn n v).
Proof. unfold wf_dna. rewrite !Forall_forall. intros H x Hx. apply H. eapply in_skipn; eauto. Qed.

Lemma link_retained_rc rs v : length v = S K -> wf_dna v ->
  link_retained K false thr rs (rc v) = link_retained K false thr rs v.
Proof.
  intros Hl Hw. unfold link_retained, cn. rewrite firstn_rc_S, skipn_rc_S by exact Hl.
  rewrite !canon_rc by (first [now apply wf_firstn | now apply wf_skipn]). apply andb_comm.
Qed.
Lemma link_retained_ext rs rs' w : (forall x, is_retained K false thr rs x = is_retained K false thr rs' x) ->
  link_retained K false thr rs w = link_retained K false thr rs' w.
Proof. intros H. unfold link_retained. now rewrite !H. Qed.

Lemma kmers_length k r x : In x (kmers k r) -> length x = k.
Proof.
  intros H. apply kmers_in in H as [i [Hi ->]]. unfold kmer_at. now apply sub_length.
Qed.

Lemma flip_in fs (reads : list lread) r' : In r' (map fst (flip_lreads fs reads)) ->
  exists r (f : bool), In r (map fst reads) /\ r' = (if f then rc r else r).
Proof.
  revert fs. induction reads as [|r t IH]; intros fs H; [destruct H|]. cbn [flip_lreads map fst] in H.
  destruct H as [<-|H].
  - exists (fst r), (hd false fs). split; [now left|reflexivity].
  - destruct (IH _ H) as [r0 [f [Hr0 E]]]. exists r0, f. split; [now right|exact E].
Qed.
Lemma links_one r (f : bool) v : wf_dna r -> In v (kmers (S K) (if f then rc r else r)) ->
  exists u, In u (kmers (S K) r) /\ cn false u = cn false v /\
            forall rs, link_retained K false thr rs u = link_retained K false thr rs v.
Proof.
  intros Hw Hv. destruct f; [|exists v; auto].
  rewrite kmers_rc in Hv. apply in_rev in Hv. apply in_map_iff in Hv as [u [<- Hu]].
  pose proof (kmers_length _ _ _ Hu) as Hl. pose proof (kmers_wf _ _ _ Hw Hu) as Hwu.
  exists u. split; [exact Hu|]. split; [unfold cn; symmetry; now apply canon_rc|].
  intros rs. symmetry. now apply link_retained_rc.
Qed.

(* one direction; the other follows by flipping back *)
Lemma spec_links_flip_incl fs (reads : list lread) : Forall (fun r => wf_dna (fst r)) reads ->
  forall w, In w (spec_links K false thr (map fst (flip_lreads fs reads))) -> In w (spec_links K false thr (map fst reads)).
Proof.
  intros Hw w H. unfold spec_links in *. apply in_map_iff in H as [v [<- Hv]]. apply filter_In in Hv as [Hv Hlr].
  apply in_flat_map in Hv as [r' [Hr' Hv]]. destruct (flip_in _ _ _ Hr') as [r [f [Hr ->]]].
  assert (Hwr : wf_dna r).
  { apply in_map_iff in Hr as [lr [<- Hlr']]. rewrite Forall_forall in Hw. now apply Hw. }
  destruct (links_one r f v Hwr Hv) as [u [Hu [Hc Hl]]].
  rewrite <- Hc. apply in_map. apply filter_In. split; [apply in_flat_map; now exists r|].
  rewrite Hl. rewrite <- Hlr. apply link_retained_ext. intros x. symmetry. now apply is_retained_flip.
Qed.
Lemma flip_wf fs (reads : list lread) : Forall (fun r => wf_dna (fst r)) reads ->
  Forall (fun r => wf_dna (fst r)) (flip_lreads fs reads).
Proof.
  revert fs. induction reads as [|r t IH]; intros fs H; [constructor|]. inversion H; subst. cbn [flip_lreads].
  constructor; [|now apply IH]. cbn [fst]. destruct (hd false fs); [apply rc_wf|assumption].
Qed.
Lemma flip_flip fs (reads : list lread) : Forall (fun r => wf_dna (fst r)) reads ->
  flip_lreads fs (flip_lreads fs reads) = reads.
Proof.
  revert fs. induction reads as [|r t IH]; intros fs H; [reflexivity|]. inversion H; subst. cbn [flip_lreads fst snd].
  rewrite IH by assumption. f_equal. destruct r as [s lb]. cbn [fst snd]. f_equal.
  destruct (hd false fs); [now apply rc_involutive|reflexivity].
Qed.

Theorem spec_links_flip fs (reads : list lread) : Forall (fun r => wf_dna (fst r)) reads ->
  forall w, In w (spec_links K false thr (map fst (flip_lreads fs reads))) <-> In w (spec_links K false thr (map fst reads)).
Proof.
  intros Hw w. split; [now apply spec_links_flip_incl|].
  intros H. rewrite <- (flip_flip fs reads Hw) in H. revert H. apply spec_links_flip_incl. now apply flip_wf.
Qed.

Theorem graph_exact_flip fs (reads : list lread) g : Forall (fun r => wf_dna (fst r)) reads ->
  graph_exact K false thr (map fst (flip_lreads fs reads)) g <-> graph_exact K false thr (map fst reads) g.
Proof.
  intros Hw. unfold graph_exact. rewrite retained_flip by exact Hw.
  split; intros [H1 H2]; (split; [exact H1|]); intros w; rewrite H2; [|symmetry]; now apply spec_links_flip.
Qed.
End Flip.

(* ---- colours ---- *)
Lemma existsb_perm {A} (p : A -> bool) l l' : Permutation l l' -> existsb p l = existsb p l'.
Proof.
  intros H. apply eq_true_iff_eq. rewrite !existsb_exists. split; intros [x [Hx Hp]]; exists x; split; auto.
  - eapply Permutation_in; eauto.
  - eapply Permutation_in; [symmetry|]; eauto.
Qed.
Lemma existsb_map {A B} (p : B -> bool) (f : A -> B) l : existsb p (map f l) = existsb (fun x => p (f x)) l.
Proof. induction l as [|x r IH]; [reflexivity|]. cbn. now rewrite IH. Qed.

Definition colour_step (K : nat) (x : dna) (m : N) (r : dna * N) : N :=
  if existsb (fun w => dna_eqb (cn false w) x) (kmers K (fst r)) then N.lor m (N.shiftl 1 (N.land (snd r) 7)) else m.
Lemma colour_fold_flip K x fs (lreads : list lread) : forall m, Forall (fun r => wf_dna (fst r)) lreads ->
  fold_left (colour_step K x) (flip_lreads fs lreads) m = fold_left (colour_step K x) lreads m.
Proof.
  revert fs. induction lreads as [|r t IH]; intros fs m Hw; [reflexivity|]. inversion Hw as [|? ? Hr Ht]; subst.
  cbn [flip_lreads fold_left]. rewrite IH by exact Ht. f_equal. unfold colour_step. cbn [fst snd].
  destruct (hd false fs); [|reflexivity].
  rewrite <- !(existsb_map (fun w => dna_eqb w x) (cn false)).
  now rewrite (existsb_perm _ _ _ (read_kmers_one_rc K (fst r) Hr)).
Qed.
Lemma kmer_colour_flip K fs (lreads : list lread) x : Forall (fun r => wf_dna (fst r)) lreads ->
  kmer_colour K false (flip_lreads fs lreads) x = kmer_colour K false lreads x.
Proof. intros Hw. exact (colour_fold_flip K x fs lreads 0 Hw). Qed.

(* ---- the notions of PipelineCheck.v depend on the colour function pointwise only ---- *)
Section Ext.
Variable K : nat.
Variable stranded : bool.
Variable mode : N.
Variables idf colf colf' : dna -> N.
Hypothesis Hcol : forall x, colf x = colf' x.

Lemma mergeableb_kj_ext L x y :
  mergeableb stranded (kjoin_f mode colf) L x y = mergeableb stranded (kjoin_f mode colf') L x y.
Proof.
  unfold mergeableb. destruct (rlinks stranded L x) as [|b [|? ?]]; try reflexivity.
  destruct (llinks stranded L y) as [|c [|? ?]]; try reflexivity. unfold kjoin_f. now rewrite !Hcol.
Qed.
Lemma unitig_graph_ext g : unitig_graph K stranded mode colf g -> unitig_graph K stranded mode colf' g.
Proof.
  intros [HK [Hw [Hub Hmx]]]. split; [exact HK|]. split; [exact Hw|]. split.
  - intros n p Hn Hp. rewrite <- mergeableb_kj_ext. exact (Hub n p Hn Hp).
  - intros n x y Hn Hx Hm. rewrite <- mergeableb_kj_ext in Hm. exact (Hmx n x y Hn Hx Hm).
Qed.
Lemma payload_ok_ext g : payload_ok K stranded mode idf colf g -> payload_ok K stranded mode idf colf' g.
Proof.
  intros H n Hn. destruct (H n Hn) as [H1 [H2 H3]]. split; [exact H1|]. split.
  - intros Hm k Hk. rewrite <- Hcol. now apply H2.
  - intros Hm. destruct (H3 Hm) as [k [Hk Hc]]. exists k. split; [exact Hk|]. now rewrite <- Hcol.
Qed.
End Ext.

(* "g is the assembly of the reads" is invariant under reverse-complementing any subset of the reads *)
Theorem assembly_of_flip K thr mode fs (lreads : list lread) g : Forall (fun r => wf_dna (fst r)) lreads ->
  assembly_of K false thr mode (flip_lreads fs lreads) g <-> assembly_of K false thr mode lreads g.
Proof.
  intros Hw. unfold assembly_of. rewrite graph_exact_flip by exact Hw.
  split; intros [E [U Pl]]; (split; [exact E|]); split.
  - eapply unitig_graph_ext; [|exact U]. intros x. now apply kmer_colour_flip.
  - eapply payload_ok_ext; [|exact Pl]. intros x. now apply kmer_colour_flip.
  - eapply unitig_graph_ext; [|exact U]. intros x. symmetry. now apply kmer_colour_flip.
  - eapply payload_ok_ext; [|exact Pl]. intros x. symmetry. now apply kmer_colour_flip.
Qed.

(* ---- stranded: the graph holds exactly the forward k-mers and links ---- *)
Lemma read_kmers_stranded K reads : read_kmers K true reads = flat_map (kmers K) reads.
Proof. unfold read_kmers. apply flat_map_ext. intros r. unfold cn. apply map_id. Qed.

Theorem stranded_exact_graph K thr reads g : graph_exact K true thr reads g ->
  NoDup (graph_kmers K true g) /\
  (forall x, In x (graph_kmers K true g) <->
             In x (flat_map (kmers K) reads) /\ thr <= N.of_nat (length (filter (dna_eqb x) (flat_map (kmers K) reads)))) /\
  (forall w, In w (graph_links K true g) <->
             In w (flat_map (kmers (S K)) reads) /\ In (firstn K w) (graph_kmers K true g) /\ In (skipn 1 w) (graph_kmers K true g)).
Proof.
  intros E. split; [eapply graph_exact_nodup; eauto|]. destruct E as [E1 E2].
  assert (Hk : forall x, In x (graph_kmers K true g) <->
             In x (flat_map (kmers K) reads) /\ thr <= N.of_nat (length (filter (dna_eqb x) (flat_map (kmers K) reads)))).
  { intros x. rewrite <- read_kmers_stranded. split.
    - intros H. apply (Permutation_in _ E1) in H. apply retained_in in H as [H1 H2]. split; [exact H1|].
      unfold is_retained, occurrences in H2. now apply N.leb_le.
    - intros [H1 H2]. apply (Permutation_in _ (Permutation_sym E1)). apply retained_in. split; [exact H1|].
      unfold is_retained, occurrences. now apply N.leb_le. }
  split; [exact Hk|]. intros w. rewrite E2. unfold spec_links, cn. rewrite map_id, filter_In.
  unfold link_retained, cn. rewrite andb_true_iff. rewrite !Hk.
  assert (Hr : forall x, is_retained K true thr reads x = true <-> thr <= N.of_nat (length (filter (dna_eqb x) (flat_map (kmers K) reads)))).
  { intros x. unfold is_retained, occurrences. rewrite read_kmers_stranded. apply N.leb_le. }
  rewrite !Hr. split.
  - intros [Hw [H1 H2]]. split; [exact Hw|]. apply in_flat_map in Hw as [r [Hr' Hw]].
    apply kmers_in in Hw as [i [Hi ->]]. split; (split; [|assumption]); apply in_flat_map; exists r; (split; [exact Hr'|]).
    + apply in_map_iff. exists i. split; [|apply in_seq; lia]. unfold kmer_at, sub. rewrite firstn_firstn. f_equal. lia.
    + apply in_map_iff. exists (S i). split; [|apply in_seq; lia]. unfold kmer_at, sub.
      rewrite skipn_firstn_comm, skipn_skipn. f_equal; [lia|]. f_equal. lia.
  - intros [Hw [[_ H1] [_ H2]]]. auto.
Qed.
