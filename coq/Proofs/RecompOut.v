(* C09, outputs of compress_graph (work package outmax), part 1: congruent compression specs.

   [congruent reduce join]: join is symmetric, a congruence for the reduction (the payload of a merged node answers the
   join test like the payload it was reduced from), and TRANSITIVE on accepted pairs (two payloads that may be joined
   answer every join test alike).  The third clause is not in the work-package brief; it is necessary: with
   join a b := |a - b| <= 1 and reduce a _ := a (symmetric, congruence in the sense of the first two clauses, not
   transitive) the chain of colours 1 - 2 - 3 is merged into one node of colour 1, and a neighbour of colour 1 of the
   colour-3 end - refused at the junction, 3 vs 1 - is mergeable with the result (Properties/C09Out.v,
   C09O_weak_congruence_refuted).  All three shipped / harness specs satisfy the three clauses.

   [fold_join]: the payload fold of a node path answers the join test like the payload of ANY node of the path. *)
From Coq Require Import NArith List Bool Arith Lia.
From DBG Require Import Check.RecompCheck Check.GraphCheck.
Import ListNotations.
Open Scope N_scope.

Section Congruent.
Variable D : Type.
Variable reduce : D -> D -> D.
Variable join : D -> D -> bool.

Definition congruent : Prop :=
  (forall a b, join a b = join b a) /\
  (forall a b c, join a b = true -> join (reduce a b) c = join a c) /\
  (forall a b c, join a b = true -> join a c = join b c).

(* the two-clause notion of the brief (refuted as a sufficient condition) *)
Definition congruent_weak : Prop :=
  (forall a b, join a b = join b a) /\
  (forall a b c, join a b = true -> join (reduce a b) c = join a c).

Lemma congruent_weaken : congruent -> congruent_weak.
Proof. intros (H1 & H2 & _). split; assumption. Qed.

Lemma congruent_sym : congruent -> forall a b, join a b = join b a.
Proof. intros (H & _). exact H. Qed.

Lemma fold_join (C : congruent) : forall ds d0,
  (forall d, In d ds -> join d0 d = true) ->
  forall c, join (fold_left reduce ds d0) c = join d0 c.
Proof.
  destruct C as (_ & C2 & _).
  induction ds as [|d1 ds IH]; intros d0 H c; [reflexivity|]. cbn [fold_left].
  assert (H1 : join d0 d1 = true) by (apply H; now left).
  rewrite IH.
  - now apply C2.
  - intros d Hd. rewrite (C2 _ _ _ H1). apply H. now right.
Qed.

(* ... like the payload of any member of the class *)
Lemma fold_join_member (C : congruent) ds d0 dm :
  (forall d, In d ds -> join d0 d = true) -> join d0 dm = true ->
  forall c, join (fold_left reduce ds d0) c = join dm c.
Proof.
  intros H Hm c. rewrite (fold_join C ds d0 H). destruct C as (_ & _ & C3). now apply C3.
Qed.
End Congruent.

(* ---- the instances ------------------------------------------------------------------------------------------------- *)
(* SimpleCompress: always join, any reduction *)
Lemma congruent_always D (reduce : D -> D -> D) : congruent D reduce (fun _ _ => true).
Proof. repeat split. Qed.

(* ScmapCompress: join = payload equality (any boolean equality test that decides equality), the payload is kept *)
Lemma congruent_eq_keep D (eqb : D -> D -> bool) :
  (forall a b, eqb a b = true <-> a = b) -> congruent D (fun a _ => a) eqb.
Proof.
  intro Heq.
  assert (Hsym : forall a b, eqb a b = eqb b a).
  { intros a b. destruct (eqb a b) eqn:E1, (eqb b a) eqn:E2; auto.
    - apply Heq in E1. subst. assert (eqb b b = true) by now apply Heq. congruence.
    - apply Heq in E2. subst. assert (eqb a a = true) by now apply Heq. congruence. }
  split; [exact Hsym|]. split; [reflexivity|].
  intros a b c H. apply Heq in H. now subst.
Qed.

(* the harness payloads (colour, ids): reduce keeps the colour of the left argument and concatenates the ids;
   mode 0 = always join, any other mode = equal colours *)
Lemma congruent_rpay mode : congruent rpay rpay_reduce (rpay_join mode).
Proof.
  unfold rpay_join, rpay_reduce. destruct (mode =? 0); [repeat split|].
  split; [intros a b; apply N.eqb_sym|]. split; [reflexivity|].
  intros a b c H. apply N.eqb_eq in H. now rewrite H.
Qed.
Lemma congruent_pay mode : congruent pay pay_reduce (pay_join mode).
Proof. exact (congruent_rpay mode). Qed.

(* ---- the non-congruent spec of finding F11 (C09_debug_assert_refuted): colour SUM with colour equality ------------- *)
Lemma f11_not_congruent : ~ congruent_weak rpay (fun a b : rpay => (fst a + fst b, snd a ++ snd b)) (rpay_join 1).
Proof.
  intros (_ & H). specialize (H (1, []) (1, []) (1, []) eq_refl). vm_compute in H. discriminate.
Qed.

(* ---- a symmetric congruence that is not transitive ------------------------------------------------------------------ *)
Definition near_join (a b : rpay) : bool := (fst a <=? fst b + 1) && (fst b <=? fst a + 1).
Lemma near_join_weak : congruent_weak rpay rpay_reduce near_join.
Proof. unfold near_join, rpay_reduce. split; [intros a b; apply andb_comm | reflexivity]. Qed.
Lemma near_join_not_congruent : ~ congruent rpay rpay_reduce near_join.
Proof.
  intros (_ & _ & H). specialize (H (2, []) (1, []) (3, []) eq_refl). vm_compute in H. discriminate.
Qed.
