(* Soundness of the boolean C01 checker (Check/GraphCheck.v, chk_c01) run on the implementation's nodes:
   acceptance implies the Prop form of the property (Spec/CompressSpec.v), with the payload clause read for the
   harness payload (colour, id list) under pay_reduce. *)
From Coq Require Import NArith List Bool Arith Lia Permutation.
From DBG Require Import Proofs.AbstractWalk.
From DBG Require Import Spec.Dna Spec.GraphIndex Spec.Unitig Spec.CompressSpec Packed.ExtsModel Algo.Compress
  Algo.KmerHist Check.GraphCheck Proofs.DnaFacts Proofs.CompressBasics Proofs.UnitigCheckProofs.
Import ListNotations.
Local Open Scope nat_scope.

Lemma dna_list_eqb_eq a b : dna_list_eqb a b = true -> a = b.
Proof.
  unfold dna_list_eqb. revert b. induction a as [|x a IH]; destruct b as [|y b]; cbn; try discriminate; auto.
  intro H. apply andb_prop in H as [H1 H2]. apply andb_prop in H2 as [H2 H3]. apply dna_eqb_eq in H2. subst.
  f_equal. apply IH. now rewrite H1, H3.
Qed.
Lemma sorted_eq_perm {A} (leb : A -> A -> bool) a b : sort_by leb a = sort_by leb b -> Permutation a b.
Proof. intro H. rewrite <- (sort_by_perm leb a), H. apply sort_by_perm. Qed.
Lemma nth_combine_tl {A} (l : list A) d i : S i < length l -> In (nth i l d, nth (S i) l d) (combine l (tl l)).
Proof.
  revert i. induction l as [|a l IH]; intros i Hi; [cbn in Hi; lia|]. destruct l as [|b l]; [cbn in Hi; lia|].
  destruct i as [|i]; [now left|]. right. apply (IH i). cbn in *. lia.
Qed.
Lemma flat_map_opt_len {A B} (f : A -> option B) l :
  length (flat_map (fun k => match f k with Some e => [e] | None => [] end) l) <= length l.
Proof. induction l as [|a l IH]; [auto|]. cbn [flat_map]. rewrite app_length. destruct (f a); cbn; lia. Qed.
Lemma flat_map_opt_all {A B} (f : A -> option B) l :
  length (flat_map (fun k => match f k with Some e => [e] | None => [] end) l) = length l ->
  Forall2 (fun k e => f k = Some e) l (flat_map (fun k => match f k with Some e => [e] | None => [] end) l).
Proof.
  induction l as [|a l IH]; intro H; [constructor|]. cbn [flat_map] in *. rewrite app_length in H.
  pose proof (flat_map_opt_len f l) as Hle. destruct (f a) as [e|] eqn:E; cbn in H |- *.
  - constructor; [exact E | apply IH; lia].
  - lia.
Qed.

(* the payload clause for the harness payload: the node's id list is a permutation of the ids of exactly the
   node's k-mers, and its colour is the colour of one of them *)
Definition payload_pay_ok (K : nat) (stranded : bool) (T : table pay) (nodes : list (node pay)) : Prop :=
  forall n, In n nodes -> exists ents,
    Forall2 (fun k e => get_entry pay T k = Some e) (node_keys pay K stranded n) ents /\
    Permutation (snd (n_data pay n)) (concat (map (fun e => snd (e_data pay e)) ents)) /\
    exists e, In e ents /\ fst (e_data pay e) = fst (n_data pay n).

Section Sound.
Variable K : nat.
Variable stranded : bool.
Variable T : table pay.
Variable nodes : list (node pay).

Lemma chk_partition_sound : chk_partition K stranded T nodes = true -> partition_ok pay K stranded T nodes.
Proof.
  unfold chk_partition, partition_ok. intro H. apply dna_list_eqb_eq in H.
  rewrite <- (sort_by_perm dna_leb (keys pay T)). unfold sort_dna in H. rewrite <- H. symmetry.
  apply sort_by_perm.
Qed.
Lemma step_chk x y :
  match oexts pay stranded T x, oexts pay stranded T y with
  | Some ex, Some ey => e_has_ext ex true (last y 0%N) && e_has_ext ey false (hd 0%N x)
  | _, _ => false
  end = true -> step_ok pay stranded T x y.
Proof.
  unfold step_ok. destruct (oexts pay stranded T x) as [ex|]; [|intro H'; discriminate H'].
  destruct (oexts pay stranded T y) as [ey|]; [|intro H'; discriminate H'].
  intro H. apply andb_prop in H. exists ex, ey. tauto.
Qed.
Lemma chk_steps_sound : chk_steps K stranded T nodes = true -> steps_ok pay K stranded T nodes.
Proof.
  unfold chk_steps, steps_ok. rewrite forallb_forall. intros H n Hn i Hi. specialize (H n Hn).
  rewrite forallb_forall in H. unfold node_windows, n_seq in *.
  specialize (H _ (nth_combine_tl _ [] i Hi)). apply step_chk. exact H.
Qed.
Lemma chk_payload_sound : chk_payload K stranded T nodes = true -> payload_pay_ok K stranded T nodes.
Proof.
  unfold chk_payload, payload_pay_ok. rewrite forallb_forall. intros H n Hn. specialize (H n Hn).
  apply andb_prop in H as [H H3]. apply andb_prop in H as [H1 H2].
  apply Nat.eqb_eq in H1. apply (flat_map_opt_all (get_entry pay T)) in H1.
  eexists. split; [exact H1|]. split.
  - unfold N_list_eqb in H2. apply dna_eqb_eq in H2. unfold sort_N in H2.
    unfold n_data. apply (sorted_eq_perm N.leb). exact H2.
  - rewrite existsb_exists in H3. destruct H3 as [e [He Hc]]. apply N.eqb_eq in Hc. exists e. split; auto.
Qed.
Lemma term_chk (sq : dna) (e : N) :
  match oexts pay stranded T (first_kmer K sq), oexts pay stranded T (last_kmer K sq) with
  | Some el, Some er => (e =? e_from_single_dirs (e_single_dir el false) (e_single_dir er true))%N
  | _, _ => false
  end = true ->
  exists el er, oexts pay stranded T (first_kmer K sq) = Some el /\ oexts pay stranded T (last_kmer K sq) = Some er /\
    e = e_from_single_dirs (e_single_dir el false) (e_single_dir er true).
Proof.
  destruct (oexts pay stranded T (first_kmer K sq)) as [el|]; [|intro H'; discriminate H'].
  destruct (oexts pay stranded T (last_kmer K sq)) as [er|]; [|intro H'; discriminate H'].
  intro H. apply N.eqb_eq in H. exists el, er. auto.
Qed.
Lemma chk_terminal_sound : chk_terminal_exts K stranded T nodes = true -> terminal_ok pay K stranded T nodes.
Proof.
  unfold chk_terminal_exts, terminal_ok. rewrite forallb_forall. intros H n Hn. specialize (H n Hn).
  unfold n_seq, n_exts. apply term_chk. exact H.
Qed.

Theorem chk_c01_sound : chk_c01 K stranded T nodes = true ->
  partition_ok pay K stranded T nodes /\ steps_ok pay K stranded T nodes /\
  payload_pay_ok K stranded T nodes /\ terminal_ok pay K stranded T nodes.
Proof.
  unfold chk_c01. intro H. apply andb_prop in H as [H H4]. apply andb_prop in H as [H H3]. apply andb_prop in H as [H1 H2].
  auto using chk_partition_sound, chk_steps_sound, chk_payload_sound, chk_terminal_sound.
Qed.
End Sound.

(* the generic payload clause of the theorem, instantiated at the harness payload, gives the clause the checker
   decides (so the checker accepts what the theorem promises) *)
Lemma pay_fold es : forall d0, fold_left pay_reduce es d0 = (fst d0, snd d0 ++ concat (map snd es)).
Proof.
  induction es as [|e es IH]; intro d0; cbn [fold_left map concat]; [now rewrite app_nil_r; destruct d0|].
  rewrite IH. unfold pay_reduce. cbn [fst snd]. now rewrite app_assoc.
Qed.
