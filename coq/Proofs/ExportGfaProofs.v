(* C20, GFA half: segments, soundness of the link lines, and "every adjacency exactly once (once or twice at
   a palindromic single-k-mer node)" - proved on arbitrary edge tables, then instantiated with the table the
   graph model reports through find_edges. *)
From Coq Require Import NArith List Bool Arith Lia.
From DBG Require Import Spec.Dna Spec.GraphIndex Spec.ExportSpec Algo.GraphModel Algo.Json Algo.Export.
Import ListNotations.
Local Open Scope nat_scope.

(* ---------------------------------------------------------------- list facts *)
Lemma NoDup_app_intro {A} (a b : list A) :
  NoDup a -> NoDup b -> (forall x, In x a -> In x b -> False) -> NoDup (a ++ b).
Proof.
  induction a as [|x a IH]; intros Ha Hb Hd; [exact Hb|].
  inversion Ha as [|? ? Hx Ha']; subst. cbn [app]. constructor.
  - rewrite in_app_iff. intros [H|H]; [auto|]. apply (Hd x); [now left|exact H].
  - apply IH; auto. intros y Hy. apply Hd. now right.
Qed.

Lemma NoDup_flat_map {A B} (f : A -> list B) (l : list A) :
  NoDup l -> (forall x, In x l -> NoDup (f x)) ->
  (forall x y b, In x l -> In y l -> In b (f x) -> In b (f y) -> x = y) -> NoDup (flat_map f l).
Proof.
  induction l as [|x l IH]; intros Hl Hf Hd; [constructor|].
  inversion Hl as [|? ? Hx Hl']; subst. cbn [flat_map]. apply NoDup_app_intro.
  - apply Hf. now left.
  - apply IH; auto.
    + intros y Hy. apply Hf. now right.
    + intros y z b Hy Hz. apply Hd; now right.
  - intros b Hb Hb'. apply in_flat_map in Hb' as (y & Hy & Hby).
    assert (x = y) by (apply (Hd x y b); auto; [now left|now right]). subst. contradiction.
Qed.

Lemma NoDup_map_inj_on {A B} (f : A -> B) (l : list A) :
  NoDup l -> (forall x y, In x l -> In y l -> f x = f y -> x = y) -> NoDup (map f l).
Proof.
  induction l as [|x l IH]; intros Hl Hi; [constructor|].
  inversion Hl as [|? ? Hx Hl']; subst. cbn [map]. constructor.
  - intros H. apply in_map_iff in H as (y & E & Hy). assert (y = x) by (apply Hi; auto; [now right|now left]).
    subst. contradiction.
  - apply IH; auto. intros y z Hy Hz. apply Hi; now right.
Qed.

Lemma NoDup_map_in_inj {A B} (f : A -> B) (l : list A) x y :
  NoDup (map f l) -> In x l -> In y l -> f x = f y -> x = y.
Proof.
  induction l as [|z l IH]; intros Hn Hx Hy E; [contradiction|].
  cbn [map] in Hn. inversion Hn as [|? ? Hz Hn']; subst.
  destruct Hx as [->|Hx], Hy as [->|Hy]; auto.
  - exfalso. apply Hz. rewrite E. now apply in_map.
  - exfalso. apply Hz. rewrite <- E. now apply in_map.
Qed.

Lemma NoDup_bool_le2 (l : list bool) : NoDup l -> List.length l <= 2.
Proof.
  intros H. change 2 with (List.length [true; false]). apply NoDup_incl_length; [exact H|].
  intros [] _; cbn; auto.
Qed.

Lemma count_one {A} (Q : A -> bool) (l : list A) :
  NoDup l -> (exists x, In x l /\ Q x = true) ->
  (forall x y, In x l -> In y l -> Q x = true -> Q y = true -> x = y) -> List.length (filter Q l) = 1.
Proof.
  intros Hn (x & Hx & Qx) Hu.
  assert (Hf : In x (filter Q l)) by (apply filter_In; auto).
  pose proof (NoDup_filter Q Hn) as Hnf.
  destruct (filter Q l) as [|a [|b r]] eqn:E; [contradiction|reflexivity|exfalso].
  assert (Ha : In a (filter Q l)) by (rewrite E; now left).
  assert (Hb : In b (filter Q l)) by (rewrite E; right; now left).
  apply filter_In in Ha as [Ha Qa]. apply filter_In in Hb as [Hb Qb].
  assert (a = b) by (apply Hu; auto). subst. inversion Hnf as [|? ? Hx' _]; subst. apply Hx'. now left.
Qed.

Lemma count_le2 {A} (Q : A -> bool) (key : A -> bool) (l : list A) :
  NoDup l -> (forall x y, In x l -> In y l -> Q x = true -> Q y = true -> key x = key y -> x = y) ->
  List.length (filter Q l) <= 2.
Proof.
  intros Hn Hk. rewrite <- (map_length key). apply NoDup_bool_le2. apply NoDup_map_inj_on.
  - now apply NoDup_filter.
  - intros x y Hx Hy. apply filter_In in Hx as [Hx Qx]. apply filter_In in Hy as [Hy Qy]. now apply Hk.
Qed.

Lemma count_ge1 {A} (Q : A -> bool) (l : list A) : (exists x, In x l /\ Q x = true) -> 1 <= List.length (filter Q l).
Proof.
  intros (x & Hx & Qx). assert (Hf : In x (filter Q l)) by (apply filter_In; auto).
  destruct (filter Q l); [contradiction|cbn; lia].
Qed.

(* ---------------------------------------------------------------- signs and sides *)
Lemma dir_eqb_iff a b : dir_eqb a b = true <-> a = b.
Proof. destruct a, b; cbn; split; congruence. Qed.
Lemma in_side_to_dir d : in_side (to_dir d) = d.
Proof. now destruct d. Qed.
Lemma to_dir_in_side o : to_dir (in_side o) = o.
Proof. now destruct o. Qed.
Lemma out_side_is_right d : out_side (is_right d) = d.
Proof. now destruct d. Qed.
Lemma is_right_out_side o : is_right (out_side o) = o.
Proof. now destruct o. Qed.

Lemma end_eqb_iff pal x y : end_eqb pal x y = true <-> end_eq pal x y.
Proof.
  unfold end_eqb, end_eq. rewrite andb_true_iff, orb_true_iff, Nat.eqb_eq, dir_eqb_iff. tauto.
Qed.
Lemma adj_eqb_iff pal p q : adj_eqb pal p q = true <-> adj_eq pal p q.
Proof. unfold adj_eqb, adj_eq. rewrite orb_true_iff, !andb_true_iff, !end_eqb_iff. tauto. Qed.

Lemma denote_inj (l1 l2 : lline) : denote l1 = denote l2 -> overlap l1 = overlap l2 -> l1 = l2.
Proof.
  destruct l1 as [[[[u1 o1] v1] p1] n1], l2 as [[[[u2 o2] v2] p2] n2]. unfold denote, overlap. cbn [snd].
  intros E En. inversion E as [[Eu Eo Ev Ep]]. subst.
  destruct o1, o2; try discriminate; destruct p1, p2; try discriminate; reflexivity.
Qed.

(* ---------------------------------------------------------------- the link writer on an edge table *)
Section Tab.
Variable K : nat.

(* the condition under which the end (x,a) writes its link to (y,b) *)
Definition emit (a : dir) (x y : nat) (b : dir) : Prop :=
  match a with
  | DLeft => x <= y
  | DRight => x < y \/ (y = x /\ b = DRight)
  end.

Lemma in_l_lines id es l :
  In l (l_lines_of K id es) <-> exists e, In e es /\ id <= fst e /\ l = (id, false, fst e, to_dir (snd e), K - 1).
Proof.
  unfold l_lines_of. rewrite in_flat_map. split; intros (e & He & H); exists e; (split; [exact He|]).
  - destruct (id <=? fst e) eqn:C; [|contradiction]. apply Nat.leb_le in C. destruct H as [<-|[]]. auto.
  - destruct H as [C ->]. apply Nat.leb_le in C. rewrite C. now left.
Qed.

Lemma in_r_lines id es l :
  In l (r_lines_of K id es) <->
  exists e, In e es /\ (id < fst e \/ (fst e = id /\ snd e = DRight)) /\ l = (id, true, fst e, to_dir (snd e), K - 1).
Proof.
  unfold r_lines_of. rewrite in_flat_map. split; intros (e & He & H); exists e; (split; [exact He|]).
  - destruct ((id <? fst e) || ((fst e =? id) && is_right (snd e))) eqn:C; [|contradiction].
    destruct H as [<-|[]]. split; [|reflexivity].
    apply orb_true_iff in C as [C|C]; [left; now apply Nat.ltb_lt|right].
    apply andb_true_iff in C as [C1 C2]. apply Nat.eqb_eq in C1. destruct (snd e); [discriminate|auto].
  - destruct H as [C ->].
    assert (Ht : (id <? fst e) || ((fst e =? id) && is_right (snd e)) = true).
    { apply orb_true_iff. destruct C as [C|[C1 C2]]; [left; now apply Nat.ltb_lt|right].
      rewrite C2. apply andb_true_iff. split; [now apply Nat.eqb_eq|reflexivity]. }
    rewrite Ht. now left.
Qed.

Lemma tab_edges_in_range (E : etab) x a e : In e (tab_edges E x a) -> x < List.length E.
Proof.
  unfold tab_edges. destruct (nth_error E x) eqn:H; [|contradiction]. intros _. apply nth_error_Some. congruence.
Qed.

Lemma in_links (E : etab) x o1 y o2 ov :
  In (x, o1, y, o2, ov) (links_of_tab K E) <->
  ov = K - 1 /\ In (y, in_side o2) (tab_edges E x (out_side o1)) /\ emit (out_side o1) x y (in_side o2).
Proof.
  unfold links_of_tab. rewrite in_flat_map. split.
  - intros (i & Hi & H). apply in_app_iff in H as [H|H].
    + apply in_l_lines in H as ([t d] & He & C & E0). cbn [fst snd] in *. inversion E0; subst.
      cbn [out_side]. rewrite in_side_to_dir. auto.
    + apply in_r_lines in H as ([t d] & He & C & E0). cbn [fst snd] in *. inversion E0; subst.
      cbn [out_side]. rewrite in_side_to_dir. unfold emit. intuition.
  - intros (-> & Hin & He). exists x. split.
    { apply in_seq. pose proof (tab_edges_in_range _ _ _ _ Hin). lia. }
    apply in_app_iff. destruct o1; cbn [out_side] in *.
    + right. apply in_r_lines. exists (y, in_side o2). cbn [fst snd]. rewrite to_dir_in_side. unfold emit in He. intuition.
    + left. apply in_l_lines. exists (y, in_side o2). cbn [fst snd]. rewrite to_dir_in_side. auto.
Qed.

Lemma links_nodup (E : etab) : (forall u a, NoDup (tab_edges E u a)) -> NoDup (links_of_tab K E).
Proof.
  intros Hd. unfold links_of_tab. apply NoDup_flat_map.
  - apply seq_NoDup.
  - intros i _. apply NoDup_app_intro.
    + unfold l_lines_of. apply NoDup_flat_map; [apply Hd| |].
      * intros e _. destruct (i <=? fst e); repeat constructor; auto.
      * intros [t1 d1] [t2 d2] b _ _ H1 H2. cbn [fst snd] in *.
        destruct (i <=? t1); [|contradiction]. destruct (i <=? t2); [|contradiction].
        destruct H1 as [<-|[]]. destruct H2 as [H2|[]]. inversion H2; subst. destruct d1, d2; try discriminate; reflexivity.
    + unfold r_lines_of. apply NoDup_flat_map; [apply Hd| |].
      * intros e _. destruct ((i <? fst e) || ((fst e =? i) && is_right (snd e))); repeat constructor; auto.
      * intros [t1 d1] [t2 d2] b _ _ H1 H2. cbn [fst snd] in *.
        destruct ((i <? t1) || ((t1 =? i) && is_right d1)); [|contradiction].
        destruct ((i <? t2) || ((t2 =? i) && is_right d2)); [|contradiction].
        destruct H1 as [<-|[]]. destruct H2 as [H2|[]]. inversion H2; subst. destruct d1, d2; try discriminate; reflexivity.
    + intros l H1 H2. apply in_l_lines in H1 as (e1 & _ & _ & ->). apply in_r_lines in H2 as (e2 & _ & _ & E0). discriminate.
  - intros i j l _ _ Hi Hj.
    assert (F : forall k, In l (l_lines_of K k (tab_edges E k DLeft) ++ r_lines_of K k (tab_edges E k DRight)) ->
                          fst (fst (fst (fst l))) = k).
    { intros k H. apply in_app_iff in H as [H|H].
      - apply in_l_lines in H as (e & _ & _ & ->). reflexivity.
      - apply in_r_lines in H as (e & _ & _ & ->). reflexivity. }
    rewrite <- (F i Hi). apply (F j Hj).
Qed.

Theorem links_sound (E : etab) l : In l (links_of_tab K E) -> link_sound K E l.
Proof.
  destruct l as [[[[x o1] y] o2] ov]. intros H. apply in_links in H as (H1 & H2 & _). unfold link_sound. auto.
Qed.

(* ---- exactly once *)
Section Once.
Variable pal : nat -> bool.
Variable E : etab.
Hypothesis Hsym : tab_symmetric pal E.
Hypothesis Hdis : tab_distinct pal E.
Hypothesis Hself : tab_pal_no_self pal E.

Lemma tab_nodup u a : NoDup (tab_edges E u a).
Proof. exact (NoDup_map_inv _ _ (Hdis u a)). Qed.

(* what it means for a written line to denote the adjacency {(u,a),(v,b)} *)
Lemma denotes_cases x o1 y o2 ov u a v b :
  adj_eqb pal (denote (x, o1, y, o2, ov)) ((u, a), (v, b)) = true ->
  (x = u /\ (out_side o1 = a \/ pal u = true) /\ y = v /\ (in_side o2 = b \/ pal v = true)) \/
  (x = v /\ (out_side o1 = b \/ pal v = true) /\ y = u /\ (in_side o2 = a \/ pal u = true)).
Proof.
  rewrite adj_eqb_iff. unfold adj_eq, end_eq, denote. cbn [fst snd].
  intros [[[-> H1] [-> H2]]|[[-> H1] [-> H2]]]; [left|right]; auto.
Qed.

Lemma exists_line u a v b : In (v, b) (tab_edges E u a) ->
  exists l, In l (links_of_tab K E) /\ adj_eqb pal (denote l) ((u, a), (v, b)) = true.
Proof.
  intros Hin. destruct (lt_eq_lt_dec u v) as [[Hlt|Heq]|Hgt].
  - exists (u, is_right a, v, to_dir b, K - 1). split.
    + apply in_links. rewrite out_side_is_right, in_side_to_dir. repeat split; auto.
      destruct a; cbn [emit]; lia.
    + apply adj_eqb_iff. left. unfold denote, end_eq. cbn [fst snd]. rewrite out_side_is_right, in_side_to_dir. auto.
  - subst v. destruct (pal u) eqn:P; [exfalso; exact (Hself u a b P Hin)|].
    destruct (Hsym u a u b Hin) as (a' & b' & [->|Ha] & [->|Hb] & Hrev); try congruence.
    destruct a.
    + exists (u, false, u, to_dir b, K - 1). split.
      * apply in_links. cbn [out_side]. rewrite in_side_to_dir. repeat split; auto. cbn [emit]. lia.
      * apply adj_eqb_iff. left. unfold denote, end_eq. cbn [fst snd out_side]. rewrite in_side_to_dir. auto.
    + destruct b.
      * exists (u, false, u, false, K - 1). split.
        -- apply in_links. cbn [out_side in_side]. repeat split; auto. cbn [emit]. lia.
        -- apply adj_eqb_iff. right. unfold denote, end_eq. cbn [fst snd out_side in_side]. auto.
      * exists (u, true, u, false, K - 1). split.
        -- apply in_links. cbn [out_side in_side]. repeat split; auto. cbn [emit]. auto.
        -- apply adj_eqb_iff. left. unfold denote, end_eq. cbn [fst snd out_side in_side]. auto.
  - destruct (Hsym u a v b Hin) as (a' & b' & Ha & Hb & Hrev).
    exists (v, is_right b', u, to_dir a', K - 1). split.
    + apply in_links. rewrite out_side_is_right, in_side_to_dir. repeat split; auto.
      destruct b'; cbn [emit]; lia.
    + apply adj_eqb_iff. right. unfold denote, end_eq. cbn [fst snd]. rewrite out_side_is_right, in_side_to_dir.
      intuition.
Qed.

Lemma emit_le a x y b : emit a x y b -> x <= y.
Proof. destruct a; cbn [emit]; lia. Qed.

Lemma emit_both a x y b : emit a x y b -> emit b y x a -> x = y /\ a = b.
Proof. destruct a, b; cbn [emit]; intros H1 H2; split; try reflexivity; try lia; exfalso; intuition (try discriminate; lia). Qed.

Theorem complete_once_links : complete_once pal E (links_of_tab K E).
Proof.
  intros u a v b Hin. unfold once_or_twice, count_denoting. cbn [fst].
  pose proof (links_nodup E tab_nodup) as Hnd.
  pose proof (exists_line u a v b Hin) as Hex.
  destruct (pal u || pal v) eqn:P.
  - split; [now apply count_ge1|].
    assert (Hne : u <> v).
    { intros ->. apply orb_true_iff in P. destruct P as [P|P]; exact (Hself v a b P Hin). }
    apply (count_le2 _ (fun l : lline => snd (fst (fst (fst l)))) _ Hnd).
    intros [[[[x1 p1] y1] q1] n1] [[[[x2 p2] y2] q2] n2] H1 H2 Q1 Q2 Ek. cbn [fst snd] in Ek. subst p2.
    apply in_links in H1 as (-> & I1 & M1). apply in_links in H2 as (-> & I2 & M2).
    apply emit_le in M1. apply emit_le in M2.
    apply denotes_cases in Q1. apply denotes_cases in Q2.
    (* both lines run from min(u,v) to max(u,v) *)
    assert (Hx : x1 = x2 /\ y1 = y2) by (destruct Q1 as [(-> & _ & -> & _)|(-> & _ & -> & _)], Q2 as [(-> & _ & -> & _)|(-> & _ & -> & _)]; lia).
    destruct Hx as [<- <-].
    assert (Eq : in_side q1 = in_side q2).
    { assert (Ee : (y1, in_side q1) = (y1, in_side q2)); [|now inversion Ee].
      apply (NoDup_map_in_inj (end_key pal) (tab_edges E x1 (out_side p1))); auto.
      unfold end_key. cbn [fst snd]. destruct (pal y1) eqn:Py; [reflexivity|]. f_equal.
      destruct Q1 as [(-> & _ & -> & [A1|A1])|(-> & _ & -> & [A1|A1])],
               Q2 as [(E1 & _ & E2 & [A2|A2])|(E1 & _ & E2 & [A2|A2])]; try congruence; try lia. }
    destruct q1, q2; try discriminate; reflexivity.
  - apply orb_false_iff in P as [Pu Pv].
    apply count_one; auto.
    intros [[[[x1 p1] y1] q1] n1] [[[[x2 p2] y2] q2] n2] H1 H2 Q1 Q2.
    apply in_links in H1 as (-> & I1 & M1). apply in_links in H2 as (-> & I2 & M2).
    apply denotes_cases in Q1. apply denotes_cases in Q2.
    apply denote_inj; [|reflexivity]. unfold denote.
    destruct Q1 as [(-> & [A1|A1] & -> & [B1|B1])|(-> & [A1|A1] & -> & [B1|B1])]; try congruence;
    destruct Q2 as [(-> & [A2|A2] & -> & [B2|B2])|(-> & [A2|A2] & -> & [B2|B2])]; try congruence;
    rewrite A1, B1, A2, B2 in *; try reflexivity.
    + (* (u,a)->(v,b) and (v,b)->(u,a) both written: a hairpin *)
      destruct (emit_both _ _ _ _ M1 M2) as [-> ->]. reflexivity.
    + destruct (emit_both _ _ _ _ M1 M2) as [-> ->]. reflexivity.
Qed.
End Once.
End Tab.
