(* C15: DnaStringSlice is an exact, composable view. *)
From Coq Require Import NArith ZArith List Bool Arith Lia ZifyNat ZifyBool.
From DBG Require Import Gen.SourceConsts Spec.Dna Packed.KmerModel Packed.Blocks Packed.DnaStringModel Packed.SliceModel Algo.SeqHist
  Proofs.ListFacts Proofs.DnaFacts Proofs.KmerLanes Proofs.BlockProofs Proofs.DnaStringProofs.
Import ListNotations.
Open Scope N_scope.

Lemma complement_spec b : b < 4 -> complement b = comp b.
Proof.
  intro H. assert (E : forallb (fun b => complement b =? comp b) [0; 1; 2; 3] = true) by (vm_compute; reflexivity).
  rewrite forallb_forall in E. apply N.eqb_eq. apply E. destruct b as [|[[p|p|]|[p|p|]|]]; cbn; auto; lia.
Qed.

Definition sl_ok (len : nat) (s : slc) : Prop := (s_start s + s_length s <= len)%nat.

Lemma sl_view_length l s : sl_ok (length l) s -> length (sl_view l s) = s_length s.
Proof. intro H. unfold sl_view. destruct (s_rc s); rewrite ?rc_length; apply sub_length; exact H. Qed.

Section Slice.
Variable d : dstr.
Hypothesis Hinv : d_inv d.
Let l := d_abs d.
Let Hlen : length l = d_len d := d_abs_length d Hinv.

Theorem sl_get_spec s i : sl_ok (d_len d) s -> (i < s_length s)%nat ->
  sl_get d s i = Some (nth i (sl_view l s) 0).
Proof.
  intros Hok Hi. unfold sl_ok in Hok. unfold sl_get, sl_view. destruct (s_rc s).
  - unfold subn. destruct (Nat.leb_spec 1 (s_start s + s_length s)) as [_|?]; [|lia]. cbn [obind].
    destruct (Nat.leb_spec i (s_start s + s_length s - 1)) as [_|?]; [|lia]. cbn [obind].
    rewrite (d_get_spec d Hinv) by lia. cbn [obind]. f_equal.
    assert (Hb : nth (s_start s + s_length s - 1 - i) (d_abs d) 0 < 4).
    { pose proof (d_abs_wf d) as Hw. unfold wf_dna in Hw. rewrite Forall_forall in Hw. apply Hw. apply nth_In. fold l. lia. }
    rewrite complement_spec by exact Hb.
    rewrite rc_nth by (rewrite sub_length; fold l; lia). rewrite sub_length by (fold l; lia).
    rewrite nth_sub by lia. f_equal. f_equal. lia.
  - rewrite (d_get_spec d Hinv) by lia. f_equal. rewrite nth_sub by lia. f_equal. lia.
Qed.

Theorem sl_bytes_spec s : sl_ok (d_len d) s -> sl_bytes d s = Some (sl_view l s).
Proof.
  intro Hok. unfold sl_bytes.
  assert (G : forall idx, Forall (fun i => (i < s_length s)%nat) idx ->
              omapN (sl_get d s) idx = Some (map (fun i => nth i (sl_view l s) 0) idx)).
  { induction idx as [|i idx IH]; intro H; [reflexivity|]. inversion H; subst. cbn [omapN map].
    rewrite sl_get_spec by assumption. cbn [obind]. rewrite IH by assumption. reflexivity. }
  rewrite G.
  - f_equal. rewrite <- (sl_view_length l s) at 1 by (unfold sl_ok in *; lia). apply map_nth_seq.
  - apply Forall_forall. intros i Hi. apply in_seq in Hi. lia.
Qed.

Lemma sl_view_wf s : wf_dna (sl_view l s).
Proof.
  unfold sl_view. destruct (s_rc s); [apply rc_wf|]. unfold sub. apply Forall_forall. intros b Hb.
  apply in_firstn, in_skipn in Hb. pose proof (d_abs_wf d) as Hw. unfold wf_dna in Hw. rewrite Forall_forall in Hw. auto.
Qed.

Lemma bits_to_ascii_char b : b < 4 -> bits_to_ascii b = base_char b.
Proof.
  intro H. assert (E : forallb (fun b => bits_to_ascii b =? base_char b) [0; 1; 2; 3] = true) by (vm_compute; reflexivity).
  rewrite forallb_forall in E. apply N.eqb_eq. apply E. destruct b as [|[[p|p|]|[p|p|]|]]; cbn; auto; lia.
Qed.
Lemma bits_to_base_char' b : b < 4 -> bits_to_base b = base_char b.
Proof.
  intro H. assert (E : forallb (fun b => bits_to_base b =? base_char b) [0; 1; 2; 3] = true) by (vm_compute; reflexivity).
  rewrite forallb_forall in E. apply N.eqb_eq. apply E. destruct b as [|[[p|p|]|[p|p|]|]]; cbn; auto; lia.
Qed.

(* renderings: bytes, ascii, text (to_dna_string / Display), Debug (< 256 bases), to_owned *)
Theorem sl_render_spec s : sl_ok (d_len d) s ->
  sl_ascii d s = Some (text (sl_view l s)) /\ sl_text d s = Some (text (sl_view l s)) /\
  ((s_length s < 256)%nat -> sl_debug d s = Some (text (sl_view l s))) /\
  exists o, sl_to_owned d s = Some o /\ d_inv o /\ d_abs o = sl_view l s.
Proof.
  intro Hok. pose proof (sl_view_wf s) as Hw. unfold sl_ascii, sl_text, sl_debug, sl_to_owned.
  rewrite (sl_bytes_spec s Hok). cbn [obind].
  assert (Ha : map bits_to_ascii (sl_view l s) = text (sl_view l s)).
  { apply map_ext_in. intros b Hb. apply bits_to_ascii_char. unfold wf_dna in Hw. rewrite Forall_forall in Hw. auto. }
  assert (Ht : map bits_to_base (sl_view l s) = text (sl_view l s)).
  { apply map_ext_in. intros b Hb. apply bits_to_base_char'. unfold wf_dna in Hw. rewrite Forall_forall in Hw. auto. }
  rewrite Ha, Ht. split; [reflexivity|]. split; [reflexivity|]. split.
  - intro H256. destruct (Nat.ltb_spec (s_length s) 256); [|lia]. unfold sl_text. rewrite (sl_bytes_spec s Hok). cbn [obind]. now rewrite Ht.
  - destruct (d_push_all_spec (sl_view l s) d_new d_inv_new) as [o [E [I A]]].
    { unfold wf_dna in Hw. rewrite Forall_forall in *. intros b Hb. specialize (Hw b Hb). lia. }
    exists o. split; [exact E|]. split; [exact I|]. rewrite A. cbn [d_abs d_new d_len firstn app]. now apply map_mod4_id.
Qed.
End Slice.

(* ---------------------------------------------------------------- composition of slice / rc *)
Lemma sub_sub {A} a n st len (l : list A) : (a + n <= len)%nat -> sub a n (sub st len l) = sub (st + a) n l.
Proof.
  intro H. unfold sub. rewrite skipn_firstn_comm. rewrite firstn_firstn. rewrite skipn_skipn.
  f_equal. lia.
Qed.

Lemma sl_first_refines dlen (l : dna) o s : length l = dlen ->
  sl_first {| d_sto := []; d_len := dlen |} o = Some s -> sl_ok dlen s /\ sl_view l s = sview_step l o.
Proof.
  intros Hl H. destruct o as [a b| |k|k]; unfold sl_first, d_slice, d_prefix, d_suffix in H; cbn [d_len] in H; try discriminate.
  - revert H. unfold subn. destruct (Nat.leb_spec a dlen), (Nat.leb_spec b dlen), (Nat.leb_spec a b); cbn [andb obind]; intro HH; try discriminate.
    injection HH as <-.
    unfold sl_ok, sl_view. cbn. split; [lia | reflexivity].
  - revert H. destruct (Nat.leb_spec k dlen); intro HH; try discriminate. injection HH as <-. unfold sl_ok, sl_view, sub. cbn. split; [lia | reflexivity].
  - revert H. destruct (Nat.leb_spec k dlen); intro HH; try discriminate. injection HH as <-. unfold sl_ok, sl_view, sub. cbn [s_start s_length s_rc sview_step].
    split; [lia|]. rewrite Hl. apply firstn_all2. rewrite skipn_length. lia.
Qed.

Definition nested_op (o : sop) : bool := match o with SSlice _ _ | SRc => true | _ => false end.

Lemma sl_step_refines (l : dna) s o s' : wf_dna l -> sl_ok (length l) s -> nested_op o = true -> sl_step s o = Some s' ->
  sl_ok (length l) s' /\ sl_view l s' = sview_step (sl_view l s) o.
Proof.
  intros Hw Hok Hn H. unfold sl_ok in Hok.
  destruct o as [a b| |k|k]; cbn [sl_step sview_step nested_op] in *; try discriminate.
  - unfold sl_slice in H. revert H.
    destruct (Nat.leb_spec a (s_length s)), (Nat.leb_spec b (s_length s)), (Nat.leb_spec a b); cbn [andb]; intro HH; try discriminate.
    unfold sl_view. destruct (s_rc s) eqn:Erc.
    + revert HH. unfold subn. destruct (Nat.leb_spec b (s_start s + s_length s)); [|lia]. cbn [obind]. intro HH. injection HH as <-.
      cbn [s_start s_length s_rc]. unfold sl_ok. cbn [s_start s_length]. split; [lia|].
      change (sub a (b - a) (rc (sub (s_start s) (s_length s) l))) with (kmer_at (b - a) (rc (sub (s_start s) (s_length s) l)) a).
      rewrite kmer_at_rc by (rewrite sub_length; lia). rewrite sub_length by lia. unfold kmer_at.
      rewrite sub_sub by lia. f_equal. f_equal. lia.
    + injection HH as <-. cbn [s_start s_length s_rc]. unfold sl_ok. cbn [s_start s_length]. split; [lia|].
      rewrite sub_sub by lia. reflexivity.
  - injection H as <-. unfold sl_rc, sl_ok, sl_view. cbn [s_start s_length s_rc]. split; [lia|].
    destruct (s_rc s); cbn [negb]; [|reflexivity].
    symmetry. apply rc_involutive. unfold sub. apply Forall_forall. intros x Hx. apply in_firstn, in_skipn in Hx.
    unfold wf_dna in Hw. rewrite Forall_forall in Hw. auto.
Qed.

(* a guarded nested step never panics *)
Lemma sl_step_total s o : nested_op o = true ->
  (match o with SSlice a b => (a <= b)%nat /\ (b <= s_length s)%nat | _ => True end) ->
  exists s', sl_step s o = Some s'.
Proof.
  intros Hn Hg. destruct o as [a b| |k|k]; cbn [nested_op] in Hn; try discriminate; cbn [sl_step].
  - destruct Hg as [H1 H2]. unfold sl_slice.
    destruct (Nat.leb_spec a (s_length s)), (Nat.leb_spec b (s_length s)), (Nat.leb_spec a b); try lia. cbn [andb].
    destruct (s_rc s); [|eauto]. unfold subn. destruct (Nat.leb_spec b (s_start s + s_length s)); [|lia]. cbn [obind]. eauto.
  - eauto.
Qed.

Lemma sl_steps_refines (l : dna) ops : wf_dna l -> forall s s', sl_ok (length l) s -> forallb nested_op ops = true ->
  sl_steps s ops = Some s' -> sl_ok (length l) s' /\ sl_view l s' = fold_left sview_step ops (sl_view l s).
Proof.
  intro Hw. induction ops as [|o ops IH]; intros s s' Hok Hn H.
  - injection H as <-. auto.
  - cbn [forallb] in Hn. apply andb_prop in Hn as [Ho Hr]. cbn [sl_steps] in H.
    destruct (sl_step s o) as [s1|] eqn:E1; [|discriminate].
    destruct (sl_step_refines l s o s1 Hw Hok Ho E1) as [Ok1 V1].
    destruct (IH s1 s' Ok1 Hr H) as [Ok2 V2]. split; [exact Ok2|]. cbn [fold_left]. now rewrite V2, V1.
Qed.

(* Any chain prefix/suffix/slice followed by any interleaving of slice and rc denotes exactly the corresponding
   sub-list (reverse-complemented when so flagged) of the plain base vector. *)
Theorem sl_hist_refines d ops s : d_inv d -> forallb nested_op (tl ops) = true -> sl_hist d ops = Some s ->
  sl_ok (d_len d) s /\ sl_view (d_abs d) s = sview (d_abs d) ops.
Proof.
  intros Hinv Hn H. pose proof (d_abs_length d Hinv) as Hl. pose proof (d_abs_wf d) as Hw.
  destruct ops as [|o ops]; [discriminate|]. cbn [sl_hist tl] in *.
  destruct (sl_first d o) as [s0|] eqn:E0; [|discriminate].
  assert (E0' : sl_first {| d_sto := []; d_len := d_len d |} o = Some s0).
  { destruct o; unfold sl_first, d_slice, d_prefix, d_suffix in *; cbn [d_len] in *; exact E0. }
  destruct (sl_first_refines (d_len d) (d_abs d) o s0 Hl E0') as [Ok0 V0].
  rewrite <- Hl in Ok0. destruct (sl_steps_refines (d_abs d) ops Hw s0 s Ok0 Hn H) as [Ok V].
  rewrite Hl in Ok. split; [exact Ok|]. unfold sview. cbn [fold_left]. now rewrite V, V0.
Qed.

(* == on slices compares the views *)
Theorem sl_eq_spec d1 s1 d2 s2 : d_inv d1 -> d_inv d2 -> sl_ok (d_len d1) s1 -> sl_ok (d_len d2) s2 ->
  sl_eq d1 s1 d2 s2 = Some (dna_eqb (sl_view (d_abs d1) s1) (sl_view (d_abs d2) s2)).
Proof.
  intros I1 I2 O1 O2. unfold sl_eq. destruct (Nat.eqb_spec (s_length s2) (s_length s1)) as [E|E]; cbn [negb].
  - rewrite (sl_bytes_spec d1 I1 s1 O1), (sl_bytes_spec d2 I2 s2 O2). reflexivity.
  - f_equal. symmetry. destruct (dna_eqb _ _) eqn:Eq; [|reflexivity]. apply dna_eqb_eq in Eq.
    apply (f_equal (@length N)) in Eq. rewrite !sl_view_length in Eq by (rewrite d_abs_length; assumption). lia.
Qed.
