(* C09, k-mer level: the k-mers of compress_graph's result are exactly the k-mers of the non-censored input nodes
   (canonical forms when unstranded), as multisets - hence each exactly once when the input graph has each of its
   k-mers once.  Composition of the node partition (RecompressProofs.recompress_partition), the spelling of result
   nodes (recompress_nodes: n_seq = sequence_of_path of the node path) and C03's path_spelling (WalkProofs): a node
   path of compress_graph is a valid walk of the restricted graph in C03's sense. *)
From Coq Require Import NArith List Bool Arith Lia Permutation.
From DBG Require Import Spec.Dna Spec.GraphIndex Packed.ExtsModel Algo.Compress Algo.GraphModel Algo.Recompress
  Spec.EdgeSpec Check.RecompCheck Proofs.ListFacts Proofs.DnaFacts Proofs.AbstractWalk Proofs.RecompSweeps
  Proofs.RecompressProofs Proofs.GraphQueryProofs Proofs.WalkProofs.
Import ListNotations.
Local Open Scope nat_scope.

(* ---- k-mers of the reverse complement ------------------------------------------------------------------- *)
Lemma kmers_rc K (s : dna) : kmers K (rc s) = rev (map rc (kmers K s)).
Proof.
  unfold kmers. rewrite rc_length. set (m := length s + 1 - K). rewrite map_map.
  apply (nth_ext _ _ [] []).
  - now rewrite rev_length, !map_length.
  - intros i Hi. rewrite map_length, seq_length in Hi.
    rewrite (nth_indep _ [] (kmer_at K (rc s) 0)) by (rewrite map_length, seq_length; exact Hi).
    rewrite map_nth, seq_nth by exact Hi. cbn [plus].
    rewrite rev_nth by (rewrite map_length, seq_length; exact Hi). rewrite map_length, seq_length.
    rewrite (nth_indep _ [] ((fun x => rc (kmer_at K s x)) 0)) by (rewrite map_length, seq_length; lia).
    rewrite (map_nth (fun x => rc (kmer_at K s x))). rewrite seq_nth by lia. cbn [plus].
    rewrite kmer_at_rc by (unfold m in Hi; lia). f_equal. f_equal. unfold m in *. lia.
Qed.

Lemma wf_kmers K (s : dna) k : wf_dna s -> In k (kmers K s) -> wf_dna k.
Proof.
  intros W H. unfold kmers in H. apply in_map_iff in H as [i [<- _]]. unfold kmer_at, sub.
  apply Forall_forall. intros x Hx. apply in_firstn, in_skipn in Hx. unfold wf_dna in W. rewrite Forall_forall in W. auto.
Qed.

Section RK.
Variable D : Type.
Variable reduce : D -> D -> D.
Variable join : D -> D -> bool.
Variable K : nat.
Variable stranded : bool.
Hypothesis join_sym : forall a b, join a b = join b a.
Local Notation graph := (graph D).
Local Notation gnode := (gnode D).

(* the canonical k-mers of a node read in either orientation *)
Lemma ck9_rc_perm (s : dna) : wf_dna s -> stranded = false ->
  Permutation (map (ck9 stranded) (kmers K (rc s))) (map (ck9 stranded) (kmers K s)).
Proof.
  intros W ->. rewrite kmers_rc, map_rev.
  eapply Permutation_trans; [apply Permutation_sym, Permutation_rev|].
  rewrite map_map. apply Permutation_refl'. apply map_ext_in. intros k Hk. unfold ck9. apply canon_rc.
  now apply (wf_kmers K s).
Qed.

(* ---- a node path of compress_graph is a valid walk in C03's sense --------------------------------------- *)
Lemma winv_wf_graph (g : graph) S : winv D K stranded g S -> (forall x, In x S -> x < length g) ->
  g <> [] -> wf_graph D K g.
Proof.
  intros W _ Hne. pose proof (wi_ok _ _ _ _ _ W) as Hok. rewrite Forall_forall in Hok. split.
  - destruct g as [|n g]; [congruence|]. destruct (Hok n (or_introl eq_refl)) as (_ & H & _). lia.
  - intros n Hn. destruct (Hok n Hn) as (Hw & H & _). split; [lia | exact Hw].
Qed.

Lemma opt_nd_eqb_eq a b : opt_nd_eqb a (Some b) = true -> a = Some b.
Proof.
  destruct a as [[x d]|]; destruct b as [y e]; cbn; [|discriminate]. intro H. apply andb_prop in H as [H1 H2].
  apply Nat.eqb_eq in H1. subst. destruct d, e; cbn in H2; congruence.
Qed.

Lemma rstep_step (g : graph) S a b : winv D K stranded g S ->
  RecompCheck.step_ok D join K stranded g a b = true -> EdgeSpec.step_ok D K stranded g a b.
Proof.
  intros W H. unfold RecompCheck.step_ok in H. apply andb_prop in H as [H _]. apply andb_prop in H as [H _].
  apply opt_nd_eqb_eq in H. destruct b as [y t]. cbn [fst snd] in *.
  destruct (rnext_inv D join K stranded g _ _ _ _ H) as (n & c & f & m & Hn & Hnum & _ & Hu & Hf & Hm & _).
  assert (He : (n_exts D n < 256)%N) by (apply (node_ok_nth D K g (fst a) n (wi_ok _ _ _ _ _ W) Hn)).
  destruct (unique_ext_spec _ _ He Hnum) as (c' & Hc' & Hu' & Hh & _).
  assert (c' = c) by congruence. subst c'.
  exists (dflip (snd a)), t, f. split; [|split; now left].
  apply in_edges_of. split; [apply nth_error_Some; congruence|].
  exists c. unfold EdgeSpec.node_exts, EdgeSpec.node_seq. rewrite Hn. split; [exact Hc'|]. split; [exact Hh | exact Hf].
Qed.

Lemma Linked_valid_walk (g : graph) S p : winv D K stranded g S ->
  (forall x, In x p -> fst x < length g) -> Linked D join K stranded g p -> valid_walk D K stranded g p.
Proof.
  intros W Hid L. split; [exact Hid|]. clear Hid. induction p as [|a p IH]; [exact I|].
  destruct p as [|b p].
  - cbn. auto.
  - apply (Linked_cons2 D join K stranded) in L as [H L]. split; [|exact (IH L)].
    now apply (rstep_step g S).
Qed.

(* in a stranded graph a node path never changes strand *)
Lemma rstep_stranded (g : graph) a b : stranded = true ->
  RecompCheck.step_ok D join K stranded g a b = true -> snd b = snd a.
Proof.
  intros St H. unfold RecompCheck.step_ok in H. apply andb_prop in H as [H _]. apply andb_prop in H as [H _].
  apply opt_nd_eqb_eq in H. destruct b as [y t]. cbn [fst snd] in *.
  destruct (rnext_inv D join K stranded g _ _ _ _ H) as (n & c & f & m & _ & _ & _ & _ & Hf & _).
  destruct (find_link_end D K stranded g _ _ _ _ _ Hf) as (_ & _ & _ & Hc & Hs).
  destruct f; [specialize (Hs eq_refl); congruence|].
  destruct (snd a), t; cbn in Hc; tauto.
Qed.
Lemma Linked_stranded (g : graph) p : stranded = true -> Linked D join K stranded g p ->
  forall x y, In x p -> In y p -> snd x = snd y.
Proof.
  intros St. induction p as [|a p IH]; intros L x y Hx Hy; [destruct Hx|].
  destruct p as [|b p].
  - destruct Hx as [<-|[]], Hy as [<-|[]]. reflexivity.
  - apply (Linked_cons2 D join K stranded) in L as [H L]. pose proof (rstep_stranded g a b St H) as E.
    assert (Hb : forall z, In z (b :: p) -> snd z = snd a).
    { intros z Hz. rewrite <- E. apply (IH L); [exact Hz | now left]. }
    destruct Hx as [<-|Hx], Hy as [<-|Hy]; [reflexivity | symmetry; auto | auto |].
    rewrite (Hb x Hx), (Hb y Hy). reflexivity.
Qed.

(* ---- canonical k-mers of a node by id ----------------------------------------------------------------------- *)
Definition nk (g : graph) (i : nat) : list dna :=
  match nth_error g i with Some n => node_kmers D K stranded n | None => [] end.

Lemma oseq_nk (g : graph) S x : winv D K stranded g S -> fst x < length g ->
  (stranded = true -> snd x = DLeft) ->
  Permutation (map (ck9 stranded) (kmers K (oseq D g x))) (nk g (fst x)).
Proof.
  intros W Hx Hs. unfold nk, EdgeSpec.oseq, EdgeSpec.node_seq.
  destruct (nth_error g (fst x)) as [n|] eqn:E; [|apply nth_error_None in E; lia].
  unfold node_kmers. destruct (snd x).
  - apply Permutation_refl.
  - assert (St : stranded = false) by (destruct stranded; [specialize (Hs eq_refl); discriminate | reflexivity]).
    apply ck9_rc_perm; [|exact St]. apply (node_ok_nth D K g (fst x) n (wi_ok _ _ _ _ _ W) E).
Qed.

Lemma walk_nk (g : graph) S p : winv D K stranded g S -> (forall x, In x p -> fst x < length g) ->
  (stranded = true -> forall x, In x p -> snd x = DLeft) ->
  Permutation (map (ck9 stranded) (walk_kmers D K g p)) (concat (map (nk g) (map fst p))).
Proof.
  intros W. unfold walk_kmers. induction p as [|x p IH]; intros Hid Hs; [apply Permutation_refl|].
  cbn [flat_map map concat]. rewrite map_app. apply Permutation_app.
  - apply (oseq_nk g S); auto. + apply Hid. now left. + intro St. apply (Hs St). now left.
  - apply IH. + intros y Hy. apply Hid. now right. + intros St y Hy. apply (Hs St). now right.
Qed.

(* a result node: its canonical k-mers are those of the nodes of its path *)
Lemma node_of_path_kmers (g1 : graph) S n p : winv D K stranded g1 S ->
  node_of_path D reduce join K stranded g1 n p -> (forall x, In x (map fst p) -> x < length g1) ->
  Permutation (node_kmers D K stranded n) (concat (map (nk g1) (map fst p))).
Proof.
  intros W (lp & seed & rp & n0 & Hp & (Hseq & _) & HL & _ & Hs & _) Hid.
  assert (Hid' : forall x, In x p -> fst x < length g1) by (intros x Hx; apply Hid; now apply in_map).
  assert (Hne : g1 <> []).
  { intro E. subst g1. specialize (Hid' (seed, DLeft)). cbn in Hid'. rewrite Hp in Hid'. unfold assemble in Hid'.
    specialize (Hid' ltac:(apply in_or_app; right; now left)). lia. }
  pose proof (winv_wf_graph g1 S W (wi_S _ _ _ _ _ W) Hne) as Wf.
  pose proof (Linked_valid_walk g1 S p W Hid' HL) as Vw.
  destruct (path_spelling D K stranded g1 p Wf Vw) as (s & Hsp & Hk).
  rewrite <- Hp in Hseq. rewrite Hseq in Hsp. injection Hsp as <-.
  unfold node_kmers. rewrite Hs, Hk. apply (walk_nk g1 S); auto.
  intros St x Hx. rewrite (Linked_stranded g1 p St HL x (seed, DLeft) Hx); [reflexivity|].
  rewrite Hp. unfold assemble. apply in_or_app. right. now left.
Qed.

Lemma Forall2_concat_perm {A B C} (f : A -> list C) (h : B -> list C) l l' :
  Forall2 (fun a b => Permutation (f a) (h b)) l l' -> Permutation (concat (map f l)) (concat (map h l')).
Proof. induction 1; cbn; [apply Permutation_refl | now apply Permutation_app]. Qed.

Lemma concat_map_concat {A B} (f : A -> list B) (ll : list (list A)) :
  concat (map (fun l => concat (map f l)) ll) = concat (map f (concat ll)).
Proof. induction ll as [|l ll IH]; [reflexivity|]. cbn. rewrite IH, map_app, concat_app. reflexivity. Qed.

Lemma perm_concat_map {A B} (f : A -> list B) l l' : Permutation l l' -> Permutation (concat (map f l)) (concat (map f l')).
Proof. intro P. rewrite <- !flat_map_concat_map. now apply Permutation_flat_map. Qed.

Lemma Forall2_impl_in {A B} (P Q : A -> B -> Prop) l l' :
  Forall2 P l l' -> (forall a b, In a l -> In b l' -> P a b -> Q a b) -> Forall2 Q l l'.
Proof.
  induction 1 as [|a b l l' H H2 IH]; intro Hi; constructor.
  - apply Hi; [now left | now left | exact H].
  - apply IH. intros a' b' Ha Hb. apply Hi; now right.
Qed.

(* ---- the k-mer clause of C09 ---------------------------------------------------------------------------------- *)
Theorem recompress_kmers_perm (g : graph) censor out paths :
  rvalid D K stranded g -> compress_graph_paths D reduce join K stranded g censor = Some (out, paths) ->
  Permutation (graph_kmers D K stranded out) (surv_kmers D K stranded g (survivors D g censor)).
Proof.
  intros V H.
  destruct (recompress_partition D reduce join K stranded join_sym g censor out paths V H) as (Hlen & Hnd & Hin).
  destruct (recompress_nodes D reduce join K stranded join_sym g censor out paths V H) as (g1 & Hg1 & HF).
  assert (HS : forall x, In x (survivors D g censor) -> x < length g).
  { intros x Hx. apply (survivors_spec D) in Hx. tauto. }
  pose proof (restrict_winv D K stranded g g1 _ V HS Hg1) as W.
  assert (Hl1 : length g1 = length g).
  { unfold restrict in Hg1. destruct (fix_exts_spec D K stranded g (Some (survivors D g censor))) as (g' & Hg' & Hl & _).
    congruence. }
  unfold graph_kmers.
  eapply Permutation_trans.
  { apply (Forall2_concat_perm (node_kmers D K stranded) (fun p => concat (map (nk g1) (map fst p))) out paths).
    eapply Forall2_impl_in; [exact HF|]. intros n p _ Hp Hnp. cbv beta. apply (node_of_path_kmers g1 _ n p W Hnp).
    intros x Hx. rewrite Hl1. apply (Hin x). apply in_concat. exists (map fst p). split; [now apply in_map | exact Hx]. }
  rewrite <- (map_map (map fst) (fun l => concat (map (nk g1) l))).
  rewrite concat_map_concat. unfold surv_kmers.
  assert (Pm : Permutation (concat (map (map fst) paths)) (survivors D g censor)).
  { apply NoDup_Permutation; [exact Hnd | apply (survivors_nodup D) |]. intro x. rewrite (Hin x).
    symmetry. apply (survivors_spec D). }
  eapply Permutation_trans; [apply perm_concat_map; exact Pm|].
  apply Permutation_refl'. f_equal. apply map_ext. intro i. unfold nk.
  destruct (nth_error g1 i) as [n1|] eqn:E1.
  - destruct (restrict_nth D K stranded g g1 _ i n1 Hg1 E1) as (n & Hn & Hs & _). rewrite Hn.
    unfold node_kmers. now rewrite Hs.
  - apply nth_error_None in E1. rewrite Hl1 in E1. apply nth_error_None in E1. now rewrite E1.
Qed.

(* each k-mer exactly once, as soon as the surviving input nodes have each of their k-mers once *)
Theorem recompress_kmers_exact (g : graph) censor out paths :
  rvalid D K stranded g -> compress_graph_paths D reduce join K stranded g censor = Some (out, paths) ->
  Permutation (graph_kmers D K stranded out) (surv_kmers D K stranded g (survivors D g censor)) /\
  (NoDup (surv_kmers D K stranded g (survivors D g censor)) -> kmers_exact D K stranded g censor out).
Proof.
  intros V H. pose proof (recompress_kmers_perm g censor out paths V H) as P. split; [exact P|].
  intro Nd. split; [exact P|]. eapply Permutation_NoDup; [apply Permutation_sym; exact P | exact Nd].
Qed.
End RK.
