(* C09, outputs of compress_graph (work package outmax), part 6: compress_graph applied to what compress_kmers returns.
   The graphs compress_kmers builds (C01's hypotheses on the table, extensions towards absent k-mers allowed) are loosely
   valid and have C03's [ends_ok], hence [cross_ok]: with any censor list, for a congruent spec, the result of compress_graph
   on them has no mergeable pair, is valid, passes the crate's is_compressed test and is a fixed point. *)
From Coq Require Import NArith List Bool Arith Lia.
From DBG Require Import Spec.Dna Spec.GraphIndex Spec.CompressSpec Packed.ExtsModel Algo.Compress Algo.GraphModel Algo.Recompress
  Algo.IsCompressed Spec.EdgeSpec Check.RecompCheck Check.RecompLooseCheck Proofs.CompressGraphOk
  Proofs.RecompLooseMain Proofs.RecompLooseGraphOk Proofs.RecompOut Proofs.RecompOutEnds Proofs.RecompOutMain.
Import ListNotations.
Local Open Scope nat_scope.

Theorem compress_kmers_graph_outputs D reduce join K stranded : 1 <= K -> congruent D reduce join -> forall T : table D,
  tbl_ok D K stranded T -> CompressSpec.exts_sym D stranded T -> exts_sym_pal D stranded T ->
  exists nodes, compress_kmers D reduce join stranded T = Some nodes /\
    forall censor, exists out paths,
      compress_graph_paths D reduce join K stranded nodes censor = Some (out, paths) /\
      RecompCheck.out_maximal D join K stranded out /\ rvalid D K stranded out /\ ends_ok D K stranded out /\
      is_compressed D join K stranded out = None /\
      compress_graph D reduce join K stranded out None = Some out.
Proof.
  intros HK C T Hok Hsym Hpal.
  destruct (compress_kmers_rvalid_loose D reduce join K stranded HK T Hok Hsym Hpal) as (nodes & Hc & (_ & E & _) & V).
  exists nodes. split; [exact Hc|]. intro censor.
  destruct (recompress_total_loose D reduce join K stranded (congruent_sym D reduce join C) nodes censor V) as (out & paths & H).
  exists out, paths. split; [exact H|].
  assert (X : cross_ok D K stranded nodes (survivors D nodes censor)) by now apply ends_ok_cross_ok.
  split; [exact (recompress_output_no_pair D reduce join K stranded C nodes censor out paths V X H)|].
  split; [exact (proj1 (recompress_out_rvalid D reduce join K stranded C nodes censor out paths V X H))|].
  split; [exact (proj2 (recompress_out_rvalid D reduce join K stranded C nodes censor out paths V X H))|].
  split; [exact (is_compressed_none D reduce join K stranded C nodes censor out paths V X H)|].
  exact (recompress_twice D reduce join K stranded C nodes censor out paths V X H).
Qed.
