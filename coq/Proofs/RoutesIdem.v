(* routes (2): the graph compress_kmers builds is a FIXED POINT of compress_graph (no censoring).
   [compress_kmers_rvalid]  C03 valid_graph + C01 node facts => C09's rvalid (all extensions resolve when the table's do).
   [rnext_self]             node-level mergeability of the graph (the static conditions of try_extend_node) is lifted to
                            k-mer-level mergeability of the table: a node end with a sole extension, whose target is the
                            end of a node with a sole return extension, no palindrome, join on the NODE payloads, is a
                            mergeable link of the table between the two END K-MERS (Spec/Unitig.v) - the node payload
                            carries the colour of every k-mer of the node when the join predicate looks at colours -, so by
                            C02 (no mergeable pair across nodes) the two k-mers lie in the same node: the target node is
                            the node itself.
   [compress_kmers_fixed]   hence C09_recompress_idempotent applies: same nodes, order, orientation, bytes, payloads.
   The payload type is the pipeline's (colour, ids); for an arbitrary reduction / join predicate the statement is false
   (join on reduced payloads may accept what join on the end k-mers' payloads refused). *)
From Coq Require Import NArith List Bool Arith Lia Permutation.
From DBG Require Import Proofs.AbstractWalk.
From DBG Require Import Spec.Dna Spec.GraphIndex Spec.Unitig Spec.CompressSpec Packed.ExtsModel Algo.Compress
  Algo.KmerHist Algo.GraphModel Algo.Recompress Spec.EdgeSpec Check.RecompCheck Check.GraphCheck Check.PipelineCheck
  Proofs.ListFacts Proofs.DnaFacts Proofs.KmerAlgebra Proofs.ExtsProofs Proofs.ExtsWalk
  Proofs.CompressBasics Proofs.CompressRefine Proofs.CompressWalk Proofs.CompressProofs Proofs.CompressGraphOk
  Proofs.CompressValid Proofs.UnitigProofs Proofs.GraphQueryProofs Proofs.PipelineCheckProofs Proofs.UnitigUnique
  Proofs.RecompCheckProofs Proofs.RecompressProofs Proofs.RecompIdem Proofs.RecompLooseGraphOk
  Proofs.E2eDefs Proofs.E2eSym Proofs.E2eGraph.
Import ListNotations.
Local Open Scope nat_scope.

(* ---------------------------------------------------------------- compress_kmers outputs are rvalid *)
Section KmersRvalid.
Variable D : Type.
Variable reduce : D -> D -> D.
Variable join : D -> D -> bool.
Variable K : nat.
Variable stranded : bool.
Hypothesis HK : 1 <= K.
Hypothesis join_sym : forall a b, join a b = join b a.
Variable T : table D.
Hypothesis Hok : tbl_ok D K stranded T.
Hypothesis Hsym : CompressSpec.exts_sym D stranded T.
Hypothesis Hpal : exts_sym_pal D stranded T.
Hypothesis Hcl : exts_closed D stranded T.
Variable nodes : list (node D).
Hypothesis Hc : compress_kmers D reduce join stranded T = Some nodes.

Theorem compress_kmers_rvalid : rvalid D K stranded nodes.
Proof.
  apply valid_graph_rvalid.
  - exact (nodes_valid_graph D reduce join K stranded HK join_sym T Hok Hsym Hpal Hcl nodes Hc).
  - intros n Hn. destruct (nodes_facts D reduce join K stranded HK T Hok Hsym Hpal nodes Hc n Hn) as [_ _ _ _ (el & er & _ & _ & He)].
    change (GraphModel.n_exts D n) with (CompressSpec.n_exts D n). rewrite He. apply RecompExts.from_single_dirs_lt.
  - intros Hs n d Hn Hp.
    destruct (nodes_facts D reduce join K stranded HK T Hok Hsym Hpal nodes Hc n Hn) as [Fl _ _ Fp _].
    apply (Fp (term_kmer K (GraphModel.n_seq D n) d)).
    + apply term_in_kmers; [exact HK | exact Fl].
    + unfold CompressSpec.kpal. rewrite Hs. exact Hp.
Qed.
End KmersRvalid.

(* ---------------------------------------------------------------- list fact *)
Lemma flat_map_nodup_index {A B} (f : A -> list B) (g : list A) : NoDup (flat_map f g) ->
  forall x y n, nth_error g x = Some n -> nth_error g y = Some n -> f n <> [] -> x = y.
Proof.
  induction g as [|a g IH]; intros Hnd x y n Hx Hy Hne; [now destruct x|].
  cbn [flat_map] in Hnd. apply NoDup_app_inv in Hnd as [_ [Hr Hdis]].
  assert (Hz : exists z, In z (f n)) by (destruct (f n) as [|z l]; [congruence | exists z; now left]).
  destruct Hz as [z Hz].
  destruct x as [|x], y as [|y]; cbn [nth_error] in Hx, Hy.
  - reflexivity.
  - exfalso. injection Hx as ->. apply (Hdis z Hz). apply in_flat_map. exists n. split; [eapply nth_error_In; eauto | exact Hz].
  - exfalso. injection Hy as ->. apply (Hdis z Hz). apply in_flat_map. exists n. split; [eapply nth_error_In; eauto | exact Hz].
  - f_equal. exact (IH Hr x y n Hx Hy Hne).
Qed.

Lemma num_ext_agree e e' dir : (e < 256)%N -> (e' < 256)%N ->
  (forall b, In b bases4 -> e_has_ext e dir b = e_has_ext e' dir b) ->
  e_num_ext_dir e dir = 1%N -> e_num_ext_dir e' dir = 1%N.
Proof.
  intros He He' Hag H. apply (num_ext_filter e' dir He'). apply (num_ext_filter e dir He) in H.
  rewrite <- H. f_equal. symmetry. apply filter_ext_in. exact Hag.
Qed.

(* ---------------------------------------------------------------- the pipeline payload *)
Section Idem.
Variable K : nat.
Variable st : bool.
Variable mode : N.
Hypothesis HK : 1 <= K.
Variable T : table pay.
Variable LS : list dna.
Variables idf colf : dna -> N.
Hypothesis Hok : tbl_ok pay K st T.
Hypothesis HL : links_ok pay st T LS.
Hypothesis Hdata : forall ent, In ent T -> e_data pay ent = (colf (e_key pay ent), [idf (e_key pay ent)]).
Variable g : list node_t.
Hypothesis Hc : compress_kmers pay pay_reduce (pay_join mode) st T = Some g.
Let HLl : links_loose pay st T LS := links_ok_loose pay st T LS HL.
Let Hcl0 := lo_closed pay st T LS HL.
Let Hsrc0 := lo_src pay st T LS HL.

Local Notation Hsym := (links_exts_sym pay K st HK T LS Hok HLl).
Local Notation Hpal := (links_exts_sym_pal pay K st HK T LS Hok HLl).
Local Notation Hcl := (links_exts_closed pay K st T LS Hok HLl (lo_closed pay st T LS HL)).
Local Notation oexts := (Unitig.oexts pay st T).
Local Notation ck := (canon_k st).
Local Notation join := (pay_join mode).
Local Notation kj := (kjoin_f mode colf).
Local Notation fm := (fm K st T).

Theorem direct_graph_rvalid : rvalid pay K st g.
Proof. exact (compress_kmers_rvalid pay pay_reduce join K st HK (join_sym mode) T Hok Hsym Hpal Hcl g Hc). Qed.

Lemma nd_len_wf n : In n g -> K <= length (nd_seq n) /\ wf_dna (nd_seq n).
Proof. exact (node_len_wf K st mode HK T LS Hok HLl g Hc n). Qed.
Lemma nd_term n s : In n g -> exists e, oexts (term_kmer K (nd_seq n) s) = Some e /\
  forall b, In b bases4 -> e_has_ext (nd_exts n) (dirb s) b = e_has_ext e (dirb s) b.
Proof. exact (node_term K st mode HK T LS Hok HLl g Hc n s). Qed.
Lemma nd_exts_lt n : In n g -> (nd_exts n < 256)%N.
Proof.
  intro Hn. destruct direct_graph_rvalid as (Hno & _). rewrite Forall_forall in Hno. now destruct (Hno n Hn) as (_ & _ & H).
Qed.
Lemma ox_lt x e : oexts x = Some e -> (e < 256)%N.
Proof. exact (oexts_lt_ K st HK T LS Hok HLl x e). Qed.
Lemma gk_nodup : NoDup (graph_kmers K st g).
Proof. exact (graph_kmers_nodup K st mode HK T LS Hok HLl g Hc). Qed.
Lemma term_in_node n s : In n g -> In (cn st (term_kmer K (nd_seq n) s)) (node_kmers K st n).
Proof.
  intro Hn. unfold node_kmers. apply in_map. apply term_in_kmers; [exact HK | now destruct (nd_len_wf n Hn)].
Qed.
Lemma node_kmers_ne n : In n g -> node_kmers K st n <> [].
Proof. intros Hn E. pose proof (term_in_node n DLeft Hn) as H. rewrite E in H. destruct H. Qed.

(* the colour of a node is the colour of each of its k-mers when the join predicate compares colours *)
Lemma node_join n m x y : In n g -> In m g -> In x (node_kmers K st n) -> In y (node_kmers K st m) ->
  join (snd n) (snd m) = true -> kj x y = true.
Proof.
  intros Hn Hm Hx Hy Hj. unfold kjoin_f. unfold pay_join in Hj.
  destruct (mode =? 0)%N eqn:E; [reflexivity|]. cbn [orb]. apply N.eqb_neq in E.
  pose proof (graph_payload K st mode HK T LS idf colf Hok HLl Hdata g Hc) as P.
  destruct (P n Hn) as (_ & Pn & _). destruct (P m Hm) as (_ & Pm & _).
  rewrite (Pn E x Hx), (Pm E y Hy). exact Hj.
Qed.

(* a k-mer-level merge between the end k-mer of node n and the k-mer its sole extension leads to *)
Lemma end_merge a d b nk ea ek : wf_dna a -> length a = K -> (b < 4)%N -> nk = extend a b d ->
  kpal st a = false -> kpal st nk = false -> cn st a <> cn st nk ->
  oexts a = Some ea -> oexts nk = Some ek ->
  e_num_ext_dir ea (dirb d) = 1%N -> e_num_ext_dir ek (dirb (dflip d)) = 1%N -> e_has_ext ea (dirb d) b = true ->
  match d with DRight => fm a nk | DLeft => fm nk a end.
Proof.
  intros Wa La Hb Enk Pa Pk Hne Ha Hk Na Nk Hh.
  assert (Na0 : a <> []) by (intro E; rewrite E in La; cbn in La; lia).
  assert (Wk : wf_dna nk) by (rewrite Enk; now apply extend_wf).
  assert (Lk : length nk = K) by (rewrite Enk, KmerAlgebra.extend_length by exact Na0; exact La).
  destruct (osym_frame pay K st HK T Hok Hsym Hpal a d b ea ek Wa La Hb Ha Hh) as [Hback _]; [now rewrite <- Enk|].
  rewrite <- Enk in Hback. specialize (Hback Pk).
  destruct d; cbn [dflip dirb outer] in *.
  - (* d = DLeft: nk = b :: removelast a, the merge is nk -> a *)
    repeat split; auto.
    exists (last a 0%N), ek, ea. repeat split; auto.
    + now apply wf_last.
    + pose proof (KmerAlgebra.extend_back a b DLeft Na0) as E. cbn [dflip outer] in E. now rewrite <- Enk in E.
    + rewrite Enk. cbn [extend]. unfold extend_left. cbn [hd]. exact Hh.
  - repeat split; auto.
    exists b, ea, ek. repeat split; auto.
Qed.

Theorem rnext_self x d y t : rnext pay join K st g x d = Some (y, t) -> y = x.
Proof.
  intro H. unfold rnext in H.
  change (@nth_error (gnode pay) g) with (@nth_error node_t g) in H.
  destruct (nth_error g x) as [n|] eqn:En; [|discriminate].
  destruct (negb (e_num_ext_dir (GraphModel.n_exts pay n) (dirb d) =? 1)%N || pal_single pay K st n) eqn:E1; [discriminate|].
  apply orb_false_iff in E1 as [E1a E1b]. apply negb_false_iff, N.eqb_eq in E1a.
  destruct (e_get_unique_extension (GraphModel.n_exts pay n) (dirb d)) as [b|] eqn:Eu; [|discriminate]. cbv zeta in H.
  change (GraphModel.n_seq pay n) with (nd_seq n) in *. change (GraphModel.n_exts pay n) with (nd_exts n) in *.
  set (a := term_kmer K (nd_seq n) d) in *. set (nk := extend a b d) in *.
  destruct (find_link pay K st g nk d) as [[[y' t'] f]|] eqn:Ef; [|discriminate].
  destruct (nth_error g y') as [m|] eqn:Em; [|discriminate].
  destruct ((negb st && is_palindrome nk) || negb (join (GraphModel.n_data pay n) (GraphModel.n_data pay m))) eqn:E2; [discriminate|].
  apply orb_false_iff in E2 as [Pk Ej]. apply negb_false_iff in Ej.
  destruct (e_num_ext_dir (GraphModel.n_exts pay m) (dirb t') =? 1)%N eqn:E3; [|discriminate]. apply N.eqb_eq in E3.
  injection H as -> ->. change (GraphModel.n_exts pay m) with (nd_exts m) in *.
  assert (Hn : In n g) by (eapply nth_error_In; eauto). assert (Hm : In m g) by (eapply nth_error_In; eauto).
  destruct (nd_len_wf n Hn) as [Ln Wn]. destruct (nd_len_wf m Hm) as [Lm Wm].
  destruct (term_kmer_ok K _ d Wn Ln) as [La Wa]. fold a in La, Wa.
  assert (Na0 : a <> []) by (intro E; rewrite E in La; cbn in La; lia).
  destruct (unique_ext_spec _ _ (nd_exts_lt n Hn) E1a) as (u & Hu & Hb & Hhas & _). rewrite Eu in Hu. injection Hu as <-.
  assert (Wk : wf_dna nk) by (apply extend_wf; auto).
  (* the two k-mers and their nodes *)
  assert (HA : In (cn st a) (node_kmers K st n)) by (apply term_in_node; exact Hn).
  assert (Hend : (f = false /\ t = dflip d /\ term_kmer K (nd_seq m) t = nk) \/
                 (f = true /\ st = false /\ t = d /\ term_kmer K (nd_seq m) t = rc nk)).
  { destruct (find_link_some pay K st g nk d y t f Ef) as [(-> & -> & _ & Ev)|(-> & Hs & -> & (_ & Ev) & _)];
      unfold EdgeSpec.node_seq in Ev; unfold graph, gnode, node_t in *; rewrite Em in Ev; [left | right]; auto. }
  assert (HB : In (cn st nk) (node_kmers K st m)).
  { pose proof (term_in_node m t Hm) as Hin. destruct Hend as [(_ & _ & Ev)|(_ & Hs & _ & Ev)]; rewrite Ev in Hin; [exact Hin|].
    now rewrite cn_rc_ in Hin. }
  (* it suffices that both k-mers lie in one node *)
  enough (Hsame : n = m).
  { subst m. symmetry. apply (flat_map_nodup_index (node_kmers K st) g gk_nodup x y n En Em). now apply node_kmers_ne. }
  destruct (list_eq_dec (list_eq_dec N.eq_dec) [cn st a] [cn st nk]) as [Ecn|Hne].
  { injection Ecn as Ecn. apply (flat_map_in_unique (node_kmers K st) g n m (cn st a) gk_nodup Hn Hm HA). now rewrite Ecn. }
  assert (Hne' : cn st a <> cn st nk) by (intro E; apply Hne; now rewrite E). clear Hne.
  (* extension data in the frames of the two k-mers *)
  destruct (nd_term n d Hn) as (ea & Hea & Hag). fold a in Hea.
  pose proof (ox_lt _ _ Hea) as Lea.
  assert (Nea : e_num_ext_dir ea (dirb d) = 1%N) by (apply (num_ext_agree (nd_exts n) ea); auto using nd_exts_lt).
  assert (Hha : e_has_ext ea (dirb d) b = true) by (rewrite <- Hag by (now apply in_bases4); exact Hhas).
  assert (Pa : kpal st a = false).
  { unfold kpal. destruct (negb st && is_palindrome a) eqn:Pa; [|reflexivity]. exfalso.
    apply andb_true_iff in Pa as [Hs Pa]. apply negb_true_iff in Hs.
    destruct direct_graph_rvalid as (_ & _ & _ & Hpe & _).
    pose proof (Hpe Hs n d Hn Pa) as Lk. unfold pal_single in E1b. change (GraphModel.n_seq pay n) with (nd_seq n) in *.
    rewrite Lk, Nat.eqb_refl, Hs in E1b. cbn [negb andb] in E1b.
    rewrite (first_kmer_whole K (nd_seq n) Lk) in E1b. unfold a in Pa. rewrite (term_kmer_single K _ d Lk) in Pa. try rewrite (first_kmer_whole K (nd_seq n) Lk) in Pa. congruence. }
  assert (Hek : exists ek, oexts nk = Some ek /\ e_num_ext_dir ek (dirb (dflip d)) = 1%N).
  { destruct (nd_term m t Hm) as (em & Hem & Hagm). pose proof (ox_lt _ _ Hem) as Lem.
    assert (Nem : e_num_ext_dir em (dirb t) = 1%N) by (apply (num_ext_agree (nd_exts m) em); auto using nd_exts_lt).
    destruct Hend as [(_ & Et & Ev)|(_ & Hs & Et & Ev)]; rewrite Ev in Hem; subst t.
    - exists em. auto.
    - exists (e_rc em). split.
      + rewrite <- (ListFacts.rc_involutive nk Wk). apply (oexts_rc pay K st T Hok Hsym Hpal); auto using rc_wf.
        rewrite ListFacts.rc_involutive by exact Wk. intro E. rewrite Hs in Pk. cbn [negb andb] in Pk.
        assert (is_palindrome nk = true) by (apply palindrome_iff; now symmetry). congruence.
      + rewrite num_ext_rc by exact Lem. now rewrite dirb_dflip, negb_involutive. }
  destruct Hek as (ek & Hek & Nek).
  pose proof (end_merge a d b nk ea ek Wa La Hb eq_refl Pa Pk Hne' Hea Hek Nea Nek Hha) as Hfm.
  pose proof (node_join n m _ _ Hn Hm HA HB Ej) as Hkj.
  assert (Hms : exists i j, kkey pay T i = ck a /\ kkey pay T j = ck nk /\
                            (mstep pay join st T i j \/ mstep pay join st T j i)).
  { destruct d.
    - destruct (fm_mstep K st mode HK T LS idf colf Hok HLl Hdata g Hc Hcl0 Hsrc0 nk a Hfm) as (i & j & Ei & Ej' & Hms).
      + unfold kjoin_f in *. destruct (mode =? 0)%N; [reflexivity|]. cbn [orb] in *. now rewrite N.eqb_sym.
      + exists j, i. auto.
    - destruct (fm_mstep K st mode HK T LS idf colf Hok HLl Hdata g Hc Hcl0 Hsrc0 a nk Hfm Hkj) as (i & j & Ei & Ej' & Hms). exists i, j. auto. }
  destruct Hms as (i & j & Ei & Ej' & Hms).
  destruct (no_mergeable_pair_across pay pay_reduce join K st HK T Hok Hsym (join_sym mode)) as (g' & Hc' & Hsame).
  assert (g' = g) by congruence. subst g'.
  assert (Hnode : exists n', In n' g /\ In (cn st a) (node_kmers K st n') /\ In (cn st nk) (node_kmers K st n')).
  { destruct Hms as [Hms|Hms]; destruct (Hsame _ _ Hms) as (n' & Hn' & H1 & H2); exists n'; (split; [exact Hn'|]).
    - rewrite Ei in H1. rewrite Ej' in H2. split; [exact H1 | exact H2].
    - rewrite Ej' in H1. rewrite Ei in H2. split; [exact H2 | exact H1]. }
  destruct Hnode as (n' & Hn' & H1 & H2).
  assert (n = n') by (apply (flat_map_in_unique (node_kmers K st) g n n' (cn st a) gk_nodup); auto).
  assert (m = n') by (apply (flat_map_in_unique (node_kmers K st) g m n' (cn st nk) gk_nodup); auto).
  congruence.
Qed.

Theorem compress_kmers_fixed : compress_graph pay pay_reduce join K st g None = Some g.
Proof.
  apply (recompress_idempotent_full pay pay_reduce join K st (join_sym mode) g direct_graph_rvalid).
  intros x d y t H. exact (rnext_self x d y t H).
Qed.
End Idem.

Print Assumptions compress_kmers_rvalid.
Print Assumptions rnext_self.
Print Assumptions compress_kmers_fixed.
