(* C04 / C06 link lemma between the filter (C05) and the Layer-S graph specification: the keys of the table that
   filter_kmers (CountFilterSet thr) hands to the compressor are exactly the retained k-mers of Check/PipelineCheck.v. *)
From Coq Require Import NArith List Bool Arith Lia Permutation.
From DBG Require Import Spec.Dna Packed.ExtsMini Algo.KmerHist Algo.Filter Algo.Pipeline Check.GraphCheck Check.PipelineCheck
  Proofs.DnaFacts Proofs.FilterProofs.
Import ListNotations.
Open Scope N_scope.

Lemma map_fst_kmer_exts K s e : map fst (kmer_exts K s e) = kmers K s.
Proof. unfold kmer_exts, kmers. rewrite map_map. reflexivity. Qed.
Lemma key_canon_obs st (o : dna * N) : fst (canon_obs st o) = cn st (fst o).
Proof. unfold canon_obs, cn. destruct st; [reflexivity|]. cbn [fst]. apply (proj1 (canon_flip_spec (fst o))). Qed.

Lemma observation_keys K st (lreads : list lread) :
  map key (observations K st (whole_reads lreads)) = read_kmers K st (map fst lreads).
Proof.
  unfold observations, read_kmers, whole_reads. rewrite flat_map_concat_map, concat_map, map_map, map_map.
  rewrite (flat_map_concat_map _ (map fst lreads)), map_map. f_equal. apply map_ext. intros r. cbn [fst snd].
  rewrite map_map. unfold key. cbn [fst]. rewrite <- (map_fst_kmer_exts K (fst r) 0), map_map.
  apply map_ext. intros o. apply key_canon_obs.
Qed.

Section Keys.
Context {DS : Type}.
Variable summarize : list (@obs N) -> bool * N * DS.
Variable ra : bool.
Lemma reference_obs_keys (os : list (@obs N)) :
  map (fun e => fst (fst e)) (fst (reference_obs summarize ra os)) =
  filter (fun k => fst (fst (summarize (obs_of os k)))) (ref_keys os).
Proof.
  unfold reference_obs. induction (ref_keys os) as [|k r IH]; [reflexivity|].
  cbn [map out_concat fold_right filter]. fold (out_concat (map (fun k0 => do_group summarize ra (k0, obs_of os k0)) r)).
  unfold out_app at 1. cbn [fst]. rewrite map_app, IH. unfold do_group. cbn [fst snd].
  destruct (fst (fst (summarize (obs_of os k)))); reflexivity.
Qed.
End Keys.

Lemma length_obs_of (os : list (@obs N)) k :
  length (obs_of os k) = length (filter (dna_eqb k) (map key os)).
Proof.
  unfold obs_of. rewrite <- (map_length key), (map_filter_comm key (fun x => dna_eqb x k)).
  f_equal. apply filter_ext. intros x. apply dna_eqb_sym.
Qed.

Theorem table_keys_retained K st thr ra (lreads : list lread) :
  map (fun e => fst (fst e)) (fst (reference (count_filter_set thr) ra K st (whole_reads lreads))) =
  retained K st thr (map fst lreads).
Proof.
  unfold reference. rewrite reference_obs_keys. unfold retained, ref_keys, sort_dna.
  rewrite observation_keys. apply filter_ext. intros k.
  unfold count_filter_set. cbn [fst]. unfold is_retained, occurrences. rewrite length_obs_of, observation_keys. reflexivity.
Qed.
