(* C10 (neighbors): the model of KmerOneHammingIter (Algo/Neighbors.v) yields, for each of the 19 shipped k-mer types and
   every well-formed storage word, exactly Spec/Neighbors.v [neighbors] of the decoded string - step by step
   ([nb_next_step]), as a whole ([nb_all_spec]), fused ([nb_all_fused_spec], [nb_calls_spec]) - and hence exactly the
   well-formed k-mers at packed Hamming distance 1, each once ([nb_all_hamming]). *)
From Coq Require Import NArith List Bool Arith Lia.
From DBG Require Import Spec.Dna Spec.Neighbors Packed.KmerModel Algo.Neighbors
  Proofs.ListFacts Proofs.KmerLanes Proofs.KmerOps Proofs.NeighborsList.
Import ListNotations.
Open Scope N_scope.

(* ------------------------------------------------------------------ what remains to be yielded from state (p, ch) *)
Definition brange (ch : N) : list N := filter (fun x => ch <=? x) [0; 1; 2; 3].
Definition nb_suffix (d : dna) (p : nat) (ch : N) : list dna :=
  if Nat.ltb p (length d) then
    map (fun x => upd p d x) (filter (fun x => negb (x =? nth p d 0)) (brange ch))
    ++ flat_map (neighbors_at d) (seq (S p) (length d - S p))
  else [].

Lemma brange_ge4 ch : 4 <= ch -> brange ch = [].
Proof.
  intro H. unfold brange. cbn [filter].
  replace (ch <=? 0) with false by (symmetry; apply N.leb_gt; lia).
  replace (ch <=? 1) with false by (symmetry; apply N.leb_gt; lia).
  replace (ch <=? 2) with false by (symmetry; apply N.leb_gt; lia).
  replace (ch <=? 3) with false by (symmetry; apply N.leb_gt; lia).
  reflexivity.
Qed.
Lemma brange_lt4 ch : ch < 4 -> brange ch = ch :: brange (ch + 1).
Proof. intro H. destruct (lt4_cases ch H) as [->|[->|[->| ->]]]; reflexivity. Qed.

Lemma nb_suffix_start d : nb_suffix d 0 0 = neighbors d.
Proof.
  unfold nb_suffix, neighbors. destruct d as [|x d]; [reflexivity|].
  cbn [length Nat.ltb Nat.leb]. rewrite Nat.sub_succ, Nat.sub_0_r. cbn [seq flat_map]. reflexivity.
Qed.
Lemma nb_suffix_done d p ch : (length d <= p)%nat -> nb_suffix d p ch = [].
Proof. intro H. unfold nb_suffix. apply Nat.ltb_ge in H. now rewrite H. Qed.
Lemma nb_suffix_wrap d p ch : (p < length d)%nat -> 4 <= ch -> nb_suffix d p ch = nb_suffix d (S p) 0.
Proof.
  intros Hp Hch. unfold nb_suffix. rewrite (proj2 (Nat.ltb_lt _ _) Hp). rewrite brange_ge4 by exact Hch.
  cbn [filter map app]. destruct (Nat.ltb_spec (S p) (length d)) as [H|H].
  - replace (length d - S p)%nat with (S (length d - S (S p))) by lia. cbn [seq flat_map]. reflexivity.
  - replace (length d - S p)%nat with 0%nat by lia. reflexivity.
Qed.
Lemma nb_suffix_skip d p ch : (p < length d)%nat -> ch < 4 -> nth p d 0 = ch -> nb_suffix d p ch = nb_suffix d p (ch + 1).
Proof.
  intros Hp Hch Hb. unfold nb_suffix. rewrite (proj2 (Nat.ltb_lt _ _) Hp). rewrite (brange_lt4 ch Hch).
  cbn [filter]. rewrite Hb, N.eqb_refl. reflexivity.
Qed.
Lemma nb_suffix_emit d p ch : (p < length d)%nat -> ch < 4 -> nth p d 0 <> ch ->
  nb_suffix d p ch = upd p d ch :: nb_suffix d p (ch + 1).
Proof.
  intros Hp Hch Hb. unfold nb_suffix. rewrite (proj2 (Nat.ltb_lt _ _) Hp). rewrite (brange_lt4 ch Hch).
  cbn [filter]. destruct (N.eqb_spec ch (nth p d 0)) as [E|_]; [now symmetry in E|]. reflexivity.
Qed.

(* [nb_suffix d p ch] is a suffix of [neighbors d] (the whole of it at (0, 0), nothing past the end) *)
Lemma brange_suffix ch : exists pre, [0; 1; 2; 3] = pre ++ brange ch.
Proof.
  destruct (N.lt_ge_cases ch 4) as [H|H].
  - destruct (lt4_cases ch H) as [->|[->|[->| ->]]];
      [exists []|exists [0]|exists [0; 1]|exists [0; 1; 2]]; reflexivity.
  - exists [0; 1; 2; 3]. rewrite brange_ge4 by exact H. reflexivity.
Qed.
Lemma nb_suffix_is_suffix d p ch : exists pre, neighbors d = pre ++ nb_suffix d p ch.
Proof.
  destruct (Nat.lt_ge_cases p (length d)) as [Hp|Hp].
  - unfold nb_suffix. rewrite (proj2 (Nat.ltb_lt _ _) Hp). unfold neighbors.
    assert (E : seq 0 (length d) = seq 0 p ++ p :: seq (S p) (length d - S p)).
    { replace (length d) with (p + S (length d - S p))%nat at 1 by lia. now rewrite seq_app. }
    rewrite E, flat_map_app. cbn [flat_map].
    destruct (brange_suffix ch) as (pre0 & Hpre0).
    unfold neighbors_at at 2. unfold other_bases. rewrite Hpre0, filter_app, map_app.
    exists (flat_map (neighbors_at d) (seq 0 p)
            ++ map (fun x => upd p d x) (filter (fun x => negb (x =? nth p d 0)) pre0)).
    now rewrite <- !app_assoc.
  - exists (neighbors d). rewrite nb_suffix_done by exact Hp. now rewrite app_nil_r.
Qed.

(* ------------------------------------------------------------------ one call of next() *)
Definition nb_mk (s : N) (p : nat) (ch : N) : nb_state := {| nb_src := s; nb_pos := p; nb_char := ch |}.
Definition nb_measure (K p : nat) (ch : N) : nat := (5 * (K - p) - N.to_nat ch)%nat.

(* the contract of one call from state (s, p, ch): it returns the head of the remaining output and moves to a state whose
   remaining output is the tail; or None, in a state past the end, when nothing remains *)
Definition nb_step_post (c : kcfg) (s : N) (p : nat) (ch : N) (res : option (option N * nb_state)) : Prop :=
  match nb_suffix (decode (kK c) s) p ch with
  | [] => exists st', res = Some (None, st') /\ nb_src st' = s /\ (kK c <= nb_pos st')%nat /\ nb_char st' <= 4
  | x :: tl => exists r st', res = Some (Some r, st') /\ wf (kK c) r /\ decode (kK c) r = x /\
                 nb_src st' = s /\ nb_char st' <= 4 /\
                 nb_suffix (decode (kK c) s) (nb_pos st') (nb_char st') = tl
  end.

Lemma nb_next_step_fuel c s : In c shipped -> wf (kK c) s ->
  forall fuel p ch, ch <= 4 -> (nb_measure (kK c) p ch < fuel)%nat ->
  nb_step_post c s p ch (nb_next c fuel (nb_mk s p ch)).
Proof.
  intros Hc Hs. induction fuel as [|fuel IH]; intros p ch Hch Hm; [lia|].
  unfold nb_mk. cbn [nb_next nb_src nb_pos nb_char].
  assert (Hlen : length (decode (kK c) s) = kK c) by apply decode_length.
  destruct (Nat.leb_spec (kK c) p) as [Hp|Hp].
  - unfold nb_step_post. rewrite nb_suffix_done by lia.
    eexists. split; [reflexivity|]. cbn [nb_src nb_pos nb_char]. repeat split; assumption.
  - rewrite (get_spec c s p Hc Hs Hp). cbn [obind].
    destruct (N.leb_spec 4 ch) as [H4|H4].
    + unfold nb_step_post. rewrite nb_suffix_wrap by lia.
      apply (IH (S p) 0); [lia|]. unfold nb_measure in *. lia.
    + destruct (N.eqb_spec (nth p (decode (kK c) s) 0) ch) as [Hb|Hb].
      * unfold nb_step_post. rewrite nb_suffix_skip by (lia || exact Hb).
        apply (IH p (ch + 1)); [lia|]. unfold nb_measure in *. lia.
      * destruct (set_mut_spec c s p ch Hc Hs Hp H4) as (r & Hr & Hwr & Hdr).
        rewrite Hr. cbn [obind]. unfold nb_step_post. rewrite nb_suffix_emit by (lia || exact Hb).
        exists r. eexists. split; [reflexivity|]. cbn [nb_src nb_pos nb_char].
        split; [exact Hwr|]. split; [exact Hdr|]. split; [reflexivity|]. split; [lia|reflexivity].
Qed.

Lemma nb_measure_fuel c p ch : (nb_measure (kK c) p ch < nb_fuel c)%nat.
Proof. unfold nb_measure, nb_fuel. lia. Qed.

(* nb_fuel suffices from every state with char <= 4 *)
Theorem nb_next_step c s p ch : In c shipped -> wf (kK c) s -> ch <= 4 ->
  nb_step_post c s p ch (nb_next c (nb_fuel c) (nb_mk s p ch)).
Proof. intros Hc Hs Hch. apply nb_next_step_fuel; try assumption. apply nb_measure_fuel. Qed.

(* fused: at a state past the end, next() returns None and leaves the state unchanged *)
Theorem nb_next_done c fuel st : (0 < fuel)%nat -> (kK c <= nb_pos st)%nat -> nb_next c fuel st = Some (None, st).
Proof.
  intros Hf Hp. destruct fuel as [|fuel]; [lia|]. cbn [nb_next].
  apply Nat.leb_le in Hp. now rewrite Hp.
Qed.
Lemma nb_fuel_pos c : (0 < nb_fuel c)%nat.
Proof. unfold nb_fuel. lia. Qed.

(* ------------------------------------------------------------------ collect() *)
Lemma nb_collect_spec c s : In c shipped -> wf (kK c) s ->
  forall n p ch, ch <= 4 -> (length (nb_suffix (decode (kK c) s) p ch) < n)%nat ->
  exists l st', nb_collect c n (nb_mk s p ch) = Some (l, st') /\
    Forall (wf (kK c)) l /\ map (decode (kK c)) l = nb_suffix (decode (kK c) s) p ch /\
    nb_src st' = s /\ (kK c <= nb_pos st')%nat /\ nb_char st' <= 4.
Proof.
  intros Hc Hs. induction n as [|n IH]; intros p ch Hch Hn; [lia|].
  cbn [nb_collect]. pose proof (nb_next_step c s p ch Hc Hs Hch) as Hstep. unfold nb_step_post in Hstep.
  destruct (nb_suffix (decode (kK c) s) p ch) as [|x tl] eqn:E.
  - destruct Hstep as (st' & Hres & Hsrc & Hpos & Hc4). rewrite Hres. cbn [obind fst snd].
    exists [], st'. repeat split; try assumption. constructor.
  - destruct Hstep as (r & st' & Hres & Hwr & Hdr & Hsrc & Hc4 & Htl). rewrite Hres. cbn [obind fst snd].
    destruct st' as [s' p' ch']. cbn [nb_src nb_pos nb_char] in *. subst s'.
    destruct (IH p' ch' Hc4) as (l & st'' & Hcol & Hwl & Hdl & Hsrc' & Hpos' & Hc4').
    { rewrite Htl. cbn [length] in Hn. lia. }
    unfold nb_mk in Hcol. rewrite Hcol. cbn [obind fst snd].
    exists (r :: l), st''. split; [reflexivity|]. split; [now constructor|]. split.
    + cbn [map]. rewrite Hdr, Hdl, Htl. reflexivity.
    + now repeat split.
Qed.

Lemma nb_collect_new c s : In c shipped -> wf (kK c) s ->
  exists l st', nb_collect c (3 * kK c + 1) (nb_new s) = Some (l, st') /\
    Forall (wf (kK c)) l /\ map (decode (kK c)) l = neighbors (decode (kK c) s) /\
    nb_src st' = s /\ (kK c <= nb_pos st')%nat /\ nb_char st' <= 4.
Proof.
  intros Hc Hs. rewrite <- nb_suffix_start. apply (nb_collect_spec c s Hc Hs (3 * kK c + 1) 0 0); [lia|].
  rewrite nb_suffix_start, neighbors_length by apply decode_lt4. rewrite decode_length. lia.
Qed.

(* Goal 1 *)
Theorem nb_all_spec c s : In c shipped -> wf (kK c) s ->
  exists l, nb_all c s = Some l /\ Forall (wf (kK c)) l /\ map (decode (kK c)) l = neighbors (decode (kK c) s).
Proof.
  intros Hc Hs. destruct (nb_collect_new c s Hc Hs) as (l & st' & Hcol & Hwl & Hdl & _).
  exists l. unfold nb_all. rewrite Hcol. cbn [obind fst]. now repeat split.
Qed.

Theorem nb_all_fused_eq c s : In c shipped -> wf (kK c) s -> nb_all_fused c s = nb_all c s.
Proof.
  intros Hc Hs. destruct (nb_collect_new c s Hc Hs) as (l & st' & Hcol & _ & _ & _ & Hpos & _).
  unfold nb_all_fused, nb_all. rewrite Hcol. cbn [obind fst snd].
  rewrite (nb_next_done c (nb_fuel c) st' (nb_fuel_pos c) Hpos). cbn [obind fst snd].
  rewrite (nb_next_done c (nb_fuel c) st' (nb_fuel_pos c) Hpos). cbn [obind fst snd].
  rewrite (nb_next_done c (nb_fuel c) st' (nb_fuel_pos c) Hpos). cbn [obind fst snd].
  reflexivity.
Qed.

Theorem nb_all_fused_spec c s : In c shipped -> wf (kK c) s ->
  exists l, nb_all_fused c s = Some l /\ Forall (wf (kK c)) l /\ map (decode (kK c)) l = neighbors (decode (kK c) s).
Proof. intros Hc Hs. rewrite nb_all_fused_eq by assumption. now apply nb_all_spec. Qed.

(* ------------------------------------------------------------------ any number of calls: the trace of next() *)
Fixpoint nb_calls (c : kcfg) (n : nat) (st : nb_state) : option (list (option N)) :=
  match n with
  | O => Some []
  | S m => do r <- nb_next c (nb_fuel c) st; do t <- nb_calls c m (snd r); Some (fst r :: t)
  end.

Lemma nb_calls_done c n st : (kK c <= nb_pos st)%nat -> nb_calls c n st = Some (repeat None n).
Proof.
  intro Hp. induction n as [|n IH]; [reflexivity|]. cbn [nb_calls].
  rewrite (nb_next_done c (nb_fuel c) st (nb_fuel_pos c) Hp). cbn [obind fst snd]. rewrite IH. reflexivity.
Qed.

Definition owf (K : nat) (o : option N) : Prop := match o with Some r => wf K r | None => True end.

Lemma nb_calls_from c s : In c shipped -> wf (kK c) s ->
  forall n p ch, ch <= 4 ->
  exists l, nb_calls c n (nb_mk s p ch) = Some l /\ Forall (owf (kK c)) l /\
    map (option_map (decode (kK c))) l =
      firstn n (map Some (nb_suffix (decode (kK c) s) p ch))
      ++ repeat None (n - length (nb_suffix (decode (kK c) s) p ch)).
Proof.
  intros Hc Hs. induction n as [|n IH]; intros p ch Hch.
  - exists []. cbn. repeat split. constructor.
  - cbn [nb_calls]. pose proof (nb_next_step c s p ch Hc Hs Hch) as Hstep. unfold nb_step_post in Hstep.
    destruct (nb_suffix (decode (kK c) s) p ch) as [|x tl] eqn:E.
    + destruct Hstep as (st' & Hres & Hsrc & Hpos & Hc4). rewrite Hres. cbn [obind fst snd].
      rewrite (nb_calls_done c n st' Hpos). cbn [obind].
      exists (None :: repeat None n). split; [reflexivity|]. split.
      * apply Forall_forall. intros o Ho. change (None :: repeat None n) with (repeat (@None N) (S n)) in Ho.
        apply repeat_spec in Ho. subst o. exact I.
      * cbn [map firstn app length option_map]. rewrite Nat.sub_0_r. cbn [repeat]. f_equal.
        induction n as [|m IHm]; [reflexivity|]. cbn [repeat map option_map]. f_equal.
        clear -m. induction m as [|m IHm]; [reflexivity|]. cbn [repeat map option_map]. now f_equal.
    + destruct Hstep as (r & st' & Hres & Hwr & Hdr & Hsrc & Hc4 & Htl). rewrite Hres. cbn [obind fst snd].
      destruct st' as [s' p' ch']. cbn [nb_src nb_pos nb_char] in *. subst s'.
      destruct (IH p' ch' Hc4) as (l & Hcal & Hwl & Hdl).
      unfold nb_mk in Hcal. rewrite Hcal. cbn [obind].
      exists (Some r :: l). split; [reflexivity|]. split; [constructor; [exact Hwr|exact Hwl]|].
      cbn [map option_map firstn length app]. rewrite Hdr, Hdl, Htl. rewrite Nat.sub_succ. reflexivity.
Qed.

(* n successive calls of next() on a fresh iterator return the first n elements of
   Some n_1, ..., Some n_3K, None, None, ... *)
Theorem nb_calls_spec c s n : In c shipped -> wf (kK c) s ->
  exists l, nb_calls c n (nb_new s) = Some l /\ Forall (owf (kK c)) l /\
    map (option_map (decode (kK c))) l =
      firstn n (map Some (neighbors (decode (kK c) s))) ++ repeat None (n - 3 * kK c).
Proof.
  intros Hc Hs. destruct (nb_calls_from c s Hc Hs n 0%nat 0) as (l & Hcal & Hwl & Hdl); [lia|].
  exists l. split; [exact Hcal|]. split; [exact Hwl|].
  rewrite Hdl, nb_suffix_start. rewrite neighbors_length by apply decode_lt4. now rewrite decode_length.
Qed.

(* ------------------------------------------------------------------ Goal 3: the packed level *)
Theorem nb_all_hamming c s : In c shipped -> wf (kK c) s ->
  exists l, nb_all c s = Some l /\ nb_all_fused c s = Some l /\
    length l = (3 * kK c)%nat /\ NoDup l /\
    forall r, In r l <-> (wf (kK c) r /\ hamming_dist c s r = Some 1).
Proof.
  intros Hc Hs. destruct (nb_all_spec c s Hc Hs) as (l & Hall & Hwl & Hdl).
  pose proof (decode_lt4 (kK c) s) as Hwd.
  exists l. split; [exact Hall|]. split; [now rewrite nb_all_fused_eq|]. split; [|split].
  - rewrite <- (map_length (decode (kK c)) l), Hdl, neighbors_length by exact Hwd. now rewrite decode_length.
  - apply (NoDup_map_inv (decode (kK c))). rewrite Hdl. apply neighbors_NoDup.
  - intro r. rewrite Forall_forall in Hwl. split.
    + intro Hr. split; [now apply Hwl|]. rewrite hamming_spec by (try assumption; now apply Hwl).
      f_equal. apply (in_map (decode (kK c))) in Hr. rewrite Hdl in Hr.
      now apply (neighbors_In _ _ Hwd) in Hr.
    + intros [Hwr Hh]. rewrite hamming_spec in Hh by assumption. injection Hh as Hh.
      assert (Hin : In (decode (kK c) r) (map (decode (kK c)) l)).
      { rewrite Hdl. apply (neighbors_In _ _ Hwd). rewrite !decode_length. split; [reflexivity|].
        split; [apply decode_lt4|exact Hh]. }
      apply in_map_iff in Hin as (r0 & Hd0 & Hr0).
      assert (r0 = r) by (apply (decode_inj (kK c)); [now apply Hwl|exact Hwr|exact Hd0]).
      now subst r0.
Qed.

(* "returned exactly once", as a count *)
Corollary nb_all_hamming_once c s l r : In c shipped -> wf (kK c) s -> nb_all c s = Some l ->
  wf (kK c) r -> hamming_dist c s r = Some 1 -> count_occ N.eq_dec l r = 1%nat.
Proof.
  intros Hc Hs Hall Hwr Hh. destruct (nb_all_hamming c s Hc Hs) as (l' & Hall' & _ & _ & Hnd & Hin).
  rewrite Hall in Hall'. injection Hall' as <-.
  apply (proj1 (NoDup_count_occ' N.eq_dec l) Hnd). apply Hin. now split.
Qed.

(* the source itself is never returned *)
Corollary nb_all_not_self c s l : In c shipped -> wf (kK c) s -> nb_all c s = Some l -> ~ In s l.
Proof.
  intros Hc Hs Hall Hin. destruct (nb_all_spec c s Hc Hs) as (l' & Hall' & _ & Hdl).
  rewrite Hall in Hall'. injection Hall' as <-.
  apply (in_map (decode (kK c))) in Hin. rewrite Hdl in Hin. now apply neighbors_not_self in Hin.
Qed.
