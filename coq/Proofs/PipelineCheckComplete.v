(* Completeness of the checkers of Check/PipelineCheck.v: whenever the Prop holds the boolean checker accepts, so a
   rejection by a checker is a genuine failure of the specification (no false alarms). *)
From Coq Require Import NArith List Bool Arith Lia Permutation Sorting.Sorted.
From DBG Require Import Spec.Dna Spec.GraphIndex Packed.ExtsModel Algo.KmerHist Check.GraphCheck Check.PipelineCheck
  Proofs.DnaFacts Proofs.FilterProofs Proofs.PipelineCheckProofs.
Import ListNotations.
Open Scope N_scope.

(* ---- insertion sort of a permutation, for any total / antisymmetric / transitive order ---- *)
Section Sort.
Context {A : Type}.
Variable leb : A -> A -> bool.
Hypothesis total : forall x y, leb x y = false -> leb y x = true.
Hypothesis antisym : forall x y, leb x y = true -> leb y x = true -> x = y.
Hypothesis trans : forall x y z, leb x y = true -> leb y z = true -> leb x z = true.

Lemma insert_comm x y l : insert_by leb x (insert_by leb y l) = insert_by leb y (insert_by leb x l).
Proof.
  induction l as [|z r IH]; cbn [insert_by].
  - destruct (leb x y) eqn:Exy, (leb y x) eqn:Eyx; try reflexivity.
    + now rewrite (antisym x y Exy Eyx).
    + rewrite (total x y Exy) in Eyx. discriminate.
  - destruct (leb y z) eqn:Eyz, (leb x z) eqn:Exz; cbn [insert_by].
    + destruct (leb x y) eqn:Exy, (leb y x) eqn:Eyx; rewrite ?Eyz, ?Exz; try reflexivity.
      * now rewrite (antisym x y Exy Eyx).
      * rewrite (total x y Exy) in Eyx. discriminate.
    + rewrite Eyz. destruct (leb x y) eqn:Exy; [rewrite (trans x y z Exy Eyz) in Exz; discriminate|].
      now rewrite Exz.
    + rewrite Exz. destruct (leb y x) eqn:Eyx; [rewrite (trans y x z Eyx Exz) in Eyz; discriminate|].
      now rewrite Eyz.
    + rewrite Exz, Eyz. now rewrite IH.
Qed.
Lemma sort_perm_eq l l' : Permutation l l' -> sort_by leb l = sort_by leb l'.
Proof.
  induction 1 as [|x l l' H IH|x y l|l l' l'' H1 IH1 H2 IH2]; cbn [sort_by fold_right]; auto.
  - fold (sort_by leb l). fold (sort_by leb l'). now rewrite IH.
  - fold (sort_by leb l). apply insert_comm.
  - congruence.
Qed.
End Sort.

Lemma dna_leb_total' x y : dna_leb x y = false -> dna_leb y x = true.
Proof. intros H. apply dna_ltb_leb. now apply dna_leb_total. Qed.
Lemma dna_leb_antisym x y : dna_leb x y = true -> dna_leb y x = true -> x = y.
Proof.
  intros H1 H2. destruct (dna_leb_cases x y H1) as [E|L]; [exact E|].
  apply dna_ltb_antisym in L. congruence.
Qed.
Lemma sort_dna_perm l l' : Permutation l l' -> sort_dna l = sort_dna l'.
Proof. apply sort_perm_eq; [exact dna_leb_total'|exact dna_leb_antisym|exact dna_leb_trans]. Qed.
Lemma sort_N_perm l l' : Permutation l l' -> sort_N l = sort_N l'.
Proof.
  apply sort_perm_eq.
  - intros x y H. apply N.leb_le. apply N.leb_gt in H. lia.
  - intros x y H1 H2. apply N.leb_le in H1, H2. lia.
  - intros x y z H1 H2. apply N.leb_le in H1, H2. apply N.leb_le. lia.
Qed.
Lemma dna_list_eqb_refl l : dna_list_eqb l l = true.
Proof.
  unfold dna_list_eqb. rewrite Nat.eqb_refl. cbn [andb]. induction l as [|x r IH]; [reflexivity|].
  cbn. now rewrite dna_eqb_refl.
Qed.
Lemma N_list_eqb_refl l : N_list_eqb l l = true.
Proof. unfold N_list_eqb. apply dna_eqb_refl. Qed.
Lemma incl_subsetb a b : incl a b -> subsetb a b = true.
Proof. intros H. unfold subsetb. apply forallb_forall. intros w Hw. apply existsb_dna_in. now apply H. Qed.

(* ---- same_assembly ---- *)
Section Same.
Variable K : nat.
Variable stranded : bool.
Variable mode : N.
Local Notation E := (node_equivb K stranded mode).
Local Notation R := (node_equiv K stranded mode).

Lemma node_equivb_complete a b : R a b -> E a b = true.
Proof.
  intros [H1 [H2 H3]]. unfold node_equivb.
  rewrite (sort_dna_perm _ _ H1), dna_list_eqb_refl, (sort_N_perm _ _ H2), N_list_eqb_refl. cbn [andb].
  destruct (N.eqb_spec mode 0) as [|Hm]; [reflexivity|]. cbn [orb]. apply N.eqb_eq. now apply H3.
Qed.
Lemma node_equiv_iff a b : E a b = true <-> R a b.
Proof. split; [apply node_equivb_sound|apply node_equivb_complete]. Qed.
Lemma node_equiv_sym a b : R a b -> R b a.
Proof. intros [H1 [H2 H3]]. split; [now symmetry|]. split; [now symmetry|]. intros Hm. symmetry. now apply H3. Qed.
Lemma node_equiv_trans a b c : R a b -> R b c -> R a c.
Proof.
  intros [H1 [H2 H3]] [G1 [G2 G3]]. split; [etransitivity; eauto|]. split; [etransitivity; eauto|].
  intros Hm. rewrite (H3 Hm). now apply G3.
Qed.

Lemma remove_first_complete (p : node_t -> bool) l x : In x l -> p x = true ->
  exists a y b, l = a ++ y :: b /\ p y = true /\ remove_first p l = Some (a ++ b).
Proof.
  induction l as [|z r IH]; intros Hin Hp; [destruct Hin|]. cbn [remove_first].
  destruct (p z) eqn:Ez.
  - exists [], z, r. auto.
  - destruct Hin as [->|Hin]; [congruence|]. destruct (IH Hin Hp) as [a [y [b [-> [Hy Hr]]]]].
    exists (z :: a), y, b. rewrite Hr. auto.
Qed.

Lemma perm_cons_cases {A} (x y : A) l l' : Permutation (x :: l) (y :: l') ->
  (x = y /\ Permutation l l') \/ exists c d, l' = c ++ x :: d /\ Permutation l (y :: c ++ d).
Proof.
  intros H. assert (Hin : In x (y :: l')) by (eapply Permutation_in; [exact H|now left]).
  destruct Hin as [<-|Hin]; [left; split; [reflexivity|now apply Permutation_cons_inv in H]|].
  right. apply in_split in Hin as [c [d ->]]. exists c, d. split; [reflexivity|].
  apply (Permutation_cons_inv (a := x)). rewrite H.
  change (y :: c ++ x :: d) with ((y :: c) ++ x :: d). rewrite <- Permutation_middle. reflexivity.
Qed.

Lemma match_nodes_complete g1 : forall g2 g2', Permutation g2 g2' -> Forall2 R g1 g2' ->
  match_nodes K stranded mode g1 g2 = true.
Proof.
  induction g1 as [|n r IH]; intros g2 g2' Hp Hf.
  - inversion Hf; subst. apply Permutation_sym, Permutation_nil in Hp. now subst.
  - inversion Hf as [|? m ? t Hnm Hrt]; subst. cbn [match_nodes].
    assert (Hin : In m g2) by (eapply Permutation_in; [symmetry; exact Hp|now left]).
    destruct (remove_first_complete (E n) g2 m Hin (node_equivb_complete _ _ Hnm)) as [a [m' [b [-> [Hm' ->]]]]].
    apply node_equiv_iff in Hm'.
    assert (Hp' : Permutation (m' :: a ++ b) (m :: t)) by (rewrite <- Hp; apply Permutation_middle).
    destruct (perm_cons_cases _ _ _ _ Hp') as [[-> Hab]|[c [d [-> Hab]]]].
    + now apply (IH _ t).
    + apply Forall2_app_inv_r in Hrt as [r1 [r2 [Hr1 [Hr2 ->]]]].
      inversion Hr2 as [|x ? r2' ? Hx Hr2']; subst.
      apply (IH _ (c ++ m :: d)).
      * rewrite Hab. apply Permutation_middle.
      * apply Forall2_app; [exact Hr1|]. constructor; [|exact Hr2'].
        apply (node_equiv_trans _ m'); [exact Hx|]. apply (node_equiv_trans _ n); [now apply node_equiv_sym|exact Hnm].
Qed.

Theorem chk_same_assembly_complete g1 g2 :
  same_assembly K stranded mode g1 g2 -> chk_same_assembly K stranded mode g1 g2 = true.
Proof.
  intros [[g2' [Hp Hf]] Hl]. unfold chk_same_assembly.
  rewrite (match_nodes_complete g1 g2 g2' Hp Hf). cbn [andb].
  rewrite !incl_subsetb; [reflexivity| |]; intros w Hw; now apply Hl.
Qed.
Corollary chk_same_assembly_iff g1 g2 :
  chk_same_assembly K stranded mode g1 g2 = true <-> same_assembly K stranded mode g1 g2.
Proof. split; [apply chk_same_assembly_sound|apply chk_same_assembly_complete]. Qed.
End Same.

(* ---- graph_exact ---- *)
Lemma sort_sorted_id l : StronglySorted dle l -> sort_dna l = l.
Proof.
  unfold sort_dna. induction 1 as [|x r Hs IH Hf]; [reflexivity|]. cbn [sort_by fold_right]. fold (sort_by dna_leb r).
  rewrite IH. destruct r as [|y r']; [reflexivity|]. cbn [insert_by].
  inversion Hf as [|? ? Hxy _]; subst. unfold dle in Hxy. now rewrite Hxy.
Qed.
Lemma ssorted_dlt_dle l : StronglySorted dlt l -> StronglySorted dle l.
Proof.
  induction 1 as [|x r Hs IH Hf]; constructor; [exact IH|].
  eapply Forall_impl; [|exact Hf]. intros y Hy. now apply dna_ltb_leb.
Qed.
Lemma retained_sorted K st thr reads : StronglySorted dle (retained K st thr reads).
Proof.
  unfold retained, sort_dna. fold (sort_dedup (read_kmers K st reads)).
  apply ssorted_dlt_dle, ssorted_filter, sort_dedup_ssorted.
Qed.
Theorem chk_graph_exact_complete K st thr reads g :
  graph_exact K st thr reads g -> chk_graph_exact K st thr reads g = true.
Proof.
  intros [H1 H2]. unfold chk_graph_exact.
  rewrite (sort_dna_perm _ _ H1), (sort_sorted_id _ (retained_sorted K st thr reads)), dna_list_eqb_refl. cbn [andb].
  rewrite !incl_subsetb; [reflexivity| |]; intros w Hw; now apply H2.
Qed.

(* ---- unitig_graph, payload_ok ---- *)
Lemma wf_dnab_complete l : wf_dna l -> wf_dnab l = true.
Proof.
  unfold wf_dnab, wf_dna. rewrite forallb_forall, Forall_forall. intros H x Hx. apply N.ltb_lt. now apply H.
Qed.
Lemma adjacent_inb_complete K st g x y : adjacent_in K st g x y -> adjacent_inb K st g x y = true.
Proof.
  intros [n [p [Hn [Hp [H1 H2]]]]]. unfold adjacent_inb. apply existsb_exists. exists n. split; [exact Hn|].
  apply existsb_exists. exists p. split; [exact Hp|]. rewrite H1, H2, !dna_eqb_refl. reflexivity.
Qed.
Theorem chk_unitig_complete K st mode lreads g :
  unitig_graph K st mode (kmer_colour K st lreads) g -> payload_ok K st mode rank (kmer_colour K st lreads) g ->
  chk_unitig K st mode lreads g = true.
Proof.
  intros [HK [Hw [Hub Hmx]]] Hp. unfold chk_unitig.
  replace (Nat.leb 1 K) with true by (symmetry; now apply Nat.leb_le). cbn [andb].
  replace (forallb (node_wfb K) g) with true.
  2:{ symmetry. apply forallb_forall. intros n Hn. rewrite Forall_forall in Hw. destruct (Hw _ Hn) as [H1 H2].
      unfold node_wfb. rewrite (wf_dnab_complete _ H1). cbn [andb]. now apply Nat.leb_le. }
  cbn [andb].
  replace (chk_unbranched K st (kjoin_of K st mode lreads) (graph_links K st g) g) with true.
  2:{ symmetry. unfold chk_unbranched. apply forallb_forall. intros n Hn. apply forallb_forall. intros p Hpp.
      exact (Hub n p Hn Hpp). }
  cbn [andb].
  replace (chk_maximal K st (kjoin_of K st mode lreads) (graph_links K st g) g) with true.
  2:{ symmetry. unfold chk_maximal. apply forallb_forall. intros n Hn. apply forallb_forall. intros x Hx.
      apply forallb_forall. intros b Hb. cbv zeta.
      destruct (mergeableb st (kjoin_of K st mode lreads) (graph_links K st g) x (tl x ++ [b])) eqn:Em; [|reflexivity].
      cbn [negb orb]. apply adjacent_inb_complete. exact (Hmx n x _ Hn Hx Em). }
  cbn [andb]. unfold chk_payload_s. apply forallb_forall. intros n Hn. destruct (Hp n Hn) as [H1 [H2 H3]].
  rewrite (sort_N_perm _ _ H1), N_list_eqb_refl. cbn [andb].
  destruct (N.eqb_spec mode 0) as [Hm|Hm].
  - destruct (H3 Hm) as [k [Hk Hc]]. apply existsb_exists. exists k. split; [exact Hk|]. now apply N.eqb_eq.
  - apply forallb_forall. intros k Hk. apply N.eqb_eq. now apply H2.
Qed.
Theorem chk_assembly_complete K st thr mode lreads g :
  assembly_of K st thr mode lreads g -> chk_assembly K st thr mode lreads g = true.
Proof.
  intros [E [U P]]. unfold chk_assembly. rewrite (chk_graph_exact_complete _ _ _ _ _ E). cbn [andb].
  now apply chk_unitig_complete.
Qed.
