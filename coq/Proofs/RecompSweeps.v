(* C09: finite facts about extension bytes used by the re-compression proofs: exhaustive over the 256 values
   (x 2 directions x 4 bases) resp. over the 2^8 outcomes of the eight tests of get_valid_exts; lifted from
   vm_compute by forallb_forall / case analysis.  The domains are genuinely finite. *)
From Coq Require Import NArith List Bool Arith Lia.
From DBG Require Import Spec.Dna Packed.ExtsModel Check.RecompCheck.
From DBG Require Proofs.ExtsProofs.
Import ListNotations.
Open Scope N_scope.

Lemma in_bases4_lt b : In b bases4 -> b < 4.
Proof. cbn. intros [<-|[<-|[<-|[<-|[]]]]]; lia. Qed.

(* exactly one extension: get_unique_extension finds it, and it is the only base with has_ext *)
Lemma unique_ext_spec e d : e < 256 -> e_num_ext_dir e d = 1 ->
  exists b, In b bases4 /\ e_get_unique_extension e d = Some b /\ e_has_ext e d b = true /\
            forall b', In b' bases4 -> e_has_ext e d b' = true -> b' = b.
Proof.
  intros He Hn.
  assert (E : forallb (fun e => forallb (fun d =>
     negb (e_num_ext_dir e d =? 1) ||
     match e_get_unique_extension e d with
     | Some b => existsb (N.eqb b) bases4 && e_has_ext e d b &&
                 forallb (fun b' => negb (e_has_ext e d b') || (b' =? b)) bases4
     | None => false end) [false; true]) ExtsProofs.all_exts = true) by (vm_compute; reflexivity).
  rewrite forallb_forall in E. specialize (E e (ExtsProofs.in_all_exts e He)).
  rewrite forallb_forall in E. specialize (E d ltac:(destruct d; cbn; auto)).
  rewrite Hn in E. cbn [N.eqb Pos.eqb negb orb] in E.
  destruct (e_get_unique_extension e d) as [b|]; [|discriminate].
  apply andb_prop in E as [E E3]. apply andb_prop in E as [E1 E2].
  exists b. split.
  - apply existsb_exists in E1. destruct E1 as (x & Hx & Ex). apply N.eqb_eq in Ex. now subst.
  - split; [reflexivity|]. split; [exact E2|]. intros b' Hb' Hh. rewrite forallb_forall in E3.
    specialize (E3 b' Hb'). rewrite Hh in E3. cbn in E3. now apply N.eqb_eq.
Qed.

Lemma has_ext_num e d b : e < 256 -> In b bases4 -> e_has_ext e d b = true -> (e_num_ext_dir e d =? 0) = false.
Proof.
  intros He Hb Hh.
  assert (E : forallb (fun e => forallb (fun d => forallb (fun b =>
     negb (e_has_ext e d b) || negb (e_num_ext_dir e d =? 0)) bases4) [false; true]) ExtsProofs.all_exts = true)
    by (vm_compute; reflexivity).
  rewrite forallb_forall in E. specialize (E e (ExtsProofs.in_all_exts e He)).
  rewrite forallb_forall in E. specialize (E d ltac:(destruct d; cbn; auto)).
  rewrite forallb_forall in E. specialize (E b Hb). rewrite Hh in E. cbn in E. now apply negb_true_iff in E.
Qed.

(* the accumulation loop of get_valid_exts, with the eight tests abstracted *)
Definition vstep (cl cr : N -> bool) (e b : N) : N :=
  let e1 := if cl b then N.lor e (N.shiftl 1 b) else e in
  if cr b then N.lor e1 (N.shiftl 1 (b + 4)) else e1.
Lemma vfold_spec cl cr :
  fold_left (vstep cl cr) bases4 0 < 256 /\
  forall b, In b bases4 -> e_has_ext (fold_left (vstep cl cr) bases4 0) false b = cl b /\
                           e_has_ext (fold_left (vstep cl cr) bases4 0) true b = cr b.
Proof.
  cbn [fold_left bases4]. unfold vstep. split.
  - destruct (cl 0), (cl 1), (cl 2), (cl 3), (cr 0), (cr 1), (cr 2), (cr 3); vm_compute; reflexivity.
  - intros b Hb. cbn in Hb. destruct Hb as [<-|[<-|[<-|[<-|[]]]]];
      destruct (cl 0), (cl 1), (cl 2), (cl 3), (cr 0), (cr 1), (cr 2), (cr 3); vm_compute; split; reflexivity.
Qed.

(* an extension byte is determined by its eight has_ext answers; from_single_dirs of the two single_dirs is the identity *)
Lemma exts_ext_eq e e' : e < 256 -> e' < 256 ->
  (forall d b, In b bases4 -> e_has_ext e d b = e_has_ext e' d b) -> e = e'.
Proof.
  intros He He' H.
  assert (E : forallb (fun e => forallb (fun e' =>
     negb (forallb (fun d => forallb (fun b => Bool.eqb (e_has_ext e d b) (e_has_ext e' d b)) bases4) [false; true])
     || (e =? e')) ExtsProofs.all_exts) ExtsProofs.all_exts = true) by (vm_compute; reflexivity).
  rewrite forallb_forall in E. specialize (E e (ExtsProofs.in_all_exts e He)).
  rewrite forallb_forall in E. specialize (E e' (ExtsProofs.in_all_exts e' He')).
  apply orb_true_iff in E. destruct E as [E|E]; [|now apply N.eqb_eq].
  exfalso. apply negb_true_iff in E. rewrite <- not_true_iff_false in E. apply E.
  apply forallb_forall. intros d _. apply forallb_forall. intros b Hb. rewrite (H d b Hb). apply eqb_reflx.
Qed.
Lemma single_dirs_id e : e < 256 -> e_from_single_dirs (e_single_dir e false) (e_single_dir e true) = e.
Proof.
  intro He.
  assert (E : forallb (fun e => e_from_single_dirs (e_single_dir e false) (e_single_dir e true) =? e)
                      ExtsProofs.all_exts = true) by (vm_compute; reflexivity).
  rewrite forallb_forall in E. apply N.eqb_eq. apply E. now apply ExtsProofs.in_all_exts.
Qed.
