(* C09 under [rvalid_loose] (input graphs with dangling extension bits): every theorem of C09 proved under [rvalid],
   transferred through [prune] (Proofs/RecompLoose.v: compress_graph_prune, restrict_prune, prune_rvalid); and the
   soundness of the boolean [rvalid_looseb]. *)
From Coq Require Import NArith List Bool Arith Lia Permutation.
From DBG Require Import Spec.Dna Spec.GraphIndex Packed.ExtsModel Algo.Compress Algo.KmerHist Algo.GraphModel
  Algo.Recompress Check.RecompCheck Check.RecompLooseCheck Proofs.ListFacts Proofs.DnaFacts Proofs.AbstractWalk
  Proofs.RecompSweeps Proofs.RecompCheckProofs Proofs.RecompressProofs Proofs.RecompIdem Proofs.RecompKmers
  Proofs.RecompExts Proofs.RecompLoose.
Import ListNotations.
Open Scope N_scope.

(* ================================================================ soundness of rvalid_looseb *)
Section LooseSound.
Variable D : Type.
Variable K : nat.
Variable stranded : bool.
Local Notation graph := (graph D).

Theorem rvalid_looseb_sound (g : graph) : rvalid_looseb D K stranded g = true -> rvalid_loose D K stranded g.
Proof.
  unfold rvalid_looseb, rvalid_loose. intro H.
  apply andb_true_iff in H. destruct H as [H H6].
  apply andb_true_iff in H. destruct H as [H H4]. apply andb_true_iff in H. destruct H as [H H3].
  apply andb_true_iff in H. destruct H as [H1 H2].
  split; [|split; [now apply nodupb_sound | split; [now apply nodupb_sound | split]]].
  - apply Forall_forall. intros n Hn. rewrite forallb_forall in H1. specialize (H1 n Hn).
    unfold node_okb in H1. apply andb_true_iff in H1. destruct H1 as [H1 Hd].
    apply andb_true_iff in H1. destruct H1 as [H1 Hc]. apply andb_true_iff in H1. destruct H1 as [Ha Hb].
    unfold node_ok. split; [now apply wf_dnab_sound|]. split; [|now apply N.ltb_lt].
    apply Nat.leb_le in Hb, Hc. lia.
  - intros Es n d Hn Hp. unfold pal_endsb in H4. rewrite Es in H4. cbn [orb] in H4.
    rewrite forallb_forall in H4. specialize (H4 n Hn). rewrite forallb_forall in H4.
    specialize (H4 d (In_dirs2 d)). rewrite Hp in H4. cbn in H4. now apply Nat.eqb_eq.
  - intros x d b y t f n m Hn Hm Hb He. unfold links_symb in H6. rewrite forallb_forall in H6.
    assert (Hx : (x < length g)%nat) by (apply nth_error_Some; congruence).
    specialize (H6 x). rewrite in_seq in H6. specialize (H6 ltac:(lia)).
    rewrite forallb_forall in H6. specialize (H6 d (In_dirs2 d)).
    rewrite forallb_forall in H6. specialize (H6 b Hb). rewrite He, Hn, Hm in H6.
    unfold back_link in H6. apply existsb_exists in H6. destruct H6 as (t' & _ & H6).
    apply existsb_exists in H6. destruct H6 as (b' & Hb' & H6).
    destruct (ext_link D K stranded g y t' b') as [[[x' d'] f']|] eqn:E; [|discriminate].
    apply andb_true_iff in H6. destruct H6 as [H6 Hd]. apply andb_true_iff in H6. destruct H6 as [Hx' Ht].
    apply Nat.eqb_eq in Hx'. subst x'. exists t', b', d', f'. split; auto. split; auto. split.
    + intro Hp. rewrite Hp in Ht. cbn in Ht. now apply dir_eqb_eq.
    + intro Hp. rewrite Hp in Hd. cbn in Hd. now apply dir_eqb_eq.
Qed.

(* the full checker is the loose one plus resolvability *)
Lemma rvalidb_loose_split (g : graph) :
  rvalidb D K stranded g = rvalid_looseb D K stranded g && resolvableb D K stranded g.
Proof.
  unfold rvalidb, rvalid_looseb.
  destruct (forallb (node_okb D K) g), (nodupb (ends_of K (g_seqs D g) DLeft)),
    (nodupb (ends_of K (g_seqs D g) DRight)), (pal_endsb D K stranded g), (resolvableb D K stranded g),
    (links_symb D K stranded g); reflexivity.
Qed.
End LooseSound.

(* ================================================================ the C09 theorems under rvalid_loose *)
Section LooseMain.
Variable D : Type.
Variable reduce : D -> D -> D.
Variable join : D -> D -> bool.
Variable K : nat.
Variable stranded : bool.
Hypothesis join_sym : forall a b, join a b = join b a.
Local Notation graph := (graph D).
Local Notation gnode := (gnode D).
Local Notation rnext := (rnext D join K stranded).
Local Notation winv := (winv D K stranded).
Local Notation wnext := (wnext D join K stranded).
Local Notation survivors := (survivors D).
Local Notation restrict := (restrict D K stranded).
Local Notation rvalid := (rvalid D K stranded).
Local Notation rvalid_loose := (rvalid_loose D K stranded).
Local Notation prune := (prune D K stranded).
Local Notation compress_graph_paths := (compress_graph_paths D reduce join K stranded).

(* everything needed to transfer a statement about the pruned graph g' to g *)
Lemma loose_bridge (g : graph) : rvalid_loose g ->
  exists g', prune g = Some g' /\ rvalid g' /\ length g' = length g /\ g_seqs D g' = g_seqs D g /\
    (forall censor, survivors g' censor = survivors g censor) /\
    (forall S, restrict g' S = restrict g S) /\
    (forall censor, compress_graph_paths g' censor = compress_graph_paths g censor) /\
    (forall S, surv_kmers D K stranded g' S = surv_kmers D K stranded g S).
Proof.
  intro V. destruct (prune_total D K stranded g) as [g' Hp]. exists g'.
  pose proof (prune_length D K stranded g g' Hp) as Hlen.
  pose proof (prune_seqs D K stranded g g' Hp) as Hseq.
  split; [exact Hp|]. split; [eapply prune_rvalid; eauto|]. split; [exact Hlen|]. split; [exact Hseq|].
  split; [intro censor; now apply survivors_length|].
  split; [intro S; now apply restrict_prune|].
  split; [intro censor; now apply compress_graph_prune|].
  intro S. now apply surv_kmers_seqs.
Qed.

Ltac bridge V g' :=
  let Hp := fresh "Hp" in let V' := fresh "V'" in let Hlen := fresh "Hlen" in let Hseq := fresh "Hseq" in
  let HS := fresh "HS" in let HR := fresh "HR" in let HC := fresh "HC" in let HK := fresh "HK" in
  destruct (loose_bridge _ V) as (g' & Hp & V' & Hlen & Hseq & HS & HR & HC & HK).

Theorem recompress_refines_walk_loose (g : graph) censor :
  rvalid_loose g ->
  exists g1 out r,
    restrict g (survivors g censor) = Some g1 /\ winv g1 (survivors g censor) /\
    compress_graph_paths g censor = Some (out, map snd r) /\
    result_ok D reduce join K stranded g1 (survivors g censor) r
      (compress nat Nat.eq_dec (wnext g1 (survivors g censor)) (seq 0 (length g)) (survivors g censor)) /\
    pruned_of D K stranded (map fst r) None out.
Proof.
  intro V. bridge V g'.
  pose proof (recompress_refines_walk_ D reduce join K stranded join_sym g' censor V') as R.
  unfold walk_nodes in R. rewrite HS, HR, HC, Hlen in R. exact R.
Qed.

(* totality: no panic, no fuel exhaustion *)
Theorem recompress_total_loose (g : graph) censor :
  rvalid_loose g -> exists out paths, compress_graph_paths g censor = Some (out, paths).
Proof.
  intro V. destruct (recompress_refines_walk_loose g censor V) as (g1 & out & r & _ & _ & Hc & _). eauto.
Qed.

Theorem recompress_partition_loose (g : graph) censor out paths :
  rvalid_loose g -> compress_graph_paths g censor = Some (out, paths) ->
  length out = length paths /\
  NoDup (concat (map (map fst) paths)) /\
  forall x, In x (concat (map (map fst) paths)) <->
            (x < length g)%nat /\ match censor with Some c => ~ In x c | None => True end.
Proof.
  intros V H. bridge V g'. rewrite <- HC in H.
  pose proof (recompress_partition D reduce join K stranded join_sym g' censor out paths V' H) as R.
  rewrite Hlen in R. exact R.
Qed.

Theorem recompress_maximal_loose (g : graph) censor out paths :
  rvalid_loose g -> compress_graph_paths g censor = Some (out, paths) ->
  exists g1, restrict g (survivors g censor) = Some g1 /\
    forall p, In p paths -> forall x d w t, In x (map fst p) -> rnext g1 x d = Some (w, t) -> In w (map fst p).
Proof.
  intros V H. bridge V g'. rewrite <- HC in H.
  pose proof (recompress_maximal_ D reduce join K stranded join_sym g' censor out paths V' H) as R.
  rewrite HS, HR in R. exact R.
Qed.

Theorem recompress_nodes_loose (g : graph) censor out paths :
  rvalid_loose g -> compress_graph_paths g censor = Some (out, paths) ->
  exists g1, restrict g (survivors g censor) = Some g1 /\
             Forall2 (node_of_path D reduce join K stranded g1) out paths.
Proof.
  intros V H. bridge V g'. rewrite <- HC in H.
  pose proof (recompress_nodes D reduce join K stranded join_sym g' censor out paths V' H) as R.
  rewrite HS, HR in R. exact R.
Qed.

Theorem recompress_merged_ok_loose (g : graph) censor out paths :
  rvalid_loose g -> compress_graph_paths g censor = Some (out, paths) ->
  exists g1, restrict g (survivors g censor) = Some g1 /\
             Forall (merged_ok D join K stranded g1 (survivors g censor)) out.
Proof.
  intros V H. bridge V g'. rewrite <- HC in H.
  pose proof (recompress_merged_ok D reduce join K stranded join_sym g' censor out paths V' H) as R.
  rewrite HS, HR in R. exact R.
Qed.

Theorem payload_fold_loose (g : graph) censor out paths :
  rvalid_loose g -> compress_graph_paths g censor = Some (out, paths) ->
  exists g1, restrict g (survivors g censor) = Some g1 /\
    Forall2 (fun n p => exists lp seed rp sd0 ds, p = assemble lp seed rp /\
               option_map (n_data D) (nth_error g1 seed) = Some sd0 /\
               datas D g1 (verts nat lp ++ verts nat rp) = Some ds /\
               n_data D n = fold_left reduce ds sd0) out paths.
Proof.
  intros V H. bridge V g'. rewrite <- HC in H.
  pose proof (payload_fold_ D reduce join K stranded join_sym g' censor out paths V' H) as R.
  rewrite HS, HR in R. exact R.
Qed.

Theorem recompress_kmers_exact_loose (g : graph) censor out paths :
  rvalid_loose g -> compress_graph_paths g censor = Some (out, paths) ->
  Permutation (graph_kmers D K stranded out) (surv_kmers D K stranded g (survivors g censor)) /\
  (NoDup (surv_kmers D K stranded g (survivors g censor)) -> kmers_exact D K stranded g censor out).
Proof.
  intros V H. bridge V g'. rewrite <- HC in H.
  pose proof (recompress_kmers_exact D reduce join K stranded join_sym g' censor out paths V' H) as R.
  unfold kmers_exact in *. rewrite HS, HK in R. exact R.
Qed.

Theorem recompress_exts_exact_loose (g : graph) censor out paths :
  rvalid_loose g -> compress_graph_paths g censor = Some (out, paths) ->
  exts_exact D K stranded g censor out.
Proof.
  intros V H. bridge V g'. rewrite <- HC in H.
  pose proof (recompress_exts_exact D reduce join K stranded join_sym g' censor out paths V' H) as R.
  unfold exts_exact in *. rewrite HS, HR in R. exact R.
Qed.

Theorem recompress_node_exts_loose (g : graph) censor out paths :
  rvalid_loose g -> compress_graph_paths g censor = Some (out, paths) ->
  exists g1, restrict g (survivors g censor) = Some g1 /\
    Forall2 (fun n p => sequence_of_path D K g1 p = Some (n_seq D n) /\ path_exts D g1 p = Some (n_exts D n)) out paths.
Proof.
  intros V H. bridge V g'. rewrite <- HC in H.
  pose proof (recompress_node_exts D reduce join K stranded join_sym g' censor out paths V' H) as R.
  rewrite HS, HR in R. exact R.
Qed.

Theorem final_fix_exts_identity_loose (g : graph) censor g1 r :
  rvalid_loose g ->
  fix_exts D K stranded g (Some (initial_avail (length g) censor)) = Some g1 ->
  rb_loop D reduce join K stranded g1 (seq 0 (length g)) (initial_avail (length g) censor) = Some r ->
  fix_exts D K stranded (map fst r) None = Some (map fst r).
Proof.
  intros V Hg1 Hr. bridge V g'.
  apply (final_fix_exts_identity D reduce join K stranded join_sym g' censor g1 r V').
  - rewrite Hlen. change (restrict g' (initial_avail (length g) censor) = Some g1). now rewrite HR.
  - now rewrite Hlen.
Qed.

(* idempotence: a loosely valid graph whose PRUNED graph has no mergeable pair of distinct nodes is compressed to its
   pruned graph - same nodes, same order, same orientation, same payloads, the extension bytes minus the dangling bits *)
Theorem recompress_idempotent_loose (g g' : graph) :
  rvalid_loose g -> prune g = Some g' ->
  (forall x d y t, rnext g' x d = Some (y, t) -> y = x) ->
  compress_graph D reduce join K stranded g None = Some g'.
Proof.
  intros V Hp Hself. unfold compress_graph.
  rewrite <- (compress_graph_prune D reduce join K stranded g g' None Hp).
  apply (recompress_idempotent_full D reduce join K stranded join_sym g').
  - eapply prune_rvalid; eauto.
  - exact Hself.
Qed.

End LooseMain.
