(* The observation list of the filter model (Algo/Filter.v `observations`, the input of filter_kmers / C05, C06) computed
   from PACKED data: per read the packed k-mer+extensions iterator (Algo/Iter.v), per item the packed canonicalisation
   `min_rc_flip` (Packed/KmerModel.v) and `Exts::rc` of the full Exts model (Packed/ExtsModel.v) - exactly the calls of
   filter.rs:192-200.  Both strandedness settings. *)
From Coq Require Import NArith List Bool Arith Lia.
From DBG Require Import Spec.Dna Packed.KmerModel Packed.ExtsModel Packed.Blocks Packed.DnaStringModel Packed.SliceModel
  Packed.LmerModel Algo.Iter Algo.SeqHist Algo.KmerHist Proofs.KmerDefaults Proofs.ExtsProofs Proofs.LmerProofs
  Proofs.IterProofs Proofs.DnaStringProofs Proofs.ExtsBridge Proofs.IterBridge.
From DBG Require Packed.ExtsMini Algo.Filter.
Import ListNotations.
Open Scope N_scope.

Fixpoint omapM {A B} (f : A -> option B) (l : list A) : option (list B) :=
  match l with
  | [] => Some []
  | x :: r => do y <- f x; do t <- omapM f r; Some (y :: t)
  end.
Lemma omapM_total {A B} (f : A -> option B) (g : A -> B) l :
  Forall (fun x => f x = Some (g x)) l -> omapM f l = Some (map g l).
Proof.
  induction 1 as [|x r Hx _ IH]; [reflexivity|]. cbn [omapM map]. rewrite Hx. cbn [obind]. rewrite IH. reflexivity.
Qed.

(* filter.rs:194-200 on a packed item: `if stranded { (kmer, exts) } else { let (k, flip) = kmer.min_rc_flip();
   (k, if flip { exts.rc() } else { exts }) }`, then viewed as base list + byte *)
Definition packed_canon (c : kcfg) (stranded : bool) (it : N * N) : option (dna * N) :=
  if stranded then Some (item_obs c it)
  else do p <- min_rc_flip c (fst it);
       Some (decode (kK c) (fst p), if snd p then e_rc (snd it) else snd it).

Lemma packed_canon_spec c : In c shipped -> forall stranded it, item_wf c it ->
  packed_canon c stranded it = Some (Filter.canon_obs stranded (item_obs c it)).
Proof.
  intros Hc stranded it [Hw Hb]. unfold packed_canon, Filter.canon_obs. destruct stranded; [reflexivity|].
  destruct (min_rc_flip_spec c Hc (fst it) Hw) as [m [f [E [_ D]]]]. rewrite E. cbn [obind fst snd].
  unfold item_obs. cbn [fst snd]. rewrite <- D. cbn [fst snd].
  destruct (exts_models_agree_unary (snd it) Hb) as [R _]. rewrite R. reflexivity.
Qed.

Section Obs.
Context {D : Type}.
Variable c : kcfg.
Hypothesis Hc : In c shipped.
Let K := kK c.

(* ---- generic in the container type A: [iter a e] runs the packed iterator on container a, [abs a] is its base list *)
Section Generic.
Context {A : Type}.
Variable iter : A -> N -> option (list (N * N)).
Variable abs : A -> dna.

Definition packed_read_obs (stranded : bool) (r : A * N * D) : option (list (dna * N * D)) :=
  do items <- iter (fst (fst r)) (snd (fst r));
  do os <- omapM (packed_canon c stranded) items;
  Some (map (fun o => (o, snd r)) os).
Definition packed_observations (stranded : bool) (reads : list (A * N * D)) : option (list (dna * N * D)) :=
  do ll <- omapM (packed_read_obs stranded) reads; Some (concat ll).
Definition abs_read (r : A * N * D) : dna * N * D := (abs (fst (fst r)), snd (fst r), snd r).

(* what a container theorem of Proofs/IterBridge.v provides for one read *)
Definition read_ok (r : A * N * D) : Prop :=
  exists items, iter (fst (fst r)) (snd (fst r)) = Some items /\ Forall (item_wf c) items /\
                map (item_obs c) items = Filter.kmer_exts K (abs (fst (fst r))) (snd (fst r)).

Lemma packed_read_obs_spec stranded r : read_ok r ->
  packed_read_obs stranded r =
  Some (map (fun o => (Filter.canon_obs stranded o, snd r)) (Filter.kmer_exts K (abs (fst (fst r))) (snd (fst r)))).
Proof.
  intros [items [E [W M]]]. unfold packed_read_obs. rewrite E. cbn [obind].
  rewrite (omapM_total _ (fun it => Filter.canon_obs stranded (item_obs c it))).
  2:{ eapply Forall_impl; [|exact W]. intros it Hit. now apply packed_canon_spec. }
  cbn [obind]. rewrite <- M, !map_map. reflexivity.
Qed.

Theorem packed_observations_generic stranded reads : Forall read_ok reads ->
  packed_observations stranded reads = Some (Filter.observations K stranded (map abs_read reads)).
Proof.
  intro H. unfold packed_observations.
  rewrite (omapM_total _ (fun r => map (fun o => (Filter.canon_obs stranded o, snd r))
                                      (Filter.kmer_exts K (abs (fst (fst r))) (snd (fst r))))).
  2:{ eapply Forall_impl; [|exact H]. intros r Hr. now apply packed_read_obs_spec. }
  cbn [obind]. f_equal. unfold Filter.observations. rewrite flat_map_concat_map, map_map. reflexivity.
Qed.
End Generic.

(* ---- reads given as byte containers (DnaBytes / DnaSlice / Vec<u8> of 2-bit codes): the abstraction is the identity *)
Definition bytes_iter (l : dna) (e : N) : option (list (N * N)) :=
  iter_kmer_exts c (length l) (nth_opt l) (bytes_get_kmer c l) e.
Theorem bytes_packed_observations stranded (reads : list (dna * N * D)) :
  Forall (fun r => wf_dna (fst (fst r)) /\ snd (fst r) < 256) reads ->
  packed_observations bytes_iter stranded reads = Some (Filter.observations K stranded reads).
Proof.
  intro H. rewrite (packed_observations_generic bytes_iter (fun l => l)).
  - f_equal. f_equal. rewrite <- (map_id reads) at 2. apply map_ext. intros [[l e] d]. reflexivity.
  - eapply Forall_impl; [|exact H]. intros r [Hl He]. apply (bytes_iter_is_filter_kmer_exts c Hc _ _ Hl He).
Qed.

(* ---- reads given as DnaStrings satisfying the representation invariant *)
Definition d_iter (s : dstr) (e : N) : option (list (N * N)) :=
  iter_kmer_exts c (d_len s) (d_get s) (d_get_kmer c s) e.
Theorem dnastring_packed_observations stranded (reads : list (dstr * N * D)) :
  Forall (fun r => d_inv (fst (fst r)) /\ snd (fst r) < 256) reads ->
  packed_observations d_iter stranded reads =
  Some (Filter.observations K stranded (map (abs_read d_abs) reads)).
Proof.
  intro H. apply packed_observations_generic.
  eapply Forall_impl; [|exact H]. intros r [Hi He]. apply (d_iter_is_filter_kmer_exts c Hc _ _ Hi He).
Qed.
End Obs.

(* ---- composed with C05 (filter_spec): filter_kmers, run at the K of a shipped k-mer type with K >= 4, returns the
   reference grouping of the observations computed from the PACKED iterator / min_rc_flip / Exts::rc *)
From DBG Require Import Proofs.FilterProofs.
Theorem filter_kmers_of_packed_observations {D DS} (summarize : list (@Filter.obs D) -> bool * N * DS) report_all
    c stranded size_of memory_size unit (reads : list (dna * N * D)) :
  In c shipped -> (4 <= kK c)%nat -> 1 <= memory_size * Filter.eff_unit unit ->
  Forall (fun r => wf_dna (fst (fst r)) /\ snd (fst r) < 256) reads ->
  exists os passes,
    packed_observations c (bytes_iter c) stranded reads = Some os /\
    Filter.filter_kmers summarize report_all (kK c) stranded size_of memory_size unit reads
      = Some (Filter.reference_obs summarize report_all os, passes).
Proof.
  intros Hc HK Hm Hr.
  assert (Hok : reads_ok reads). { unfold reads_ok. eapply Forall_impl; [|exact Hr]. intros r [H _]. exact H. }
  destruct (filter_spec summarize report_all (kK c) stranded size_of memory_size unit reads HK Hm Hok) as [p [E _]].
  exists (Filter.observations (kK c) stranded reads), p. split; [|exact E].
  now apply bytes_packed_observations.
Qed.
