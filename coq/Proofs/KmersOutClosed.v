(* kout (2): consequences of [kmers_out_no_pair] (Proofs/KmersOut.v).
   CLOSED tables (every recorded extension leads to a present k-mer): the graph compress_kmers builds is valid, has
   nothing to prune, has no mergeable pair, passes the crate's is_compressed test and is a fixed point of compress_graph
   - for EVERY congruent compression spec ([kmers_out_closed]).
   LOOSE tables: the statements about the PRUNED graph are false (Properties/C02Out.v, C02O_pruned_refuted).  What holds:
   [rnext_prune_cases] (any graph) a mergeable pair of the pruned graph is a mergeable pair of the graph itself, unless
   one of the two facing node ends carries a dangling bit; hence [kmers_out_pruned_pair]: in the pruned graph of a
   compress_kmers output the ONLY mergeable pairs of distinct nodes are those hidden by a dangling extension bit. *)
From Coq Require Import NArith List Bool Arith Lia Permutation.
From DBG Require Import Spec.Dna Spec.GraphIndex Spec.Unitig Spec.CompressSpec Packed.ExtsModel Algo.Compress
  Algo.GraphModel Algo.Recompress Algo.IsCompressed Check.RecompCheck Check.RecompLooseCheck
  Proofs.ExtsProofs Proofs.ExtsWalk Proofs.CompressGraphOk Proofs.RecompCheckProofs Proofs.RecompIdem Proofs.RecompLoose
  Proofs.RecompLooseMain Proofs.RecompLooseGraphOk Proofs.RecompOut Proofs.RecompOutMain Proofs.RoutesIdem Proofs.KmersOut.
Import ListNotations.
Local Open Scope nat_scope.

(* ---------------------------------------------------------------- pruning and node-level mergeability, any graph *)
Section PruneRnext.
Variable D : Type.
Variable join : D -> D -> bool.
Variable K : nat.
Variable st : bool.
Local Notation graph := (graph D).

Lemma side_agree_dec (e e' : N) (dir : bool) :
  (forall b, In b bases4 -> e_has_ext e' dir b = e_has_ext e dir b) \/
  (exists b, In b bases4 /\ e_has_ext e' dir b <> e_has_ext e dir b).
Proof.
  generalize bases4. induction l as [|a l [IH|(b & Hb & Hne)]].
  - left. intros b [].
  - destruct (bool_dec (e_has_ext e' dir a) (e_has_ext e dir a)) as [E|E].
    + left. intros b [<-|Hb]; auto.
    + right. exists a. split; [now left | exact E].
  - right. exists b. split; [now right | exact Hne].
Qed.

Theorem rnext_prune_cases (g g' : graph) x d y t :
  (forall n, In n g -> (n_exts D n < 256)%N) -> prune D K st g = Some g' ->
  rnext D join K st g' x d = Some (y, t) ->
  rnext D join K st g x d = Some (y, t) \/
  (exists b, dangling D K st g x d b) \/ (exists b, dangling D K st g y t b).
Proof.
  intros Hlt Hp H.
  pose proof (prune_seqs D K st g g' Hp) as Hseq.
  assert (Hfl : forall k dd, find_link D K st g' k dd = find_link D K st g k dd)
    by (intros k dd; unfold find_link; now rewrite Hseq).
  assert (Hlen : length g' = length g) by exact (prune_length D K st g g' Hp).
  unfold rnext in H. destruct (nth_error g' x) as [n'|] eqn:En'; [|discriminate].
  destruct (nth_error g x) as [n|] eqn:En;
    [|exfalso; apply nth_error_None in En; assert (x < length g') by (apply nth_error_Some; congruence); lia].
  destruct (prune_spec D K st g g' x n Hp En) as (e & En2 & He & Hbits).
  rewrite En' in En2. injection En2 as ->.
  destruct (negb (e_num_ext_dir (n_exts D (n_seq D n, e, n_data D n)) (dirb d) =? 1)%N ||
            pal_single D K st (n_seq D n, e, n_data D n)) eqn:E1; [discriminate|].
  apply orb_false_iff in E1 as [E1a E1b]. apply negb_false_iff, N.eqb_eq in E1a.
  change (n_exts D (n_seq D n, e, n_data D n)) with e in *. change (n_seq D (n_seq D n, e, n_data D n)) with (n_seq D n) in *.
  change (n_data D (n_seq D n, e, n_data D n)) with (n_data D n) in *.
  destruct (e_get_unique_extension e (dirb d)) as [b|] eqn:Eu; [|discriminate]. cbv zeta in H.
  rewrite Hfl in H.
  destruct (find_link D K st g (extend (term_kmer K (n_seq D n) d) b d) d) as [[[y' t'] f]|] eqn:Ef; [|discriminate].
  destruct (nth_error g' y') as [m'|] eqn:Em'; [|discriminate].
  destruct (nth_error g y') as [m|] eqn:Em;
    [|exfalso; apply nth_error_None in Em; assert (y' < length g') by (apply nth_error_Some; congruence); lia].
  destruct (prune_spec D K st g g' y' m Hp Em) as (em & Em2 & Hem & Hbitsm).
  rewrite Em' in Em2. injection Em2 as ->.
  change (n_exts D (n_seq D m, em, n_data D m)) with em in *. change (n_data D (n_seq D m, em, n_data D m)) with (n_data D m) in *.
  destruct ((negb st && is_palindrome (extend (term_kmer K (n_seq D n) d) b d)) || negb (join (n_data D n) (n_data D m))) eqn:E2;
    [discriminate|].
  destruct (e_num_ext_dir em (dirb t') =? 1)%N eqn:E3; [|discriminate]. apply N.eqb_eq in E3.
  injection H as -> ->.
  assert (Hn : In n g) by (eapply nth_error_In; eauto). assert (Hm : In m g) by (eapply nth_error_In; eauto).
  (* a bit lost by pruning is a dangling bit *)
  assert (Hdang : forall z dd nz ez, nth_error g z = Some nz ->
            (forall dd' b0, In b0 bases4 -> e_has_ext ez (dirb dd') b0 =
               e_has_ext (n_exts D nz) (dirb dd') b0 &&
               match ext_link D K st g z dd' b0 with Some _ => true | None => false end) ->
            (exists b0, In b0 bases4 /\ e_has_ext ez (dirb dd) b0 <> e_has_ext (n_exts D nz) (dirb dd) b0) ->
            exists b0, dangling D K st g z dd b0).
  { intros z dd nz ez Hz Hb (b0 & Hb0 & Hne). exists b0, nz. split; [exact Hz|].
    rewrite (Hb dd b0 Hb0) in Hne. destruct (e_has_ext (n_exts D nz) (dirb dd) b0); [|now cbn in Hne].
    split; [reflexivity|]. destruct (ext_link D K st g z dd b0); [now cbn in Hne | reflexivity]. }
  destruct (side_agree_dec (n_exts D n) e (dirb d)) as [Ag|Dx]; [|right; left; exact (Hdang x d n e En Hbits Dx)].
  destruct (side_agree_dec (n_exts D m) em (dirb t)) as [Agm|Dy]; [|right; right; exact (Hdang y t m em Em Hbitsm Dy)].
  left. unfold rnext. rewrite En.
  assert (N1 : e_num_ext_dir (n_exts D n) (dirb d) = 1%N) by (apply (num_ext_agree e (n_exts D n)); auto).
  change (pal_single D K st (n_seq D n, e, n_data D n)) with (pal_single D K st n) in E1b.
  rewrite N1, E1b. cbn [N.eqb Pos.eqb negb orb].
  destruct (unique_ext_spec _ _ (Hlt n Hn) N1) as (u & Hu & Hub & Huh & Huu). rewrite Hu. cbv zeta.
  destruct (unique_ext_spec _ _ He E1a) as (u' & Hu' & Hub' & Huh' & _). rewrite Eu in Hu'. injection Hu' as <-.
  assert (b = u) by (apply Huu; [exact Hub'|]; rewrite <- (Ag b (in_bases4 b Hub')); exact Huh'). subst u.
  rewrite Ef, Em, E2.
  assert (N2 : e_num_ext_dir (n_exts D m) (dirb t) = 1%N) by (apply (num_ext_agree em (n_exts D m)); auto).
  now rewrite N2.
Qed.
End PruneRnext.

(* ---------------------------------------------------------------- compress_kmers outputs *)
Section KmersOutCor.
Variable D : Type.
Variable reduce : D -> D -> D.
Variable join : D -> D -> bool.
Variable K : nat.
Variable st : bool.
Hypothesis HK : 1 <= K.
Hypothesis C : congruent D reduce join.
Variable T : table D.
Hypothesis Hok : tbl_ok D K st T.
Hypothesis Hsym : CompressSpec.exts_sym D st T.
Hypothesis Hpal : exts_sym_pal D st T.
Variable nodes : list (node D).
Hypothesis Hc : compress_kmers D reduce join st T = Some nodes.

Let join_sym : forall a b, join a b = join b a := congruent_sym D reduce join C.
Let no_pair := kmers_out_no_pair D reduce join K st HK C T Hok Hsym Hpal nodes Hc.

(* loose tables: the only mergeable pairs of the pruned graph are those hidden by a dangling bit *)
Theorem kmers_out_pruned_pair g' x d y t : prune D K st nodes = Some g' ->
  rnext D join K st g' x d = Some (y, t) ->
  y = x \/ (exists b, dangling D K st nodes x d b) \/ (exists b, dangling D K st nodes y t b).
Proof.
  intros Hp H.
  destruct (rnext_prune_cases D join K st nodes g' x d y t) as [H1|H1]; auto.
  - intros n Hn. destruct (nodes_loose D reduce join K st HK T Hok Hsym Hpal nodes Hc) as (Hno & _).
    rewrite Forall_forall in Hno. now destruct (Hno n Hn) as (_ & _ & Hlt).
  - left. exact (no_pair x d y t H1).
Qed.

(* a graph without dangling bits: pruned graph = graph *)
Theorem kmers_out_rvalid_all : rvalid D K st nodes ->
  prune D K st nodes = Some nodes /\
  (forall x d y t, rnext D join K st nodes x d = Some (y, t) -> y = x) /\
  is_compressed D join K st nodes = None /\
  compress_graph D reduce join K st nodes None = Some nodes.
Proof.
  intro V. split; [now apply prune_rvalid_id|]. split; [exact no_pair|]. split.
  - exact (is_compressed_none_of_no_pair D join K st nodes V no_pair).
  - exact (recompress_idempotent_full D reduce join K st join_sym nodes V no_pair).
Qed.

(* closed tables *)
Theorem kmers_out_closed : exts_closed D st T ->
  rvalid D K st nodes /\ prune D K st nodes = Some nodes /\
  (forall x d y t, rnext D join K st nodes x d = Some (y, t) -> y = x) /\
  is_compressed D join K st nodes = None /\
  compress_graph D reduce join K st nodes None = Some nodes.
Proof.
  intro Hcl.
  assert (V : rvalid D K st nodes) by exact (compress_kmers_rvalid D reduce join K st HK join_sym T Hok Hsym Hpal Hcl nodes Hc).
  split; [exact V | now apply kmers_out_rvalid_all].
Qed.
End KmersOutCor.

(* with totality: compress_kmers returns, and what it returns passes is_compressed and is a fixed point of compress_graph *)
Theorem compress_kmers_compressed D reduce join K st : 1 <= K -> congruent D reduce join -> forall T : table D,
  tbl_ok D K st T -> CompressSpec.exts_sym D st T -> exts_sym_pal D st T -> exts_closed D st T ->
  exists nodes, compress_kmers D reduce join st T = Some nodes /\
    is_compressed D join K st nodes = None /\
    compress_graph D reduce join K st nodes None = Some nodes.
Proof.
  intros HK C T Hok Hsym Hpal Hcl.
  destruct (compress_kmers_rvalid_loose D reduce join K st HK T Hok Hsym Hpal) as (nodes & Hc & _).
  exists nodes. split; [exact Hc|].
  destruct (kmers_out_closed D reduce join K st HK C T Hok Hsym Hpal nodes Hc Hcl) as (_ & _ & _ & I & F). auto.
Qed.

Print Assumptions rnext_prune_cases.
Print Assumptions kmers_out_pruned_pair.
Print Assumptions kmers_out_closed.
Print Assumptions compress_kmers_compressed.
