(* The boolean checkers of Check/ExportCheck.v decide the Props of Spec/ExportSpec.v. *)
From Coq Require Import List Bool Arith Lia.
From DBG Require Import Spec.GraphIndex Spec.ExportSpec Check.ExportCheck Proofs.ExportGfaProofs.
Import ListNotations.
Local Open Scope nat_scope.

Lemma nend_eqb_iff x y : nend_eqb x y = true <-> x = y.
Proof.
  destruct x as [n a], y as [m b]. unfold nend_eqb. cbn [fst snd].
  rewrite andb_true_iff, Nat.eqb_eq, dir_eqb_iff. split; [intros [-> ->]; reflexivity|intros H; inversion H; auto].
Qed.
Lemma mem_end_iff e l : mem_end e l = true <-> In e l.
Proof.
  unfold mem_end. rewrite existsb_exists. split.
  - intros (x & Hx & E). apply nend_eqb_iff in E. now subst.
  - intros H. exists e. split; [exact H|now apply nend_eqb_iff].
Qed.

Theorem chk_gfa_sound_iff K E lines : chk_gfa_sound K E lines = true <-> Forall (link_sound K E) lines.
Proof.
  unfold chk_gfa_sound. rewrite forallb_forall, Forall_forall.
  split; intros H l Hl; specialize (H l Hl); destruct l as [[[[u o1] v] o2] ov]; unfold chk_link_sound, link_sound in *.
  - apply andb_true_iff in H as [H1 H2]. apply Nat.eqb_eq in H1. apply mem_end_iff in H2. auto.
  - destruct H as [H1 H2]. apply andb_true_iff. split; [now apply Nat.eqb_eq|now apply mem_end_iff].
Qed.

Lemma in_reports E u a v b : In ((u, a), (v, b)) (reports E) <-> In (v, b) (tab_edges E u a).
Proof.
  unfold reports. rewrite in_flat_map. split.
  - intros (i & _ & H). apply in_app_iff in H as [H|H]; apply in_map_iff in H as (e & E0 & He); inversion E0; subst; exact He.
  - intros H. exists u. split.
    + apply in_seq. pose proof (tab_edges_in_range _ _ _ _ H). lia.
    + apply in_app_iff. destruct a; [left|right]; apply in_map_iff; exists (v, b); auto.
Qed.

Lemma chk_once_iff pal lines x y : chk_once pal lines (x, y) = true <-> once_or_twice pal lines x y.
Proof.
  unfold chk_once, once_or_twice. cbn [fst snd]. destruct (pal (fst x) || pal (fst y)).
  - rewrite andb_true_iff, !Nat.leb_le. tauto.
  - apply Nat.eqb_eq.
Qed.

Theorem chk_gfa_complete_once_iff pal E lines :
  chk_gfa_complete_once pal E lines = true <-> complete_once pal E lines.
Proof.
  unfold chk_gfa_complete_once, complete_once. rewrite forallb_forall. split.
  - intros H u a v b Hin. apply chk_once_iff. apply (H ((u, a), (v, b))). now apply in_reports.
  - intros H [[u a] [v b]] Hr. apply chk_once_iff. apply H. now apply in_reports.
Qed.

Lemma chk_symmetric_sound pal E : chk_symmetric pal E = true -> tab_symmetric pal E.
Proof.
  unfold chk_symmetric, tab_symmetric. rewrite forallb_forall. intros H u a v b Hin.
  specialize (H ((u, a), (v, b)) (proj2 (in_reports E u a v b) Hin)). cbn beta iota in H.
  apply existsb_exists in H as (a' & _ & H). apply existsb_exists in H as (b' & _ & H).
  apply andb_true_iff in H as [H H3]. apply andb_true_iff in H as [H1 H2].
  exists a', b'. apply orb_true_iff in H1, H2. rewrite !dir_eqb_iff in *. apply mem_end_iff in H3. tauto.
Qed.

Lemma nodup_ends_sound l : nodup_ends l = true -> NoDup l.
Proof.
  induction l as [|x r IH]; cbn [nodup_ends]; intros H; constructor; apply andb_true_iff in H as [H1 H2].
  - intros Hin. apply mem_end_iff in Hin. rewrite Hin in H1. discriminate.
  - auto.
Qed.

Lemma chk_distinct_sound pal E : chk_distinct pal E = true -> tab_distinct pal E.
Proof.
  unfold chk_distinct, tab_distinct. rewrite forallb_forall. intros H u a.
  destruct (Nat.lt_ge_cases u (length E)) as [Hu|Hu].
  - specialize (H u (proj2 (in_seq _ _ _) (conj (Nat.le_0_l _) Hu))). apply andb_true_iff in H as [H1 H2].
    destruct a; now apply nodup_ends_sound.
  - unfold tab_edges. rewrite (proj2 (nth_error_None E u) Hu). constructor.
Qed.

Lemma chk_pal_no_self_sound pal E : chk_pal_no_self pal E = true -> tab_pal_no_self pal E.
Proof.
  unfold chk_pal_no_self, tab_pal_no_self. rewrite forallb_forall. intros H u a b P Hin.
  specialize (H ((u, a), (u, b)) (proj2 (in_reports E u a u b) Hin)). cbn [fst snd] in H.
  now rewrite P, Nat.eqb_refl in H.
Qed.

Theorem chk_tab_ok_sound pal E : chk_tab_ok pal E = true -> tab_ok pal E.
Proof.
  unfold chk_tab_ok, tab_ok. intros H. apply andb_true_iff in H as [H H3]. apply andb_true_iff in H as [H1 H2].
  auto using chk_symmetric_sound, chk_distinct_sound, chk_pal_no_self_sound.
Qed.
