(* e2e-sharded, graph level, no tables: a graph G with [lgraph_ok S' G] (Proofs/LooseGraph.v) whose (canonical) k-mers
   are pairwise distinct is loosely valid ([rvalid_loose], the hypothesis of the C09X theorems) - its extension bits may
   dangle -, an extension bit resolves exactly when the k-mer it leads to is a k-mer of G, and the pruned graph
   (fix_exts None, the first step of compress_graph) satisfies [lgraph_ok] w.r.t. the part S of S' whose links have both
   k-mers in G. *)
From Coq Require Import NArith List Bool Arith Lia Permutation.
From DBG Require Import Spec.Dna Spec.GraphIndex Spec.Unitig Spec.CompressSpec Packed.ExtsModel Algo.Compress
  Algo.KmerHist Algo.GraphModel Algo.Recompress Spec.EdgeSpec Check.GraphCheck Check.PipelineCheck Check.RecompCheck Check.RecompLooseCheck
  Proofs.ListFacts Proofs.DnaFacts Proofs.KmerAlgebra Proofs.ExtsProofs Proofs.ExtsWalk
  Proofs.CompressBasics Proofs.CompressProofs Proofs.CompressGraphOk Proofs.FilterProofs Proofs.GraphQueryProofs
  Proofs.ValidGraphProofs Proofs.PipelineCheckProofs Proofs.UnitigUnique Proofs.GraphRcProofs
  Proofs.E2eDefs Proofs.E2eSym Proofs.E2eGraph Proofs.E2eTable Proofs.LooseGraph.
Import ListNotations.
Local Open Scope nat_scope.

Local Notation gk := PipelineCheck.graph_kmers.
Local Notation nk := PipelineCheck.node_kmers.

Lemma filter_sub_single {A} (p1 p2 : A -> bool) l b : filter p1 l = [b] -> (forall c, p2 c = true -> p1 c = true) ->
  p2 b = true -> filter p2 l = [b].
Proof.
  intros H1 Hsub Hb.
  assert (E : filter p2 l = filter p2 (filter p1 l)).
  { clear H1 Hb. induction l as [|a l IH]; [reflexivity|]. cbn [filter]. destruct (p2 a) eqn:E2.
    - rewrite (Hsub a E2). cbn [filter]. rewrite E2. now f_equal.
    - destruct (p1 a); cbn [filter]; rewrite ?E2; exact IH. }
  rewrite E, H1. cbn [filter]. now rewrite Hb.
Qed.

Lemma in_kmers_at' K0 (s : dna) p : p + K0 <= length s -> In (kmer_at K0 s p) (kmers K0 s).
Proof. intro H. unfold kmers. apply in_map_iff. exists p. split; [reflexivity|]. apply in_seq. lia. Qed.

Section Occ.
Variable K : nat.
Variable st : bool.
Variable G : list node_t.
Hypothesis HK : 1 <= K.
Hypothesis Hwf : Forall (node_wf K) G.
Hypothesis Hnd : NoDup (gk K st G).

Lemma nth_in x (n : node_t) : nth_error G x = Some n -> In n G.
Proof. apply nth_error_In. Qed.
Lemma nwf n : In n G -> K <= length (nd_seq n) /\ wf_dna (nd_seq n).
Proof. intro H. destruct (proj1 (Forall_forall _ _) Hwf n H) as [A B]. auto. Qed.
Lemma win_ok (n : node_t) p : In n G -> p + K <= length (nd_seq n) ->
  length (kmer_at K (nd_seq n) p) = K /\ wf_dna (kmer_at K (nd_seq n) p) /\ kmer_at K (nd_seq n) p <> [].
Proof.
  intros Hn Hp. destruct (nwf n Hn) as [L W]. destruct (kmer_at_ok K _ p W Hp) as [Lx Wx]. repeat split; auto.
  intro E. rewrite E in Lx. cbn in Lx. lia.
Qed.
Lemma in_gk (n : node_t) p : In n G -> p + K <= length (nd_seq n) -> In (cn st (kmer_at K (nd_seq n) p)) (gk K st G).
Proof.
  intros Hn Hp. unfold PipelineCheck.graph_kmers. apply in_flat_map. exists n. split; [exact Hn|].
  unfold PipelineCheck.node_kmers. apply in_map. now apply in_kmers_at'.
Qed.
Lemma gk_occ k : In k (gk K st G) -> exists x (n : node_t) p, nth_error G x = Some n /\ p + K <= length (nd_seq n) /\
  k = cn st (kmer_at K (nd_seq n) p).
Proof.
  unfold PipelineCheck.graph_kmers. intro H. apply in_flat_map in H as [n [Hn H]]. apply in_node_kmers in H as [p [Hp ->]].
  destruct (In_nth_error _ _ Hn) as [x Hx]. eauto 6.
Qed.
(* every (canonical) k-mer occurs at one position of one node *)
Lemma occ_unique x y (n m : node_t) p q : nth_error G x = Some n -> nth_error G y = Some m ->
  p + K <= length (nd_seq n) -> q + K <= length (nd_seq m) ->
  cn st (kmer_at K (nd_seq n) p) = cn st (kmer_at K (nd_seq m) q) -> x = y /\ p = q.
Proof.
  intros Hx Hy Hp Hq E. unfold PipelineCheck.graph_kmers in Hnd. rewrite flat_map_concat_map in Hnd.
  apply NoDup_concat_inv in Hnd as [O1 O2]. rewrite map_length in O1, O2.
  assert (Lx : x < length G) by (apply nth_error_Some; congruence).
  assert (Ly : y < length G) by (apply nth_error_Some; congruence).
  assert (Nx : nth x (map (nk K st) G) [] = nk K st n) by (apply nth_error_nth; now rewrite nth_error_map, Hx).
  assert (Ny : nth y (map (nk K st) G) [] = nk K st m) by (apply nth_error_nth; now rewrite nth_error_map, Hy).
  assert (Ix : In (cn st (kmer_at K (nd_seq n) p)) (nk K st n)) by (unfold PipelineCheck.node_kmers; apply in_map; now apply in_kmers_at').
  assert (Iy : In (cn st (kmer_at K (nd_seq n) p)) (nk K st m)) by (rewrite E; unfold PipelineCheck.node_kmers; apply in_map; now apply in_kmers_at').
  assert (Exy : x = y).
  { destruct (Nat.lt_trichotomy x y) as [H|[H|H]]; [exfalso|exact H|exfalso].
    - apply (O2 x y (cn st (kmer_at K (nd_seq n) p)) H Ly); [rewrite Nx; exact Ix | rewrite Ny; exact Iy].
    - apply (O2 y x (cn st (kmer_at K (nd_seq n) p)) H Lx); [rewrite Ny; exact Iy | rewrite Nx; exact Ix]. }
  subst y. split; [reflexivity|]. rewrite Hx in Hy. injection Hy as <-.
  specialize (O1 x Lx). rewrite Nx in O1. unfold PipelineCheck.node_kmers in O1.
  apply (proj1 (NoDup_nth _ (cn st [])) O1); try (rewrite map_length, kmers_len; lia).
  rewrite !map_nth, !kmers_nth by lia. exact E.
Qed.
End Occ.

Section LV.
Variable K : nat.
Variable st : bool.
Variable kj : dna -> dna -> bool.
Variable S' : list dna.
Variable G : list node_t.
Hypothesis HK : 1 <= K.
Hypothesis HG : lgraph_ok K st kj S' G.
Hypothesis Hnd : NoDup (gk K st G).
Local Notation Hwf := (lg_wf _ _ _ _ _ HG).
Local Notation nwf := (nwf K G Hwf).
Local Notation win_ok := (win_ok K G HK Hwf).
Local Notation occ_unique := (occ_unique K st G HK Hnd).

Lemma inner_pair (n : node_t) p : In n G -> p + S K <= length (nd_seq n) ->
  mergeableb st kj S' (kmer_at K (nd_seq n) p) (kmer_at K (nd_seq n) (S p)) = true.
Proof.
  intros Hn Hp. apply (lg_unb _ _ _ _ _ HG n (kmer_at K (nd_seq n) p, kmer_at K (nd_seq n) (S p)) Hn). unfold inner_pairs.
  pose proof (in_combine_tl (kmers K (nd_seq n)) [] p) as H. rewrite kmers_len, !kmers_nth in H by lia. apply H. lia.
Qed.
Lemma inner_right (n : node_t) p c : In n G -> p + S K <= length (nd_seq n) -> (c < 4)%N ->
  In (cn st (lk (kmer_at K (nd_seq n) p) DRight c)) S' ->
  extend (kmer_at K (nd_seq n) p) c DRight = kmer_at K (nd_seq n) (S p).
Proof.
  intros Hn Hp Hc Hin. destruct (mergeable_inv st kj S' _ _ (inner_pair n p Hn Hp)) as (b & Hb & Er & El & Ey & _).
  assert (H : In c (rlinks st S' (kmer_at K (nd_seq n) p))) by (apply in_rlinks; auto).
  rewrite Er in H. destruct H as [<-|[]]. symmetry. exact Ey.
Qed.
Lemma inner_left (n : node_t) q c : In n G -> q + S K <= length (nd_seq n) -> (c < 4)%N ->
  In (cn st (lk (kmer_at K (nd_seq n) (S q)) DLeft c)) S' ->
  extend (kmer_at K (nd_seq n) (S q)) c DLeft = kmer_at K (nd_seq n) q.
Proof.
  intros Hn Hq Hc Hin. destruct (mergeable_inv st kj S' _ _ (inner_pair n q Hn Hq)) as (b & Hb & Er & El & Ey & _).
  assert (H : In c (llinks st S' (kmer_at K (nd_seq n) (S q)))) by (apply in_llinks; auto).
  rewrite El in H. destruct H as [<-|[]]. destruct (win_ok n q Hn ltac:(lia)) as (_ & _ & Nx).
  pose proof (KmerAlgebra.extend_back (kmer_at K (nd_seq n) q) b DRight Nx) as B. cbn [dflip outer extend] in B.
  cbn [extend]. unfold extend_right in B. rewrite <- Ey in B. exact B.
Qed.
Lemma inner_np (n : node_t) p : In n G -> p + S K <= length (nd_seq n) ->
  kpal st (kmer_at K (nd_seq n) p) = false /\ kpal st (kmer_at K (nd_seq n) (S p)) = false.
Proof. intros Hn Hp. destruct (mergeable_inv st kj S' _ _ (inner_pair n p Hn Hp)) as (b & _ & _ & _ & _ & P1 & P2 & _). auto. Qed.

(* the position of a terminal k-mer *)
Definition tpos (n : node_t) (s : dir) : nat := match s with DLeft => 0 | DRight => length (nd_seq n) - K end.
Lemma term_at (n : node_t) s : In n G -> term_kmer K (nd_seq n) s = kmer_at K (nd_seq n) (tpos n s) /\ tpos n s + K <= length (nd_seq n).
Proof. intro Hn. destruct (nwf n Hn) as [L _]. destruct s; cbn [term_kmer tpos]; unfold first_kmer, last_kmer; split; auto; lia. Qed.
Lemma term_ok (n : node_t) s : In n G -> length (term_kmer K (nd_seq n) s) = K /\ wf_dna (term_kmer K (nd_seq n) s) /\ term_kmer K (nd_seq n) s <> [].
Proof.
  intro Hn. destruct (nwf n Hn) as [L W]. destruct (term_kmer_ok K _ s W L) as [Lx Wx]. repeat split; auto.
  intro E. rewrite E in Lx. cbn in Lx. lia.
Qed.

(* ---- a link of S' at a node end whose other k-mer is in the graph leads to a node end ---- *)
Lemma target_end x (n : node_t) s c : nth_error G x = Some n -> (c < 4)%N ->
  In (cn st (lk (term_kmer K (nd_seq n) s) s c)) S' ->
  In (cn st (extend (term_kmer K (nd_seq n) s) c s)) (gk K st G) ->
  exists y (m : node_t), nth_error G y = Some m /\
    (term_kmer K (nd_seq m) (dflip s) = extend (term_kmer K (nd_seq n) s) c s \/
     (st = false /\ term_kmer K (nd_seq m) s = rc (extend (term_kmer K (nd_seq n) s) c s))).
Proof.
  intros Hx Hc HS Hz. pose proof (nth_in G x n Hx) as Hn.
  destruct (term_ok n s Hn) as (LX & WX & NX). destruct (term_at n s Hn) as [EX HpX].
  set (X := term_kmer K (nd_seq n) s) in *. set (z := extend X c s) in *.
  assert (Lz : length z = K) by (unfold z; rewrite KmerAlgebra.extend_length; auto).
  assert (Wz : wf_dna z) by (apply extend_wf; auto).
  assert (Nz : z <> []) by (intro E; rewrite E in Lz; cbn in Lz; lia).
  set (h := outer X (dflip s)).
  assert (Hh : (h < 4)%N) by (unfold h; destruct (dflip s); cbn [outer]; [apply wf_hd | apply wf_last]; auto).
  assert (Hlk : lk z (dflip s) h = lk X s c) by (apply lk_back; exact NX).
  assert (Hback : extend z h (dflip s) = X) by (apply KmerAlgebra.extend_back; exact NX).
  assert (Wv : wf_dna (lk X s c)) by (apply lk_wf; auto).
  apply (gk_occ K st G) in Hz as (y & m & p & Hy & Hp & Ez). pose proof (nth_in G y m Hy) as Hm.
  destruct (win_ok m p Hm Hp) as (Lw & Ww & _). destruct (nwf m Hm) as [Lm Wm].
  exists y, m. split; [exact Hy|]. symmetry in Ez. apply cn_eq_cases in Ez; auto.
  destruct Ez as [Ez|[Hs Ez]].
  - left. destruct s; cbn [dflip term_kmer] in *.
    + (* s = Left: z must be the last window of m *)
      unfold last_kmer. destruct (Nat.eq_dec (p + K) (length (nd_seq m))) as [El|El]; [rewrite <- Ez; f_equal; lia|]. exfalso.
      assert (Hin : In (cn st (lk (kmer_at K (nd_seq m) p) DRight h)) S') by (rewrite Ez, Hlk; exact HS).
      pose proof (inner_right m p h Hm ltac:(lia) Hh Hin) as E. rewrite Ez, Hback, EX in E.
      apply (f_equal (cn st)) in E. apply (occ_unique x y n m (tpos n DLeft) (S p) Hx Hy HpX ltac:(lia)) in E. cbn [tpos] in E. lia.
    + (* s = Right: z must be the first window of m *)
      unfold first_kmer. destruct p as [|q]; [exact Ez|]. exfalso.
      assert (Hin : In (cn st (lk (kmer_at K (nd_seq m) (S q)) DLeft h)) S') by (rewrite Ez, Hlk; exact HS).
      pose proof (inner_left m q h Hm ltac:(lia) Hh Hin) as E. rewrite Ez, Hback, EX in E.
      apply (f_equal (cn st)) in E. apply (occ_unique x y n m (tpos n DRight) q Hx Hy HpX ltac:(lia)) in E. cbn [tpos] in E.
      destruct E as [-> E]. rewrite Hx in Hy. injection Hy as <-. lia.
  - right. split; [exact Hs|].
    assert (HSr : In (cn st (lk (rc z) s (comp h))) S').
    { replace (lk (rc z) s (comp h)) with (rc (lk z (dflip s) h)) by (rewrite rc_lk, dflip_dflip; reflexivity).
      rewrite Hlk, cn_rc_; auto. }
    assert (Hrx : extend (rc z) (comp h) s = rc X).
    { rewrite <- Hback. rewrite KmerAlgebra.rc_extend by exact Nz. now rewrite dflip_dflip. }
    assert (Hpalx : rc X = X -> length (nd_seq n) = K).
    { intro E. apply (lg_pal _ _ _ _ _ HG n Hn X); [unfold X; apply term_in_kmers; [exact HK | apply (nwf n Hn)]|]. apply kpal_iff. split; [exact Hs | now symmetry]. }
    destruct s; cbn [dflip term_kmer] in *.
    + (* s = Left: rc z must be the first window of m *)
      unfold first_kmer. destruct p as [|q]; [exact Ez|]. exfalso.
      assert (Hin : In (cn st (lk (kmer_at K (nd_seq m) (S q)) DLeft (comp h))) S') by (rewrite Ez; exact HSr).
      pose proof (inner_left m q (comp h) Hm ltac:(lia) (comp_lt4 h) Hin) as E. rewrite Ez, Hrx in E.
      assert (E' : cn st (kmer_at K (nd_seq n) (tpos n DLeft)) = cn st (kmer_at K (nd_seq m) q)).
      { rewrite <- E, <- EX. symmetry. now apply cn_rc_. }
      apply (occ_unique x y n m (tpos n DLeft) q Hx Hy HpX ltac:(lia)) in E'. cbn [tpos] in E'. destruct E' as [-> <-].
      rewrite Hx in Hy. injection Hy as <-. cbn [tpos] in EX. rewrite <- EX in E. specialize (Hpalx E). lia.
    + (* s = Right: rc z must be the last window of m *)
      unfold last_kmer. destruct (Nat.eq_dec (p + K) (length (nd_seq m))) as [El|El]; [rewrite <- Ez; f_equal; lia|]. exfalso.
      assert (Hin : In (cn st (lk (kmer_at K (nd_seq m) p) DRight (comp h))) S') by (rewrite Ez; exact HSr).
      pose proof (inner_right m p (comp h) Hm ltac:(lia) (comp_lt4 h) Hin) as E. rewrite Ez, Hrx in E.
      assert (E' : cn st (kmer_at K (nd_seq n) (tpos n DRight)) = cn st (kmer_at K (nd_seq m) (S p))).
      { rewrite <- E, <- EX. symmetry. now apply cn_rc_. }
      apply (occ_unique x y n m (tpos n DRight) (S p) Hx Hy HpX ltac:(lia)) in E'. cbn [tpos] in E'. destruct E' as [-> E'].
      rewrite Hx in Hy. injection Hy as <-. cbn [tpos] in EX. rewrite <- E', <- EX in E. specialize (Hpalx E). lia.
Qed.
(* ---- node ends, find_link ---- *)
Lemma G_wf_graph : wf_graph pay K G.
Proof. split; [exact HK|]. intros n Hn. exact (nwf n Hn). Qed.
Lemma G_kmers_once : kmers_once pay K st G.
Proof.
  unfold kmers_once, g_seqs. rewrite map_map. unfold PipelineCheck.graph_kmers in Hnd. rewrite flat_map_concat_map in Hnd. exact Hnd.
Qed.
Lemma G_ends_ok : ends_ok pay K st G.
Proof. apply kmers_once_ends_ok; [exact G_wf_graph | exact G_kmers_once]. Qed.
Lemma nseq_nth x (n : node_t) : nth_error G x = Some n -> EdgeSpec.node_seq pay G x = nd_seq n /\ x < length G.
Proof.
  intro H. unfold EdgeSpec.node_seq. unfold graph, gnode, node_t in *. rewrite H. split; [reflexivity|].
  apply nth_error_Some. congruence.
Qed.
Lemma end_is_nth x (n : node_t) s : nth_error G x = Some n -> end_is pay K G x s (term_kmer K (nd_seq n) s).
Proof. intro H. destruct (nseq_nth x n H) as [E L]. split; [exact L | now rewrite E]. Qed.
Lemma end_is_inv y s z : end_is pay K G y s z -> exists m : node_t, nth_error G y = Some m /\ term_kmer K (nd_seq m) s = z.
Proof.
  intros [L E]. destruct (nth_error G y) as [m|] eqn:Hy; [|apply nth_error_None in Hy; unfold graph, gnode, node_t in *; lia].
  exists m. split; [reflexivity|]. now rewrite (proj1 (nseq_nth y m Hy)) in E.
Qed.

Lemma find_end x (n : node_t) s : nth_error G x = Some n ->
  find_link pay K st G (term_kmer K (nd_seq n) s) (dflip s) = Some (x, s, false).
Proof.
  intro Hx. destruct G_ends_ok as (NL & NR & _).
  pose proof (find_link_direct pay K st G (term_kmer K (nd_seq n) s) (dflip s) x) as H. rewrite dflip_dflip in H.
  apply H; [destruct s; assumption | now apply end_is_nth].
Qed.
Lemma pal_single_intro (n : node_t) : In n G -> st = false -> length (nd_seq n) = K -> nd_seq n = rc (nd_seq n) ->
  RecompCheck.pal_single pay K st n = true.
Proof.
  intros Hn Hs L E. unfold RecompCheck.pal_single. change (n_seq pay n) with (nd_seq n).
  rewrite Hs, L, Nat.eqb_refl. cbn [negb andb]. apply palindrome_iff.
  change (first_kmer K (nd_seq n)) with (term_kmer K (nd_seq n) DLeft). now rewrite (term_kmer_single K _ DLeft L).
Qed.
Lemma find_end_rc x (n : node_t) s : st = false -> nth_error G x = Some n ->
  find_link pay K st G (rc (term_kmer K (nd_seq n) s)) s = Some (x, s, true) \/
  (RecompCheck.pal_single pay K st n = true /\ find_link pay K st G (rc (term_kmer K (nd_seq n) s)) s = Some (x, dflip s, false)).
Proof.
  intros Hs Hx. destruct G_ends_ok as (NL & NR & Hc). pose proof (nth_in G x n Hx) as Hn.
  destruct (term_ok n s Hn) as (LX & WX & NX).
  assert (He : end_is pay K G x s (rc (rc (term_kmer K (nd_seq n) s)))) by (rewrite ListFacts.rc_involutive by exact WX; now apply end_is_nth).
  destruct (find_link_rc_or pay K st G _ s x Hs NL NR He) as [H|(w & Hw & H)]; [now left|]. right.
  destruct Hw as [Lw Ew]. destruct (nseq_nth x n Hx) as [Ex Lx]. rewrite <- Ex in Ew.
  destruct (Hc Hs x w s Lx Lw Ew) as [-> Hlen]. rewrite Ex in Hlen, Ew. split; [|exact H].
  apply pal_single_intro; auto. rewrite !(term_kmer_single K _ _ Hlen) in Ew. exact Ew.
Qed.

Lemma end_fwd (n : node_t) s c : In n G -> (c < 4)%N -> e_has_ext (nd_exts n) (dirb s) c = true ->
  In (cn st (lk (term_kmer K (nd_seq n) s) s c)) S'.
Proof.
  intros Hn Hc Hh. destruct (lg_ends _ _ _ _ _ HG n Hn s c Hc) as [H1 H2].
  destruct (kpal st (term_kmer K (nd_seq n) s)) eqn:P; [apply (H2 eq_refl); now left | now apply (H1 eq_refl)].
Qed.

(* an extension bit resolves exactly when the k-mer it leads to is a k-mer of the graph *)
Lemma resolves_iff x (n : node_t) s c : nth_error G x = Some n -> (c < 4)%N -> e_has_ext (nd_exts n) (dirb s) c = true ->
  (find_link pay K st G (extend (term_kmer K (nd_seq n) s) c s) s <> None <->
   In (cn st (extend (term_kmer K (nd_seq n) s) c s)) (gk K st G)).
Proof.
  intros Hx Hc Hh. pose proof (nth_in G x n Hx) as Hn. destruct (term_ok n s Hn) as (LX & WX & NX). split.
  - intro H. destruct (find_link pay K st G (extend (term_kmer K (nd_seq n) s) c s) s) as [[[y t] f]|] eqn:E; [|congruence].
    apply find_link_some in E. 
    assert (Hz : exists t0 (m : node_t), In m G /\ (term_kmer K (nd_seq m) t0 = extend (term_kmer K (nd_seq n) s) c s \/
                   (st = false /\ term_kmer K (nd_seq m) t0 = rc (extend (term_kmer K (nd_seq n) s) c s)))).
    { destruct E as [(_ & _ & He)|(_ & Hs & _ & He & _)]; apply end_is_inv in He as (m & Hy & Em); exists t, m;
        (split; [now apply (nth_in G y)|]); auto. }
    destruct Hz as (t0 & m & Hm & Em). destruct (term_at m t0 Hm) as [Et Hp].
    destruct Em as [Em|[Hs Em]].
    + rewrite <- Em, Et. now apply in_gk.
    + rewrite <- (cn_rc_ st (extend (term_kmer K (nd_seq n) s) c s)) by (auto using extend_wf).
      rewrite <- Em, Et. now apply in_gk.
  - intros Hz Hnone. destruct (target_end x n s c Hx Hc (end_fwd n s c Hn Hc Hh) Hz) as (y & m & Hy & Hcase).
    apply find_link_none_iff in Hnone as [N1 N2]. destruct Hcase as [E|[Hs E]].
    + apply (N1 y). rewrite <- E. now apply end_is_nth.
    + apply (N2 Hs y). rewrite <- E. now apply end_is_nth.
Qed.

(* ---- loose validity ---- *)
Lemma G_node_ok : Forall (node_ok pay K) G.
Proof.
  apply Forall_forall. intros n Hn. destruct (nwf n Hn) as [L W]. unfold node_ok. repeat split; auto.
  exact (lg_lt _ _ _ _ _ HG n Hn).
Qed.
Lemma G_pal_ends : pal_ends pay K st G.
Proof.
  intros Hs n d Hn P. apply (lg_pal _ _ _ _ _ HG n Hn (term_kmer K (n_seq pay n) d)).
  - apply term_in_kmers; [exact HK | apply (nwf n Hn)].
  - unfold kpal. now rewrite Hs, P.
Qed.

Lemma ext_link_eq x (n : node_t) d b : nth_error G x = Some n -> e_has_ext (nd_exts n) (dirb d) b = true ->
  ext_link pay K st G x d b = find_link pay K st G (extend (term_kmer K (nd_seq n) d) b d) d.
Proof. intros Hx Hh. unfold ext_link. unfold graph, gnode, node_t in *. rewrite Hx. change (n_exts pay n) with (nd_exts n). now rewrite Hh. Qed.

Theorem G_links_sym : links_sym pay K st G.
Proof.
  intros x d b y t f n m Hx Hy Hbb H. pose proof (in_bases4_lt b Hbb) as Hb.
  pose proof (nth_in G x n Hx) as Hn. pose proof (nth_in G y m Hy) as Hm.
  assert (Hh : e_has_ext (nd_exts n) (dirb d) b = true).
  { unfold ext_link in H. unfold graph, gnode, node_t in *. rewrite Hx in H. change (n_exts pay n) with (nd_exts n) in H.
    destruct (e_has_ext (nd_exts n) (dirb d) b); [reflexivity | discriminate]. }
  rewrite (ext_link_eq x n d b Hx Hh) in H.
  destruct (term_ok n d Hn) as (LX & WX & NX). set (X := term_kmer K (nd_seq n) d) in *. set (z := extend X b d) in *.
  assert (Lz : length z = K) by (unfold z; rewrite KmerAlgebra.extend_length; auto).
  assert (Wz : wf_dna z) by (apply extend_wf; auto).
  assert (Nz : z <> []) by (intro E; rewrite E in Lz; cbn in Lz; lia).
  set (c := outer X (dflip d)).
  assert (Hc : (c < 4)%N) by (unfold c; destruct (dflip d); cbn [outer]; [apply wf_hd | apply wf_last]; auto).
  assert (Hlk : lk z (dflip d) c = lk X d b) by (apply lk_back; exact NX).
  assert (Hback : extend z c (dflip d) = X) by (apply KmerAlgebra.extend_back; exact NX).
  assert (Wv : wf_dna (lk X d b)) by (apply lk_wf; auto).
  pose proof (end_fwd n d b Hn Hb Hh) as HS. fold X in HS.
  apply find_link_some in H. destruct H as [(-> & -> & He)|(-> & Hs & -> & He & Hno)].
  - (* direct hit: z is the end of m on the facing side *)
    apply end_is_inv in He as (m' & Hy' & Ez). assert (Q : Some m = Some m') by (rewrite <- Hy; exact Hy'). injection Q as <-. clear Hy'.
    destruct (lg_ends _ _ _ _ _ HG m Hm (dflip d) c Hc) as [H1 H2]. rewrite Ez, Hlk in H1, H2.
    assert (Hret : forall (b' : N) t', (b' < 4)%N -> e_has_ext (nd_exts m) (dirb t') b' = true ->
              extend (term_kmer K (nd_seq m) t') b' t' = X -> t' = dflip d ->
              exists t'' b'' d' f', In b'' bases4 /\ ext_link pay K st G y t'' b'' = Some (x, d', f') /\
                (RecompCheck.pal_single pay K st m = false -> t'' = dflip d) /\ (RecompCheck.pal_single pay K st n = false -> d' = d)).
    { intros b' t' Hb' Hh' Et ->. exists (dflip d), b', d, false. split; [now apply in_bases4|]. split; [|auto].
      rewrite (ext_link_eq y m (dflip d) b' Hy Hh'), Et. pose proof (find_end x n d Hx) as F. exact F. }
    destruct (kpal st z) eqn:P.
    + destruct (proj2 (H2 eq_refl) HS) as [Hh'|Hh'].
      * apply (Hret c (dflip d) Hc Hh'); [now rewrite Ez | reflexivity].
      * (* the return extension sits on the other side of the palindromic single-k-mer node m *)
        apply kpal_iff in P as [Hs P]. rewrite dflip_dflip in Hh'.
        assert (Lm : length (nd_seq m) = K).
        { apply (lg_pal _ _ _ _ _ HG m Hm z); [rewrite <- Ez; apply term_in_kmers; [exact HK | apply (nwf m Hm)] | apply kpal_iff; auto]. }
        assert (Ezd : term_kmer K (nd_seq m) d = z) by (rewrite <- Ez, !(term_kmer_single K _ _ Lm); reflexivity).
        assert (Pm : RecompCheck.pal_single pay K st m = true).
        { apply pal_single_intro; auto. rewrite <- (term_kmer_single K _ d Lm), Ezd. exact P. }
        assert (Et : extend z (comp c) d = rc X).
        { rewrite <- Hback. rewrite KmerAlgebra.rc_extend by exact Nz. rewrite dflip_dflip, <- P. reflexivity. }
        exists d, (comp c). destruct (find_end_rc x n d Hs Hx) as [F|[Pn F]]; fold X in F.
        -- exists d, true. split; [apply in_bases4, comp_lt4|]. split; [|split; [congruence | auto]].
           rewrite (ext_link_eq y m d (comp c) Hy Hh'), Ezd, Et. exact F.
        -- exists (dflip d), false. split; [apply in_bases4, comp_lt4|]. split; [|split; congruence].
           rewrite (ext_link_eq y m d (comp c) Hy Hh'), Ezd, Et. exact F.
    + apply (Hret c (dflip d) Hc (proj2 (H1 eq_refl) HS)); [now rewrite Ez | reflexivity].
  - (* unstranded: rc z is the end of m on the same side *)
    apply end_is_inv in He as (m' & Hy' & Ez). assert (Q : Some m = Some m') by (rewrite <- Hy; exact Hy'). injection Q as <-. clear Hy'.
    assert (Hlk' : lk (rc z) d (comp c) = rc (lk X d b)) by (rewrite <- Hlk, rc_lk, dflip_dflip; reflexivity).
    assert (HS' : In (cn st (lk (rc z) d (comp c))) S') by (rewrite Hlk', cn_rc_; auto).
    assert (Et : extend (rc z) (comp c) d = rc X).
    { rewrite <- Hback. rewrite KmerAlgebra.rc_extend by exact Nz. now rewrite dflip_dflip. }
    destruct (lg_ends _ _ _ _ _ HG m Hm d (comp c) (comp_lt4 c)) as [H1 H2]. rewrite Ez in H1, H2.
    assert (P : kpal st (rc z) = false).
    { destruct (kpal st (rc z)) eqn:P; [|reflexivity]. exfalso. apply kpal_iff in P as [_ P].
      rewrite ListFacts.rc_involutive in P by exact Wz.
      assert (Lm : length (nd_seq m) = K).
      { apply (lg_pal _ _ _ _ _ HG m Hm (rc z)); [rewrite <- Ez; apply term_in_kmers; [exact HK | apply (nwf m Hm)]|].
        apply kpal_iff. split; [exact Hs|]. rewrite ListFacts.rc_involutive by exact Wz. exact P. }
      apply (Hno y). destruct (nseq_nth y m Hy) as [E L]. split; [exact L|]. rewrite E.
      rewrite (term_kmer_single K _ (dflip d) Lm), <- (term_kmer_single K _ d Lm), Ez. now symmetry. }
    pose proof (proj2 (H1 P) HS') as Hh'.
    exists d, (comp c). destruct (find_end_rc x n d Hs Hx) as [F|[Pn F]]; fold X in F.
    + exists d, true. split; [apply in_bases4, comp_lt4|]. split; [|split; auto].
      rewrite (ext_link_eq y m d (comp c) Hy Hh'), Ez, Et. exact F.
    + exists (dflip d), false. split; [apply in_bases4, comp_lt4|]. split; [|split; [auto | congruence]].
      rewrite (ext_link_eq y m d (comp c) Hy Hh'), Ez, Et. exact F.
Qed.

Theorem G_rvalid_loose : rvalid_loose pay K st G.
Proof.
  destruct G_ends_ok as (NL & NR & _). split; [exact G_node_ok|]. split; [exact NL|]. split; [exact NR|].
  split; [exact G_pal_ends | exact G_links_sym].
Qed.
End LV.

(* ---- the two k-mers of a canonical (K+1)-mer ---- *)
Section BothIn.
Variable K : nat.
Variable st : bool.
Variable P : dna -> Prop.
Hypothesis HK : 1 <= K.
Definition both_in (w : dna) : Prop := P (cn st (firstn K w)) /\ P (cn st (skipn 1 w)).
Lemma both_in_cn v : wf_dna v -> length v = S K -> (both_in (cn st v) <-> both_in v).
Proof.
  intros W L.
  assert (Hcase : cn st v = v \/ (st = false /\ cn st v = rc v)).
  { unfold cn. destruct st; [now left|]. destruct (canon_choice v) as [E|E]; rewrite E; auto. }
  destruct Hcase as [->|[Hs ->]]; [reflexivity|].
  unfold both_in. rewrite (firstn_rc_S K v L), (skipn_rc_S K v L).
  rewrite !cn_rc_ by (auto using wf_firstn, wf_skipn). tauto.
Qed.
Lemma both_in_lk X s c : wf_dna X -> length X = K -> (c < 4)%N ->
  (both_in (cn st (lk X s c)) <-> P (cn st X) /\ P (cn st (extend X c s))).
Proof.
  intros W L Hc. rewrite both_in_cn by (auto using lk_wf; rewrite lk_length; lia). unfold both_in.
  destruct (lk_kmers K HK X s c L) as [[-> ->]|[-> ->]]; tauto.
Qed.
End BothIn.

Lemma gk_seqs K st (g : list node_t) : gk K st g = flat_map (fun s => map (cn st) (kmers K s)) (g_seqs pay g).
Proof. unfold PipelineCheck.graph_kmers, g_seqs. induction g as [|n g IH]; [reflexivity|]. cbn [flat_map map]. now rewrite IH. Qed.

Section Pruned.
Variable K : nat.
Variable st : bool.
Variable kj : dna -> dna -> bool.
Variable S' : list dna.
Variable G : list node_t.
Hypothesis HK : 1 <= K.
Hypothesis HG : lgraph_ok K st kj S' G.
Hypothesis Hnd : NoDup (gk K st G).
Variable SL : list dna.
Local Notation inK := (fun k => In k (gk K st G)).
Hypothesis HS : forall w, In w SL <-> In w S' /\ both_in K st inK w.
Variable g1 : list node_t.
Hypothesis Hp : prune pay K st G = Some g1.
Local Notation Hwf := (lg_wf _ _ _ _ _ HG).

Lemma pruned_gk : gk K st g1 = gk K st G.
Proof. rewrite !gk_seqs. now rewrite (RecompLoose.prune_seqs pay K st G g1 Hp). Qed.

Lemma pruned_nth x (n1 : node_t) : nth_error g1 x = Some n1 ->
  exists n : node_t, nth_error G x = Some n /\ nd_seq n1 = nd_seq n /\ snd n1 = snd n /\ (nd_exts n1 < 256)%N /\
    forall d b, (b < 4)%N ->
      (e_has_ext (nd_exts n1) (dirb d) b = true <->
       e_has_ext (nd_exts n) (dirb d) b = true /\ In (cn st (extend (term_kmer K (nd_seq n) d) b d)) (gk K st G)).
Proof.
  intro H1. assert (Lx : x < length G).
  { pose proof (RecompLoose.prune_length pay K st G g1 Hp) as El. assert (x < length g1) by (apply nth_error_Some; congruence).
    unfold graph, gnode, node_t in *. lia. }
  destruct (nth_error G x) as [n|] eqn:Hx; [|apply nth_error_None in Hx; unfold graph, gnode, node_t in *; lia].
  destruct (RecompLoose.prune_spec pay K st G g1 x n Hp Hx) as (e & He & Hlt & Hb).
  assert (Q : Some n1 = Some (n_seq pay n, e, n_data pay n)) by (rewrite <- H1; exact He). injection Q as ->.
  exists n. split; [reflexivity|]. split; [reflexivity|]. split; [reflexivity|]. split; [exact Hlt|].
  intros d b Hb4. cbn [nd_exts fst snd]. rewrite (Hb d b (in_bases4 b Hb4)), andb_true_iff.
  change (n_exts pay n) with (nd_exts n). split; intros [A B]; (split; [exact A|]).
  - rewrite (ext_link_eq K st G x n d b Hx A) in B.
    apply (resolves_iff K st kj S' G HK HG Hnd x n d b Hx Hb4 A). intro E. rewrite E in B. discriminate.
  - rewrite (ext_link_eq K st G x n d b Hx A).
    apply (resolves_iff K st kj S' G HK HG Hnd x n d b Hx Hb4 A) in B.
    destruct (find_link pay K st G _ d); [reflexivity | congruence].
Qed.
Lemma pruned_in (n1 : node_t) : In n1 g1 -> exists x (n : node_t), nth_error g1 x = Some n1 /\ nth_error G x = Some n /\ In n G /\
  nd_seq n1 = nd_seq n /\ snd n1 = snd n /\ (nd_exts n1 < 256)%N /\
  forall d b, (b < 4)%N ->
      (e_has_ext (nd_exts n1) (dirb d) b = true <->
       e_has_ext (nd_exts n) (dirb d) b = true /\ In (cn st (extend (term_kmer K (nd_seq n) d) b d)) (gk K st G)).
Proof.
  intro H. destruct (In_nth_error _ _ H) as [x Hx]. destruct (pruned_nth x n1 Hx) as (n & Hn & A).
  exists x, n. split; [exact Hx|]. split; [exact Hn|]. split; [now apply (nth_error_In _ x)|]. exact A.
Qed.

Lemma S_sub w : In w SL -> In w S'.
Proof. intro H. now apply HS in H. Qed.

Theorem pruned_lgraph_ok : lgraph_ok K st kj SL g1.
Proof.
  constructor.
  - apply Forall_forall. intros n1 H1. destruct (pruned_in n1 H1) as (x & n & _ & _ & Hn & Es & _).
    destruct (nwf K G Hwf n Hn) as [L W]. unfold node_wf. rewrite Es. auto.
  - intros n1 H1. now destruct (pruned_in n1 H1) as (x & n & _ & _ & _ & _ & _ & ? & _).
  - intros n1 [a b] H1 Hpair. cbn [fst snd]. destruct (pruned_in n1 H1) as (x & n & _ & _ & Hn & Es & _).
    unfold inner_pairs in Hpair. rewrite Es in Hpair.
    pose proof (lg_unb _ _ _ _ _ HG n (a, b) Hn Hpair) as Hm. cbn [fst snd] in Hm.
    apply (in_combine_tl_nth _ []) in Hpair as (i & Hi & -> & ->). rewrite kmers_len in Hi. rewrite !kmers_nth in * by lia.
    destruct (win_ok K G HK Hwf n i Hn ltac:(lia)) as (Lx & Wx & Nx). destruct (win_ok K G HK Hwf n (S i) Hn ltac:(lia)) as (Ly & Wy & Ny).
    set (xx := kmer_at K (nd_seq n) i) in *. set (yy := kmer_at K (nd_seq n) (S i)) in *.
    assert (Ix : In (cn st xx) (gk K st G)) by (apply in_gk; auto; lia).
    assert (Iy : In (cn st yy) (gk K st G)) by (apply in_gk; auto; lia).
    destruct (mergeable_inv st kj S' xx yy Hm) as (c & Hc & Er & El & Ey & Px & Py & Hne & Hj).
    assert (Eyx : extend xx c DRight = yy) by (symmetry; exact Ey).
    assert (Hc4 : (hd 0 xx < 4)%N) by (apply wf_hd; auto).
    assert (Exy : extend yy (hd 0%N xx) DLeft = xx).
    { rewrite <- Eyx. exact (KmerAlgebra.extend_back xx c DRight Nx). }
    apply (mergeable_intro st kj SL xx yy c); auto.
    + unfold rlinks in *. apply (filter_sub_single _ _ _ _ Er).
      * intros c0 H. unfold has_link in *. rewrite existsb_dna_in in *. now apply S_sub.
      * unfold has_link. rewrite existsb_dna_in. change (xx ++ [c]) with (lk xx DRight c). apply HS. split.
        -- assert (H : In c (rlinks st S' xx)) by (unfold rlinks; rewrite Er; now left). now apply in_rlinks in H.
        -- apply both_in_lk; auto. rewrite Eyx. auto.
    + unfold llinks in *. apply (filter_sub_single _ _ _ _ El).
      * intros c0 H. unfold has_link in *. rewrite existsb_dna_in in *. now apply S_sub.
      * unfold has_link. rewrite existsb_dna_in. change (hd 0%N xx :: yy) with (lk yy DLeft (hd 0%N xx)). apply HS. split.
        -- assert (H : In (hd 0%N xx) (llinks st S' yy)) by (unfold llinks; rewrite El; now left). now apply in_llinks in H.
        -- apply both_in_lk; auto. rewrite Exy. auto.
  - intros n1 H1 s c Hc. destruct (pruned_in n1 H1) as (x & n & _ & Hx & Hn & Es & _ & _ & Hb). rewrite Es.
    destruct (term_ok K st kj S' G HK HG n s Hn) as (LX & WX & NX). destruct (term_at K st kj S' G HK HG n s Hn) as [EX HpX].
    set (X := term_kmer K (nd_seq n) s) in *.
    assert (IX : In (cn st X) (gk K st G)) by (rewrite EX; now apply in_gk).
    destruct (lg_ends _ _ _ _ _ HG n Hn s c Hc) as [H1' H2']. fold X in H1', H2'.
    assert (HSiff : In (cn st (lk X s c)) SL <-> In (cn st (lk X s c)) S' /\ In (cn st (extend X c s)) (gk K st G)).
    { rewrite HS, (both_in_lk K st inK HK X s c WX LX Hc). tauto. }
    split; intro P.
    + rewrite (Hb s c Hc), HSiff, (H1' P). reflexivity.
    + assert (Ln : length (nd_seq n) = K).
      { apply (lg_pal _ _ _ _ _ HG n Hn X); [unfold X; apply term_in_kmers; [exact HK | apply (nwf K G Hwf n Hn)] | exact P]. }
      apply kpal_iff in P as [Hs P'].
      assert (Ez : cn st (extend (term_kmer K (nd_seq n) (dflip s)) (comp c) (dflip s)) = cn st (extend X c s)).
      { rewrite (term_kmer_single K _ (dflip s) Ln), <- (term_kmer_single K _ s Ln). fold X.
        rewrite P' at 1. rewrite <- KmerAlgebra.rc_extend by exact NX. apply cn_rc_; auto. now apply extend_wf. }
      rewrite (Hb s c Hc), (Hb (dflip s) (comp c) (comp_lt4 c)), Ez, HSiff. fold X.
      rewrite <- (H2' (proj2 (kpal_iff st X) (conj Hs P'))). tauto.
  - intros n1 H1 w Hw P. destruct (pruned_in n1 H1) as (x & n & _ & _ & Hn & Es & _). rewrite Es in *.
    exact (lg_pal _ _ _ _ _ HG n Hn w Hw P).
Qed.

Theorem pruned_closed w : In w SL -> both_in K st (fun k => In k (gk K st g1)) w.
Proof. intro H. apply HS in H as [_ H]. unfold both_in in *. now rewrite pruned_gk. Qed.

Theorem pruned_rvalid : rvalid pay K st g1.
Proof. exact (RecompLoose.prune_rvalid pay K st G g1 (G_rvalid_loose K st kj S' G HK HG Hnd) Hp). Qed.
End Pruned.

(* ---- the link set of a graph with [lgraph_ok S] that contains both k-mers of every link of S is S ---- *)
Section GLinks.
Variable K : nat.
Variable st : bool.
Variable kj : dna -> dna -> bool.
Variable SL : list dna.
Variable G : list node_t.
Hypothesis HK : 1 <= K.
Hypothesis HG : lgraph_ok K st kj SL G.
Hypothesis Hnd : NoDup (gk K st G).
Local Notation Hwf := (lg_wf _ _ _ _ _ HG).

Lemma lgraph_links_sound w : In w (graph_links K st G) -> In w SL.
Proof.
  unfold graph_links. intro H. apply in_flat_map in H as [n [Hn H]]. destruct (nwf K G Hwf n Hn) as [L W].
  unfold node_links in H. apply in_app_or in H as [H|H]; [|apply in_app_or in H as [H|H]].
  - apply in_map_iff in H as [v [<- Hv]]. apply kmers_in in Hv as [p [Hp ->]].
    destruct (mergeable_inv st kj SL _ _ (inner_pair K st kj SL G HK HG n p Hn Hp)) as (b & Hb & Er & _ & Ey & _).
    assert (Hin : In b (rlinks st SL (kmer_at K (nd_seq n) p))) by (rewrite Er; now left). apply in_rlinks in Hin as [_ Hin].
    rewrite kmer_at_S_snoc by exact Hp. rewrite (kmer_at_next K _ p HK Hp) in Ey. cbn [extend] in Ey. unfold extend_right in Ey.
    apply app_inj_tail in Ey as [_ ->]. exact Hin.
  - apply in_map_iff in H as [b [<- Hb]]. apply e_get_has in Hb as [Hb Hh].
    exact (end_fwd K st kj SL G HG n DLeft b Hn (in_bases4_lt b Hb) Hh).
  - apply in_map_iff in H as [b [<- Hb]]. apply e_get_has in Hb as [Hb Hh].
    exact (end_fwd K st kj SL G HG n DRight b Hn (in_bases4_lt b Hb) Hh).
Qed.

Hypothesis Hcl : forall w, In w SL -> both_in K st (fun k => In k (gk K st G)) w.
Hypothesis HSwf : forall w, In w SL -> exists v, wf_dna v /\ length v = S K /\ w = cn st v.

Lemma in_node_links_win (n : node_t) p : In n G -> p + S K <= length (nd_seq n) ->
  In (cn st (kmer_at (S K) (nd_seq n) p)) (graph_links K st G).
Proof.
  intros Hn Hp. unfold graph_links. apply in_flat_map. exists n. split; [exact Hn|]. unfold node_links. apply in_or_app. left.
  apply in_map. now apply in_kmers_at'.
Qed.
Lemma in_node_links_ext (n : node_t) s c : In n G -> (c < 4)%N -> e_has_ext (nd_exts n) (dirb s) c = true ->
  In (cn st (lk (term_kmer K (nd_seq n) s) s c)) (graph_links K st G).
Proof.
  intros Hn Hc Hh. unfold graph_links. apply in_flat_map. exists n. split; [exact Hn|]. unfold node_links. apply in_or_app. right.
  destruct s; cbn [dirb term_kmer lk] in *.
  - apply in_or_app. left. apply in_map_iff. exists c. split; [reflexivity|]. apply e_get_has. split; [now apply in_bases4 | exact Hh].
  - apply in_or_app. right. apply in_map_iff. exists c. split; [reflexivity|]. apply e_get_has. split; [now apply in_bases4 | exact Hh].
Qed.

Lemma lgraph_links_complete w : In w SL -> In w (graph_links K st G).
Proof.
  intro Hw. destruct (HSwf w Hw) as (v & Wv & Lv & ->). pose proof (Hcl _ Hw) as Hb.
  apply (both_in_cn K st _ v Wv Lv) in Hb as [Hb1 _].
  assert (Lx0 : length (firstn K v) = K) by (rewrite firstn_length; lia).
  assert (Wx0 : wf_dna (firstn K v)) by (now apply wf_firstn).
  set (x0 := firstn K v) in *. set (c := last v 0%N).
  assert (Ev : v = lk x0 DRight c).
  { cbn [lk]. unfold x0, c. rewrite <- (firstn_skipn K v) at 1. f_equal.
    assert (Ls : length (skipn K v) = 1) by (rewrite skipn_length; lia).
    destruct (skipn K v) as [|z [|? ?]] eqn:E; try discriminate. f_equal.
    rewrite <- (firstn_skipn K v), E. now rewrite last_last. }
  assert (Hc : (c < 4)%N).
  { unfold c. apply wf_last; [exact Wv|]. intro E. rewrite E in Lv. discriminate. }
  assert (Nx0 : x0 <> []) by (intro E; rewrite E in Lx0; cbn in Lx0; lia).
  apply (gk_occ K st G) in Hb1 as (y & m & p & Hy & Hp & Ex). pose proof (nth_in G y m Hy) as Hm.
  destruct (win_ok K G HK Hwf m p Hm Hp) as (Lw & Ww & Nw). destruct (nwf K G Hwf m Hm) as [Lm Wm].
  symmetry in Ex. apply cn_eq_cases in Ex; auto.
  assert (Hcase : kmer_at K (nd_seq m) p = x0 \/ (st = false /\ kmer_at K (nd_seq m) p = rc x0 /\ x0 <> rc x0)).
  { destruct Ex as [Ex|[Hs Ex]]; [now left|]. destruct (list_eq_dec N.eq_dec x0 (rc x0)) as [E|E]; [left; congruence | right; auto]. }
  rewrite Ev in Hw |- *. destruct Hcase as [Ex'|(Hs & Ex' & Hne)].
  - destruct (Nat.eq_dec (p + K) (length (nd_seq m))) as [El|El].
    + assert (EX : term_kmer K (nd_seq m) DRight = x0) by (cbn [term_kmer]; unfold last_kmer; rewrite <- Ex'; f_equal; lia).
      destruct (lg_ends _ _ _ _ _ HG m Hm DRight c Hc) as [H1 H2]. rewrite EX in H1, H2.
      destruct (kpal st x0) eqn:P.
      * destruct (proj2 (H2 eq_refl) Hw) as [Hh|Hh].
        -- rewrite <- EX. now apply in_node_links_ext.
        -- apply kpal_iff in P as [Hs P].
           assert (Ln : length (nd_seq m) = K).
           { apply (lg_pal _ _ _ _ _ HG m Hm x0); [rewrite <- EX; now apply term_in_kmers | apply kpal_iff; auto]. }
           pose proof (in_node_links_ext m DLeft (comp c) Hm (comp_lt4 c) Hh) as H.
           rewrite (term_kmer_single K _ DLeft Ln), <- (term_kmer_single K _ DRight Ln), EX in H.
           assert (E2 : lk x0 DLeft (comp c) = rc (lk x0 DRight c)) by (rewrite rc_lk; cbn [dflip]; now rewrite <- P).
           rewrite E2, cn_rc_ in H; auto. now apply lk_wf.
      * rewrite <- EX. apply in_node_links_ext; auto. now apply (H1 eq_refl).
    + assert (Hp' : p + S K <= length (nd_seq m)) by lia.
      assert (Hin : In (cn st (lk (kmer_at K (nd_seq m) p) DRight c)) SL) by (rewrite Ex'; exact Hw).
      pose proof (inner_right K st kj SL G HK HG m p c Hm Hp' Hc Hin) as E.
      rewrite (kmer_at_next K _ p HK Hp') in E. cbn [extend] in E. unfold extend_right in E. apply app_inj_tail in E as [_ E].
      pose proof (in_node_links_win m p Hm Hp') as H. rewrite kmer_at_S_snoc, Ex', <- E in H by exact Hp'. exact H.
  - assert (Erc : rc (lk x0 DRight c) = lk (rc x0) DLeft (comp c)) by (now rewrite rc_lk).
    assert (Hw' : In (cn st (lk (rc x0) DLeft (comp c))) SL) by (rewrite <- Erc, cn_rc_; auto; now apply lk_wf).
    assert (Ecn : cn st (lk (rc x0) DLeft (comp c)) = cn st (lk x0 DRight c)) by (rewrite <- Erc; apply cn_rc_; auto; now apply lk_wf).
    rewrite <- Ecn. destruct p as [|q].
    + assert (EX : term_kmer K (nd_seq m) DLeft = rc x0) by exact Ex'.
      destruct (lg_ends _ _ _ _ _ HG m Hm DLeft (comp c) (comp_lt4 c)) as [H1 _]. rewrite EX in H1.
      assert (P : kpal st (rc x0) = false).
      { destruct (kpal st (rc x0)) eqn:P; [|reflexivity]. apply kpal_iff in P as [_ P]. rewrite ListFacts.rc_involutive in P by exact Wx0.
        symmetry in P. contradiction. }
      rewrite <- EX. apply in_node_links_ext; auto using comp_lt4. now apply (H1 P).
    + assert (Hq : q + S K <= length (nd_seq m)) by lia.
      assert (Hin : In (cn st (lk (kmer_at K (nd_seq m) (S q)) DLeft (comp c))) SL) by (rewrite Ex'; exact Hw').
      pose proof (inner_left K st kj SL G HK HG m q (comp c) Hm Hq (comp_lt4 c) Hin) as E. rewrite Ex' in E.
      pose proof (in_node_links_win m q Hm Hq) as H. rewrite kmer_at_S_cons, Ex' in H by exact Hq.
      assert (Eh : nth q (nd_seq m) 0%N = comp c).
      { rewrite <- (kmer_at_hd K (nd_seq m) q HK ltac:(lia)), <- E. reflexivity. }
      rewrite Eh in H. exact H.
Qed.

Theorem lgraph_links_iff w : In w (graph_links K st G) <-> In w SL.
Proof. split; [apply lgraph_links_sound | apply lgraph_links_complete]. Qed.
End GLinks.
Print Assumptions G_rvalid_loose.
Print Assumptions resolves_iff.
Print Assumptions pruned_lgraph_ok.
Print Assumptions lgraph_links_iff.
